module verifharness

go 1.21

require github.com/opsidian/parsley v0.0.0

replace github.com/opsidian/parsley => /repo
