// mutgen writes first-order mutants of the repository's non-test Go files as unified diffs, one file per mutant:
//
//	mutgen -repo /repo -out /tmp/mut
//
// Operators: relational (< <= > >= == !=) swapped with their neighbours, && <-> ||, + <-> - on integer
// literals' neighbours (x+1 -> x, x-1 -> x), removal of a unary !, integer literal 0 <-> 1, `return x, cp, err`
// untouched.  It is a measuring instrument for /verif's checks (tools/mutsweep.py): mutants that pass the
// repository's own suite are run against the checks, survivors are triaged by hand.
package main

import (
	"bytes"
	"flag"
	"fmt"
	"go/ast"
	"go/parser"
	"go/token"
	"os"
	"os/exec"
	"path/filepath"
	"strings"
)

type edit struct {
	off, end int // byte range in the file
	repl     string
	what     string
}

func main() {
	repo := flag.String("repo", "/repo", "repository root")
	out := flag.String("out", "", "output directory")
	flag.Parse()
	os.MkdirAll(*out, 0o755)
	n := 0
	filepath.Walk(*repo, func(path string, info os.FileInfo, err error) error {
		if err != nil {
			return nil
		}
		if info.IsDir() {
			if b := info.Name(); b == ".git" || strings.HasSuffix(b, "fakes") || b == "examples" {
				return filepath.SkipDir
			}
			return nil
		}
		if !strings.HasSuffix(path, ".go") || strings.HasSuffix(path, "_test.go") {
			return nil
		}
		src, _ := os.ReadFile(path)
		fset := token.NewFileSet()
		f, err := parser.ParseFile(fset, path, src, 0)
		if err != nil {
			return nil
		}
		rel, _ := filepath.Rel(*repo, path)
		var edits []edit
		pos := func(p token.Pos) int { return fset.Position(p).Offset }
		line := func(p token.Pos) int { return fset.Position(p).Line }
		ast.Inspect(f, func(nd ast.Node) bool {
			switch x := nd.(type) {
			case *ast.BinaryExpr:
				alts := map[token.Token][]string{
					token.LSS: {"<=", ">="}, token.LEQ: {"<", "=="}, token.GTR: {">=", "<="}, token.GEQ: {">", "=="},
					token.EQL: {"!="}, token.NEQ: {"=="}, token.LAND: {"||"}, token.LOR: {"&&"},
				}[x.Op]
				o := pos(x.OpPos)
				for _, a := range alts {
					edits = append(edits, edit{o, o + len(x.Op.String()), a, fmt.Sprintf("%s:%d `%s` -> `%s`", rel, line(x.OpPos), x.Op, a)})
				}
				if x.Op == token.ADD || x.Op == token.SUB {
					if lit, ok := x.Y.(*ast.BasicLit); ok && lit.Kind == token.INT {
						// x+1 -> x ; x-1 -> x ; x+1 -> x+2
						edits = append(edits, edit{pos(x.X.End()), pos(x.Y.End()), "", fmt.Sprintf("%s:%d drop `%s %s`", rel, line(x.OpPos), x.Op, lit.Value)})
					}
				}
			case *ast.UnaryExpr:
				if x.Op == token.NOT {
					o := pos(x.OpPos)
					edits = append(edits, edit{o, o + 1, "", fmt.Sprintf("%s:%d drop `!`", rel, line(x.OpPos))})
				}
			case *ast.BasicLit:
				if x.Kind == token.INT && (x.Value == "0" || x.Value == "1") {
					r := "1"
					if x.Value == "1" {
						r = "0"
					}
					edits = append(edits, edit{pos(x.Pos()), pos(x.End()), r, fmt.Sprintf("%s:%d literal %s -> %s", rel, line(x.Pos()), x.Value, r)})
				}
			case *ast.IfStmt:
				// negate the whole condition
				edits = append(edits, edit{pos(x.Cond.Pos()), pos(x.Cond.End()), "!(" + string(src[pos(x.Cond.Pos()):pos(x.Cond.End())]) + ")", fmt.Sprintf("%s:%d negate if condition", rel, line(x.Cond.Pos()))})
			}
			return true
		})
		for _, e := range edits {
			mut := append(append(append([]byte{}, src[:e.off]...), e.repl...), src[e.end:]...)
			tmp := filepath.Join(*out, "mut.go.tmp")
			os.WriteFile(tmp, mut, 0o644)
			cmd := exec.Command("diff", "-u", "--label", "a/"+rel, "--label", "b/"+rel, path, tmp)
			var buf bytes.Buffer
			cmd.Stdout = &buf
			cmd.Run()
			if buf.Len() == 0 {
				continue
			}
			n++
			name := fmt.Sprintf("m%04d", n)
			os.WriteFile(filepath.Join(*out, name+".diff"), append([]byte("diff --git a/"+rel+" b/"+rel+"\n"), buf.Bytes()...), 0o644)
			os.WriteFile(filepath.Join(*out, name+".txt"), []byte(e.what+"\n"), 0o644)
			os.Remove(tmp)
		}
		return nil
	})
	fmt.Println(n, "mutants")
}
