// funclist prints every function and method declared in the repository's non-test Go files
// (package path, receiver, name, file:line, body length in lines), one per line, tab separated.
// tools/coverage.py compares the list with coverage_map.json so that the boundary between modelled,
// exercised-only and unmodelled code is regenerated from the current tree rather than asserted.
package main

import (
	"flag"
	"fmt"
	"go/ast"
	"go/parser"
	"go/token"
	"os"
	"path/filepath"
	"sort"
	"strings"
)

func main() {
	repo := flag.String("repo", "/repo", "repository root")
	flag.Parse()
	var lines []string
	fset := token.NewFileSet()
	filepath.Walk(*repo, func(path string, info os.FileInfo, err error) error {
		if err != nil {
			return nil
		}
		if info.IsDir() {
			if n := info.Name(); n == ".git" || n == "vendor" || strings.HasSuffix(n, "fakes") {
				return filepath.SkipDir
			}
			return nil
		}
		if !strings.HasSuffix(path, ".go") || strings.HasSuffix(path, "_test.go") {
			return nil
		}
		f, err := parser.ParseFile(fset, path, nil, 0)
		if err != nil {
			fmt.Fprintln(os.Stderr, err)
			return nil
		}
		rel, _ := filepath.Rel(*repo, path)
		for _, d := range f.Decls {
			fd, ok := d.(*ast.FuncDecl)
			if !ok || fd.Body == nil {
				continue
			}
			recv := "-"
			if fd.Recv != nil && len(fd.Recv.List) == 1 {
				t := fd.Recv.List[0].Type
				if s, ok := t.(*ast.StarExpr); ok {
					t = s.X
				}
				if id, ok := t.(*ast.Ident); ok {
					recv = id.Name
				}
			}
			n := fset.Position(fd.Body.End()).Line - fset.Position(fd.Body.Pos()).Line + 1
			lines = append(lines, fmt.Sprintf("%s\t%s\t%s\t%s:%d\t%d", filepath.Dir(rel), recv, fd.Name.Name, rel, fset.Position(fd.Pos()).Line, n))
		}
		return nil
	})
	sort.Strings(lines)
	for _, l := range lines {
		fmt.Println(l)
	}
}
