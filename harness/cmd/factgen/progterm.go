package main

// Eighth output (-out-term): the TERMINAL PARSERS of text/terminal (the closures returned by Rune, Op, Word, Bool, Nil,
// Integer, Float, Char, String, TimeDuration, Regexp), translated by the statement-level translator of progcore*.go in a
// third MODE (pcGen.term != nil).  Target run-time: lean/ParsleyVerif/Generated/TermPrelude.lean (hand-written, on top of
// CorePrelude.lean).  What the mode changes:
//   * the closures touch the context only through `ctx.Reader()`: the generated functions are polymorphic in the state σ of
//     the monad (`M σ`), `ctx.Reader()` is the prelude's `Go.theReader` (there is one reader, it is immutable), any other
//     use of the context is refused;
//   * the world parameter is `(W : TWorld)`: the reader's methods ReadRune / MatchString / MatchWord / ReadRegexp /
//     ReadRegexpSubmatch / Readf (which may panic: `Go.call` of an Option) / IsEOF / Remaining, and the library functions
//     strconv.ParseInt / ParseFloat / UnquoteChar, time.ParseDuration; `unquoteString` (passed to Readf as a function value)
//     is the world's field of that name (its translation and tie: FactsProg / Props/C08P.lean);
//   * `[]byte` is `Option Bytes` (nil or the bytes), `[][]byte` is `Option (List (Option Bytes))`; `string(b)` /
//     `string(r)` are the prelude's `Go.stringOfBytes` / `Go.stringOfRune`; float64 and time.Duration are symbolic;
//   * the typed node constructors (terminal.NewIntegerNode …, ast.NewTerminalNode) are prelude functions that build a leaf
//     of the dynamic node type with token and value attached; a value stored in an `interface{}` carries its dynamic type
//     (`Val.ofRune`, `Val.ofString`);
//   * the statements of the constructor before the `return` run at construction time: the variables they define are
//     parameters of the generated closure X_parse, in the order of their declaration; the statements themselves are
//     translated as the function X_new of the constructor's parameters, which answers those variables (strconv.Quote and
//     strings.ToUpper are the world's).

import (
	"go/ast"
	"go/types"
	"os"
	"strconv"
	"strings"
)

var termTargets = []pcTarget{
	{"text/terminal", "", "Rune", true}, {"text/terminal", "", "Op", true}, {"text/terminal", "", "Word", true},
	{"text/terminal", "", "Bool", true}, {"text/terminal", "", "Nil", true}, {"text/terminal", "", "Integer", true},
	{"text/terminal", "", "Float", true}, {"text/terminal", "", "Char", true}, {"text/terminal", "", "String", true},
	{"text/terminal", "", "TimeDuration", true}, {"text/terminal", "", "Regexp", true},
}

type tmMode struct{ l *concLoader }

func writeTermFacts(path string) error { return pcWrite(path, nil, &tmMode{}) }

// names of the prelude the generated code refers to unqualified
var tmKeywords = map[string]bool{"T": true, "TWorld": true, "Val": true, "Float64": true, "Duration": true, "NewTerminalNode": true,
	"NewOpNode": true, "NewBoolNode": true, "NewNilNode": true, "NewIntegerNode": true, "NewFloatNode": true, "NewCharNode": true,
	"NewStringNode": true, "NewTimeDurationNode": true, "NewErrorf1": true, "σ": true, "NotFoundError": true,
	"matches": true, "instance": true, "this": true, "fun": true, "λ": true, "exists": true, "forall": true}

var tmFixedType = map[string]string{
	"*terminal.OpNode": "Node", "*terminal.BoolNode": "Node", "*terminal.NilNode": "Node", "*terminal.IntegerNode": "Node",
	"*terminal.FloatNode": "Node", "*terminal.CharNode": "Node", "*terminal.StringNode": "Node", "*terminal.TimeDurationNode": "Node",
	"*ast.TerminalNode": "Node", "time.Duration": "Duration",
}

// the node constructors: prelude functions of the same name
var tmNodeCtor = map[string]bool{
	"terminal.NewOpNode": true, "terminal.NewBoolNode": true, "terminal.NewNilNode": true, "terminal.NewIntegerNode": true,
	"terminal.NewFloatNode": true, "terminal.NewCharNode": true, "terminal.NewStringNode": true, "terminal.NewTimeDurationNode": true,
	"ast.NewTerminalNode": true,
}

func tmIsByteSlice(t types.Type) bool {
	sl, ok := t.Underlying().(*types.Slice)
	if !ok {
		return false
	}
	b, ok := sl.Elem().Underlying().(*types.Basic)
	return ok && b.Kind() == types.Uint8
}

// (type, ok, done): done = the mode decides the type
func (g *pcGen) termType(t types.Type) (string, bool, bool) {
	if s, ok := tmFixedType[pcNamedPath(t)]; ok {
		return s, true, true
	}
	if b, ok := t.Underlying().(*types.Basic); ok && b.Kind() == types.Float64 {
		return "Float64", true, true
	}
	if tmIsByteSlice(t) {
		return "(Option Bytes)", true, true
	}
	if sl, ok := t.Underlying().(*types.Slice); ok {
		if e, ok := g.leanType(sl.Elem()); ok {
			return "(Option (List " + e + "))", true, true
		}
		return "", false, true
	}
	return "", false, false
}

// how a value of concrete type `have` is stored in a variable of interface type `want`
func (c *pcCtx) termInject(v string, have, want types.Type) (string, bool) {
	if have == nil || want == nil || !types.IsInterface(want) || types.IsInterface(have) {
		return v, true
	}
	wl, _ := c.g.leanType(want)
	hl, _ := c.g.leanType(have)
	switch {
	case wl == "Node" && hl == "Node":
		return v, true
	case wl == "Opaque":
		if b, ok := have.Underlying().(*types.Basic); ok {
			switch {
			case b.Kind() == types.Int32:
				return "(Val.ofRune " + v + ")", true
			case b.Info()&types.IsString != 0:
				return "(Val.ofString " + v + ")", true
			}
		}
	}
	return "", false
}

// conversions the core does not have: string([]byte), string(rune)
func (c *pcCtx) termConversion(x *ast.CallExpr) (pre []string, code string, ok bool) {
	from, to := c.info.TypeOf(x.Args[0]), c.info.TypeOf(x.Fun)
	if !pgIsString(to) {
		return nil, "", false
	}
	if tmIsByteSlice(from) {
		a := pcP(c.atom(x.Args[0], &pre))
		return pre, "Go.stringOfBytes " + a, true
	}
	if b, isB := from.Underlying().(*types.Basic); isB && b.Kind() == types.Int32 {
		a := pcP(c.atom(x.Args[0], &pre))
		return pre, "Go.stringOfRune " + a, true
	}
	return nil, "", false
}

// the functions that are not translated in this mode: the reader, the libraries, the node constructors
func (c *pcCtx) termExtern(x *ast.CallExpr, o *types.Func, recv ast.Expr) (pre []string, code string, mon bool, ok bool) {
	sig := o.Type().(*types.Signature)
	full := strings.Replace(o.FullName(), "github.com/opsidian/parsley/", "", 1)
	full = strings.Replace(full, "text/terminal.", "terminal.", 1)
	switch full {
	case "(*parsley.Context).Reader":
		if !c.isCtxExpr(recv) {
			pgFail("receiver %s of Reader is not the context", norm(recv))
		}
		return nil, "Go.theReader", false, true
	case "(*text.Reader).ReadRune", "(*text.Reader).MatchString", "(*text.Reader).MatchWord", "(*text.Reader).ReadRegexp",
		"(*text.Reader).ReadRegexpSubmatch":
		c.atom(recv, &pre)
		as := c.callArgs(x, sig, &pre)
		return pre, "Go.call (W.Reader_" + o.Name() + " " + strings.Join(as, " ") + ")", true, true
	case "(*text.Reader).IsEOF", "(*text.Reader).Remaining":
		c.atom(recv, &pre)
		as := c.callArgs(x, sig, &pre)
		return pre, "W.Reader_" + o.Name() + " " + strings.Join(as, " "), false, true
	case "(*text.Reader).Readf":
		c.atom(recv, &pre)
		p := pcP(c.atom(x.Args[0], &pre))
		id, isId := x.Args[1].(*ast.Ident)
		if !isId {
			pgFail("Readf with the function %s", norm(x.Args[1]))
		}
		f, isF := c.info.Uses[id].(*types.Func)
		if !isF || f.Pkg() == nil || f.Pkg().Name() != "terminal" || f.Name() != "unquoteString" {
			pgFail("Readf with the function %s", norm(x.Args[1]))
		}
		return pre, "Go.call (W.Reader_Readf " + p + " W.unquoteString)", true, true
	case "strconv.ParseInt", "strconv.ParseFloat", "strconv.UnquoteChar", "time.ParseDuration", "strconv.Quote", "strings.ToUpper":
		as := c.callArgs(x, sig, &pre)
		return pre, "W." + strings.Replace(full, ".", "_", 1) + " " + strings.Join(as, " "), false, true
	case "parsley.NewErrorf":
		if len(x.Args) == 3 && pgIsString(c.info.TypeOf(x.Args[2])) {
			a := pcP(c.atom(x.Args[0], &pre))
			f := pcP(c.atom(x.Args[1], &pre))
			v := pcP(c.atom(x.Args[2], &pre))
			return pre, "NewErrorf1 " + a + " " + f + " " + v, false, true
		}
	}
	if tmNodeCtor[full] {
		as := c.callArgs(x, sig, &pre)
		return pre, o.Name() + " " + strings.Join(as, " "), false, true
	}
	return nil, "", false, false
}

// the captured variables of the closure that the statements before the `return` define (not parameters of the constructor)
func (g *pcGen) ctorLocals(fn *pcFn) []*types.Var {
	sig := fn.obj.Type().(*types.Signature)
	var out []*types.Var
	for _, v := range fn.ctorOf.captured {
		isParam := false
		for i := 0; i < sig.Params().Len(); i++ {
			if sig.Params().At(i) == v {
				isParam = true
			}
		}
		if !isParam {
			out = append(out, v)
		}
	}
	return out
}

func (m *tmMode) write(path string, out, names, bad []string) error {
	var sb strings.Builder
	sb.WriteString("/- GENERATED by harness/cmd/factgen (-out-term): the terminal parsers of text/terminal TRANSLATED statement by statement\n   into Lean definitions (monad and node / error types: Generated/CorePrelude.lean; byte slices, conversions, node\n   constructors and the world parameter `TWorld`: Generated/TermPrelude.lean), from the repository's current source on every\n   run.  Do not edit. -/\nimport ParsleyVerif.Generated.TermPrelude\nset_option linter.unusedVariables false\nnamespace PV.FactsTerm\nopen PV.CorePrelude PV.TermPrelude\n\n-- the state of the monad: the closures do not touch it\nvariable {σ : Type}\n\n")
	for _, s := range out {
		sb.WriteString(s + "\n")
	}
	q := func(l []string) string {
		qs := make([]string, len(l))
		for i, s := range l {
			qs[i] = strconv.Quote(s)
		}
		return strings.Join(qs, ",\n  ")
	}
	// the typed leaf node types (prognode.go)
	nout, nnames, nbad := writeNodeFacts(m.l)
	sb.WriteString("/-! ### the typed leaf node types of text/terminal and ast.TerminalNode: struct, constructor, methods (prognode.go) -/\nnamespace Src\n\n")
	for _, s := range nout {
		sb.WriteString(s + "\n")
	}
	sb.WriteString("end Src\n\n")
	sb.WriteString("/-- the constructors and methods of the node types translated in the namespace Src -/\ndef translatedNodes : List String := [\n  " + q(nnames) + "]\n\n")
	sb.WriteString("/-- what was asked for in the namespace Src and could not be translated, with the reason -/\ndef untranslatedNodes : List String := [\n  " + q(nbad) + "]\n\n")
	sb.WriteString("/-- the functions translated above -/\ndef translatedTerm : List String := [\n  " + q(names) + "]\n\n")
	sb.WriteString("/-- what the translator was asked for and could not translate, with the reason -/\ndef untranslatedTerm : List String := [\n  " + q(bad) + "]\n\nend PV.FactsTerm\n")
	return os.WriteFile(path, []byte(sb.String()), 0o644)
}
