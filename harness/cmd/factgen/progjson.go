package main

// Ninth output (-out-json): the GRAMMAR that examples/json/json.NewParser constructs, extracted from the source on every
// run as a term of the model's grammar type `PV.G` (Generated/FactsJson.lean).  Props/C16J.lean proves, by `rfl`, that the
// extracted term IS `Gjson.env` — the closed term all theorems of C16 (and C02U's JSON termination) are about — and restates
// the decision theorem of C16 about the extracted grammar.  So a change of NewParser (an alternative reordered, a trim mode,
// a separator, an interpreter, SepBy -> SepBy1) breaks a proof obligation even before any document is generated.
//
// The extractor is a symbolic evaluator of the straight-line constructor function: `var value parser.Func` is the one
// recursive nonterminal (`&value` is `.ref 0`), `x := <expr>` binds a local name to a grammar term, `value = <expr>` defines
// rule 0, `return value` ends it.  Expressions are calls of the combinator / terminal / trim constructors listed in
// jsonExpr below; anything else is REFUSED (recorded in `untranslatedJson`, which the tie theorem requires to be empty).
// TRUSTED: this reading of the constructor calls (SeqOf(..).Bind(i) = `.seq .seqOf [..] {interp := i}`, SepBy(v, s) =
// `.sepBy v s true ..`, text.LeftTrim(p, m) = `.ltrim p m`, terminal.Rune(c) named strconv.Quote(string(c)), the display
// names of String / Float / Integer / Bool / Nil are not part of the model's terminals) — it is the same reading the
// differential stream C16 validates by running the real NewParser() against the model of the extracted term's twin.

import (
	"fmt"
	"go/ast"
	"go/parser"
	"go/token"
	"os"
	"path/filepath"
	"strconv"
	"strings"
)

type jsonEx struct {
	locals  map[string]string // local name -> Lean term
	recVar  string            // the recursive parser.Func variable
	rule    string            // Lean term of rule 0
	refused []string
	pkg     string // package of the function being read: an unqualified constructor name is a name of this package
}

func leanBytes(s string) string {
	parts := make([]string, 0, len(s))
	for _, b := range []byte(s) {
		parts = append(parts, strconv.Itoa(int(b)))
	}
	return "[" + strings.Join(parts, ", ") + "]"
}

func (j *jsonEx) refuse(format string, a ...interface{}) string {
	j.refused = append(j.refused, fmt.Sprintf(format, a...))
	return ".empty"
}

func selName(e ast.Expr) string {
	if s, ok := e.(*ast.SelectorExpr); ok {
		if x, ok := s.X.(*ast.Ident); ok {
			return x.Name + "." + s.Sel.Name
		}
	}
	return ""
}

// sel is selName, and also reads an unqualified name (not a local) as a name of the package being read
func (j *jsonEx) sel(e ast.Expr) string {
	if id, ok := e.(*ast.Ident); ok && j.pkg != "" && id.Name != j.recVar {
		if _, isLocal := j.locals[id.Name]; !isLocal {
			return j.pkg + "." + id.Name
		}
	}
	return selName(e)
}

func strLit(e ast.Expr) (string, bool) {
	if b, ok := e.(*ast.BasicLit); ok && b.Kind == token.STRING {
		s, err := strconv.Unquote(b.Value)
		return s, err == nil
	}
	return "", false
}

func (j *jsonEx) wsMode(e ast.Expr) string {
	switch j.sel(e) {
	case "text.WsNone":
		return ".none"
	case "text.WsSpaces":
		return ".spaces"
	case "text.WsSpacesNl":
		return ".spacesNl"
	case "text.WsSpacesForceNl":
		return ".forceNl"
	}
	return j.refuse("whitespace mode %s", exprText(e))
}

func exprText(e ast.Expr) string {
	switch x := e.(type) {
	case *ast.Ident:
		return x.Name
	case *ast.SelectorExpr:
		return exprText(x.X) + "." + x.Sel.Name
	case *ast.CallExpr:
		return exprText(x.Fun) + "(…)"
	case *ast.BasicLit:
		return x.Value
	}
	return fmt.Sprintf("%T", e)
}

func (j *jsonEx) interp(e ast.Expr) string {
	c, ok := e.(*ast.CallExpr)
	if !ok {
		return j.refuse("interpreter %s", exprText(e))
	}
	switch j.sel(c.Fun) {
	case "interpreter.Array":
		if len(c.Args) == 0 {
			return ".array"
		}
	case "interpreter.Object":
		if len(c.Args) == 0 {
			return ".object"
		}
	case "interpreter.Select":
		if len(c.Args) == 1 {
			if b, ok := c.Args[0].(*ast.BasicLit); ok && b.Kind == token.INT {
				return "(.select " + b.Value + ")"
			}
		}
	}
	return j.refuse("interpreter %s", exprText(e))
}

func (j *jsonEx) list(args []ast.Expr) string {
	parts := make([]string, len(args))
	for i, a := range args {
		parts[i] = j.expr(a)
	}
	return "[" + strings.Join(parts, ", ") + "]"
}

// withInterp puts an interpreter into the options of a sequence-like term (the last `{}` of the term's text)
func (j *jsonEx) withInterp(term, in string) string {
	if !strings.HasSuffix(term, " {})") {
		return j.refuse("Bind on a parser that is not SeqOf / SepBy / Many")
	}
	return strings.TrimSuffix(term, " {})") + " { interp := " + in + " })"
}

func (j *jsonEx) expr(e ast.Expr) string {
	switch x := e.(type) {
	case *ast.Ident:
		if t, ok := j.locals[x.Name]; ok {
			return t
		}
		return j.refuse("identifier %s", x.Name)
	case *ast.UnaryExpr:
		if id, ok := x.X.(*ast.Ident); ok && x.Op == token.AND && id.Name == j.recVar {
			return "(.ref 0)"
		}
		return j.refuse("address of %s", exprText(x.X))
	case *ast.CallExpr:
		// method calls on a parser value: .Bind(interp), .Name("…")
		if s, ok := x.Fun.(*ast.SelectorExpr); ok && selName(x.Fun) == "" || (ok && j.isLocalOrCall(s.X)) {
			recv := j.expr(s.X)
			switch s.Sel.Name {
			case "Bind":
				if len(x.Args) == 1 {
					return j.withInterp(recv, j.interp(x.Args[0]))
				}
			case "Name":
				if len(x.Args) == 1 {
					if n, ok := strLit(x.Args[0]); ok {
						return "(.name " + recv + " " + leanBytes(n) + ")"
					}
				}
			}
			return j.refuse("method %s", s.Sel.Name)
		}
		fn := j.sel(x.Fun)
		a := x.Args
		switch fn {
		case "combinator.SeqOf":
			return "(.seq .seqOf " + j.list(a) + " {})"
		case "combinator.SepBy", "combinator.SepBy1":
			if len(a) == 2 {
				return "(.sepBy " + j.expr(a[0]) + " " + j.expr(a[1]) + " " + strconv.FormatBool(fn == "combinator.SepBy") + " {})"
			}
		case "combinator.Many", "combinator.Many1":
			if len(a) == 1 {
				return "(.many " + j.expr(a[0]) + " " + strconv.FormatBool(fn == "combinator.Many") + " {})"
			}
		case "combinator.Choice":
			return "(.choice " + j.list(a) + ")"
		case "combinator.Any":
			return "(.any " + j.list(a) + ")"
		case "combinator.Optional":
			if len(a) == 1 {
				return "(.optional " + j.expr(a[0]) + ")"
			}
		case "text.LeftTrim", "text.RightTrim":
			if len(a) == 2 {
				c := ".ltrim"
				if fn == "text.RightTrim" {
					c = ".rtrim"
				}
				return "(" + c + " " + j.expr(a[0]) + " " + j.wsMode(a[1]) + ")"
			}
		case "parser.End":
			if len(a) == 0 {
				return ".eof"
			}
		case "parser.Empty":
			if len(a) == 0 {
				return ".empty"
			}
		case "terminal.Rune":
			if len(a) == 1 {
				if b, ok := a[0].(*ast.BasicLit); ok && b.Kind == token.CHAR {
					if r, _, _, err := strconv.UnquoteChar(b.Value[1:len(b.Value)-1], '\''); err == nil && r < 128 {
						return "(.term (.rune " + strconv.Itoa(int(r)) + " " + leanBytes(strconv.Quote(string(r))) + "))"
					}
				}
			}
		case "terminal.String":
			if len(a) == 2 {
				if id, ok := a[1].(*ast.Ident); ok && (id.Name == "true" || id.Name == "false") {
					return "(.term (.string " + id.Name + "))"
				}
			}
		case "terminal.Float":
			if len(a) == 1 {
				return "(.term .float)"
			}
		case "terminal.Integer":
			if len(a) == 1 {
				return "(.term .integer)"
			}
		case "terminal.Bool":
			if len(a) == 3 {
				t, ok1 := strLit(a[1])
				f, ok2 := strLit(a[2])
				if ok1 && ok2 {
					return "(.term (.bool " + leanBytes(t) + " " + leanBytes(f) + "))"
				}
			}
		case "terminal.Nil":
			if len(a) == 2 {
				if s, ok := strLit(a[1]); ok {
					return "(.term (.nil " + leanBytes(s) + "))"
				}
			}
		}
		return j.refuse("call %s with %d argument(s)", exprText(x.Fun), len(a))
	}
	return j.refuse("expression %s", exprText(e))
}

// a method call has a receiver that is a local parser value or itself a call (SeqOf(…).Bind(…)); a package-qualified
// function call has a package identifier there
func (j *jsonEx) isLocalOrCall(e ast.Expr) bool {
	switch x := e.(type) {
	case *ast.CallExpr:
		return true
	case *ast.Ident:
		_, ok := j.locals[x.Name]
		return ok
	}
	return false
}

// oneLiner reads `func name(p parsley.Parser, …) … { return <grammar expression> }` of a package as a Lean function G → … → G
func oneLiner(dir, pkg, name string) (def string, refused []string) {
	fset := token.NewFileSet()
	pkgs, err := parser.ParseDir(fset, filepath.Join(repo, dir), func(fi os.FileInfo) bool { return !strings.HasSuffix(fi.Name(), "_test.go") }, 0)
	if err != nil {
		return "", []string{name + ": " + err.Error()}
	}
	for _, p := range pkgs {
		for _, f := range p.Files {
			for _, d := range f.Decls {
				fd, ok := d.(*ast.FuncDecl)
				if !ok || fd.Recv != nil || fd.Name.Name != name || fd.Body == nil {
					continue
				}
				j := &jsonEx{locals: map[string]string{}, pkg: pkg}
				var params []string
				for _, fl := range fd.Type.Params.List {
					if selName(fl.Type) != "parsley.Parser" {
						j.refuse("parameter of type %s", exprText(fl.Type))
					}
					for _, n := range fl.Names {
						j.locals[n.Name] = n.Name
						params = append(params, "("+n.Name+" : G)")
					}
				}
				body := ".empty"
				if rs, ok := fd.Body.List[0].(*ast.ReturnStmt); len(fd.Body.List) == 1 && ok && len(rs.Results) == 1 {
					body = j.expr(rs.Results[0])
				} else {
					j.refuse("body is not a single return")
				}
				for i := range j.refused {
					j.refused[i] = name + ": " + j.refused[i]
				}
				return "/-- " + pkg + "." + name + " -/\ndef " + name + " " + strings.Join(params, " ") + " : G :=\n  " + body + "\n\n", j.refused
			}
		}
	}
	return "", []string{name + ": not found in " + dir}
}

func writeJsonFacts(path string) error {
	dir := filepath.Join(repo, "examples", "json", "json")
	fset := token.NewFileSet()
	pkgs, err := parser.ParseDir(fset, dir, func(fi os.FileInfo) bool { return !strings.HasSuffix(fi.Name(), "_test.go") }, 0)
	if err != nil {
		return err
	}
	j := &jsonEx{locals: map[string]string{}}
	found := false
	for _, p := range pkgs {
		for _, f := range p.Files {
			for _, d := range f.Decls {
				fd, ok := d.(*ast.FuncDecl)
				if !ok || fd.Recv != nil || fd.Name.Name != "NewParser" || fd.Body == nil {
					continue
				}
				found = true
				returned := false
				for _, st := range fd.Body.List {
					if returned {
						j.refuse("statement after return")
						continue
					}
					switch s := st.(type) {
					case *ast.DeclStmt:
						ok := false
						if gd, isGen := s.Decl.(*ast.GenDecl); isGen && gd.Tok == token.VAR && len(gd.Specs) == 1 {
							if vs := gd.Specs[0].(*ast.ValueSpec); len(vs.Names) == 1 && len(vs.Values) == 0 && selName(vs.Type) == "parser.Func" && j.recVar == "" {
								j.recVar, ok = vs.Names[0].Name, true
							}
						}
						if !ok {
							j.refuse("declaration")
						}
					case *ast.AssignStmt:
						if len(s.Lhs) != 1 || len(s.Rhs) != 1 {
							j.refuse("parallel assignment")
							continue
						}
						id, ok := s.Lhs[0].(*ast.Ident)
						switch {
						case !ok:
							j.refuse("assignment to %s", exprText(s.Lhs[0]))
						case s.Tok == token.DEFINE && id.Name != j.recVar:
							j.locals[id.Name] = j.expr(s.Rhs[0])
						case s.Tok == token.ASSIGN && id.Name == j.recVar && j.rule == "":
							j.rule = j.expr(s.Rhs[0])
						default:
							j.refuse("assignment to %s", id.Name)
						}
					case *ast.ReturnStmt:
						if id, ok := s.Results[0].(*ast.Ident); len(s.Results) == 1 && ok && id.Name == j.recVar && j.rule != "" {
							returned = true
						} else {
							j.refuse("return of something other than the recursive rule")
						}
					default:
						j.refuse("statement %T", st)
					}
				}
				if !returned {
					j.refuse("no return of the recursive rule")
				}
			}
		}
	}
	if !found {
		j.refuse("func NewParser not found in examples/json/json")
	}
	if j.rule == "" {
		j.rule = ".empty"
	}
	var sb strings.Builder
	sb.WriteString("/-\n  GENERATED by harness/cmd/factgen (progjson.go) from /repo/examples/json/json on every run — do not edit.\n")
	sb.WriteString("  The grammar json.NewParser() constructs, as a term of the model's grammar type.\n-/\n")
	sb.WriteString("import ParsleyVerif.Model.Eval\nnamespace PV.FactsJson\nopen PV PV.Text\n\n")
	sb.WriteString("/-- rule 0 (`value`): what NewParser assigns to its recursive parser.Func variable and returns -/\n")
	sb.WriteString("def valueRule : G :=\n  " + j.rule + "\n\n")
	sb.WriteString("def env : List G := [valueRule]\n\n")
	names := []string{}
	if len(j.refused) == 0 {
		names = append(names, "\"NewParser\"")
	}
	for i := range j.refused {
		j.refused[i] = "NewParser: " + j.refused[i]
	}
	for _, ol := range [][3]string{{"combinator", "combinator", "Sentence"}, {"text", "text", "Trim"}} {
		def, ref := oneLiner(ol[0], ol[1], ol[2])
		if len(ref) == 0 {
			sb.WriteString(def)
			names = append(names, strconv.Quote(ol[2]))
		} else {
			sb.WriteString("def " + ol[2] + " (p : G) : G := .empty\n\n")
		}
		j.refused = append(j.refused, ref...)
	}
	tr := "[" + strings.Join(names, ", ") + "]"
	sb.WriteString("def translatedJson : List String := " + tr + "\n\n")
	q := make([]string, len(j.refused))
	for i, r := range j.refused {
		q[i] = strconv.Quote(r)
	}
	sb.WriteString("/-- what the extractor could not read, with the reason -/\ndef untranslatedJson : List String := [" + strings.Join(q, ", ") + "]\n\nend PV.FactsJson\n")
	return os.WriteFile(path, []byte(sb.String()), 0o644)
}
