package main

// Fifth output (-out-prog): a STATEMENT-level translator.  Whole Go functions of a restricted subset are turned,
// syntax-directed, into Lean definitions in the monad of lean/ParsleyVerif/Generated/ProgPrelude.lean (hand-written:
// the meaning of slices, maps, append, copy, make, indexing with its bounds check, sort.SearchInts).  Lean then proves
// (Proofs/ProgTie*.lean) that the hand-written model functions equal the translated ones for all inputs, so a semantic
// change of one of these functions breaks a theorem while a reformatting does not.
//
// Translation scheme (all of it is trusted base, so it is kept small and free of cleverness):
//   * every Go variable (a go/types object) gets one Lean name; assignment is `let` shadowing;
//   * a statement is translated together with its continuation (the translation of what follows it), which is
//     duplicated into the branches of an `if`: no join points, `return` simply drops the continuation;
//   * `for cond { body }` becomes a generated top-level function  loop : fuel → state → M state  over the variables the
//     loop assigns (in declaration order), the variables it only reads being extra parameters; fuel 0 is the outcome
//     `outOfFuel`; the fuel passed at the loop's entry is the sum of the upper bounds `b` of the atoms `a < b` of the
//     condition plus one (a wrong guess can only produce `outOfFuel`, never a value);
//   * `for i, v := range slice` is the same with a hidden counter and `v := slice[i]` read in each round;
//     `for k, v := range map` recurses over a snapshot of the entries in ascending key order;
//   * `x[i]`, `x[i] = v`, `x[a:b]`, `m[k] = v`, `make`, `append`, `copy` are calls of the prelude (an index out of range
//     is the outcome `panic`); `a && b`, `a || b` evaluate `b` only when Go does;
//   * a method with a pointer receiver that assigns to the receiver's fields takes the struct and RETURNS it (callers
//     rebind the variable); struct pointers are owned values: aliasing of STRUCT pointers is not modelled, aliasing of
//     slices and maps is;
//   * a function literal is a Lean lambda (it may not assign captured variables);
//   * a value of an interface type is an opaque record (prelude `Obj`): nil, a package-level variable by name, the
//     fields of a struct / named integer stored in the interface, or the arguments of one of the external constructor
//     functions listed in pgOpaqueCtor; a call of an interface METHOD is outside the subset;
//   * generated definitions are named Recv_Method / Func (loops: …_loopN) — no dots, because a dotted definition name
//     opens that namespace inside its own body and would capture identifiers; prelude functions are referred to as Go.x;
//   * whatever does not fit is reported in `untranslatedProg` and nothing is emitted for that function (nor for its
//     callers), and no name is emitted twice, so the generated file is always well-formed;
//   * ROBUSTNESS against behaviour-preserving rewritings of the source: before a body is translated it is brought to a normal
//     form where pure syntax would otherwise change the INTERFACE of a generated loop function (gonorm.go: guards `if c
//     { break }` at the head of a loop body are part of the loop condition, a temporary that stands for a side-effect-free
//     expression over never-assigned variables is replaced by that expression where a loop mentions it, a variable that
//     every round assigns before it reads it is not part of the loop's state, one-line expression helpers are unfolded); a
//     call of an unexported function of the package that is not a target is translated in line, as a block (prochelper.go);
//     `break L` / `continue L` are accepted when L is the innermost loop.  Differences that stay INSIDE a generated
//     definition (mirrored comparisons, negated tests with exchanged branches, switch vs. if chain, temporaries in
//     straight-line code) are not normalised: the tie proofs decide tests by omega and unfold `let`.
// The extensions of the subset for the text level (byte strings, lossy integer conversions, owned lists of structs,
// dispatch of the interface parsley.File to text.File, `return` inside loops, `for {}`, receivers on field / list paths,
// utf8 / bytes / fmt primitives, the external world `X : Ext`) are in progtext.go, with their own header.

import (
	"fmt"
	"go/ast"
	"go/constant"
	"go/importer"
	"go/token"
	"go/types"
	"os"
	"sort"
	"strconv"
	"strings"
)

type pgTarget struct{ pkg, recv, name string }

var progTargets = []pgTarget{
	{"data", "IntSet", "Len"}, {"data", "IntSet", "insertValue"}, {"data", "IntSet", "Insert"}, {"data", "IntSet", "Union"},
	{"data", "IntSet", "Each"}, {"data", "", "NewIntSet"},
	{"data", "", "NewIntMap"}, {"data", "IntMap", "clone"}, {"data", "IntMap", "Get"}, {"data", "IntMap", "Keys"},
	{"data", "IntMap", "Inc"}, {"data", "IntMap", "Filter"},
	{"text", "File", "setLines"}, {"text", "File", "Len"}, {"text", "File", "SetOffset"}, {"text", "File", "Pos"},
	{"text", "File", "Position"},
	{"text", "Reader", "Remaining"}, {"text", "Reader", "IsEOF"}, {"text", "Reader", "Pos"}, {"text", "Reader", "SkipWhitespaces"},
	{"parsley", "FileSet", "AddFile"}, {"parsley", "FileSet", "Position"},
	// text level, second batch (progtext.go has the extensions of the subset these need)
	{"text", "", "isWordCharacter"}, {"text", "Reader", "ReadRune"}, {"text", "Reader", "MatchString"}, {"text", "Reader", "MatchWord"},
	{"text", "Reader", "ReadRegexp"}, {"text", "Reader", "Readf"},
	{"parsley", "", "NewFileSet"}, {"text", "Position", "String"},
	{"text/terminal", "", "unquoteString"},
	{"text", "", "NewFile"},
	// the error-rendering path (progerr.go has the extensions of the subset these need)
	{"parsley", "nilPosition", "String"},
	{"parsley", "FileSet", "ErrorWithPosition"},
	{"parsley", "NotFoundError", "Error"}, {"parsley", "whitespaceError", "Error"}, {"parsley", "", "NewWhitespaceError"},
	{"parsley", "err", "Error"}, {"parsley", "err", "Pos"}, {"parsley", "err", "Cause"},
	// parsley.NewError is NOT asked for: its type switch is outside the subset, and the reader (SkipWhitespaces) uses it as an
	// opaque constructor (pgOpaqueCtor), which a failed target of that name would turn into a refusal of the reader
}

type pgErr struct{ msg string }

func pgFail(format string, a ...interface{}) { panic(pgErr{fmt.Sprintf(format, a...)}) }

type pgFn struct {
	key   string
	pkg   *concPkg
	decl  *ast.FuncDecl
	obj   *types.Func
	inout bool // pointer receiver whose fields the body assigns: the receiver is returned
	ext   bool // uses (directly or through a callee) a primitive of the external world `X : Ext` (regexp engine, strconv)
	text  []string
	deps  []*pgFn
	err   string
}

type pgGen struct {
	fset       *token.FileSet
	byObj      map[*types.Func]*pgFn
	fns        []*pgFn
	structs    []string
	sdone      map[string]bool
	problem    []string
	impl       map[*types.TypeName]*types.Named       // interface -> the struct type its method calls are dispatched to
	ld         *concLoader                            // progerr.go: the loader, for the candidates of a dynamic dispatch
	normalised map[*ast.BlockStmt]map[*types.Var]bool // gonorm.go: the bodies already normalised, with their per-round variables
	textVars   map[*types.Var]bool                    // progtext.go pgTextVars: string variables that hold text (Lean `String`)
}

// ---- the little target language ----

type pgNode interface{}
type pgLet struct {
	line string
	body pgNode
}
type pgIf struct {
	cond string
	a, b pgNode
}
type pgTerm struct{ code string }

// the caller's side of a loop that may `return`: match scrut with | some name => some | none => none
type pgMatchOpt struct {
	scrut, name string
	some, none  pgNode
}

func pgPrint(n pgNode, ind string, out *[]string) {
	switch x := n.(type) {
	case *pgLet:
		*out = append(*out, ind+x.line)
		pgPrint(x.body, ind, out)
	case *pgIf:
		*out = append(*out, ind+"if "+x.cond+" then")
		pgPrint(x.a, ind+"  ", out)
		for {
			if e, ok := x.b.(*pgIf); ok {
				*out = append(*out, ind+"else if "+e.cond+" then")
				pgPrint(e.a, ind+"  ", out)
				x = e
				continue
			}
			break
		}
		*out = append(*out, ind+"else")
		pgPrint(x.b, ind+"  ", out)
	case *pgTerm:
		*out = append(*out, ind+x.code)
	case *pgMatchOpt:
		*out = append(*out, ind+"match "+x.scrut+" with")
		*out = append(*out, ind+"| some "+x.name+" =>")
		pgPrint(x.some, ind+"  ", out)
		*out = append(*out, ind+"| none =>")
		pgPrint(x.none, ind+"  ", out)
	}
}

func pgInline(n pgNode) string {
	switch x := n.(type) {
	case *pgLet:
		return x.line + "; " + pgInline(x.body)
	case *pgIf:
		return "if " + x.cond + " then (do " + pgInline(x.a) + ") else (do " + pgInline(x.b) + ")"
	case *pgTerm:
		return x.code
	case *pgMatchOpt:
		return "match " + x.scrut + " with | some " + x.name + " => (do " + pgInline(x.some) + ") | none => (do " + pgInline(x.none) + ")"
	}
	return ""
}

// ---- per-function context ----

type pgLoopK struct {
	brk, cont pgNode
	label     string
}

type pgCtx struct {
	g         *pgGen
	fn        *pgFn
	info      *types.Info
	names     map[types.Object]string
	taken     map[string]bool
	ntmp      *int
	nloop     *int
	aux       *[]string
	ret       func(vals []string) pgNode
	retRaw    func(term string) pgNode // return the term (of the function's whole result type) from where we are
	resTy     string                   // the Lean type of the function's whole result
	loops     []pgLoopK
	inLit     *ast.FuncLit
	recv      types.Object
	resT      *types.Tuple
	inSwch    int
	loopLocal map[*types.Var]bool       // variables that are local to each round of their loop (gonorm.go, N7)
	label     string                    // the label of the statement being translated (a loop)
	inlining  map[*types.Func]bool      // the helpers whose bodies are being translated in line here (prochelper.go)
	helperK   func(res ast.Expr) pgNode // continuation-style helper (prochelper.go inlineCond): where its `return` goes on
	bodies    []*ast.BlockStmt          // the bodies of the helpers being translated in line around the current statement
}

var pgKeywords = map[string]bool{"fun": true, "do": true, "then": true, "else": true, "if": true, "let": true, "have": true, "show": true,
	"from": true, "at": true, "end": true, "open": true, "in": true, "by": true, "match": true, "with": true, "def": true, "theorem": true,
	"instance": true, "structure": true, "where": true, "namespace": true, "section": true, "variable": true, "import": true, "mutual": true,
	"local": true, "meta": true, "prefix": true, "infix": true, "notation": true, "macro": true, "syntax": true, "deriving": true,
	"class": true, "inductive": true, "abbrev": true, "example": true, "axiom": true, "universe": true, "set_option": true, "return": true,
	"for": true, "unless": true, "try": true, "catch": true, "finally": true, "mut": true, "break": true, "continue": true, "nomatch": true,
	"true": true, "false": true, "Type": true, "Prop": true, "Sort": true, "using": true, "calc": true, "obtain": true, "suffices": true,
	// names the generated code refers to unqualified
	"pure": true, "decide": true, "fuel": true, "rest": true, "none": true, "some": true, "Go": true, "M": true, "Sl": true, "Mp": true,
	"St": true, "Res": true, "Obj": true, "Int": true, "Nat": true, "Bool": true, "String": true, "Unit": true, "List": true,
	"X": true, "Ext": true, "Str": true, "Fmt": true, "Option": true}

func (c *pgCtx) fresh(base string) string {
	for pgKeywords[base] || c.taken[base] {
		base += "'"
	}
	c.taken[base] = true
	return base
}

func (c *pgCtx) name(o types.Object) string {
	if n, ok := c.names[o]; ok {
		return n
	}
	b := o.Name()
	if b == "_" || b == "" {
		b = "x"
	}
	n := c.fresh(b)
	c.names[o] = n
	return n
}

func (c *pgCtx) tmp() string {
	for {
		*c.ntmp++
		n := "t" + strconv.Itoa(*c.ntmp)
		if !c.taken[n] {
			c.taken[n] = true
			return n
		}
	}
}

// ---- types ----

func pgIsInt(t types.Type) bool {
	b, ok := t.Underlying().(*types.Basic)
	return ok && b.Info()&types.IsInteger != 0
}

func pgIsBool(t types.Type) bool {
	b, ok := t.Underlying().(*types.Basic)
	return ok && b.Info()&types.IsBoolean != 0
}

func pgIsString(t types.Type) bool {
	b, ok := t.Underlying().(*types.Basic)
	return ok && b.Info()&types.IsString != 0
}

func pgStructOf(t types.Type) (*types.Named, *types.Struct) {
	if p, ok := t.(*types.Pointer); ok {
		t = p.Elem()
	}
	n, ok := t.(*types.Named)
	if !ok {
		return nil, nil
	}
	s, ok := n.Underlying().(*types.Struct)
	if !ok {
		return nil, nil
	}
	return n, s
}

// A Go string has two translations: a struct FIELD of type string is a Lean `String` (a name: opaque text), every other
// string (parameter, local variable, result) is a byte string `Str`; the translator refuses any flow between the two.
func (g *pgGen) leanType(t types.Type) (string, bool) { return g.leanTypeK(t, false) }

func (g *pgGen) leanTypeK(t types.Type, field bool) (string, bool) {
	switch {
	case pgIsInt(t):
		return "Int", true
	case pgIsBool(t):
		return "Bool", true
	case pgIsString(t):
		if field {
			return "String", true
		}
		return "Str", true
	}
	switch u := t.Underlying().(type) {
	case *types.Slice:
		if pgIsInt(u.Elem()) {
			return "Sl", true
		}
		if n, s := g.structOf(u.Elem()); n != nil { // a slice of (pointers to) structs is an owned Lean list
			if st, ok := g.structType(n, s); ok {
				return "List " + st, true
			}
		}
	case *types.Map:
		if pgIsInt(u.Key()) && pgIsInt(u.Elem()) {
			return "Mp", true
		}
	case *types.Signature:
		if u.Variadic() {
			return "", false
		}
		s := ""
		for i := 0; i < u.Params().Len(); i++ {
			a, ok := g.leanType(u.Params().At(i).Type())
			if !ok {
				return "", false
			}
			s += a + " → "
		}
		r, ok := g.resultType(u, false, nil)
		if !ok {
			return "", false
		}
		return "(" + s + "M " + r + ")", true
	}
	if n, s := g.structOf(t); n != nil {
		return g.structType(n, s)
	}
	if types.IsInterface(t) {
		return "Obj", true
	}
	return "", false
}

func pgAtomT(s string) string {
	if strings.ContainsAny(s, " ×") && !strings.HasPrefix(s, "(") {
		return "(" + s + ")"
	}
	return s
}

func (g *pgGen) resultType(sig *types.Signature, inout bool, recvT types.Type) (string, bool) {
	var parts []string
	if inout {
		r, ok := g.leanType(recvT)
		if !ok {
			return "", false
		}
		parts = append(parts, r)
	}
	for i := 0; i < sig.Results().Len(); i++ {
		r, ok := g.leanType(sig.Results().At(i).Type())
		if !ok {
			return "", false
		}
		parts = append(parts, r)
	}
	switch len(parts) {
	case 0:
		return "Unit", true
	case 1:
		return pgAtomT(parts[0]), true
	}
	return "(" + strings.Join(parts, " × ") + ")", true
}

func pgField(name string) string {
	if pgKeywords[name] {
		return name + "'"
	}
	return name
}

// a Go struct becomes a Lean structure with the fields whose types the translator knows (others are dropped: a use
// of a dropped field makes the using function untranslatable)
func (g *pgGen) structType(n *types.Named, s *types.Struct) (string, bool) {
	name := pgField(n.Obj().Name())
	if done, ok := g.sdone[name]; ok {
		return name, done
	}
	g.sdone[name] = false // a recursive struct is not supported
	var fields []string
	for i := 0; i < s.NumFields(); i++ {
		f := s.Field(i)
		if lt, ok := g.leanTypeK(f.Type(), true); ok {
			fields = append(fields, fmt.Sprintf("  %s : %s", pgField(f.Name()), lt))
		}
	}
	g.sdone[name] = true
	g.structs = append(g.structs, fmt.Sprintf("/-- %s.%s -/\nstructure %s where\n%s\n", n.Obj().Pkg().Name(), name, name, strings.Join(fields, "\n")))
	return name, true
}

func (c *pgCtx) typ(t types.Type) string {
	s, ok := c.g.leanType(t)
	if !ok {
		pgFail("type %s is outside the subset", types.TypeString(t, qual))
	}
	return s
}

func (c *pgCtx) zero(t types.Type) string {
	switch {
	case pgIsInt(t):
		return "0"
	case pgIsBool(t):
		return "false"
	case pgIsString(t):
		return "([] : Str)"
	}
	switch t.Underlying().(type) {
	case *types.Slice:
		if strings.HasPrefix(c.typ(t), "List ") {
			return "[]"
		}
		return "Go.nilSl"
	case *types.Map:
		c.typ(t)
		return "none"
	case *types.Interface:
		return "Obj.nil"
	}
	if n, s := pgStructOf(t); n != nil {
		if _, isPtr := t.(*types.Pointer); !isPtr {
			return c.structLit(n, s, nil)
		}
	}
	pgFail("no zero value for %s in the subset", types.TypeString(t, qual))
	return ""
}

func (c *pgCtx) structLit(n *types.Named, s *types.Struct, given map[string]string) string {
	tn := c.typ(n)
	var fs []string
	for i := 0; i < s.NumFields(); i++ {
		f := s.Field(i)
		if _, ok := c.g.leanType(f.Type()); !ok {
			if _, has := given[f.Name()]; has {
				pgFail("field %s.%s is outside the subset", tn, f.Name())
			}
			continue
		}
		v, has := given[f.Name()]
		if !has {
			if pgIsString(f.Type()) {
				v = `""`
			} else {
				v = c.zero(f.Type())
			}
		}
		fs = append(fs, pgField(f.Name())+" := "+v)
	}
	return "({ " + strings.Join(fs, ", ") + " } : " + tn + ")"
}

// ---- expressions ----

func pgDo(pre []string, last string) string {
	if len(pre) == 0 {
		return last
	}
	return "(do " + strings.Join(pre, "; ") + "; " + last + ")"
}

// parts: statements to run first (`let t ← …`), then `code`, which is a value when !mon and an M-term when mon
func (c *pgCtx) parts(e ast.Expr) (pre []string, code string, mon bool) {
	tv := c.info.Types[e]
	if tv.Value != nil {
		switch tv.Value.Kind() {
		case constant.Int:
			s := tv.Value.ExactString()
			if strings.HasPrefix(s, "-") {
				s = "(" + s + ")"
			}
			if !pgIsInt(tv.Type) {
				pgFail("constant %s of type %s", s, types.TypeString(tv.Type, qual))
			}
			return nil, s, false
		case constant.Bool:
			return nil, strconv.FormatBool(constant.BoolVal(tv.Value)), false
		case constant.String:
			return nil, strconv.Quote(constant.StringVal(tv.Value)), false
		}
		pgFail("constant %s is outside the subset", norm(e))
	}
	switch x := e.(type) {
	case *ast.ParenExpr:
		return c.parts(x.X)
	case *ast.Ident:
		if x.Name == "nil" && tv.IsNil() {
			return nil, c.zero(tv.Type), false
		}
		o := c.info.Uses[x]
		if v, ok := o.(*types.Var); ok && !v.IsField() && v.Parent() != v.Pkg().Scope() {
			c.typ(v.Type())
			return nil, c.name(v), false
		}
		if v, ok := o.(*types.Var); ok && !v.IsField() && types.IsInterface(v.Type()) {
			return nil, "(Obj.named " + strconv.Quote(v.Pkg().Name()+"."+v.Name()) + ")", false
		}
		pgFail("identifier %s is not a local variable or a constant", x.Name)
	case *ast.SelectorExpr:
		if sel, ok := c.info.Selections[x]; ok && sel.Kind() == types.FieldVal && len(sel.Index()) == 1 {
			c.typ(sel.Recv())
			c.typ(sel.Obj().Type())
			a := c.atom(x.X, &pre)
			return pre, a + "." + pgField(sel.Obj().Name()), false
		}
		if v, ok := c.info.Uses[x.Sel].(*types.Var); ok && !v.IsField() && v.Pkg() != nil && v.Parent() == v.Pkg().Scope() && types.IsInterface(v.Type()) {
			return nil, "(Obj.named " + strconv.Quote(v.Pkg().Name()+"."+v.Name()) + ")", false
		}
		pgFail("selector %s is outside the subset", norm(x))
	case *ast.IndexExpr:
		a := c.atom(x.X, &pre)
		i := c.atom(x.Index, &pre)
		switch xt := c.typ(c.info.TypeOf(x.X)); {
		case xt == "Sl":
			return pre, "Go.idx " + a + " " + pgP(i), true
		case xt == "Mp":
			return pre, "Go.mapGet " + a + " " + pgP(i), true
		case xt == "Str" && c.strKind(x.X) == pgBytes:
			return pre, "Go.strIdx " + a + " " + pgP(i), true
		case strings.HasPrefix(xt, "List "):
			return pre, "Go.listIdx " + a + " " + pgP(i), true
		}
		pgFail("index into %s", norm(x.X))
	case *ast.SliceExpr:
		if x.Slice3 || c.typ(c.info.TypeOf(x.X)) != "Sl" {
			pgFail("slice expression %s is outside the subset", norm(x))
		}
		a := c.atom(x.X, &pre)
		switch {
		case x.Low != nil && x.High != nil:
			lo := c.atom(x.Low, &pre)
			return pre, "Go.slice " + a + " " + pgP(lo) + " " + pgP(c.atom(x.High, &pre)), true
		case x.Low != nil:
			return pre, "Go.sliceFrom " + a + " " + pgP(c.atom(x.Low, &pre)), true
		case x.High != nil:
			return pre, "Go.sliceTo " + a + " " + pgP(c.atom(x.High, &pre)), true
		}
		return pre, a, false
	case *ast.UnaryExpr:
		switch x.Op {
		case token.NOT:
			a := c.atom(x.X, &pre)
			return pre, "(!" + a + ")", false
		case token.SUB:
			a := c.atom(x.X, &pre)
			return pre, "(-" + a + ")", false
		case token.AND:
			if cl, ok := x.X.(*ast.CompositeLit); ok {
				return c.parts(cl)
			}
		}
		pgFail("unary %s is outside the subset", norm(x))
	case *ast.BinaryExpr:
		return c.binary(x)
	case *ast.CompositeLit:
		return c.composite(x)
	case *ast.CallExpr:
		return c.call(x)
	case *ast.FuncLit:
		return nil, c.closure(x), false
	}
	pgFail("expression %s is outside the subset", norm(e))
	return
}

// atom: the value of e as a variable or a closed pure term; what has to run first is added to *pre
func (c *pgCtx) atom(e ast.Expr, pre *[]string) string {
	p, code, mon := c.parts(e)
	*pre = append(*pre, p...)
	if !mon {
		return code
	}
	t := c.tmp()
	*pre = append(*pre, "let "+t+" ← "+code)
	return t
}

// pgP parenthesises a compound pure term for an argument position
func pgP(s string) string {
	if strings.HasPrefix(s, "decide ") || strings.HasPrefix(s, "Go.len ") || strings.HasPrefix(s, "Go.cap ") ||
		strings.HasPrefix(s, "Go.strLen ") || strings.HasPrefix(s, "Go.listLen ") || strings.HasPrefix(s, "Go.sprintf ") ||
		strings.HasPrefix(s, "Go.lit ") || strings.HasPrefix(s, "Go.runeStr ") {
		return "(" + s + ")"
	}
	return s
}

// arg: like atom, for an argument position; `nil` takes the type the position expects
func (c *pgCtx) arg(e ast.Expr, want types.Type, pre *[]string) string {
	if want != nil && c.info.Types[e].IsNil() {
		return c.zero(want)
	}
	if want != nil && pgIsString(want) { // a parameter, a result: a byte string
		return pgP(c.strVal(e, false, pre))
	}
	if want != nil && types.IsInterface(want) && c.g.implOf(want) == nil {
		if have := c.info.TypeOf(e); have != nil && !types.IsInterface(have) {
			var id *ast.Ident
			ue := e
			for {
				pe, ok := ue.(*ast.ParenExpr)
				if !ok {
					break
				}
				ue = pe.X
			}
			switch x := ue.(type) {
			case *ast.Ident:
				id = x
			case *ast.SelectorExpr:
				id = x.Sel
			}
			if id != nil { // a package-level variable stored in an interface: opaque, by name
				if v, ok := c.info.Uses[id].(*types.Var); ok && !v.IsField() && v.Pkg() != nil && v.Parent() == v.Pkg().Scope() {
					return "(Obj.named " + strconv.Quote(v.Pkg().Name()+"."+v.Name()) + ")"
				}
			}
			return c.toObj(e, have, pre)
		}
	}
	return pgP(c.atom(e, pre))
}

// toObj: a concrete struct value stored in an interface is the opaque record of its fields
func (c *pgCtx) toObj(e ast.Expr, have types.Type, pre *[]string) string {
	if nt, ok := have.(*types.Named); ok && nt.Obj().Pkg() != nil && (pgIsInt(have) || pgIsString(have)) {
		// a value of a named integer/string type stored in an interface: the record of the type's name and the value
		tag := strconv.Quote(nt.Obj().Pkg().Name() + "." + nt.Obj().Name())
		if pgIsInt(have) {
			return "(Obj.mk " + tag + " [" + c.atom(e, pre) + "] [] [])"
		}
		return "(Obj.mk " + tag + " [] [" + c.strVal(e, true, pre) + "] [])" // the record holds text: a byte string is refused
	}
	n, st := pgStructOf(have)
	if n == nil {
		pgFail("conversion of %s to an interface", types.TypeString(have, qual))
	}
	v := pgP(c.atom(e, pre))
	if strings.Contains(v, " ") {
		t := c.tmp()
		*pre = append(*pre, "let "+t+" := "+v)
		v = t
	}
	var ints, strs, objs []string
	for i := 0; i < st.NumFields(); i++ {
		f := st.Field(i)
		acc := v + "." + pgField(f.Name())
		switch {
		case pgIsInt(f.Type()):
			ints = append(ints, acc)
		case pgIsString(f.Type()):
			strs = append(strs, acc)
		case types.IsInterface(f.Type()):
			objs = append(objs, acc)
		default:
			pgFail("conversion of %s to an interface: field %s", types.TypeString(have, qual), f.Name())
		}
	}
	return fmt.Sprintf("(Obj.mk %s [%s] [%s] [%s])", strconv.Quote(n.Obj().Pkg().Name()+"."+n.Obj().Name()),
		strings.Join(ints, ", "), strings.Join(strs, ", "), strings.Join(objs, ", "))
}

// external functions treated as opaque constructors of an interface value (nothing is assumed about the result but
// what it was built from)
var pgOpaqueCtor = map[string]bool{"github.com/opsidian/parsley/parsley.NewError": true}

// asM: e as one M-term
func (c *pgCtx) asM(e ast.Expr) string {
	pre, code, mon := c.parts(e)
	if !mon {
		code = "pure " + pgP(code)
		if len(pre) == 0 {
			return "(" + code + ")"
		}
	}
	return pgDo(pre, code)
}

func (c *pgCtx) binary(x *ast.BinaryExpr) (pre []string, code string, mon bool) {
	if x.Op == token.LAND || x.Op == token.LOR {
		pa, ca, ma := c.parts(x.X)
		pb, cb, mb := c.parts(x.Y)
		if len(pa) == 0 && len(pb) == 0 && !ma && !mb {
			op := "&&"
			if x.Op == token.LOR {
				op = "||"
			}
			return nil, "(" + ca + " " + op + " " + cb + ")", false
		}
		// the right operand runs only when Go evaluates it
		pre = pa
		if ma {
			t := c.tmp()
			pre = append(pre, "let "+t+" ← "+ca)
			ca = t
		}
		if !mb {
			cb = "pure " + pgP(cb)
		}
		right := pgDo(pb, cb)
		if x.Op == token.LAND {
			return pre, "(if " + ca + " then " + right + " else pure false)", true
		}
		return pre, "(if " + ca + " then pure true else " + right + ")", true
	}
	tx, ty := c.info.TypeOf(x.X), c.info.TypeOf(x.Y)
	// comparisons with nil
	if x.Op == token.EQL || x.Op == token.NEQ {
		for _, p := range [][2]ast.Expr{{x.X, x.Y}, {x.Y, x.X}} {
			if c.info.Types[p[1]].IsNil() {
				a := c.atom(p[0], &pre)
				var r string
				switch c.typ(c.info.TypeOf(p[0])) {
				case "Sl":
					r = a + ".isNil"
				case "Mp":
					r = a + ".isNone"
				case "Obj":
					r = a + ".isNil"
				default:
					if c.g.implOf(c.info.TypeOf(p[0])) == nil {
						pgFail("comparison %s with nil", norm(x))
					}
					// a value of an interface whose calls are dispatched to one struct type is that struct: never nil
					// (the nil case of the Go code is outside what the translated function is about)
					r = "false"
				}
				if x.Op == token.NEQ {
					r = "(!" + r + ")"
				}
				return pre, r, false
			}
		}
	}
	if p, code, ok := c.objEq(x); ok { // progerr.go: an interface value against a constant of a named integer type
		return append(pre, p...), code, false
	}
	if pgIsString(tx) && pgIsString(ty) && (x.Op == token.EQL || x.Op == token.NEQ) {
		text := c.strKind(x.X) == pgText || c.strKind(x.Y) == pgText
		a := c.strVal(x.X, text, &pre)
		b := c.strVal(x.Y, text, &pre)
		if x.Op == token.EQL {
			return pre, "decide (" + a + " = " + b + ")", false
		}
		return pre, "decide (" + a + " ≠ " + b + ")", false
	}
	a := c.atom(x.X, &pre)
	b := c.atom(x.Y, &pre)
	switch x.Op {
	case token.EQL, token.NEQ, token.LSS, token.LEQ, token.GTR, token.GEQ:
		if pgIsBool(tx) && pgIsBool(ty) && (x.Op == token.EQL || x.Op == token.NEQ) {
			if x.Op == token.EQL {
				return pre, "(" + a + " == " + b + ")", false
			}
			return pre, "(" + a + " != " + b + ")", false
		}
		if !pgIsInt(tx) || !pgIsInt(ty) {
			pgFail("comparison %s of non-integers", norm(x))
		}
		op := map[token.Token]string{token.EQL: "=", token.NEQ: "≠", token.LSS: "<", token.LEQ: "≤", token.GTR: ">", token.GEQ: "≥"}[x.Op]
		return pre, "decide (" + a + " " + op + " " + b + ")", false
	case token.ADD, token.SUB, token.MUL:
		if !pgIsInt(tx) || !pgIsInt(ty) {
			pgFail("arithmetic %s on non-integers", norm(x))
		}
		op := map[token.Token]string{token.ADD: "+", token.SUB: "-", token.MUL: "*"}[x.Op]
		return pre, "(" + a + " " + op + " " + b + ")", false
	}
	pgFail("operator %s is outside the subset", x.Op)
	return
}

func (c *pgCtx) composite(x *ast.CompositeLit) (pre []string, code string, mon bool) {
	t := c.info.TypeOf(x)
	if n, s := pgStructOf(t); n != nil {
		given := map[string]string{}
		for i, el := range x.Elts {
			name, val := s.Field(i).Name(), el
			if kv, ok := el.(*ast.KeyValueExpr); ok {
				name, val = kv.Key.(*ast.Ident).Name, kv.Value
			}
			if pgIsString(c.info.TypeOf(val)) {
				given[name] = c.strVal(val, true, &pre)
			} else {
				given[name] = c.atom(val, &pre)
			}
		}
		return pre, c.structLit(n, s, given), false
	}
	if strings.HasPrefix(c.typ(t), "List ") {
		var vs []string
		for _, el := range x.Elts {
			if _, ok := el.(*ast.KeyValueExpr); ok {
				pgFail("keyed slice literal")
			}
			vs = append(vs, c.atom(el, &pre))
		}
		return pre, "[" + strings.Join(vs, ", ") + "]", false
	}
	if c.typ(t) == "Sl" {
		var vs []string
		for _, el := range x.Elts {
			if _, ok := el.(*ast.KeyValueExpr); ok {
				pgFail("keyed slice literal")
			}
			vs = append(vs, c.atom(el, &pre))
		}
		return pre, "Go.litSlice [" + strings.Join(vs, ", ") + "]", true
	}
	pgFail("composite literal %s is outside the subset", norm(x))
	return
}

func (c *pgCtx) closure(x *ast.FuncLit) string {
	sig := c.info.TypeOf(x).(*types.Signature)
	for _, o := range pgAssigned(c.info, x.Body) {
		if !(x.Pos() <= o.Pos() && o.Pos() < x.End()) {
			pgFail("the function literal assigns the captured variable %s", o.Name())
		}
	}
	sub := *c
	sub.loops, sub.inLit, sub.inSwch, sub.resT = nil, x, 0, sig.Results()
	sub.helperK = nil
	sub.resTy = ""
	if rt, ok := c.g.resultType(sig, false, nil); ok {
		sub.resTy = rt
	}
	sub.retRaw = func(term string) pgNode { return &pgTerm{"pure " + term} }
	subp := &sub
	sub.ret = func(vals []string) pgNode {
		if len(vals) != sig.Results().Len() {
			pgFail("naked return in a function literal")
		}
		return subp.retRaw(pgTuple(vals, ""))
	}
	hdr := "fun"
	for _, f := range x.Type.Params.List {
		for _, id := range f.Names {
			o := c.info.Defs[id]
			hdr += " (" + c.name(o) + " : " + c.typ(o.Type()) + ")"
		}
		if len(f.Names) == 0 {
			pgFail("unnamed parameter of a function literal")
		}
	}
	if hdr == "fun" {
		hdr += " (_ : Unit)"
	}
	body := subp.stmts(x.Body.List, subp.ret0())
	return "(" + hdr + " => do " + pgInline(body) + ")"
}

func pgTuple(vals []string, prefix string) string {
	switch len(vals) {
	case 0:
		return prefix + "()"
	case 1:
		return prefix + pgP(vals[0])
	}
	return prefix + "(" + strings.Join(vals, ", ") + ")"
}

// the end of a body that has no result
func (c *pgCtx) ret0() pgNode {
	return &pgLazy{func() pgNode { return c.ret(nil) }}
}

// pgLazy delays the failure "falls off the end of a function that has results" until the end is really reachable
type pgLazy struct{ f func() pgNode }

func pgForce(n pgNode) pgNode {
	if l, ok := n.(*pgLazy); ok {
		return l.f()
	}
	return n
}

func (c *pgCtx) callee(x *ast.CallExpr) (fn *pgFn, recv ast.Expr, obj types.Object) {
	switch f := x.Fun.(type) {
	case *ast.Ident:
		obj = c.info.Uses[f]
	case *ast.SelectorExpr:
		if sel, ok := c.info.Selections[f]; ok {
			if sel.Kind() != types.MethodVal {
				pgFail("call of the field %s", norm(f))
			}
			obj, recv = sel.Obj(), f.X
			if types.IsInterface(sel.Recv()) {
				if m := c.g.dispatch(sel); m != nil { // the interface has one implementation here: its method is called
					obj = m
				} else {
					pgFail("call of the interface method %s", norm(f))
				}
			}
		} else {
			obj = c.info.Uses[f.Sel]
		}
	case *ast.ParenExpr:
		pgFail("call %s", norm(x))
	}
	if tf, ok := obj.(*types.Func); ok {
		fn = c.g.byObj[tf]
	}
	return
}

func (c *pgCtx) call(x *ast.CallExpr) (pre []string, code string, mon bool) {
	if c.info.Types[x.Fun].IsType() { // conversion
		from, to := c.info.TypeOf(x.Args[0]), c.info.TypeOf(x.Fun)
		if pgIsInt(from) && pgIsInt(to) {
			if bits, signed, narrow := pgNarrowing(from, to); narrow { // the value may not fit: it wraps around
				a := c.atom(x.Args[0], &pre)
				return pre, fmt.Sprintf("(Go.wrap %d %t %s)", bits, signed, a), false
			}
			return c.parts(x.Args[0])
		}
		return c.convert(x, from, to)
	}
	if p, code, m, ok := c.objMethod(x); ok { // progerr.go: a method of an opaque interface value
		return p, code, m
	}
	fn, recv, obj := c.callee(x)
	if b, ok := obj.(*types.Builtin); ok && b.Name() == "append" && x.Ellipsis.IsValid() {
		return c.appendSpread(x)
	}
	if x.Ellipsis.IsValid() {
		pgFail("call with `...`: %s", norm(x))
	}
	switch o := obj.(type) {
	case *types.Builtin:
		return c.builtin(o.Name(), x)
	case *types.Var: // a local function value
		c.typ(o.Type())
		f := c.name(o)
		var as []string
		fsig, _ := o.Type().Underlying().(*types.Signature)
		for i, a := range x.Args {
			var want types.Type
			if fsig != nil && i < fsig.Params().Len() {
				want = fsig.Params().At(i).Type()
			}
			as = append(as, c.arg(a, want, &pre))
		}
		if len(as) == 0 {
			as = []string{"()"}
		}
		return pre, f + " " + strings.Join(as, " "), true
	case *types.Func:
		if o.Pkg() != nil && o.Pkg().Path() == "sort" {
			switch o.Name() {
			case "SearchInts":
				a := c.atom(x.Args[0], &pre)
				return pre, "Go.searchInts " + a + " " + pgP(c.atom(x.Args[1], &pre)), true
			case "Search":
				a := pgP(c.atom(x.Args[0], &pre))
				return pre, "Go.search " + a + " " + c.atom(x.Args[1], &pre), true
			}
		}
		if pre, code, mon, ok := c.external(o, x, recv); ok {
			return pre, code, mon
		}
		if fn == nil && pgOpaqueCtor[o.FullName()] {
			var ints, strs, objs []string
			sig := o.Type().(*types.Signature)
			for i, a := range x.Args {
				pt := sig.Params().At(i).Type()
				var v string
				if pgIsString(pt) {
					v = c.strVal(a, true, &pre)
				} else {
					v = c.arg(a, pt, &pre)
				}
				switch {
				case pgIsInt(pt):
					ints = append(ints, v)
				case pgIsString(pt):
					strs = append(strs, v)
				case types.IsInterface(pt):
					objs = append(objs, v)
				default:
					pgFail("argument %s of the opaque constructor %s", norm(a), o.FullName())
				}
			}
			return pre, fmt.Sprintf("(Obj.mk %s [%s] [%s] [%s])", strconv.Quote(o.Pkg().Name()+"."+o.Name()),
				strings.Join(ints, ", "), strings.Join(strs, ", "), strings.Join(objs, ", ")), false
		}
		if fn == nil {
			if fd := c.helperOf(o); fd != nil { // an unexported helper of the same package: translated in line
				return c.inlineCall(x, o, recv, fd)
			}
			pgFail("call of %s, which is not among the translated functions", o.FullName())
		}
		if fn.inout {
			pgFail("%s writes its receiver: only supported as a statement on a variable", fn.key)
		}
		c.fn.deps = append(c.fn.deps, fn)
		var as []string
		if fn.ext {
			as = append(as, "X")
		}
		if recv != nil {
			as = append(as, pgP(c.atom(recv, &pre)))
		}
		sig := o.Type().(*types.Signature)
		if sig.Variadic() {
			pgFail("call of the variadic %s", fn.key)
		}
		for i, a := range x.Args {
			if c.isText(sig.Params().At(i)) { // the callee only stores this string: text
				as = append(as, c.strVal(a, true, &pre))
				continue
			}
			as = append(as, c.arg(a, sig.Params().At(i).Type(), &pre))
		}
		return pre, strings.TrimSpace(fn.key + " " + strings.Join(as, " ")), true
	}
	pgFail("call %s is outside the subset", norm(x))
	return
}

func (c *pgCtx) builtin(name string, x *ast.CallExpr) (pre []string, code string, mon bool) {
	switch name {
	case "len", "cap":
		if name == "len" && pgIsString(c.info.TypeOf(x.Args[0])) {
			return pre, "Go.strLen " + c.strVal(x.Args[0], false, &pre), false
		}
		a := c.atom(x.Args[0], &pre)
		switch at := c.typ(c.info.TypeOf(x.Args[0])); {
		case at == "Sl":
			return pre, "Go." + name + " " + a, false
		case at == "Mp":
			if name == "len" {
				return pre, "Go.mapLen " + a, true
			}
		case strings.HasPrefix(at, "List ") && name == "len":
			return pre, "Go.listLen " + a, false
		}
	case "append":
		if len(x.Args) == 2 && c.typ(c.info.TypeOf(x.Args[0])) == "Sl" {
			a := c.atom(x.Args[0], &pre)
			return pre, "Go.append " + a + " " + pgP(c.atom(x.Args[1], &pre)), true
		}
		if len(x.Args) == 2 && strings.HasPrefix(c.typ(c.info.TypeOf(x.Args[0])), "List ") {
			a := c.atom(x.Args[0], &pre)
			el := c.info.TypeOf(x.Args[0]).Underlying().(*types.Slice).Elem()
			return pre, "(" + a + " ++ [" + c.arg(x.Args[1], el, &pre) + "])", false
		}
	case "copy":
		if c.typ(c.info.TypeOf(x.Args[0])) == "Sl" && c.typ(c.info.TypeOf(x.Args[1])) == "Sl" {
			a := c.atom(x.Args[0], &pre)
			return pre, "Go.copy " + a + " " + c.atom(x.Args[1], &pre), true
		}
	case "make":
		switch c.typ(c.info.TypeOf(x.Args[0])) {
		case "Sl":
			l := pgP(c.atom(x.Args[1], &pre))
			cp := l
			if len(x.Args) == 3 {
				cp = pgP(c.atom(x.Args[2], &pre))
			}
			return pre, "Go.mkSlice " + l + " " + cp, true
		case "Mp":
			if len(x.Args) == 2 { // the size hint is evaluated and ignored
				c.atom(x.Args[1], &pre)
			}
			return pre, "Go.mkMap", true
		}
	}
	pgFail("builtin call %s is outside the subset", norm(x))
	return
}

// ---- variables of a region ----

func pgLocal(o types.Object) (*types.Var, bool) {
	v, ok := o.(*types.Var)
	if !ok || v.IsField() || v.Pkg() == nil || v.Parent() == v.Pkg().Scope() {
		return nil, false
	}
	return v, true
}

// local variables mentioned in the nodes, in declaration order
func pgUsed(info *types.Info, nodes ...ast.Node) []*types.Var {
	seen := map[*types.Var]bool{}
	var out []*types.Var
	for _, n := range nodes {
		if n == nil {
			continue
		}
		ast.Inspect(n, func(m ast.Node) bool {
			if id, ok := m.(*ast.Ident); ok {
				o := info.Uses[id]
				if o == nil {
					o = info.Defs[id]
				}
				if v, ok := pgLocal(o); ok && !seen[v] && id.Name != "_" {
					seen[v] = true
					out = append(out, v)
				}
			}
			return true
		})
	}
	sort.Slice(out, func(i, j int) bool { return out[i].Pos() < out[j].Pos() })
	return out
}

func pgRoot(e ast.Expr) *ast.Ident {
	for {
		switch x := e.(type) {
		case *ast.Ident:
			return x
		case *ast.SelectorExpr:
			e = x.X
		case *ast.ParenExpr:
			e = x.X
		default:
			return nil // through an index or a call: a write to the heap, not to a variable
		}
	}
}

// local variables the nodes assign (the variable itself or one of its fields), including receivers of in-out calls
func pgAssignedG(g *pgGen, info *types.Info, nodes ...ast.Node) []*types.Var {
	seen := map[*types.Var]bool{}
	var out []*types.Var
	add := func(e ast.Expr) {
		if id := pgRootL(g, info, e); id != nil {
			o := info.Uses[id]
			if o == nil {
				o = info.Defs[id]
			}
			if v, ok := pgLocal(o); ok && !seen[v] {
				seen[v] = true
				out = append(out, v)
			}
		}
	}
	for _, n := range nodes {
		if n == nil {
			continue
		}
		ast.Inspect(n, func(m ast.Node) bool {
			switch s := m.(type) {
			case *ast.AssignStmt:
				for _, l := range s.Lhs {
					add(l)
				}
			case *ast.IncDecStmt:
				add(s.X)
			case *ast.RangeStmt:
				if s.Key != nil {
					add(s.Key)
				}
				if s.Value != nil {
					add(s.Value)
				}
			case *ast.CallExpr:
				if f, ok := s.Fun.(*ast.SelectorExpr); ok && g != nil {
					if sel, ok := info.Selections[f]; ok && sel.Kind() == types.MethodVal {
						obj := sel.Obj()
						if types.IsInterface(sel.Recv()) {
							if m := g.dispatch(sel); m != nil {
								obj = m
							}
						}
						if tf, ok := obj.(*types.Func); ok {
							if fn := g.byObj[tf]; fn != nil && fn.inout {
								add(f.X)
							}
						}
					}
				}
			}
			return true
		})
	}
	sort.Slice(out, func(i, j int) bool { return out[i].Pos() < out[j].Pos() })
	return out
}

func pgAssigned(info *types.Info, nodes ...ast.Node) []*types.Var {
	return pgAssignedG(nil, info, nodes...)
}

// ---- statements ----

func (c *pgCtx) lets(pre []string, body pgNode) pgNode {
	body = pgForce(body)
	for i := len(pre) - 1; i >= 0; i-- {
		body = &pgLet{pre[i], body}
	}
	return body
}

func (c *pgCtx) stmts(list []ast.Stmt, k pgNode) pgNode {
	for i := len(list) - 1; i >= 0; i-- {
		k = c.stmt(list[i], k)
	}
	return pgForce(k)
}

// x = v where x is a variable or a field path of a variable; returns the `let` line
func (c *pgCtx) assignPath(lhs ast.Expr, v string) string {
	switch x := lhs.(type) {
	case *ast.ParenExpr:
		return c.assignPath(x.X, v)
	case *ast.Ident:
		if x.Name == "_" {
			return "let _ := " + v
		}
		o := c.info.Defs[x]
		if o == nil {
			o = c.info.Uses[x]
		}
		lv, ok := pgLocal(o)
		if !ok {
			pgFail("assignment to %s, which is not a local variable", x.Name)
		}
		return "let " + c.name(lv) + " : " + c.varTyp(lv) + " := " + v
	case *ast.SelectorExpr:
		sel, ok := c.info.Selections[x]
		if !ok || sel.Kind() != types.FieldVal || len(sel.Index()) != 1 {
			pgFail("assignment to %s", norm(lhs))
		}
		c.typ(sel.Obj().Type())
		var pre []string
		base := c.atom(x.X, &pre)
		if len(pre) != 0 {
			pgFail("assignment to %s", norm(lhs))
		}
		return c.assignPath(x.X, "{ "+base+" with "+pgField(sel.Obj().Name())+" := "+v+" }")
	case *ast.IndexExpr: // an element of an owned list (the index was read before: it is in range)
		if !strings.HasPrefix(c.typ(c.info.TypeOf(x.X)), "List ") {
			pgFail("assignment to %s", norm(lhs))
		}
		var pre []string
		base := c.atom(x.X, &pre)
		i := c.atom(x.Index, &pre)
		if len(pre) != 0 {
			pgFail("assignment to %s", norm(lhs))
		}
		return c.assignPath(x.X, "("+base+".set (Int.toNat "+i+") "+v+")")
	}
	pgFail("assignment to %s is outside the subset", norm(lhs))
	return ""
}

func (c *pgCtx) assign(lhs ast.Expr, rhs ast.Expr, op token.Token, k pgNode) pgNode {
	var pre []string
	if t := c.info.TypeOf(lhs); t != nil && pgIsString(t) && op == token.ILLEGAL { // text into a field, bytes into a variable
		_, isField := lhs.(*ast.SelectorExpr)
		if id, ok := pgUnparen(lhs).(*ast.Ident); ok {
			o := c.info.Defs[id]
			if o == nil {
				o = c.info.Uses[id]
			}
			isField = c.isText(o) // a text variable takes text, like a field
		}
		v := c.strVal(rhs, isField, &pre)
		return c.lets(append(pre, c.assignPath(lhs, v)), k)
	}
	if ix, ok := lhs.(*ast.IndexExpr); ok && strings.HasPrefix(c.typ(c.info.TypeOf(ix.X)), "List ") {
		if op != token.ILLEGAL {
			pgFail("assignment to %s", norm(lhs))
		}
		el := c.info.TypeOf(ix.X).Underlying().(*types.Slice).Elem()
		pre = append(pre, "let _ ← Go.listIdx "+c.atom(ix.X, &pre)+" "+pgP(c.atom(ix.Index, &pre))) // the bounds check
		v := c.arg(rhs, el, &pre)
		return c.lets(append(pre, c.assignPath(lhs, v)), k)
	}
	if ix, ok := lhs.(*ast.IndexExpr); ok {
		a := c.atom(ix.X, &pre)
		i := c.atom(ix.Index, &pre)
		get, set := "Go.idx", "Go.setIdx"
		switch c.typ(c.info.TypeOf(ix.X)) {
		case "Sl":
		case "Mp":
			get, set = "Go.mapGet", "Go.mapSet"
		default:
			pgFail("assignment to %s", norm(lhs))
		}
		var v string
		if op == token.ILLEGAL {
			v = c.arg(rhs, c.info.TypeOf(lhs), &pre)
		} else {
			t := c.tmp()
			pre = append(pre, "let "+t+" ← "+get+" "+a+" "+pgP(i))
			r := "1"
			if rhs != nil {
				r = c.atom(rhs, &pre)
			}
			v = "(" + t + " " + op.String() + " " + r + ")"
		}
		pre = append(pre, set+" "+a+" "+pgP(i)+" "+pgP(v))
		return c.lets(pre, k)
	}
	var v string
	if op == token.ILLEGAL {
		if call, ok := rhs.(*ast.CallExpr); ok && c.isInoutCall(call) {
			p, vals := c.inoutCall(call)
			if len(vals) != 1 {
				pgFail("assignment %s", norm(rhs))
			}
			return c.lets(append(p, c.assignPath(lhs, vals[0])), k)
		}
		p, code, mon := c.parts(rhs)
		pre = append(pre, p...)
		if mon {
			if id, ok := lhs.(*ast.Ident); ok { // x := call: bind directly
				line := c.assignPath(id, "")
				line = strings.TrimSuffix(line, ":= ") + "← " + code
				return c.lets(append(pre, line), k)
			}
			t := c.tmp()
			pre = append(pre, "let "+t+" ← "+code)
			code = t
		}
		v = code
	} else {
		cur := c.atom(lhs, &pre)
		r := "1"
		if rhs != nil {
			r = c.atom(rhs, &pre)
		}
		v = "(" + cur + " " + op.String() + " " + r + ")"
	}
	return c.lets(append(pre, c.assignPath(lhs, v)), k)
}

var pgAssignOps = map[token.Token]token.Token{token.ADD_ASSIGN: token.ADD, token.SUB_ASSIGN: token.SUB, token.MUL_ASSIGN: token.MUL}

func (c *pgCtx) pattern(lhs []ast.Expr) string {
	var ns []string
	for _, l := range lhs {
		id, ok := l.(*ast.Ident)
		if !ok {
			pgFail("tuple assignment to %s", norm(l))
		}
		if id.Name == "_" {
			ns = append(ns, "_")
			continue
		}
		o := c.info.Defs[id]
		if o == nil {
			o = c.info.Uses[id]
		}
		lv, ok := pgLocal(o)
		if !ok {
			pgFail("assignment to %s, which is not a local variable", id.Name)
		}
		c.typ(lv.Type())
		ns = append(ns, c.name(lv))
	}
	return "(" + strings.Join(ns, ", ") + ")"
}

func (c *pgCtx) stmt(s ast.Stmt, k pgNode) pgNode {
	switch x := s.(type) {
	case *ast.EmptyStmt:
		return k
	case *ast.BlockStmt:
		return c.stmts(x.List, k)
	case *ast.ReturnStmt:
		if c.helperK != nil && len(x.Results) == 1 { // a `return` of a helper translated in continuation style
			return c.helperK(x.Results[0])
		}
		var pre, vals []string
		if len(x.Results) == 1 {
			if call, ok := x.Results[0].(*ast.CallExpr); ok && c.isInoutCall(call) {
				p, vs := c.inoutCall(call)
				return c.lets(p, c.ret(vs))
			}
		}
		for i, r := range x.Results {
			var want types.Type
			if c.resT != nil && i < c.resT.Len() {
				want = c.resT.At(i).Type()
			}
			// `return &v` of a local struct variable: struct pointers are owned values, and nothing runs after the return
			// that could see the variable again, so the pointer is the variable's value
			if u, ok := pgUnparen(r).(*ast.UnaryExpr); ok && u.Op == token.AND && c.inLit == nil {
				if id, ok := pgUnparen(u.X).(*ast.Ident); ok {
					if v, ok := pgLocal(c.info.Uses[id]); ok {
						if n, _ := pgStructOf(v.Type()); n != nil {
							if _, isPtr := v.Type().(*types.Pointer); !isPtr {
								r = id
							}
						}
					}
				}
			}
			vals = append(vals, c.arg(r, want, &pre))
		}
		return c.lets(pre, c.ret(vals))
	case *ast.DeclStmt:
		gd, ok := x.Decl.(*ast.GenDecl)
		if !ok || gd.Tok != token.VAR {
			pgFail("declaration %s", norm(x))
		}
		var todo []func(pgNode) pgNode
		for _, sp := range gd.Specs {
			vs := sp.(*ast.ValueSpec)
			if len(vs.Values) != 0 && len(vs.Values) != len(vs.Names) {
				pgFail("declaration %s", norm(x))
			}
			for i, id := range vs.Names {
				id := id
				if len(vs.Values) == 0 {
					o := c.info.Defs[id]
					todo = append(todo, func(k pgNode) pgNode {
						if c.isText(o) {
							return &pgLet{"let " + c.name(o) + " : String := \"\"", k}
						}
						return &pgLet{"let " + c.name(o) + " : " + c.typ(o.Type()) + " := " + c.zero(o.Type()), k}
					})
				} else {
					v := vs.Values[i]
					todo = append(todo, func(k pgNode) pgNode { return c.assign(id, v, token.ILLEGAL, k) })
				}
			}
		}
		for i := len(todo) - 1; i >= 0; i-- {
			k = todo[i](k)
		}
		return k
	case *ast.IncDecStmt:
		op := token.ADD
		if x.Tok == token.DEC {
			op = token.SUB
		}
		return c.assign(x.X, nil, op, k)
	case *ast.AssignStmt:
		if op, ok := pgAssignOps[x.Tok]; ok && len(x.Lhs) == 1 {
			return c.assign(x.Lhs[0], x.Rhs[0], op, k)
		}
		if x.Tok != token.ASSIGN && x.Tok != token.DEFINE {
			pgFail("assignment operator %s", x.Tok)
		}
		if len(x.Lhs) == 1 && len(x.Rhs) == 1 {
			return c.assign(x.Lhs[0], x.Rhs[0], token.ILLEGAL, k)
		}
		if len(x.Rhs) == 1 {
			var pre []string
			if ix, ok := x.Rhs[0].(*ast.IndexExpr); ok && len(x.Lhs) == 2 && c.typ(c.info.TypeOf(ix.X)) == "Mp" {
				a := c.atom(ix.X, &pre)
				i := c.atom(ix.Index, &pre)
				return c.lets(append(pre, "let "+c.pattern(x.Lhs)+" ← Go.mapGet2 "+a+" "+pgP(i)), k)
			}
			if call, ok := x.Rhs[0].(*ast.CallExpr); ok {
				p, code, _ := c.call(call)
				return c.lets(append(p, "let "+c.pattern(x.Lhs)+" ← "+code), k)
			}
		}
		pgFail("assignment %s is outside the subset", norm(x))
	case *ast.ExprStmt:
		call, ok := x.X.(*ast.CallExpr)
		if !ok {
			pgFail("statement %s", norm(x))
		}
		if id, ok := call.Fun.(*ast.Ident); ok {
			if b, ok := c.info.Uses[id].(*types.Builtin); ok && b.Name() == "panic" {
				return &pgTerm{"Go.panic"}
			}
		}
		fn, recv, _ := c.callee(call)
		if fn != nil && fn.inout {
			id, ok := recv.(*ast.Ident)
			if !ok || fn.ext {
				p, _ := c.inoutCall(call)
				return c.lets(p, k)
			}
			c.fn.deps = append(c.fn.deps, fn)
			var pre []string
			r := c.atom(id, &pre)
			as := []string{r}
			for i, a := range call.Args {
				if c.isText(fn.obj.Type().(*types.Signature).Params().At(i)) {
					as = append(as, c.strVal(a, true, &pre))
					continue
				}
				as = append(as, c.arg(a, fn.obj.Type().(*types.Signature).Params().At(i).Type(), &pre))
			}
			pat := r
			if n := fn.obj.Type().(*types.Signature).Results().Len(); n > 0 {
				pat = "(" + r + strings.Repeat(", _", n) + ")"
			}
			return c.lets(append(pre, "let "+pat+" ← "+fn.key+" "+strings.Join(as, " ")), k)
		}
		pre, code, mon := c.parts(call)
		if !mon {
			pgFail("statement %s", norm(x))
		}
		unit := false
		if sig, ok := c.info.TypeOf(call.Fun).Underlying().(*types.Signature); ok && sig.Results().Len() == 0 {
			unit = true
		}
		if unit {
			return c.lets(append(pre, code), k)
		}
		return c.lets(append(pre, "let _ ← "+code), k)
	case *ast.IfStmt:
		if n := c.inlineCond(x, k); n != nil {
			return n
		}
		var pre []string
		cond := c.atom(x.Cond, &pre)
		els := k
		if x.Else != nil {
			els = c.stmt(x.Else, k)
		}
		n := c.lets(pre, &pgIf{cond, c.stmts(x.Body.List, k), pgForce(els)})
		if x.Init != nil {
			return c.stmt(x.Init, n)
		}
		return n
	case *ast.SwitchStmt:
		return c.switchStmt(x, k)
	case *ast.ForStmt:
		n := c.forLoop(x, k)
		if x.Init != nil {
			return c.stmt(x.Init, n)
		}
		return n
	case *ast.RangeStmt:
		return c.rangeLoop(x, k)
	case *ast.LabeledStmt: // a labelled loop: `break L` / `continue L` from inside it (typically from inside a switch)
		switch x.Stmt.(type) {
		case *ast.ForStmt, *ast.RangeStmt:
			c.label = x.Label.Name
			n := c.stmt(x.Stmt, k)
			c.label = ""
			return n
		}
		pgFail("labelled statement %s", norm(x))
	case *ast.BranchStmt:
		if len(c.loops) == 0 || (x.Tok != token.BREAK && x.Tok != token.CONTINUE) {
			pgFail("branch statement %s", norm(x))
		}
		if x.Label != nil && c.loops[len(c.loops)-1].label != x.Label.Name { // only the innermost loop can be left: no signal passes a loop function
			pgFail("branch statement %s: the label is not the innermost loop's", norm(x))
		}
		if x.Tok == token.BREAK {
			if c.inSwch > 0 && x.Label == nil {
				pgFail("break inside a switch")
			}
			return c.loops[len(c.loops)-1].brk
		}
		return c.loops[len(c.loops)-1].cont
	}
	pgFail("statement %s is outside the subset", norm(s))
	return nil
}

func (c *pgCtx) switchStmt(x *ast.SwitchStmt, k pgNode) pgNode {
	var pre []string
	tag := ""
	if x.Tag != nil {
		if !pgIsInt(c.info.TypeOf(x.Tag)) {
			pgFail("switch on a non-integer")
		}
		tag = c.atom(x.Tag, &pre)
	}
	c.inSwch++
	defer func() { c.inSwch-- }()
	var dflt *ast.CaseClause
	var clauses []*ast.CaseClause
	for _, s := range x.Body.List {
		cc := s.(*ast.CaseClause)
		for _, b := range cc.Body {
			if br, ok := b.(*ast.BranchStmt); ok && br.Tok == token.FALLTHROUGH {
				pgFail("fallthrough")
			}
		}
		if cc.List == nil {
			dflt = cc
		} else {
			clauses = append(clauses, cc)
		}
	}
	var out pgNode
	if dflt != nil {
		out = c.stmts(dflt.Body, k)
	} else {
		out = pgForce(k)
	}
	for i := len(clauses) - 1; i >= 0; i-- {
		cc := clauses[i]
		// the case expressions are tried in order, each evaluated only when the earlier ones failed
		body := c.stmts(cc.Body, k)
		for j := len(cc.List) - 1; j >= 0; j-- {
			var p []string
			var cond string
			if tag == "" {
				cond = c.atom(cc.List[j], &p)
			} else {
				cond = "decide (" + tag + " = " + c.atom(cc.List[j], &p) + ")"
			}
			out = c.lets(p, &pgIf{cond, body, out})
		}
	}
	n := c.lets(pre, out)
	if x.Init != nil {
		return c.stmt(x.Init, n)
	}
	return n
}

// fuel: the sum of the upper bounds of the `<`-atoms of the loop condition, plus one
func (c *pgCtx) fuelAtoms(e ast.Expr, neg bool, out *[]string) {
	switch x := e.(type) {
	case *ast.ParenExpr:
		c.fuelAtoms(x.X, neg, out)
	case *ast.UnaryExpr:
		if x.Op == token.NOT {
			c.fuelAtoms(x.X, !neg, out)
		}
	case *ast.BinaryExpr:
		op := x.Op
		if neg {
			op = map[token.Token]token.Token{token.LSS: token.GEQ, token.LEQ: token.GTR, token.GTR: token.LEQ, token.GEQ: token.LSS,
				token.LAND: token.LAND, token.LOR: token.LOR}[op]
		}
		var bound ast.Expr
		switch op {
		case token.LAND, token.LOR:
			c.fuelAtoms(x.X, neg, out)
			c.fuelAtoms(x.Y, neg, out)
			return
		case token.LSS, token.LEQ:
			bound = x.Y
		case token.GTR, token.GEQ:
			bound = x.X
		default:
			return
		}
		if !pgIsInt(c.info.TypeOf(bound)) {
			return
		}
		func() {
			defer func() {
				if r := recover(); r != nil {
					if _, ok := r.(pgErr); !ok {
						panic(r)
					}
				}
			}()
			pre, code, mon := c.parts(bound)
			if len(pre) == 0 && !mon {
				*out = append(*out, code)
			}
		}()
	}
}

type pgVar struct{ name, typ string }

// emit the loop function and return the statement that runs it
func (c *pgCtx) emitLoop(kind string, region []ast.Node, inside func(token.Pos) bool, extraFixed, extraState []pgVar,
	first string, firstPat string, body func(name string, call func(first string) pgNode, done pgNode) pgNode, k pgNode) pgNode {
	assigned := map[*types.Var]bool{}
	for _, v := range pgAssignedG(c.g, c.info, region...) {
		assigned[v] = true
	}
	var fixed, state []pgVar
	for _, v := range pgUsed(c.info, region...) {
		if inside(v.Pos()) || c.loopLocal[v] {
			continue
		}
		pv := pgVar{c.name(v), c.varTyp(v)}
		if assigned[v] {
			state = append(state, pv)
		} else {
			fixed = append(fixed, pv)
		}
	}
	fixed = append(fixed, extraFixed...)
	state = append(state, extraState...)
	if c.fn.ext {
		fixed = append([]pgVar{{"X", "Ext"}}, fixed...)
	}
	hasRet := pgHasReturn(region)
	*c.nloop++
	name := fmt.Sprintf("%s_loop%d", c.fn.key, *c.nloop)
	var fx, fxn, stn, stt, wild []string
	for _, v := range fixed {
		fx = append(fx, "("+v.name+" : "+v.typ+")")
		fxn = append(fxn, v.name)
	}
	for _, v := range state {
		stn = append(stn, v.name)
		stt = append(stt, pgAtomT(v.typ))
		wild = append(wild, "_")
	}
	resT := "Unit"
	if len(stt) == 1 {
		resT = stt[0]
	} else if len(stt) > 1 {
		resT = "(" + strings.Join(stt, " × ") + ")"
	}
	done := &pgTerm{pgTuple(stn, "pure ")}
	var oldRaw func(string) pgNode
	if hasRet {
		// a `return` inside the loop: the loop function answers (some result, state) there and (none, state) at its
		// normal exit; the caller returns the result or goes on
		if c.resTy == "" {
			pgFail("return inside a loop of a function literal")
		}
		resT = "(Option " + pgAtomT(c.resTy) + " × " + resT + ")"
		done = &pgTerm{"pure (none, " + pgTuple(stn, "") + ")"}
		oldRaw = c.retRaw
		c.retRaw = func(term string) pgNode { return &pgTerm{"pure (some (" + term + "), " + pgTuple(stn, "") + ")"} }
	}
	call := func(first string) pgNode {
		return &pgTerm{strings.Join(append(append([]string{name}, fxn...), append([]string{first}, stn...)...), " ")}
	}
	b := body(name, call, done)
	if hasRet {
		c.retRaw = oldRaw
	}
	var lines []string
	pgPrint(b, "    ", &lines)
	sig := strings.Join(append([]string{kind}, stt...), " → ")
	hdr := fmt.Sprintf("def %s %s : %s → M %s", name, strings.Join(fx, " "), sig, resT)
	hdr = strings.Replace(hdr, "  :", " :", 1)
	var base string
	if kind == "Nat" {
		base = "  | " + strings.Join(append([]string{"0"}, wild...), ", ") + " => Go.outOfFuel\n"
	} else {
		base = "  | " + strings.Join(append([]string{"[]"}, stn...), ", ") + " => " + done.code + "\n"
	}
	step := "  | " + strings.Join(append([]string{firstPat}, stn...), ", ") + " => do\n"
	*c.aux = append(*c.aux, hdr+"\n"+base+step+strings.Join(lines, "\n")+"\n")
	run := strings.Join(append(append([]string{name}, fxn...), append([]string{first}, stn...)...), " ")
	if hasRet {
		rv, r := c.tmp(), c.tmp()
		pat := "(" + strings.Join(append([]string{rv}, stn...), ", ") + ")"
		if len(stn) == 0 {
			pat = "(" + rv + ", _)"
		}
		return &pgLet{"let " + pat + " ← " + run, &pgMatchOpt{rv, r, c.retRaw(r), pgForce(k)}}
	}
	switch len(stn) {
	case 0:
		return &pgLet{run, pgForce(k)}
	case 1:
		return &pgLet{"let " + stn[0] + " ← " + run, pgForce(k)}
	}
	return &pgLet{"let (" + strings.Join(stn, ", ") + ") ← " + run, pgForce(k)}
}

func (c *pgCtx) forLoop(x *ast.ForStmt, k pgNode) pgNode {
	label := c.label
	c.label = ""
	var atoms []string
	if x.Cond != nil {
		c.fuelAtoms(x.Cond, false, &atoms)
	}
	if len(atoms) == 0 { // no `<` in the condition (or no condition): the guards of the body and the lengths the loop mentions
		atoms = c.guardFuel(x)
	}
	if len(atoms) == 0 {
		pgFail("no fuel bound for the loop condition %s", norm(x.Cond))
	}
	fuel := "(Int.toNat (" + strings.Join(atoms, " + ") + ") + 1)"
	inside := func(p token.Pos) bool { return x.Body.Pos() <= p && p < x.Body.End() }
	var post ast.Node
	if x.Post != nil {
		post = x.Post
	}
	return c.emitLoop("Nat", []ast.Node{x.Cond, x.Body, post}, inside, nil, nil, fuel, "fuel + 1",
		func(name string, call func(string) pgNode, done pgNode) pgNode {
			again := call("fuel")
			if x.Post != nil {
				again = c.stmt(x.Post, again)
			}
			c.loops = append(c.loops, pgLoopK{done, again, label})
			sw := c.inSwch
			c.inSwch = 0
			body := c.stmts(x.Body.List, again)
			c.inSwch = sw
			c.loops = c.loops[:len(c.loops)-1]
			if x.Cond == nil {
				return body
			}
			var pre []string
			cond := c.atom(x.Cond, &pre)
			return c.lets(pre, &pgIf{cond, body, done})
		}, k)
}

func (c *pgCtx) rangeVar(e ast.Expr, tok token.Token) string {
	if e == nil {
		return "_"
	}
	id, ok := e.(*ast.Ident)
	if !ok || (tok != token.DEFINE && id.Name != "_") {
		pgFail("range assigns to %s", norm(e))
	}
	if id.Name == "_" {
		return "_"
	}
	o := c.info.Defs[id]
	c.typ(o.Type())
	return c.name(o)
}

func (c *pgCtx) rangeLoop(x *ast.RangeStmt, k pgNode) pgNode {
	var pre []string
	coll := c.atom(x.X, &pre)
	kv, vv := c.rangeVar(x.Key, x.Tok), c.rangeVar(x.Value, x.Tok)
	inside := func(p token.Pos) bool { return x.Pos() <= p && p < x.End() }
	label := c.label
	c.label = ""
	runBody := func(again, done pgNode) pgNode {
		c.loops = append(c.loops, pgLoopK{done, again, label})
		sw := c.inSwch
		c.inSwch = 0
		b := c.stmts(x.Body.List, again)
		c.inSwch = sw
		c.loops = c.loops[:len(c.loops)-1]
		return b
	}
	if lt := c.typ(c.info.TypeOf(x.X)); strings.HasPrefix(lt, "List ") { // an owned list: recursion over it
		if kv != "_" {
			pgFail("range over a list of structs with an index variable")
		}
		n := c.emitLoop(pgAtomT(lt), []ast.Node{x.Body}, inside, nil, nil, coll, vv+" :: rest",
			func(name string, call func(string) pgNode, done pgNode) pgNode {
				return runBody(call("rest"), done)
			}, k)
		return c.lets(pre, n)
	}
	switch c.typ(c.info.TypeOf(x.X)) {
	case "Sl":
		// the range expression is evaluated once; element k is read in round k
		rng, cnt := c.fresh("rng"), c.fresh("k")
		pre = append(pre, "let "+rng+" := "+coll)
		n := c.emitLoop("Nat", []ast.Node{x.Body}, inside, []pgVar{{rng, "Sl"}}, []pgVar{{cnt, "Int"}},
			"(Int.toNat (Go.len "+rng+") + 1)", "fuel + 1",
			func(name string, call func(string) pgNode, done pgNode) pgNode {
				again := &pgLet{"let " + cnt + " := (" + cnt + " + 1)", call("fuel")}
				b := runBody(again, done)
				if vv != "_" {
					b = &pgLet{"let " + vv + " ← Go.idx " + rng + " " + cnt, b}
				}
				if kv != "_" {
					b = &pgLet{"let " + kv + " : Int := " + cnt, b}
				}
				return &pgIf{"decide (" + cnt + " < Go.len " + rng + ")", b, done}
			}, k)
		// the hidden counter starts at 0 and is dropped afterwards
		l := n.(*pgLet)
		return c.lets(append(pre, "let "+cnt+" : Int := 0"), l)
	case "Mp":
		es := c.tmp()
		pre = append(pre, "let "+es+" ← Go.mapEntries "+coll)
		n := c.emitLoop("List (Int × Int)", []ast.Node{x.Body}, inside, nil, nil, es, "("+kv+", "+vv+") :: rest",
			func(name string, call func(string) pgNode, done pgNode) pgNode {
				return runBody(call("rest"), done)
			}, k)
		return c.lets(pre, n)
	}
	pgFail("range over %s", norm(x.X))
	return nil
}

// ---- functions ----

func (g *pgGen) translate(fn *pgFn) {
	defer func() {
		if r := recover(); r != nil {
			e, ok := r.(pgErr)
			if !ok {
				panic(r)
			}
			fn.err, fn.text = e.msg, nil
		}
	}()
	sig := fn.obj.Type().(*types.Signature)
	c := &pgCtx{g: g, fn: fn, info: fn.pkg.info, names: map[types.Object]string{}, taken: map[string]bool{}, ntmp: new(int), nloop: new(int), aux: new([]string)}
	var params []string
	var recvName string
	if r := sig.Recv(); r != nil {
		recvName = c.name(r)
		c.recv = r
		params = append(params, "("+recvName+" : "+c.typ(r.Type())+")")
	}
	if sig.Variadic() && fn.decl.Recv != nil {
		pgFail("variadic method")
	}
	for i := 0; i < sig.Params().Len(); i++ {
		p := sig.Params().At(i)
		params = append(params, "("+c.name(p)+" : "+c.varTyp(p)+")")
	}
	for i := 0; i < sig.Results().Len(); i++ {
		if sig.Results().At(i).Name() != "" {
			pgFail("named results")
		}
	}
	var recvT types.Type
	if sig.Recv() != nil {
		recvT = sig.Recv().Type()
	}
	resT, ok := g.resultType(sig, fn.inout, recvT)
	if !ok {
		pgFail("result type %s is outside the subset", types.TypeString(sig.Results(), qual))
	}
	c.resT = sig.Results()
	c.resTy = resT
	c.retRaw = func(term string) pgNode { return &pgTerm{"pure " + term} }
	c.ret = func(vals []string) pgNode {
		if len(vals) != sig.Results().Len() {
			pgFail("the end of the body is reachable but the function has results")
		}
		if fn.inout {
			vals = append([]string{recvName}, vals...)
		}
		return c.retRaw(pgTuple(vals, ""))
	}
	if fn.ext {
		params = append([]string{"(X : Ext)"}, params...)
	}
	c.loopLocal = g.normalise(fn)
	body := c.stmts(fn.decl.Body.List, c.ret0())
	var lines []string
	pgPrint(body, "  ", &lines)
	doc := fn.pkg.tpkg.Name() + "." + fn.key
	if fn.inout {
		doc += " (pointer receiver, written: returned as the first component)"
	}
	def := fmt.Sprintf("/-- %s -/\ndef %s %s : M %s := do\n%s\n", doc, fn.key, strings.Join(params, " "), resT, strings.Join(lines, "\n"))
	fn.text = append(*c.aux, def)
}

func writeProgFacts(path string) error {
	g := &pgGen{fset: fset, byObj: map[*types.Func]*pgFn{}, sdone: map[string]bool{}}
	l := &concLoader{fset: fset, module: readModulePath(repo), root: repo, pkgs: map[string]*concPkg{}, loading: map[string]bool{}}
	l.std = importer.ForCompiler(fset, "source", nil)
	var bad []string
	g.ld = l
	bad = append(bad, g.resolveImpl(l)...)
	for _, t := range progTargets {
		key := t.name
		if t.recv != "" {
			key = t.recv + "_" + t.name // no dots: a dotted definition name would open that namespace inside its body
		}
		p, err := l.load(l.module + "/" + t.pkg)
		if err != nil || p.tpkg == nil {
			bad = append(bad, fmt.Sprintf("%s: package %s does not load", key, t.pkg))
			continue
		}
		var found *pgFn
		for _, f := range p.files {
			for _, d := range f.Decls {
				fd, ok := d.(*ast.FuncDecl)
				if !ok || fd.Name.Name != t.name || fd.Body == nil {
					continue
				}
				obj, _ := p.info.Defs[fd.Name].(*types.Func)
				if obj == nil {
					continue
				}
				recv := ""
				if r := obj.Type().(*types.Signature).Recv(); r != nil {
					if n, _ := pgStructOf(r.Type()); n != nil {
						recv = n.Obj().Name()
					} else if n, ok := r.Type().(*types.Named); ok && (pgIsInt(n) || pgIsString(n)) { // a method of a named integer / string type
						recv = n.Obj().Name()
					} else {
						recv = "?"
					}
				}
				if recv == t.recv {
					found = &pgFn{key: key, pkg: p, decl: fd, obj: obj}
				}
			}
		}
		if found == nil {
			bad = append(bad, key+": not found in package "+t.pkg)
			continue
		}
		if g.byObj[found.obj] == nil {
			g.byObj[found.obj] = found
			g.fns = append(g.fns, found)
		}
	}
	// which pointer-receiver methods write their receiver (directly or through another such method): fixpoint
	for changed := true; changed; {
		changed = false
		for _, fn := range g.fns {
			r := fn.obj.Type().(*types.Signature).Recv()
			if r == nil || fn.inout {
				continue
			}
			if _, isPtr := r.Type().(*types.Pointer); !isPtr {
				continue
			}
			for _, v := range pgAssignedG(g, fn.pkg.info, fn.decl.Body) {
				if v == r {
					fn.inout, changed = true, true
				}
			}
		}
	}
	g.markExt()
	g.textVars = map[*types.Var]bool{}
	for _, fn := range g.fns {
		for v := range pgTextVars(fn.pkg.info, fn.decl) {
			g.textVars[v] = true
		}
	}
	for _, fn := range g.fns {
		g.translate(fn)
	}
	// a function whose callee failed fails too; emit callees first; never emit a name twice
	emitted := map[string]bool{}
	for n := range g.sdone { // a function may not take the name of a generated structure
		emitted[n] = true
	}
	var out []string
	var visit func(fn *pgFn, stack map[*pgFn]bool) bool
	state := map[*pgFn]int{} // 1 = ok and emitted, 2 = failed
	visit = func(fn *pgFn, stack map[*pgFn]bool) bool {
		if state[fn] != 0 {
			return state[fn] == 1
		}
		if stack[fn] {
			fn.err = "recursion"
			return false
		}
		stack[fn] = true
		defer delete(stack, fn)
		ok := fn.err == ""
		for _, d := range fn.deps {
			if d != fn && !visit(d, stack) && ok {
				ok = false
				fn.err = "calls " + d.key + ", which is not translated"
			}
		}
		if ok && emitted[fn.key] {
			ok, fn.err = false, "a declaration of this name was already generated"
		}
		if ok {
			emitted[fn.key] = true
			out = append(out, fn.text...)
			state[fn] = 1
		} else {
			state[fn] = 2
		}
		return ok
	}
	var names []string
	for _, fn := range g.fns {
		if visit(fn, map[*pgFn]bool{}) {
			names = append(names, fn.key)
		} else {
			bad = append(bad, fn.key+": "+fn.err)
		}
	}
	for _, e := range l.errs {
		if len(bad) < 40 {
			bad = append(bad, "type check: "+e)
		}
	}
	var sb strings.Builder
	sb.WriteString("/- GENERATED by harness/cmd/factgen (-out-prog): whole Go functions TRANSLATED statement by statement into Lean\n   definitions (monad and primitives: Generated/ProgPrelude.lean), from the repository's current source on every run.\n   Do not edit. -/\nimport ParsleyVerif.Generated.ProgPrelude\nset_option linter.unusedVariables false\nnamespace PV.FactsProg\nopen PV.ProgPrelude\n\n")
	for _, s := range g.structs {
		sb.WriteString(s + "\n")
	}
	for _, s := range out {
		sb.WriteString(s + "\n")
	}
	q := func(l []string) string {
		qs := make([]string, len(l))
		for i, s := range l {
			qs[i] = strconv.Quote(s)
		}
		return strings.Join(qs, ",\n  ")
	}
	fmt.Fprintf(&sb, "/-- the functions translated above -/\ndef translatedProg : List String := [\n  %s]\n\n", q(names))
	fmt.Fprintf(&sb, "/-- what the translator was asked for and could not translate, with the reason -/\ndef untranslatedProg : List String := [\n  %s]\n\nend PV.FactsProg\n", q(bad))
	return os.WriteFile(path, []byte(sb.String()), 0o644)
}
