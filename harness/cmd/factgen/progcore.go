package main

// Sixth output (-out-core): the statement-level translator for the PARSER CORE (the parse closures of combinator/,
// parser/, text/trim.go; parsley/context.go, result_cache.go, parse.go; ast.AppendNode / NodeList.Append).
// Target run-time: lean/ParsleyVerif/Generated/CorePrelude.lean (hand-written).  Same scheme as progfacts.go
// (continuation-passing translation of statements, `let` shadowing, loops as generated recursive functions,
// whatever does not fit is listed in `untranslatedCore` and nothing is emitted for it), with these differences:
//   * VALUE level: a slice is a list, a map a finite function, `*T` for a struct T an Option (a receiver and a local
//     initialised with &T{…} are owned struct values);
//   * every variable of type *parsley.Context is THE context = the state of the monad (field reads `Go.read`, writes
//     `Go.modify`); such parameters are dropped;
//   * a call of an interface method is a call of the world parameter `W` (parsley.Parser.Parse, the reader's methods)
//     or of a prelude function (the methods of parsley.Node and parsley.Error values);
//   * calls into package data are calls of the prelude's value-level `Data.*` functions;
//   * a constructor `func X(…) parser.Func { pre…; return func(ctx, leftRecCtx, pos) {…} }` is translated as the
//     function X_parse: the literal's body, the variables it captures (parameters of X, variables defined by the
//     statements before the return) being extra parameters; the statements before the return run at construction time
//     and are not translated;
//   * `return` inside a `range` loop: the loop function answers `Brk.ret r` or `Brk.done state`;
//   * functions on a recursive cycle take a fuel argument (fuel 0 = `outOfFuel`), every call inside the cycle passes
//     fuel-1; a loop whose body calls into the cycle takes the callee as a function parameter (so that the loop stays
//     structurally recursive on its list); callers outside the cycle pass on a fuel parameter of their own, or the
//     hint of pcFuelHint (a wrong hint can only produce `outOfFuel`);
//   * type switches and `x, ok := n.(T)` on nodes are the prelude's `Node.asT` tests, tried in order;
//   * an `if` whose branches neither return nor break/continue is a JOIN POINT: a block that yields the variables it
//     assigns, so that the continuation is not duplicated; in a function on a recursive cycle, what follows the last
//     top-level join point is emitted as the auxiliary function <fn>_k1 (the cycle members being parameters);
//   * a method that writes its receiver (a pointer, a map, a pointer to a slice) returns it first; the call binds it back
//     to the variable or field path it was read from — for `ctx.Getter().Method(…)`, with Getter a one-line
//     `return c.field`, to that field of the context; such a call with one result may be used as a value.
//   * a call of an unexported function / method of the package that is not a target (a helper a refactoring split off) is
//     translated IN LINE (prochelper.go): as a block `(do let params := args; body)` where a value is wanted, in continuation
//     style where it is the whole condition of an `if` whose branches jump (so that `if found(xs) { return … }` over a
//     helper that loops and returns true is the same loop-with-return the helper was extracted from); the call graph
//     (cycles, fuel) looks through helpers;
//   * maps are VALUES: a write `m[k] = v` into a local variable that may alias another map (`inner := outer[k]`) is refused
//     (it would be lost at value level), a write along a path `a[k1][k2] = v` rebinds every map on the path.
// The translator is spread over progcore.go (types), progcore2.go (expressions, calls), progcore3.go (statements, loops),
// progcore4.go (functions, cycles, the writer), prochelper.go (helpers).

import (
	"fmt"
	"go/ast"
	"go/types"
	"strconv"
	"strings"
)

type pcTarget struct {
	pkg, recv, name string
	closure         bool
}

var coreTargets = []pcTarget{
	// stage 1
	{"parsley", "Context", "RegisterCall", false}, {"parsley", "Context", "SetError", false}, {"parsley", "Context", "Error", false},
	{"parsley", "Context", "ResultCache", false}, {"parsley", "Context", "Reader", false},
	{"parsley", "Context", "TransformationEnabled", false}, {"parsley", "Context", "StaticCheckEnabled", false},
	{"parsley", "ResultCache", "Save", false}, {"parsley", "ResultCache", "Get", false},
	{"ast", "NodeList", "Append", false}, {"ast", "", "AppendNode", false},
	{"combinator", "", "Optional", true}, {"combinator", "", "Single", true}, {"combinator", "", "SuppressError", true},
	{"parser", "", "ReturnError", true}, {"parser", "", "Empty", true}, {"parser", "", "End", true},
	// stage 2
	{"combinator", "", "Any", true}, {"combinator", "", "Choice", true}, {"combinator", "", "Memoize", true},
	// stage 3
	{"text", "", "LeftTrim", true}, {"text", "", "RightTrim", true}, {"parsley", "", "Parse", false},
	// stage 4
	{"combinator", "", "seqDefaultResultHandler", true},
	{"combinator", "sequence", "parse", false}, {"combinator", "sequence", "parseNext", false}, {"combinator", "sequence", "Parse", false},
	{"combinator", "Sequence", "Parse", false},
	{"combinator", "", "Seq", false}, {"combinator", "", "SeqOf", false}, {"combinator", "", "SeqTry", false},
	{"combinator", "", "SeqFirstOrAll", false}, {"combinator", "", "newMany", false}, {"combinator", "", "newSepBy", false},
	{"combinator", "", "ReturnSingle", false},
	{"combinator", "Sequence", "Name", false}, {"combinator", "Sequence", "Token", false},
	{"combinator", "Sequence", "HandleResult", false}, {"combinator", "Sequence", "Bind", false},
	{"combinator", "", "Many", false}, {"combinator", "", "Many1", false}, {"combinator", "", "SepBy", false}, {"combinator", "", "SepBy1", false},
}

// fuel passed by callers outside the cycle (an expression over the callee's parameter names)
var pcFuelHint = map[string]string{"NodeList_Append": "Node.depth node + 1"}

type pcFn struct {
	key      string
	pkg      *concPkg
	decl     *ast.FuncDecl
	obj      *types.Func
	lit      *ast.FuncLit
	pre      []ast.Stmt
	inout    bool
	ctxRecv  bool
	calls    []*pcFn
	rec      bool
	scc      int
	fuel     bool // takes a fuel argument
	text     []string
	deps     []*pcFn
	err      string
	aux      []string
	c        *pcCtx
	pnames   []string
	ptypes   []string
	resT     string
	recvName string
	body     *ast.BlockStmt
	sig      *types.Signature
	captured []*types.Var
	wrapper  string
	ftype    string // Lean type after (W) [and fuel]: for loops that take a cycle member as a parameter
	ctorOf   *pcFn  // term mode: this is the construction-time part (the statements before the `return`) of that closure target
}

type pcGen struct {
	byObj   map[*types.Func]*pcFn
	fns     []*pcFn
	structs []string
	sdone   map[string]bool
	tree    *ptMode // nil: the parser core (-out-core); otherwise the tree passes (-out-tree, progtree.go)
	term    *tmMode // non-nil: the terminal parsers (-out-term, progterm.go)
}

// the binder of the world parameter
func (g *pcGen) worldB() string {
	if g.tree != nil {
		return "(W : World St)"
	}
	if g.term != nil {
		return "(W : TWorld)"
	}
	return "(W : World Context)"
}

// the monad of the generated functions (the terminal closures are polymorphic in the state)
func (g *pcGen) mon() string {
	if g.term != nil {
		return "M σ"
	}
	return "M"
}

// ---- target language: pgLet / pgIf / pgTerm of progfacts.go plus a match ----

type pcCase struct {
	pat  string
	body pgNode
}
type pcMatch struct {
	scrut string
	cases []pcCase
}

func pcPrint(n pgNode, ind string, out *[]string) {
	switch x := n.(type) {
	case *pgLet:
		*out = append(*out, ind+x.line)
		pcPrint(x.body, ind, out)
	case *pgIf:
		*out = append(*out, ind+"if "+x.cond+" then")
		pcPrint(x.a, ind+"  ", out)
		for {
			if e, ok := x.b.(*pgIf); ok {
				*out = append(*out, ind+"else if "+e.cond+" then")
				pcPrint(e.a, ind+"  ", out)
				x = e
				continue
			}
			break
		}
		*out = append(*out, ind+"else")
		pcPrint(x.b, ind+"  ", out)
	case *pcMatch:
		*out = append(*out, ind+"match "+x.scrut+" with")
		for _, c := range x.cases {
			*out = append(*out, ind+"| "+c.pat+" => do")
			pcPrint(c.body, ind+"  ", out)
		}
	case *pgTerm:
		*out = append(*out, ind+x.code)
	}
}

func pcInline(n pgNode) string {
	switch x := n.(type) {
	case *pgLet:
		return x.line + "; " + pcInline(x.body)
	case *pgIf:
		return "if " + x.cond + " then (do " + pcInline(x.a) + ") else (do " + pcInline(x.b) + ")"
	case *pcMatch:
		s := "(match " + x.scrut + " with"
		for _, c := range x.cases {
			s += " | " + c.pat + " => (do " + pcInline(c.body) + ")"
		}
		return s + ")"
	case *pgTerm:
		return x.code
	}
	return ""
}

// ---- per-function context ----

type pcCtx struct {
	g          *pcGen
	fn         *pcFn
	info       *types.Info
	names      map[types.Object]string
	taken      map[string]bool
	ntmp       *int
	nloop      *int
	aux        *[]string
	ret        func(vals []string) pgNode
	retTuple   func(vals []string) string
	retRaw     func(v string) pgNode
	resLean    string
	recvObj    *types.Var
	liftTop    bool
	loops      []pgLoopK
	resT       *types.Tuple
	inSwch     int
	owned      map[types.Object]bool                // pointer variables that are owned struct values
	ctxObj     map[types.Object]bool                // variables of type *parsley.Context
	recRef     map[*pcFn]string                     // how to refer to a member of the current cycle here
	stateV     map[types.Object]string              // inside a state-passing closure: captured variables that are assigned
	boxed      map[types.Object]bool                // tree mode: local variables a function literal captures and assigns (cells of the store)
	inlining   map[*types.Func]bool                 // the helpers whose bodies are being translated in line here (prochelper.go)
	helperBody *ast.BlockStmt                       // the body of the helper being translated in line (nil: the function itself)
	helperK    func(at *pcCtx, res ast.Expr) pgNode // continuation-style helper (prochelper.go inlineCond): where a `return` of the helper's body goes on
}

var pcKeywords = map[string]bool{"W": true, "s_": true, "Data": true, "Node": true, "Err": true, "Cause": true, "Parser": true,
	"IntSet": true, "IntMap": true, "Map": true, "Brk": true, "World": true, "Bytes": true, "Opaque": true, "ReaderH": true,
	"Option": true, "default": true, "r_": true, "NewError": true, "NewErrorf": true, "IsNotFoundError": true, "IsWhitespaceError": true}

func (c *pcCtx) fresh(base string) string {
	for pgKeywords[base] || pcKeywords[base] || (c.g.tree != nil && ptKeywords[base]) || (c.g.term != nil && tmKeywords[base]) || c.taken[base] || strings.HasPrefix(base, "rec_") {
		base += "'"
	}
	c.taken[base] = true
	return base
}

func (c *pcCtx) name(o types.Object) string {
	if n, ok := c.names[o]; ok {
		return n
	}
	b := o.Name()
	if b == "_" || b == "" {
		b = "x"
	}
	n := c.fresh(b)
	c.names[o] = n
	return n
}

func (c *pcCtx) tmp() string {
	for {
		*c.ntmp++
		n := "t" + strconv.Itoa(*c.ntmp)
		if !c.taken[n] {
			c.taken[n] = true
			return n
		}
	}
}

// ---- types ----

func pcNamedPath(t types.Type) string {
	if p, ok := t.(*types.Pointer); ok {
		return "*" + pcNamedPath(p.Elem())
	}
	if n, ok := t.(*types.Named); ok && n.Obj().Pkg() != nil {
		return n.Obj().Pkg().Name() + "." + n.Obj().Name()
	}
	if n, ok := t.(*types.Named); ok {
		return n.Obj().Name()
	}
	return ""
}

// Go types with a fixed meaning in the prelude
var pcFixedType = map[string]string{
	"parsley.Parser": "Parser", "parsley.Node": "Node", "parsley.NonTerminalNode": "Node", "*ast.NonTerminalNode": "Node",
	"parsley.Error": "Err", "error": "Cause", "parsley.Reader": "ReaderH", "*text.Reader": "ReaderH",
	"parsley.Interpreter": "Opaque", "data.IntSet": "IntSet", "data.IntMap": "IntMap",
}

// struct types the translator turns into Lean structures
var pcStructOK = map[string]bool{"parsley.Result": true, "parsley.Context": true, "combinator.sequence": true, "combinator.Sequence": true}

func pcIsCtx(t types.Type) bool { return pcNamedPath(t) == "*parsley.Context" }

func (g *pcGen) leanType(t types.Type) (string, bool) {
	if g.tree != nil {
		if s, ok, done := g.treeType(t); done {
			return s, ok
		}
	} else {
		if g.term != nil {
			if s, ok, done := g.termType(t); done {
				return s, ok
			}
		}
		if s, ok := pcFixedType[pcNamedPath(t)]; ok {
			return s, true
		}
	}
	if pcIsCtx(t) {
		return "", false
	}
	switch {
	case pgIsInt(t):
		return "Int", true
	case pgIsBool(t):
		return "Bool", true
	case pgIsString(t):
		return "Bytes", true
	}
	if it, ok := t.Underlying().(*types.Interface); ok {
		if it.Empty() {
			return "Opaque", true
		}
		if pcNamedPath(t) == "combinator.SeqResultHandler" {
			return "(Option (Int → Bytes → List Node → Opaque → M Node))", true
		}
		return "", false
	}
	switch u := t.Underlying().(type) {
	case *types.Slice:
		if e, ok := g.leanType(u.Elem()); ok {
			return "(List " + e + ")", true
		}
	case *types.Map:
		if pgIsInt(u.Key()) {
			if e, ok := g.leanType(u.Elem()); ok {
				return "(Map " + e + ")", true
			}
		}
	case *types.Pointer:
		if n, s := pgStructOf(u.Elem()); n != nil {
			if e, ok := g.structType(n, s); ok {
				return "(Option " + e + ")", true
			}
		}
		if _, ok := u.Elem().Underlying().(*types.Slice); ok { // *NodeList: the list itself (receivers only)
			return g.leanType(u.Elem())
		}
	case *types.Signature:
		if u.Variadic() {
			return "", false
		}
		s := ""
		for i := 0; i < u.Params().Len(); i++ {
			if pcIsCtx(u.Params().At(i).Type()) {
				continue
			}
			a, ok := g.leanType(u.Params().At(i).Type())
			if !ok {
				return "", false
			}
			s += a + " → "
		}
		r, ok := g.resultType(u, nil)
		if !ok {
			return "", false
		}
		return "(" + s + g.mon() + " " + r + ")", true
	case *types.Struct:
		if n, ok := t.(*types.Named); ok {
			return g.structType(n, u)
		}
	}
	return "", false
}

func (g *pcGen) resultType(sig *types.Signature, first []string) (string, bool) {
	parts := append([]string{}, first...)
	for i := 0; i < sig.Results().Len(); i++ {
		r, ok := g.leanType(sig.Results().At(i).Type())
		if !ok {
			return "", false
		}
		parts = append(parts, r)
	}
	switch len(parts) {
	case 0:
		return "Unit", true
	case 1:
		return pgAtomT(parts[0]), true
	}
	return "(" + strings.Join(parts, " × ") + ")", true
}

func (g *pcGen) structType(n *types.Named, s *types.Struct) (string, bool) {
	if g.tree != nil {
		if !ptStructOK[pcNamedPath(n)] {
			return "", false
		}
	} else if !pcStructOK[pcNamedPath(n)] {
		return "", false
	}
	name := pgField(n.Obj().Name())
	if done, ok := g.sdone[name]; ok {
		return name, done
	}
	g.sdone[name] = false
	var fields, zeros []string
	for i := 0; i < s.NumFields(); i++ {
		f := s.Field(i)
		if lt, ok := g.leanType(f.Type()); ok {
			fields = append(fields, fmt.Sprintf("  %s : %s", pgField(f.Name()), lt))
			zeros = append(zeros, pgField(f.Name())+" := "+pcZeroOf(lt))
		}
	}
	g.sdone[name] = true
	g.structs = append(g.structs, fmt.Sprintf("/-- %s.%s (the fields whose types are in the subset) -/\nstructure %s where\n%s\n\ninstance : Inhabited %s := ⟨{ %s }⟩\n",
		n.Obj().Pkg().Name(), name, name, strings.Join(fields, "\n"), name, strings.Join(zeros, ", ")))
	return name, true
}

// the Go zero value of a Lean type of the subset
func pcZeroOf(lt string) string {
	switch {
	case lt == "Int":
		return "0"
	case lt == "Bool":
		return "false"
	case lt == "Node":
		return "Node.nil"
	case lt == "Err":
		return "Err.nil"
	case lt == "Cause":
		return "Cause.nil"
	case lt == "Parser":
		return "Parser.nil"
	case lt == "ReaderH":
		return "()"
	case lt == "Value":
		return "Value.nil"
	case lt == "Interp":
		return "Interp.nil"
	case lt == "Ptr":
		return "0"
	case strings.HasPrefix(lt, "(SMap "):
		return "[]"
	case lt == "Bytes" || lt == "Opaque" || lt == "IntSet" || lt == "IntMap" || strings.HasPrefix(lt, "(List "):
		return "[]"
	case strings.HasPrefix(lt, "(Map "):
		return "Map.nil"
	case strings.HasPrefix(lt, "(Option "):
		return "none"
	}
	return "default"
}

func (c *pcCtx) typ(t types.Type) string {
	s, ok := c.g.leanType(t)
	if !ok {
		pgFail("type %s is outside the subset", types.TypeString(t, qual))
	}
	return s
}

func (c *pcCtx) zero(t types.Type) string { return pcZeroOf(c.typ(t)) }

func (c *pcCtx) structLit(n *types.Named, s *types.Struct, given map[string]string) string {
	tn := c.typ(n)
	var fs []string
	for i := 0; i < s.NumFields(); i++ {
		f := s.Field(i)
		if _, ok := c.g.leanType(f.Type()); !ok {
			if _, has := given[f.Name()]; has {
				pgFail("field %s.%s is outside the subset", tn, f.Name())
			}
			continue
		}
		v, has := given[f.Name()]
		if !has {
			v = c.zero(f.Type())
		}
		fs = append(fs, pgField(f.Name())+" := "+v)
	}
	return "({ " + strings.Join(fs, ", ") + " } : " + tn + ")"
}

// how a value of concrete type `have` is stored in a variable of interface type `want`
func (c *pcCtx) inject(v string, have, want types.Type) string {
	if c.g.tree != nil {
		return c.treeInject(v, have, want)
	}
	if c.g.term != nil {
		if r, ok := c.termInject(v, have, want); ok {
			return r
		}
	}
	if have == nil || want == nil || !types.IsInterface(want) || types.IsInterface(have) {
		return v
	}
	wl, _ := c.g.leanType(want)
	switch wl + "<" + pcNamedPath(have) {
	case "Node<ast.EmptyNode":
		return "(Node.empty " + v + ")"
	case "Node<parser.EndNode":
		return "(Node.eof " + v + ")"
	case "Node<ast.NodeList":
		return "(Node.list " + v + ")"
	case "Node<*ast.NonTerminalNode":
		return v
	case "Cause<parsley.NotFoundError":
		return "(NotFoundError " + v + ")"
	case "ReaderH<*text.Reader":
		return v
	}
	if strings.HasPrefix(wl, "(Option (Int → Bytes") && pcNamedPath(have) == "combinator.SeqResultHandlerFunc" {
		return "(some " + v + ")"
	}
	pgFail("conversion of %s to %s", types.TypeString(have, qual), types.TypeString(want, qual))
	return ""
}
