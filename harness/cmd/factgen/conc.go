// C14 facts: which memory can be written while a parse runs.
//
// The packages are type-checked from source with go/types (standard library only: a small importer maps
// the repository's own import paths to its directories and hands every other path to the standard
// "source" importer, so nothing outside GOROOT and the repository is needed and nothing is downloaded).
//
// A call graph is built conservatively: static calls are resolved exactly; a call through an interface goes
// to the method of that name of every type of the repository that implements the interface; a call through
// a function value goes to every function literal, and every function used as a value, with an identical
// signature; a function literal is also reachable whenever the function that lexically contains it is.
// "Parse time" P = everything reachable from the functions that receive a *parsley.Context, the methods
// named Parse and the methods the standard library calls back (String, Error, ...).  "Construction time" K =
// everything reachable from a declared function that is not in P.
//
// Every assignment, ++/--, op-assignment, range-assignment, and append/copy/delete through a non-local in a
// function of P is listed with the kind of the root of its left-hand side:
//
//	pkgvar               a package level variable
//	captured-shared      a variable of an enclosing function that is not (only) parse time: the variable is
//	                     part of the parser graph and is shared by every parse that uses the graph
//	captured-local       a variable of an enclosing function that runs only at parse time: one per invocation
//	captured-local-deref memory reached through such a variable
//	receiver, param      memory reached through the method receiver / a parameter
//	local-fresh          memory allocated in the same function body (make, new, &T{}, slice/map literal) and
//	                     reached in one hop through the local variable that holds nothing else
//	local-deref          memory reached through any other local variable
//	call-result          memory reached through the result of a call or type assertion
//
// Writes to a plain local variable (and to fields of a local struct value) are not listed.
// What this cannot see: writes performed inside the standard library on behalf of the caller, unsafe, cgo.
package main

import (
	"bufio"
	"fmt"
	"go/ast"
	"go/importer"
	"go/parser"
	"go/token"
	"go/types"
	"os"
	"path/filepath"
	"sort"
	"strconv"
	"strings"
)

var concDirs = []string{"combinator", "parser", "text", "text/terminal", "parsley", "ast", "ast/interpreter", "data"}

type concPkg struct {
	path  string
	files []*ast.File
	tpkg  *types.Package
	info  *types.Info
}

type concLoader struct {
	fset    *token.FileSet
	module  string
	root    string
	std     types.Importer
	pkgs    map[string]*concPkg
	loading map[string]bool
	errs    []string
}

func (l *concLoader) Import(path string) (*types.Package, error) {
	if path == l.module || strings.HasPrefix(path, l.module+"/") {
		p, err := l.load(path)
		if err != nil {
			return nil, err
		}
		return p.tpkg, nil
	}
	return l.std.Import(path)
}

func (l *concLoader) load(path string) (*concPkg, error) {
	if p, ok := l.pkgs[path]; ok {
		return p, nil
	}
	if l.loading[path] {
		return nil, fmt.Errorf("import cycle through %s", path)
	}
	l.loading[path] = true
	defer delete(l.loading, path)
	dir := filepath.Join(l.root, strings.TrimPrefix(strings.TrimPrefix(path, l.module), "/"))
	entries, _ := filepath.Glob(filepath.Join(dir, "*.go"))
	sort.Strings(entries)
	p := &concPkg{path: path}
	for _, e := range entries {
		if strings.HasSuffix(e, "_test.go") {
			continue
		}
		f, err := parser.ParseFile(l.fset, e, nil, 0)
		if err != nil {
			return nil, err
		}
		p.files = append(p.files, f)
	}
	if len(p.files) == 0 {
		return nil, fmt.Errorf("no Go files in %s", dir)
	}
	p.info = &types.Info{
		Types:      map[ast.Expr]types.TypeAndValue{},
		Defs:       map[*ast.Ident]types.Object{},
		Uses:       map[*ast.Ident]types.Object{},
		Implicits:  map[ast.Node]types.Object{},
		Selections: map[*ast.SelectorExpr]*types.Selection{},
		Scopes:     map[ast.Node]*types.Scope{},
	}
	cfg := types.Config{Importer: l, Error: func(err error) { l.errs = append(l.errs, err.Error()) }}
	tp, _ := cfg.Check(path, l.fset, p.files, p.info)
	p.tpkg = tp
	l.pkgs[path] = p
	return p, nil
}

func readModulePath(root string) string {
	f, err := os.Open(filepath.Join(root, "go.mod"))
	if err != nil {
		return ""
	}
	defer f.Close()
	sc := bufio.NewScanner(f)
	for sc.Scan() {
		s := strings.TrimSpace(sc.Text())
		if strings.HasPrefix(s, "module ") {
			return strings.Trim(strings.TrimSpace(strings.TrimPrefix(s, "module ")), "\"")
		}
	}
	return ""
}

// one function body: a declared function or method, or a function literal
type fnode struct {
	name     string
	pkg      *concPkg
	decl     *ast.FuncDecl
	lit      *ast.FuncLit
	parent   *fnode
	children []*fnode
	sig      *types.Signature
	body     *ast.BlockStmt
	static   []*types.Func
	iface    []ifaceCall
	dyn      []*types.Signature
	nlits    int
	inP, inK bool
	// a literal that is handed to a call as an argument, or invoked on the spot: whoever creates it may run it
	passedToCall bool
}

type ifaceCall struct {
	it   types.Type
	name string
}

type concWrite struct{ fn, lhs, kind, typ string }

type concAnalysis struct {
	l         *concLoader
	nodes     []*fnode
	inits     []*fnode // one per package: what the package level initialisers call
	byObj     map[*types.Func]*fnode
	byLit     map[*ast.FuncLit]*fnode
	addrTaken map[*types.Func]bool
	argLits   map[*ast.FuncLit]bool
	named     []*types.Named
	ctxPtr    types.Type
	problems  []string
}

func qual(p *types.Package) string { return p.Name() }

func typeStr(t types.Type) string {
	if t == nil {
		return "?"
	}
	return types.TypeString(t, qual)
}

func (a *concAnalysis) funcName(p *concPkg, fd *ast.FuncDecl) string {
	if fd.Recv != nil && len(fd.Recv.List) == 1 {
		t := fd.Recv.List[0].Type
		if se, ok := t.(*ast.StarExpr); ok {
			return p.tpkg.Name() + ".(*" + norm(se.X) + ")." + fd.Name.Name
		}
		return p.tpkg.Name() + ".(" + norm(t) + ")." + fd.Name.Name
	}
	return p.tpkg.Name() + "." + fd.Name.Name
}

// collect registers every function body of the package and, for each, its outgoing calls
func (a *concAnalysis) collect(p *concPkg) {
	// function literals in package level initialisers have no enclosing function
	holder := &fnode{name: p.tpkg.Name() + ".init", pkg: p}
	for _, f := range p.files {
		for _, d := range f.Decls {
			switch d := d.(type) {
			case *ast.FuncDecl:
				if d.Body == nil {
					continue
				}
				obj, _ := p.info.Defs[d.Name].(*types.Func)
				n := &fnode{name: a.funcName(p, d), pkg: p, decl: d, body: d.Body}
				if obj != nil {
					n.sig, _ = obj.Type().(*types.Signature)
					a.byObj[obj] = n
				}
				a.nodes = append(a.nodes, n)
				a.scan(n, d.Body)
			case *ast.GenDecl:
				if d.Tok != token.VAR {
					continue
				}
				a.scan(holder, d)
			}
		}
	}
	for _, c := range holder.children {
		c.parent = nil
	}
	a.inits = append(a.inits, holder)
}

func unparen(e ast.Expr) ast.Expr {
	for {
		pe, ok := e.(*ast.ParenExpr)
		if !ok {
			return e
		}
		e = pe.X
	}
}

// scan walks one body without entering nested literals (each gets its own node)
func (a *concAnalysis) scan(n *fnode, root ast.Node) {
	info := n.pkg.info
	callFuns := map[ast.Expr]bool{}
	var walk func(x ast.Node) bool
	walk = func(x ast.Node) bool {
		switch e := x.(type) {
		case *ast.FuncLit:
			n.nlits++
			c := &fnode{name: n.name + "$" + strconv.Itoa(n.nlits), pkg: n.pkg, lit: e, parent: n, body: e.Body}
			c.sig, _ = info.TypeOf(e).(*types.Signature)
			c.passedToCall = a.argLits[e]
			n.children = append(n.children, c)
			a.byLit[e] = c
			a.nodes = append(a.nodes, c)
			a.scan(c, e.Body)
			return false
		case *ast.CallExpr:
			fun := unparen(e.Fun)
			callFuns[fun] = true
			if tv, ok := info.Types[fun]; ok && tv.IsType() {
				return true // a conversion
			}
			if fl, ok := fun.(*ast.FuncLit); ok {
				a.argLits[fl] = true
			}
			for _, arg := range e.Args {
				if fl, ok := unparen(arg).(*ast.FuncLit); ok {
					a.argLits[fl] = true
				}
			}
			var id *ast.Ident
			switch f := fun.(type) {
			case *ast.Ident:
				id = f
			case *ast.SelectorExpr:
				id = f.Sel
				if sel, ok := info.Selections[f]; ok && sel.Kind() == types.MethodVal {
					if types.IsInterface(sel.Recv()) {
						n.iface = append(n.iface, ifaceCall{sel.Recv(), f.Sel.Name})
						return true
					}
				}
			}
			if id != nil {
				switch o := info.Uses[id].(type) {
				case *types.Func:
					n.static = append(n.static, o)
					return true
				case *types.Builtin:
					return true
				}
			}
			if sig, ok := info.TypeOf(fun).Underlying().(*types.Signature); ok {
				n.dyn = append(n.dyn, sig)
			}
		case *ast.Ident:
			if o, ok := info.Uses[e].(*types.Func); ok && !callFuns[e] {
				a.addrTaken[o] = true
			}
		case *ast.SelectorExpr:
			if o, ok := info.Uses[e.Sel].(*types.Func); ok && !callFuns[e] {
				a.addrTaken[o] = true
			}
			// do not visit e.Sel again as a bare identifier
			ast.Inspect(e.X, walk)
			return false
		}
		return true
	}
	ast.Inspect(root, walk)
}

func (a *concAnalysis) hasCtxParam(sig *types.Signature) bool {
	if sig == nil || a.ctxPtr == nil {
		return false
	}
	for i := 0; i < sig.Params().Len(); i++ {
		if types.Identical(sig.Params().At(i).Type(), a.ctxPtr) {
			return true
		}
	}
	return false
}

var callbackNames = map[string]bool{"String": true, "Error": true, "Unwrap": true, "Is": true, "As": true,
	"Format": true, "GoString": true, "Len": true, "Less": true, "Swap": true}

func (a *concAnalysis) isParseRoot(n *fnode) bool {
	if a.hasCtxParam(n.sig) {
		return true
	}
	if n.decl != nil && n.decl.Recv != nil && (n.decl.Name.Name == "Parse" || callbackNames[n.decl.Name.Name]) {
		return true
	}
	return false
}

// successors lists the functions n may cause to run.  With allChildren every literal written inside n counts
// (used for parse time: lists more writes); without, only the literals n hands to a call or invokes on the spot
// (used for construction time: a constructor creates the parser's literal but does not run it).
func (a *concAnalysis) successors(n *fnode, allChildren bool) []*fnode {
	var out []*fnode
	for _, c := range n.children {
		if allChildren || c.passedToCall {
			out = append(out, c)
		}
	}
	for _, o := range n.static {
		if t, ok := a.byObj[o]; ok {
			out = append(out, t)
		}
	}
	for _, ic := range n.iface {
		it, ok := ic.it.Underlying().(*types.Interface)
		if !ok {
			continue
		}
		for _, nt := range a.named {
			for _, t := range []types.Type{nt, types.NewPointer(nt)} {
				if !types.Implements(t, it) {
					continue
				}
				ms := types.NewMethodSet(t)
				for i := 0; i < ms.Len(); i++ {
					if m, ok := ms.At(i).Obj().(*types.Func); ok && m.Name() == ic.name {
						if tn, ok := a.byObj[m]; ok {
							out = append(out, tn)
						}
					}
				}
			}
		}
	}
	for _, sig := range n.dyn {
		for _, c := range a.nodes {
			if c.sig == nil || !types.Identical(c.sig, sig) {
				continue
			}
			if c.lit != nil {
				out = append(out, c)
			} else if c.decl != nil {
				if o, ok := c.pkg.info.Defs[c.decl.Name].(*types.Func); ok && a.addrTaken[o] {
					out = append(out, c)
				}
			}
		}
	}
	return out
}

func (a *concAnalysis) closure(roots []*fnode, allChildren bool, mark func(*fnode) bool) {
	work := append([]*fnode{}, roots...)
	for len(work) > 0 {
		n := work[len(work)-1]
		work = work[:len(work)-1]
		if !mark(n) {
			continue
		}
		work = append(work, a.successors(n, allChildren)...)
	}
}

// the function body (declared or literal) whose scope declares v; nil for package level and foreign objects
func (a *concAnalysis) declaringFunc(v *types.Var) *fnode {
	var best *fnode
	for _, n := range a.nodes {
		var from, to token.Pos
		if n.decl != nil {
			from, to = n.decl.Pos(), n.decl.End()
		} else {
			from, to = n.lit.Pos(), n.lit.End()
		}
		if v.Pos() >= from && v.Pos() < to {
			if best == nil {
				best = n
				continue
			}
			var bf, bt token.Pos
			if best.decl != nil {
				bf, bt = best.decl.Pos(), best.decl.End()
			} else {
				bf, bt = best.lit.Pos(), best.lit.End()
			}
			if from >= bf && to <= bt {
				best = n
			}
		}
	}
	return best
}

type rootInfo struct {
	v     *types.Var // nil when the root is not a variable
	pkg   bool       // root is a package level variable (possibly pkg.Name)
	deref bool       // the path from the root passes through a pointer, slice or map
	hops  int        // how many times
	expr  ast.Expr   // the root expression when it is not an identifier
}

func (a *concAnalysis) rootOf(info *types.Info, e ast.Expr) rootInfo {
	switch x := e.(type) {
	case *ast.Ident:
		if v, ok := info.ObjectOf(x).(*types.Var); ok {
			isPkg := v.Pkg() != nil && v.Parent() == v.Pkg().Scope()
			return rootInfo{v: v, pkg: isPkg}
		}
		return rootInfo{expr: e}
	case *ast.ParenExpr:
		return a.rootOf(info, x.X)
	case *ast.StarExpr:
		r := a.rootOf(info, x.X)
		r.deref, r.hops = true, r.hops+1
		return r
	case *ast.SelectorExpr:
		if id, ok := x.X.(*ast.Ident); ok {
			if _, ok := info.Uses[id].(*types.PkgName); ok {
				if v, ok := info.Uses[x.Sel].(*types.Var); ok {
					return rootInfo{v: v, pkg: true}
				}
				return rootInfo{expr: e}
			}
		}
		r := a.rootOf(info, x.X)
		if sel, ok := info.Selections[x]; ok && sel.Indirect() {
			r.deref, r.hops = true, r.hops+1
		} else if t := info.TypeOf(x.X); t != nil {
			if _, ok := t.Underlying().(*types.Pointer); ok {
				r.deref, r.hops = true, r.hops+1
			}
		}
		return r
	case *ast.IndexExpr:
		r := a.rootOf(info, x.X)
		if t := info.TypeOf(x.X); t != nil {
			switch t.Underlying().(type) {
			case *types.Array:
			default:
				r.deref, r.hops = true, r.hops+1
			}
		}
		return r
	case *ast.SliceExpr:
		r := a.rootOf(info, x.X)
		if t := info.TypeOf(x.X); t != nil {
			switch t.Underlying().(type) {
			case *types.Array:
			default:
				r.deref, r.hops = true, r.hops+1
			}
		}
		return r
	default:
		return rootInfo{expr: e, deref: true, hops: 1}
	}
}

func (a *concAnalysis) classify(n *fnode, lhs ast.Expr, viaBuiltin string) (concWrite, bool) {
	info := n.pkg.info
	r := a.rootOf(info, lhs)
	text := norm(lhs)
	if viaBuiltin != "" {
		text = viaBuiltin + "(" + text + ", ...)"
		r.deref, r.hops = true, r.hops+1
	}
	w := concWrite{fn: n.name, lhs: text}
	if r.v == nil {
		if id, ok := unparen(lhs).(*ast.Ident); ok && id.Name == "_" {
			return w, false
		}
		if !r.deref {
			return w, false
		}
		w.kind = "call-result"
		w.typ = typeStr(info.TypeOf(r.expr))
		return w, true
	}
	w.typ = typeStr(r.v.Type())
	if r.pkg {
		w.kind = "pkgvar"
		w.typ = r.v.Pkg().Name() + "." + r.v.Name() + " : " + w.typ
		return w, true
	}
	d := a.declaringFunc(r.v)
	if d == nil {
		a.problems = append(a.problems, "no declaring function for "+r.v.Name()+" in "+n.name)
		w.kind = "captured-shared"
		return w, true
	}
	if d != n {
		// declared in an enclosing function
		if d.inP && !d.inK {
			if r.deref {
				w.kind = "captured-local-deref"
			} else {
				w.kind = "captured-local"
			}
		} else {
			w.kind = "captured-shared"
		}
		w.lhs = w.lhs + " [declared in " + d.name + "]"
		return w, true
	}
	if !r.deref {
		return w, false // a local variable, or a field of a local struct value
	}
	if viaBuiltin != "" && !a.isParamOrRecv(n, r.v) {
		return w, false // append/copy/delete on a local slice or map: see the assignment that made it
	}
	switch {
	case a.isRecv(n, r.v):
		w.kind = "receiver"
	case a.isParamOrRecv(n, r.v):
		w.kind = "param"
	case r.hops == 1 && a.freshLocal(n, r.v):
		w.kind = "local-fresh"
	default:
		w.kind = "local-deref"
	}
	return w, true
}

// freshLocal: every value the local variable v of n ever receives is memory allocated right there (make, new,
// &T{...}, a slice or map literal, or append to itself), so one hop through v stays inside this invocation's own
// allocation.
func (a *concAnalysis) freshLocal(n *fnode, v *types.Var) bool {
	info := n.pkg.info
	var isFresh func(e ast.Expr) bool
	isFresh = func(e ast.Expr) bool {
		switch x := unparen(e).(type) {
		case *ast.CompositeLit:
			switch info.TypeOf(x).Underlying().(type) {
			case *types.Slice, *types.Map:
				return true
			}
			return false
		case *ast.UnaryExpr:
			if x.Op == token.AND {
				_, ok := unparen(x.X).(*ast.CompositeLit)
				return ok
			}
		case *ast.CallExpr:
			if tv, ok := info.Types[unparen(x.Fun)]; ok && tv.IsType() && len(x.Args) == 1 {
				return isFresh(x.Args[0])
			}
			if id, ok := unparen(x.Fun).(*ast.Ident); ok {
				if b, ok := info.Uses[id].(*types.Builtin); ok {
					switch b.Name() {
					case "make", "new":
						return true
					case "append":
						if aid, ok := unparen(x.Args[0]).(*ast.Ident); ok && info.ObjectOf(aid) == v {
							return true
						}
					}
				}
			}
		}
		return false
	}
	defs, ok := 0, true
	def := func(lhs ast.Expr, rhs ast.Expr) {
		id, isID := unparen(lhs).(*ast.Ident)
		if !isID || info.ObjectOf(id) != v {
			return
		}
		defs++
		if rhs == nil || !isFresh(rhs) {
			ok = false
		}
	}
	ast.Inspect(n.body, func(x ast.Node) bool {
		switch s := x.(type) {
		case *ast.AssignStmt:
			for i, l := range s.Lhs {
				if len(s.Lhs) == len(s.Rhs) {
					def(l, s.Rhs[i])
				} else {
					def(l, nil)
				}
			}
		case *ast.ValueSpec:
			for i, nm := range s.Names {
				switch {
				case len(s.Values) == 0:
					if info.ObjectOf(nm) == v {
						defs++ // the zero value: nothing reachable through it
					}
				case len(s.Values) == len(s.Names):
					def(nm, s.Values[i])
				default:
					def(nm, nil)
				}
			}
		case *ast.RangeStmt:
			if s.Key != nil {
				def(s.Key, nil)
			}
			if s.Value != nil {
				def(s.Value, nil)
			}
		case *ast.UnaryExpr:
			// &v handed out: somebody else may store into it
			if s.Op == token.AND {
				if id, isID := unparen(s.X).(*ast.Ident); isID && info.ObjectOf(id) == v {
					ok = false
				}
			}
		}
		return true
	})
	return ok && defs > 0
}

func (a *concAnalysis) isRecv(n *fnode, v *types.Var) bool {
	return n.sig != nil && n.sig.Recv() == v
}

func (a *concAnalysis) isParamOrRecv(n *fnode, v *types.Var) bool {
	if n.sig == nil {
		return false
	}
	if n.sig.Recv() == v {
		return true
	}
	for i := 0; i < n.sig.Params().Len(); i++ {
		if n.sig.Params().At(i) == v {
			return true
		}
	}
	return false
}

func (a *concAnalysis) writes(n *fnode) []concWrite {
	var out []concWrite
	add := func(lhs ast.Expr, via string) {
		if w, ok := a.classify(n, lhs, via); ok {
			out = append(out, w)
		}
	}
	info := n.pkg.info
	ast.Inspect(n.body, func(x ast.Node) bool {
		switch s := x.(type) {
		case *ast.FuncLit:
			return false
		case *ast.AssignStmt:
			if s.Tok != token.DEFINE {
				for _, l := range s.Lhs {
					add(l, "")
				}
			}
		case *ast.IncDecStmt:
			add(s.X, "")
		case *ast.RangeStmt:
			if s.Tok == token.ASSIGN {
				if s.Key != nil {
					add(s.Key, "")
				}
				if s.Value != nil {
					add(s.Value, "")
				}
			}
		case *ast.CallExpr:
			if id, ok := unparen(s.Fun).(*ast.Ident); ok && len(s.Args) > 0 {
				if b, ok := info.Uses[id].(*types.Builtin); ok {
					switch b.Name() {
					case "append", "copy", "delete":
						add(s.Args[0], b.Name())
					}
				}
			}
		}
		return true
	})
	return out
}

// allocs lists the places where n allocates a struct of a named type of the repository: &T{...}, T{...}, new(T)
func (a *concAnalysis) allocs(n *fnode) []string {
	info := n.pkg.info
	phase := "construction"
	if n.inP && n.inK {
		phase = "both"
	} else if n.inP {
		phase = "parse"
	}
	var out []string
	add := func(t types.Type) {
		nt, ok := t.(*types.Named)
		if !ok || nt.Obj().Pkg() == nil {
			return
		}
		if _, isStruct := nt.Underlying().(*types.Struct); !isStruct {
			return
		}
		if pp := nt.Obj().Pkg().Path(); pp != a.l.module && !strings.HasPrefix(pp, a.l.module+"/") {
			return
		}
		out = append(out, fmt.Sprintf("(%s, %s, %s)", strconv.Quote(typeStr(nt)), strconv.Quote(n.name), strconv.Quote(phase)))
	}
	ast.Inspect(n.body, func(x ast.Node) bool {
		switch e := x.(type) {
		case *ast.FuncLit:
			return false
		case *ast.CompositeLit:
			if t := info.TypeOf(e); t != nil {
				add(t)
			}
		case *ast.CallExpr:
			if id, ok := unparen(e.Fun).(*ast.Ident); ok && len(e.Args) == 1 {
				if b, ok := info.Uses[id].(*types.Builtin); ok && b.Name() == "new" {
					if t := info.TypeOf(e.Args[0]); t != nil {
						add(t)
					}
				}
			}
		}
		return true
	})
	return out
}

func uniq(l []string) []string {
	var out []string
	for i, s := range l {
		if i == 0 || s != l[i-1] {
			out = append(out, s)
		}
	}
	return out
}

func leanList(items []string, indent string) string {
	if len(items) == 0 {
		return "[]"
	}
	return "[\n" + indent + strings.Join(items, ",\n"+indent) + "]"
}

func quoteAll(l []string) []string {
	out := make([]string, len(l))
	for i, s := range l {
		out[i] = strconv.Quote(s)
	}
	return out
}

func renderWrites(ws []concWrite) []string {
	seen := map[string]bool{}
	var out []string
	for _, w := range ws {
		s := fmt.Sprintf("(%s, %s, %s, %s)", strconv.Quote(w.fn), strconv.Quote(w.lhs), strconv.Quote(w.kind), strconv.Quote(w.typ))
		if !seen[s] {
			seen[s] = true
			out = append(out, s)
		}
	}
	sort.Strings(out)
	return out
}

// concFacts returns the text of Generated/FactsConc.lean
func concFacts(pkgVars, pkgVarAccesses string) string {
	l := &concLoader{fset: fset, module: readModulePath(repo), root: repo, pkgs: map[string]*concPkg{}, loading: map[string]bool{}}
	l.std = importer.ForCompiler(fset, "source", nil)
	a := &concAnalysis{l: l, byObj: map[*types.Func]*fnode{}, byLit: map[*ast.FuncLit]*fnode{}, addrTaken: map[*types.Func]bool{}, argLits: map[*ast.FuncLit]bool{}}
	if l.module == "" {
		a.problems = append(a.problems, "no module path in go.mod")
	}
	var targets []*concPkg
	for _, d := range concDirs {
		p, err := l.load(l.module + "/" + d)
		if err != nil {
			a.problems = append(a.problems, d+": "+err.Error())
			continue
		}
		targets = append(targets, p)
	}
	for _, e := range l.errs {
		a.problems = append(a.problems, "type check: "+e)
	}
	// every named type of every loaded repository package (targets and whatever they import from the repository)
	var loaded []*concPkg
	for _, p := range l.pkgs {
		loaded = append(loaded, p)
	}
	sort.Slice(loaded, func(i, j int) bool { return loaded[i].path < loaded[j].path })
	for _, p := range loaded {
		if p.tpkg == nil {
			continue
		}
		sc := p.tpkg.Scope()
		for _, nm := range sc.Names() {
			if tn, ok := sc.Lookup(nm).(*types.TypeName); ok && !tn.IsAlias() {
				if nt, ok := tn.Type().(*types.Named); ok {
					a.named = append(a.named, nt)
				}
			}
		}
		if p.path == l.module+"/parsley" {
			if tn, ok := sc.Lookup("Context").(*types.TypeName); ok {
				a.ctxPtr = types.NewPointer(tn.Type())
			}
		}
	}
	if a.ctxPtr == nil {
		a.problems = append(a.problems, "parsley.Context not found")
	}
	for _, p := range loaded {
		if p.tpkg != nil {
			a.collect(p)
		}
	}
	isTarget := map[*concPkg]bool{}
	for _, p := range targets {
		isTarget[p] = true
	}

	var roots []*fnode
	for _, n := range a.nodes {
		if a.isParseRoot(n) {
			roots = append(roots, n)
		}
	}
	a.closure(roots, true, func(n *fnode) bool {
		if n.inP {
			return false
		}
		n.inP = true
		return true
	})
	kroots := append([]*fnode{}, a.inits...)
	for _, n := range a.nodes {
		if !n.inP && n.parent == nil {
			kroots = append(kroots, n)
		}
	}
	a.closure(kroots, false, func(n *fnode) bool {
		if n.inK {
			return false
		}
		n.inK = true
		return true
	})

	var parseW, consW []concWrite
	var allocSites []string
	var rootNames, pNames, kOnly, both []string
	for _, n := range a.nodes {
		if !isTarget[n.pkg] {
			continue
		}
		if n.inP {
			pNames = append(pNames, n.name)
			parseW = append(parseW, a.writes(n)...)
			if n.inK {
				both = append(both, n.name)
			}
		} else {
			kOnly = append(kOnly, n.name)
			consW = append(consW, a.writes(n)...)
		}
		if a.isParseRoot(n) {
			rootNames = append(rootNames, n.name)
		}
		allocSites = append(allocSites, a.allocs(n)...)
	}
	sort.Strings(allocSites)
	allocSites = uniq(allocSites)
	sort.Strings(rootNames)
	sort.Strings(pNames)
	sort.Strings(kOnly)
	sort.Strings(both)
	var shared, typed []concWrite
	for _, w := range parseW {
		switch w.kind {
		case "captured-shared":
			shared = append(shared, w)
		case "receiver", "param", "local-deref", "captured-local-deref", "call-result":
			typed = append(typed, w)
		}
	}
	typeSet := map[string]bool{}
	for _, w := range typed {
		typeSet[w.typ] = true
	}
	var rootTypes []string
	for t := range typeSet {
		rootTypes = append(rootTypes, t)
	}
	sort.Strings(rootTypes)

	var b strings.Builder
	b.WriteString("/- GENERATED by harness/cmd/factgen (conc.go) from the repository's current source on every run. Do not edit. -/\n")
	b.WriteString("namespace PV.FactsConc\n\n")
	def := func(comment, name, typ, val string) {
		fmt.Fprintf(&b, "/-- %s -/\ndef %s : %s := %s\n\n", comment, name, typ, val)
	}
	def("every package level variable of the non-test, non-fake packages", "pkgVars", "List String", pkgVars)
	def("every write to / address-of / pointer-method call on one of them inside a function body: (variable, kind, function)",
		"pkgVarAccesses", "List (String × String × String)", pkgVarAccesses)
	def("functions taken as the entry points of parse time: they receive a *parsley.Context, are a method named Parse, or are called back by the standard library",
		"parseTimeRoots", "List String", leanList(quoteAll(rootNames), "    "))
	def("every function body (declared or literal, name$k = k-th literal inside name) reachable from the entry points",
		"parseTimeFuncs", "List String", leanList(quoteAll(pNames), "    "))
	def("declared functions and literals that are not reachable from the entry points: construction time only",
		"constructionOnlyFuncs", "List String", leanList(quoteAll(kOnly), "    "))
	def("parse time functions that are also reachable from a construction-only function (variables they declare are not counted as per-invocation)",
		"parseAndConstructionFuncs", "List String", leanList(quoteAll(both), "    "))
	wt := "List (String × String × String × String)"
	def("every non-local write in a parse time function: (function, left-hand side, kind of its root, static type of the root); a captured root's left-hand side also says where it is declared",
		"parseTimeWrites", wt, leanList(renderWrites(parseW), "    "))
	def("the parse time writes whose root is a variable captured from a scope that outlives one parse (shared through the parser graph)",
		"capturedShared", wt, leanList(renderWrites(shared), "    "))
	def("same name as in the design document", "capturedWrites", wt, "capturedShared")
	def("the static types of the roots of the parse time writes that go through a receiver, parameter, local pointer, per-invocation captured pointer or call result",
		"parseTimeRootTypes", "List String", leanList(quoteAll(rootTypes), "    "))
	def("where structs of the repository's named types are allocated (&T{...}, T{...}, new(T)): (type, function, when the function can run: parse = only within a parse, construction = never within a parse, both)",
		"allocSites", "List (String × String × String)", leanList(allocSites, "    "))
	def("for information: the non-local writes of construction-only functions", "constructionWrites", wt, leanList(renderWrites(consW), "    "))
	sort.Strings(a.problems)
	def("things the extractor could not do", "extractionProblems", "List String", "["+strings.Join(quoteAll(a.problems), ", ")+"]")
	b.WriteString("end PV.FactsConc\n")
	return b.String()
}
