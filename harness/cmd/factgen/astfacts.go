package main

// Third output (-out-ast): the normalised source text of the list/node primitives that the slice-level
// machine of C07 (lean/ParsleyVerif/Model/Slice.lean) transcribes.  A separate file so that a change here
// rebuilds only C07's theorems.

import (
	"fmt"
	"go/ast"
	"go/parser"
	"os"
	"path/filepath"
	"sort"
	"strconv"
	"strings"
)

// ---- structural facts: what the slice-level machine needs of Memoize, Any and Optional, independent of how the rest of
// their bodies is written (the bodies themselves are tied by translation at value level: Props/C01P.lean) ----------------

// memoizeClipFacts: Memoize contains a full slice expression x[:len(x):len(x)] (the capacity clip of the list that is
// cached and returned), and it comes before the call of ResultCache().Save.  The clip may stand in Memoize itself or in
// an unexported function of the package that Memoize calls (a helper a refactoring split off): then the position of
// the call counts.
func memoizeClipFacts() (clips, beforeSave bool) {
	fd := findFunc(parseFile("combinator/memoize.go"), "Memoize")
	if fd == nil {
		return false, false
	}
	helpers := map[string]*ast.FuncDecl{}
	if entries, err := filepath.Glob(filepath.Join(repo, "combinator", "*.go")); err == nil {
		sort.Strings(entries)
		for _, e := range entries {
			if strings.HasSuffix(e, "_test.go") {
				continue
			}
			if f, err := parser.ParseFile(fset, e, nil, 0); err == nil {
				for _, d := range f.Decls {
					if h, ok := d.(*ast.FuncDecl); ok && h.Recv == nil && h.Body != nil && !ast.IsExported(h.Name.Name) {
						helpers[h.Name.Name] = h
					}
				}
			}
		}
	}
	isClip := func(x *ast.SliceExpr) bool {
		if x.Slice3 && x.High != nil && x.Max != nil && (x.Low == nil || norm(x.Low) == "0") {
			want := "len(" + norm(x.X) + ")"
			return norm(x.High) == want && norm(x.Max) == want
		}
		return false
	}
	var hasClip func(n ast.Node, seen map[string]bool) bool
	hasClip = func(n ast.Node, seen map[string]bool) bool {
		found := false
		ast.Inspect(n, func(m ast.Node) bool {
			switch x := m.(type) {
			case *ast.SliceExpr:
				if isClip(x) {
					found = true
				}
			case *ast.CallExpr:
				if id, ok := x.Fun.(*ast.Ident); ok && id.Obj == nil || ok && id.Obj != nil && id.Obj.Kind == ast.Fun {
					if h := helpers[id.Name]; h != nil && !seen[id.Name] {
						seen[id.Name] = true
						if hasClip(h.Body, seen) {
							found = true
						}
					}
				}
			}
			return true
		})
		return found
	}
	clipPos, savePos := -1, -1
	ast.Inspect(fd, func(n ast.Node) bool {
		switch x := n.(type) {
		case *ast.SliceExpr:
			if isClip(x) && clipPos < 0 {
				clipPos = int(x.Pos())
			}
		case *ast.CallExpr:
			if sel, ok := x.Fun.(*ast.SelectorExpr); ok && sel.Sel.Name == "Save" && savePos < 0 {
				savePos = int(x.Pos())
			}
			if id, ok := x.Fun.(*ast.Ident); ok && clipPos < 0 && (id.Obj == nil || id.Obj.Kind == ast.Fun) {
				if h := helpers[id.Name]; h != nil && hasClip(h.Body, map[string]bool{id.Name: true}) {
					clipPos = int(x.Pos())
				}
			}
		}
		return true
	})
	return clipPos >= 0, clipPos >= 0 && savePos >= 0 && clipPos < savePos
}

// appendNodeUse: fn contains `ast.AppendNode(<first result of a Parse call>, …)` resp. `ast.AppendNode(acc, <that result>)`
// — how Any accumulates alternatives and how Optional adds the empty alternative
func appendNodeCalls(rel, fn string) []string {
	fd := findFunc(parseFile(rel), fn)
	var out []string
	if fd == nil {
		return out
	}
	ast.Inspect(fd, func(n ast.Node) bool {
		if c, ok := n.(*ast.CallExpr); ok && strings.HasSuffix(norm(c.Fun), "AppendNode") && len(c.Args) == 2 {
			kind := func(e ast.Expr) string {
				if cc, ok := e.(*ast.CallExpr); ok && strings.HasSuffix(norm(cc.Fun), "EmptyNode") {
					return "empty"
				}
				return "node"
			}
			out = append(out, kind(c.Args[0])+","+kind(c.Args[1]))
		}
		return true
	})
	return out
}

// ---- slice-level skeleton of a function that is ALSO tied by translation at value level ---------------------------------
// What the slice-level machine needs of such a function beyond its value semantics (which Props/C01P.lean proves of the
// translated body) is WHICH allocating / in-place operations it performs: the calls of append / copy / make, the slice
// literals, the slice expressions, the writes to an element, and the calls of the list primitives Append / AppendNode /
// SetReaderPos, in source order, with the local variables abstracted to `_` (field, type, function and package names kept).
// An unexported function of the package that the function calls contributes its operations at the call.  This survives a
// restructuring of the control flow (type switch / assertion chain, extracted helper, renamed variable, early return) and
// changes when an allocation, a copy, an in-place write or a primitive call is added, removed, reordered or retargeted.
func abstractLocals(n ast.Node) string {
	var b strings.Builder
	var pr func(e ast.Node)
	raw := norm(n)
	// collect the local identifiers (parser-resolved objects of kind Var) by position and blank them out of the text
	type span struct{ pos, end int }
	var spans []span
	base := int(n.Pos())
	ast.Inspect(n, func(m ast.Node) bool {
		switch x := m.(type) {
		case *ast.SelectorExpr:
			// only the receiver side can be a local
			ast.Inspect(x.X, func(k ast.Node) bool {
				if id, ok := k.(*ast.Ident); ok && id.Obj != nil && id.Obj.Kind == ast.Var {
					spans = append(spans, span{int(id.Pos()) - base, int(id.End()) - base})
				}
				return true
			})
			return false
		case *ast.KeyValueExpr:
			return true
		case *ast.Ident:
			if x.Obj != nil && x.Obj.Kind == ast.Var {
				spans = append(spans, span{int(x.Pos()) - base, int(x.End()) - base})
			}
		}
		return true
	})
	_ = pr
	_ = raw
	// print from the original source bytes (positions are byte offsets into the file)
	src := nodeSource(n)
	if src == "" {
		return raw
	}
	sort.Slice(spans, func(i, j int) bool { return spans[i].pos < spans[j].pos })
	last := 0
	for _, sp := range spans {
		if sp.pos < last || sp.end > len(src) {
			continue
		}
		b.WriteString(src[last:sp.pos])
		b.WriteString("_")
		last = sp.end
	}
	b.WriteString(src[last:])
	var out strings.Builder
	for _, r := range b.String() {
		if r == ' ' || r == '\t' || r == '\n' || r == '\r' {
			continue
		}
		out.WriteRune(r)
	}
	return out.String()
}

// the source text of a node (read from the file it was parsed from)
func nodeSource(n ast.Node) string {
	p, e := fset.Position(n.Pos()), fset.Position(n.End())
	if !p.IsValid() || !e.IsValid() || p.Filename != e.Filename {
		return ""
	}
	data, err := os.ReadFile(p.Filename)
	if err != nil || e.Offset > len(data) || p.Offset > e.Offset {
		return ""
	}
	return string(data[p.Offset:e.Offset])
}

var slicePrimitives = map[string]bool{"Append": true, "AppendNode": true, "SetReaderPos": true}

// the names of the functions the statement-level translators translate on their own (they are not helpers of anything)
func targetNames() map[string]bool {
	m := map[string]bool{}
	for _, t := range coreTargets {
		m[t.name] = true
	}
	for _, t := range treeTargets {
		m[t.name] = true
	}
	for _, t := range progTargets {
		m[t.name] = true
	}
	return m
}

func pkgHelpers(dir string) map[string]*ast.FuncDecl {
	helpers := map[string]*ast.FuncDecl{}
	entries, err := filepath.Glob(filepath.Join(repo, dir, "*.go"))
	if err != nil {
		return helpers
	}
	sort.Strings(entries)
	for _, e := range entries {
		if strings.HasSuffix(e, "_test.go") {
			continue
		}
		if f, err := parser.ParseFile(fset, e, nil, 0); err == nil {
			for _, d := range f.Decls {
				if h, ok := d.(*ast.FuncDecl); ok && h.Body != nil && !ast.IsExported(h.Name.Name) && !targetNames()[h.Name.Name] {
					helpers[h.Name.Name] = h // functions and methods by name (the skeleton has no type information)
				}
			}
		}
	}
	return helpers
}

func sliceOps(dir string, fd *ast.FuncDecl) []string {
	out := []string{}
	if fd == nil {
		return out
	}
	helpers := pkgHelpers(dir)
	seen := map[string]bool{fd.Name.Name: true}
	var walk func(n ast.Node)
	walk = func(n ast.Node) {
		ast.Inspect(n, func(m ast.Node) bool {
			switch x := m.(type) {
			case *ast.AssignStmt:
				// an element write, or an assignment of an append / make / slice literal / slice expression: the whole statement
				for _, l := range x.Lhs {
					if _, ok := l.(*ast.IndexExpr); ok {
						out = append(out, abstractLocals(x))
						return true
					}
				}
				if len(x.Rhs) == 1 && isSliceOp(x.Rhs[0]) {
					out = append(out, abstractLocals(x))
					return false
				}
			case *ast.CallExpr:
				if isSliceOp(x) {
					out = append(out, abstractLocals(x))
					return true
				}
				name := ""
				switch f := x.Fun.(type) {
				case *ast.Ident:
					name = f.Name
				case *ast.SelectorExpr:
					name = f.Sel.Name
				}
				if slicePrimitives[name] {
					out = append(out, abstractLocals(x))
					return true
				}
				if h := helpers[name]; h != nil && !seen[name] && fd.Name.Name != name {
					seen[name] = true
					for _, a := range x.Args {
						walk(a)
					}
					walk(h.Body)
					return false
				}
			case *ast.SliceExpr:
				out = append(out, abstractLocals(x))
			case *ast.CompositeLit:
				if _, ok := x.Type.(*ast.ArrayType); ok {
					out = append(out, abstractLocals(x))
				}
			}
			return true
		})
	}
	walk(fd.Body)
	return out
}

func isSliceOp(e ast.Expr) bool {
	switch x := e.(type) {
	case *ast.ParenExpr:
		return isSliceOp(x.X)
	case *ast.CallExpr:
		if id, ok := x.Fun.(*ast.Ident); ok && (id.Name == "append" || id.Name == "copy" || id.Name == "make") && id.Obj == nil {
			return true
		}
		if len(x.Args) == 1 { // a conversion of a slice literal: NodeList([]parsley.Node{…})
			if cl, ok := x.Args[0].(*ast.CompositeLit); ok {
				if _, ok := cl.Type.(*ast.ArrayType); ok {
					return true
				}
			}
		}
	case *ast.CompositeLit:
		_, ok := x.Type.(*ast.ArrayType)
		return ok
	case *ast.SliceExpr:
		return true
	}
	return false
}

func methodBody(rel, recv, name string) string {
	fd := findMethod(parseFile(rel), recv, name)
	if fd == nil {
		missing(rel + ":" + recv + "." + name)
		return ""
	}
	return norm(fd.Body)
}

func writeAstFacts(path string) error {
	type f struct{ name, val, comment string }
	// (the four body texts below are still written, for the reader of the generated file; nothing pins them any more: the
	// functions are TRANSLATED — progast.go, namespace PV.FactsAstProg at the end of the file — and tied in Props/C07P.lean)
	fs := []f{
		{"setReaderPosBody", normBody("ast/helpers.go", "SetReaderPos"), "ast/helpers.go SetReaderPos"},
		{"nodeListSetReaderPosBody", methodBody("ast/node_list.go", "NodeList", "SetReaderPos"), "ast/node_list.go NodeList.SetReaderPos"},
		{"terminalSetReaderPosBody", methodBody("ast/terminal_node.go", "TerminalNode", "SetReaderPos"), "ast/terminal_node.go (*TerminalNode).SetReaderPos"},
		{"nonTerminalSetReaderPosBody", methodBody("ast/nonterminal_node.go", "NonTerminalNode", "SetReaderPos"), "ast/nonterminal_node.go (*NonTerminalNode).SetReaderPos"},
	}
	var sb strings.Builder
	sb.WriteString("/- GENERATED by harness/cmd/factgen (-out-ast) from the repository's current source on every run. Do not edit. -/\nimport ParsleyVerif.Generated.SlicePrelude\nnamespace PV.FactsAst\n\n")
	for _, x := range fs {
		fmt.Fprintf(&sb, "/-- %s -/\ndef %s : String := %s\n\n", x.comment, x.name, strconv.Quote(x.val))
	}
	type sk struct {
		name, comment string
		ops           []string
	}
	for _, x := range []sk{
		// (the first two are still written, for the reader of the generated file; nothing pins them any more: AppendNode and
		// (*NodeList).Append are TRANSLATED at heap level — progast.go — and tied in Props/C07P.lean)
		{"appendNodeSliceOps", "ast/helpers.go AppendNode: its slice-level operations (the body is tied by translation at value level)",
			sliceOps("ast", findFunc(parseFile("ast/helpers.go"), "AppendNode"))},
		{"nodeListAppendSliceOps", "ast/node_list.go (*NodeList).Append: its slice-level operations (the body is tied by translation at value level)",
			sliceOps("ast", findMethod(parseFile("ast/node_list.go"), "NodeList", "Append"))},
		{"seqResultHandlerSliceOps", "combinator/seq.go seqDefaultResultHandler (copies the node buffer): its slice-level operations (the body is tied by translation at value level)",
			sliceOps("combinator", findFunc(parseFile("combinator/seq.go"), "seqDefaultResultHandler"))},
		{"seqParseNextSliceOps", "combinator/seq.go (*sequence).parseNext (writes the node buffer): its slice-level operations (the body is tied by translation at value level)",
			sliceOps("combinator", findMethod(parseFile("combinator/seq.go"), "sequence", "parseNext"))},
	} {
		qs := make([]string, len(x.ops))
		for i, o := range x.ops {
			qs[i] = strconv.Quote(o)
		}
		fmt.Fprintf(&sb, "/-- %s -/\ndef %s : List String := [%s]\n\n", x.comment, x.name, strings.Join(qs, ", "))
	}
	clips, before := memoizeClipFacts()
	fmt.Fprintf(&sb, "/-- Memoize clips the capacity of the list it caches and returns: a full slice expression x[:len(x):len(x)] occurs -/\ndef memoizeClips : Bool := %v\n\n", clips)
	fmt.Fprintf(&sb, "/-- … and it occurs before ResultCache().Save -/\ndef memoizeClipsBeforeSave : Bool := %v\n\n", before)
	q := func(xs []string) string {
		for i := range xs {
			xs[i] = strconv.Quote(xs[i])
		}
		return "[" + strings.Join(xs, ", ") + "]"
	}
	fmt.Fprintf(&sb, "/-- the ast.AppendNode calls of Any (argument kinds): it accumulates with AppendNode(acc, result) -/\ndef anyAppendNodeCalls : List String := %s\n\n", q(appendNodeCalls("combinator/any.go", "Any")))
	fmt.Fprintf(&sb, "/-- the ast.AppendNode calls of Optional: AppendNode(result, EmptyNode(pos)) -/\ndef optionalAppendNodeCalls : List String := %s\n\n", q(appendNodeCalls("combinator/optional.go", "Optional")))
	sb.WriteString("end PV.FactsAst\n\n")
	sb.WriteString(astProgSection())
	return os.WriteFile(path, []byte(sb.String()), 0o644)
}
