// factgen re-reads, from the repository's current source, the constants and expressions the Lean
// theorems depend on, and writes them as Lean definitions (ParsleyVerif/Generated/Facts.lean).
// The extracted values are normalised (whitespace removed) so that reformatting does not change them.
package main

import (
	"bytes"
	"flag"
	"fmt"
	"go/ast"
	"go/parser"
	"go/printer"
	"go/token"
	"os"
	"path/filepath"
	"sort"
	"strconv"
	"strings"
)

var fset = token.NewFileSet()
var repo string

type fact struct {
	name, typ, val, comment string
}

var facts []fact
var problems []string

func addStr(name, val, comment string) {
	facts = append(facts, fact{name, "String", strconv.Quote(val), comment})
}
func addNat(name string, val int, comment string) {
	facts = append(facts, fact{name, "Nat", strconv.Itoa(val), comment})
}
func addBool(name string, val bool, comment string) {
	facts = append(facts, fact{name, "Bool", strconv.FormatBool(val), comment})
}
func addRaw(name, typ, val, comment string) { facts = append(facts, fact{name, typ, val, comment}) }

func parseFile(rel string) *ast.File {
	f, err := parser.ParseFile(fset, filepath.Join(repo, rel), nil, parser.ParseComments)
	if err != nil {
		problems = append(problems, fmt.Sprintf("%s: %v", rel, err))
		return nil
	}
	return f
}

func norm(n ast.Node) string {
	if n == nil {
		return ""
	}
	var b bytes.Buffer
	printer.Fprint(&b, fset, n)
	s := b.String()
	var out strings.Builder
	for _, r := range s {
		if r == ' ' || r == '\t' || r == '\n' || r == '\r' {
			continue
		}
		out.WriteRune(r)
	}
	return out.String()
}

func findFunc(f *ast.File, name string) *ast.FuncDecl {
	if f == nil {
		return nil
	}
	for _, d := range f.Decls {
		if fd, ok := d.(*ast.FuncDecl); ok && fd.Name.Name == name && fd.Recv == nil {
			return fd
		}
	}
	return nil
}

func missing(what string) { problems = append(problems, "not found: "+what) }

// --- combinator/memoize.go: the curtailment test -----------------------------------------------
func memoizeFacts() {
	f := parseFile("combinator/memoize.go")
	fd := findFunc(f, "Memoize")
	if fd == nil {
		missing("Memoize")
		return
	}
	// the curtailment constant the model is written over: the integer literal of the test that compares the parser's own
	// counter with the remaining input, whatever the test's shape (`Get(i) > Remaining(pos)+k`, `k+Remaining(pos) < Get(i)`,
	// ...).  The test ITSELF is tied by translation (FactsFn.curtails, FactsCore.Memoize_parse), not by its text: when the
	// literal cannot be read the pinned value is emitted (see the fallback table) and those ties decide.
	found := false
	ast.Inspect(fd, func(n ast.Node) bool {
		is, ok := n.(*ast.IfStmt)
		if !ok || found || !strings.Contains(norm(is.Cond), "leftRecCtx.Get(") {
			return true
		}
		var lits []string
		ast.Inspect(is.Cond, func(m ast.Node) bool {
			if lit, ok := m.(*ast.BasicLit); ok && lit.Kind == token.INT {
				lits = append(lits, lit.Value)
			}
			return true
		})
		found = true
		switch len(lits) {
		case 0:
			addNat("curtailSlack", 0, "the constant added to Remaining(pos) (no literal in the test)")
		case 1:
			if k, err := strconv.Atoi(lits[0]); err == nil {
				addNat("curtailSlack", k, "the constant added to Remaining(pos)")
			}
		}
		return true
	})
	// statement order of the body: lookup, curtail, parse(Inc), clip, Filter, Save
	var order []string
	ast.Inspect(fd, func(n ast.Node) bool {
		if ce, ok := n.(*ast.CallExpr); ok {
			s := norm(ce.Fun)
			for _, k := range []string{"ResultCache().Get", "p.Parse", "leftRecCtx.Inc", "leftRecCtx.Filter", "ResultCache().Save", "data.NewIntSet"} {
				if strings.HasSuffix(s, k) {
					order = append(order, k)
				}
			}
		}
		return true
	})
	addStr("memoizeCallOrder", strings.Join(order, ";"), "memoize.go: calls in source order")
	addStr("memoizeSavedCtx", findAssignRHS(fd, "leftRecCtx"), "memoize.go: what is stored as the entry's context")
}

func findAssignRHS(fd *ast.FuncDecl, lhs string) string {
	out := ""
	ast.Inspect(fd, func(n ast.Node) bool {
		if as, ok := n.(*ast.AssignStmt); ok && len(as.Lhs) == 1 && norm(as.Lhs[0]) == lhs && as.Tok == token.ASSIGN {
			out = norm(as.Rhs[0])
		}
		return true
	})
	return out
}

// --- parsley/result_cache.go ---------------------------------------------------------------------
func cacheFacts() {
	f := parseFile("parsley/result_cache.go")
	fd := findFuncRecv(f, "Get")
	if fd == nil {
		missing("ResultCache.Get")
		return
	}
	ast.Inspect(fd, func(n ast.Node) bool {
		if fs, ok := n.(*ast.RangeStmt); ok {
			addStr("cacheGetRange", norm(fs.X), "result_cache.go: keys the reuse test ranges over")
			ast.Inspect(fs.Body, func(m ast.Node) bool {
				if is, ok := m.(*ast.IfStmt); ok {
					addStr("cacheGetReject", norm(is.Cond), "result_cache.go: when a stored result is NOT reusable")
				}
				return true
			})
		}
		return true
	})
}

func findFuncRecv(f *ast.File, name string) *ast.FuncDecl {
	if f == nil {
		return nil
	}
	for _, d := range f.Decls {
		if fd, ok := d.(*ast.FuncDecl); ok && fd.Name.Name == name && fd.Recv != nil {
			return fd
		}
	}
	return nil
}

func findMethod(f *ast.File, recv, name string) *ast.FuncDecl {
	if f == nil {
		return nil
	}
	for _, d := range f.Decls {
		if fd, ok := d.(*ast.FuncDecl); ok && fd.Name.Name == name && fd.Recv != nil && len(fd.Recv.List) == 1 {
			t := norm(fd.Recv.List[0].Type)
			if strings.TrimPrefix(t, "*") == recv {
				return fd
			}
		}
	}
	return nil
}

// --- combinator/seq.go ---------------------------------------------------------------------------
func seqFacts() {
	f := parseFile("combinator/seq.go")
	if fd := findMethod(f, "sequence", "parseNext"); fd != nil {
		done := false
		ast.Inspect(fd, func(n ast.Node) bool {
			if is, ok := n.(*ast.IfStmt); ok && !done && strings.Contains(norm(is.Body), "data.EmptyIntMap") {
				done = true
				addStr("seqResetCond", norm(is.Cond), "seq.go parseNext: when the left-recursion context is reset")
				addStr("seqResetBody", norm(is.Body), "and what the reset does")
			}
			return true
		})
		if !done {
			missing("context reset in parseNext")
		}
	} else {
		missing("sequence.parseNext")
	}
	if fd := findMethod(f, "sequence", "parse"); fd != nil {
		var conds []string
		ast.Inspect(fd, func(n ast.Node) bool {
			if is, ok := n.(*ast.IfStmt); ok {
				conds = append(conds, norm(is.Cond))
			}
			return true
		})
		addStr("seqParseConds", strings.Join(conds, ";"), "seq.go parse: its conditions in source order")
	} else {
		missing("sequence.parse")
	}
	if fd := findMethod(f, "sequence", "Parse"); fd != nil {
		var conds []string
		ast.Inspect(fd, func(n ast.Node) bool {
			if is, ok := n.(*ast.IfStmt); ok {
				conds = append(conds, norm(is.Cond))
			}
			return true
		})
		addStr("seqRunConds", strings.Join(conds, ";"), "seq.go (*sequence).Parse: its conditions")
	}
	if fd := findMethod(f, "Sequence", "Parse"); fd != nil {
		ast.Inspect(fd, func(n ast.Node) bool {
			if is, ok := n.(*ast.IfStmt); ok && strings.Contains(norm(is.Cond), "customErr") {
				addStr("seqNameCond", norm(is.Cond), "seq.go (*Sequence).Parse: when Name overrides the error")
			}
			return true
		})
	}
	lenCheck := func(file *ast.File, fn string) string {
		fd := findFunc(file, fn)
		if fd == nil {
			missing(fn)
			return ""
		}
		out := ""
		ast.Inspect(fd, func(n ast.Node) bool {
			if as, ok := n.(*ast.AssignStmt); ok && len(as.Lhs) == 1 && norm(as.Lhs[0]) == "lenCheck" {
				if fl, ok := as.Rhs[0].(*ast.FuncLit); ok && len(fl.Body.List) == 1 {
					if rs, ok := fl.Body.List[0].(*ast.ReturnStmt); ok {
						out = norm(rs.Results[0])
					}
				}
			}
			return true
		})
		return out
	}
	addStr("lenCheckSeqOf", lenCheck(f, "SeqOf"), "seq.go SeqOf lenCheck")
	addStr("lenCheckSeqTry", lenCheck(f, "SeqTry"), "seq.go SeqTry lenCheck")
	addStr("lenCheckSeqFirstOrAll", lenCheck(f, "SeqFirstOrAll"), "seq.go SeqFirstOrAll lenCheck")
	addStr("lenCheckMany", lenCheck(parseFile("combinator/many.go"), "newMany"), "many.go lenCheck")
	addStr("lenCheckSepBy", lenCheck(parseFile("combinator/sep_by.go"), "newSepBy"), "sep_by.go lenCheck")
	if fd := findFunc(parseFile("combinator/sep_by.go"), "newSepBy"); fd != nil {
		ast.Inspect(fd, func(n ast.Node) bool {
			if is, ok := n.(*ast.IfStmt); ok {
				addStr("sepByLookupCond", norm(is.Cond), "sep_by.go: which index gets the value parser")
			}
			return true
		})
	}
}

// --- any.go / choice.go / return_error.go / context.go / parse.go: error selection ---------------
func errorFacts() {
	collect := func(rel, fn string) string {
		f := parseFile(rel)
		var fd ast.Node
		if d := findFunc(f, fn); d != nil {
			fd = d
		} else if d := findFuncRecv(f, fn); d != nil {
			fd = d
		}
		if fd == nil {
			missing(rel + ":" + fn)
			return ""
		}
		var conds []string
		ast.Inspect(fd, func(n ast.Node) bool {
			if is, ok := n.(*ast.IfStmt); ok {
				conds = append(conds, norm(is.Cond))
			}
			return true
		})
		return strings.Join(conds, ";")
	}
	addStr("anyConds", collect("combinator/any.go", "Any"), "any.go: conditions in source order")
	addStr("choiceConds", collect("combinator/choice.go", "Choice"), "choice.go: conditions in source order")
	addStr("returnErrorConds", collect("parser/return_error.go", "ReturnError"), "return_error.go: conditions")
	addStr("setErrorConds", collect("parsley/context.go", "SetError"), "context.go SetError: conditions")
	addStr("parseConds", collect("parsley/parse.go", "Parse"), "parse.go Parse: conditions")
	addStr("optionalBody", normBody("combinator/optional.go", "Optional"), "optional.go")
	addStr("endConds", collect("parser/end.go", "End"), "end.go")
	addStr("leftTrimConds", collect("text/trim.go", "LeftTrim"), "trim.go LeftTrim: conditions in source order")
	addStr("rightTrimConds", collect("text/trim.go", "RightTrim"), "trim.go RightTrim: conditions in source order")
}

func normBody(rel, fn string) string {
	fd := findFunc(parseFile(rel), fn)
	if fd == nil {
		missing(rel + ":" + fn)
		return ""
	}
	return norm(fd.Body)
}

// --- text/reader.go, text/file.go, parsley/file_set.go -------------------------------------------
func textFacts() {
	f := parseFile("text/reader.go")
	if fd := findMethod(f, "Reader", "SkipWhitespaces"); fd != nil {
		var ws []int
		var nl []int
		ast.Inspect(fd, func(n ast.Node) bool {
			switch s := n.(type) {
			case *ast.ForStmt:
				if s.Cond == nil { // (a `for { … }`: nothing to read; the constants fall back, the translation ties decide)
					return true
				}
				ast.Inspect(s.Cond, func(m ast.Node) bool {
					if lit, ok := m.(*ast.BasicLit); ok && lit.Kind == token.CHAR {
						if r, _, _, err := strconv.UnquoteChar(lit.Value[1:len(lit.Value)-1], '\''); err == nil {
							ws = append(ws, int(r))
						}
					}
					return true
				})
				ast.Inspect(s.Body, func(m ast.Node) bool {
					if is, ok := m.(*ast.IfStmt); ok {
						addStr("wsNlCond", norm(is.Cond), "reader.go SkipWhitespaces: when the first line break is recorded")
						ast.Inspect(is.Cond, func(k ast.Node) bool {
							if lit, ok := k.(*ast.BasicLit); ok && lit.Kind == token.CHAR {
								if r, _, _, err := strconv.UnquoteChar(lit.Value[1:len(lit.Value)-1], '\''); err == nil {
									nl = append(nl, int(r))
								}
							}
							return true
						})
					}
					return true
				})
			case *ast.SwitchStmt:
				var cases []string
				for _, c := range s.Body.List {
					cc := c.(*ast.CaseClause)
					for _, e := range cc.List {
						first := ""
						if len(cc.Body) > 0 {
							first = norm(cc.Body[0])
						}
						cases = append(cases, norm(e)+"=>"+first)
					}
				}
				addStr("wsModeCases", strings.Join(cases, ";"), "reader.go SkipWhitespaces: the mode switch")
			}
			return true
		})
		// (when the loop is written differently the lists are not found: the pinned fallback values are emitted - see main -
		// and the translation tie of SkipWhitespaces, Props/C10P.lean, decides whether the function still skips these bytes)
		if len(ws) > 0 {
			addRaw("wsBytes", "List Nat", natList(ws), "reader.go: bytes skipped as whitespace")
		}
		if len(nl) > 0 {
			addRaw("wsBreakBytes", "List Nat", natList(nl), "reader.go: bytes counted as line breaks")
		}
	} else {
		missing("SkipWhitespaces")
	}
	for _, m := range []string{"ReadRune", "MatchString", "MatchWord", "ReadRegexp", "Readf", "Remaining", "IsEOF"} {
		if fd := findMethod(f, "Reader", m); fd != nil {
			var conds []string
			ast.Inspect(fd, func(n ast.Node) bool {
				if is, ok := n.(*ast.IfStmt); ok {
					conds = append(conds, norm(is.Cond))
				}
				if as, ok := n.(*ast.AssignStmt); ok && len(as.Lhs) == 1 && norm(as.Lhs[0]) == "cur" {
					conds = append(conds, "cur:="+norm(as.Rhs[0]))
				}
				if rs, ok := n.(*ast.ReturnStmt); ok && (m == "Remaining" || m == "IsEOF") {
					conds = append(conds, "return "+norm(rs.Results[0]))
				}
				return true
			})
			addStr("reader"+m, strings.Join(conds, ";"), "reader.go "+m+": cursor computation and guards")
		} else {
			missing("Reader." + m)
		}
	}
	if fd := findFunc(f, "isWordCharacter"); fd != nil {
		addStr("wordChar", norm(fd.Body), "reader.go isWordCharacter")
	}
	if fd := findMethod(f, "Reader", "getPattern"); fd != nil {
		ast.Inspect(fd, func(n ast.Node) bool {
			if ce, ok := n.(*ast.CallExpr); ok && norm(ce.Fun) == "regexp.MustCompile" {
				addStr("regexpWrap", norm(ce.Args[0]), "reader.go: how expressions are anchored")
			}
			return true
		})
	}

	ff := parseFile("text/file.go")
	if fd := findFunc(ff, "NewFile"); fd != nil {
		ast.Inspect(fd, func(n ast.Node) bool {
			if kv, ok := n.(*ast.KeyValueExpr); ok {
				switch norm(kv.Key) {
				case "offset":
					v, _ := strconv.Atoi(norm(kv.Value))
					addNat("newFileOffset", v, "file.go NewFile: default offset")
				case "data":
					addStr("newFileData", norm(kv.Value), "file.go NewFile: CRLF normalisation")
				}
			}
			return true
		})
	}
	if fd := findMethod(ff, "File", "Position"); fd != nil {
		var conds []string
		ast.Inspect(fd, func(n ast.Node) bool {
			if is, ok := n.(*ast.IfStmt); ok {
				conds = append(conds, norm(is.Cond))
			}
			if as, ok := n.(*ast.AssignStmt); ok && norm(as.Lhs[0]) == "i" {
				conds = append(conds, "i:="+norm(as.Rhs[0]))
			}
			if kv, ok := n.(*ast.KeyValueExpr); ok {
				conds = append(conds, norm(kv))
			}
			return true
		})
		addStr("filePosition", strings.Join(conds, ";"), "file.go Position")
	}
	if fd := findMethod(ff, "File", "setLines"); fd != nil {
		addStr("fileSetLines", norm(fd.Body), "file.go setLines")
	}
	if fd := findMethod(ff, "File", "Pos"); fd != nil {
		addStr("filePos", norm(fd.Body), "file.go Pos")
	}

	fs := parseFile("parsley/file_set.go")
	if fd := findFunc(fs, "NewFileSet"); fd != nil {
		ast.Inspect(fd, func(n ast.Node) bool {
			if kv, ok := n.(*ast.KeyValueExpr); ok && norm(kv.Key) == "pos" {
				v, _ := strconv.Atoi(norm(kv.Value))
				addNat("fileSetFirstPos", v, "file_set.go NewFileSet: first global position")
			}
			return true
		})
	}
	if fd := findMethod(fs, "FileSet", "AddFile"); fd != nil {
		ast.Inspect(fd, func(n ast.Node) bool {
			if as, ok := n.(*ast.AssignStmt); ok && norm(as.Lhs[0]) == "fs.pos" {
				addStr("fileSetAdvance", norm(as.Rhs[0]), "file_set.go AddFile: next position")
				if be, ok := as.Rhs[0].(*ast.BinaryExpr); ok {
					if lit, ok := be.Y.(*ast.BasicLit); ok {
						v, _ := strconv.Atoi(lit.Value)
						addNat("fileSetGap", v, "file_set.go AddFile: gap between files")
					}
				}
			}
			return true
		})
	}
	if fd := findMethod(fs, "FileSet", "Position"); fd != nil {
		var conds []string
		ast.Inspect(fd, func(n ast.Node) bool {
			if is, ok := n.(*ast.IfStmt); ok {
				conds = append(conds, norm(is.Cond))
			}
			if as, ok := n.(*ast.AssignStmt); ok && norm(as.Lhs[0]) == "i" {
				conds = append(conds, "i:="+norm(as.Rhs[0]))
			}
			if rs, ok := n.(*ast.ReturnStmt); ok && len(rs.Results) == 1 && strings.Contains(norm(rs.Results[0]), "Position(") {
				conds = append(conds, "return "+norm(rs.Results[0]))
			}
			return true
		})
		addStr("fileSetPosition", strings.Join(conds, ";"), "file_set.go Position")
	}
}

func natList(l []int) string {
	s := make([]string, len(l))
	for i, v := range l {
		s[i] = strconv.Itoa(v)
	}
	return "[" + strings.Join(s, ", ") + "]"
}

// --- text/terminal: the literal regular expressions ----------------------------------------------
func terminalFacts() {
	re := func(rel, fn, name string) {
		fd := findFunc(parseFile(rel), fn)
		if fd == nil {
			missing(rel + ":" + fn)
			return
		}
		var found []string
		ast.Inspect(fd, func(n ast.Node) bool {
			if ce, ok := n.(*ast.CallExpr); ok && strings.HasSuffix(norm(ce.Fun), ".ReadRegexp") && len(ce.Args) == 2 {
				if lit, ok := ce.Args[1].(*ast.BasicLit); ok {
					s, err := strconv.Unquote(lit.Value)
					if err == nil {
						found = append(found, s)
					}
				}
			}
			return true
		})
		addStr(name, strings.Join(found, "\n"), rel+": regular expression(s) handed to ReadRegexp")
	}
	re("text/terminal/integer.go", "Integer", "integerRegexp")
	re("text/terminal/float.go", "Float", "floatRegexp")
	re("text/terminal/char.go", "Char", "charRegexp")
	re("text/terminal/time_duration.go", "TimeDuration", "durationRegexp")
	re("text/terminal/string.go", "String", "backquoteRegexp")
	addStr("integerBody", normBody("text/terminal/integer.go", "Integer"), "integer.go Integer")
	addStr("unquoteStringBody", normBody("text/terminal/string.go", "unquoteString"), "string.go unquoteString")
}

// --- data: Insert ----------------------------------------------------------------------------------
func dataFacts() {
	f := parseFile("data/intset.go")
	for _, m := range []string{"Insert", "insertValue", "Union"} {
		if fd := findMethod(f, "IntSet", m); fd != nil {
			addStr("intSet"+strings.Title(m), norm(fd.Body), "intset.go "+m)
		} else {
			missing("IntSet." + m)
		}
	}
	g := parseFile("data/intmap.go")
	for _, m := range []string{"Inc", "Filter", "clone"} {
		if fd := findMethod(g, "IntMap", m); fd != nil {
			addStr("intMap"+strings.Title(m), norm(fd.Body), "intmap.go "+m)
		} else {
			missing("IntMap." + m)
		}
	}
}

// --- C14: package level variables and every non-read access to one ---------------------------------
func pkgVarFacts() {
	var pkgs []string
	filepath.Walk(repo, func(path string, info os.FileInfo, err error) error {
		if err != nil {
			return nil
		}
		if info.IsDir() {
			b := filepath.Base(path)
			if strings.HasPrefix(b, ".") || b == "tools" || b == "examples" || strings.HasSuffix(b, "fakes") || b == "vendor" {
				return filepath.SkipDir
			}
			pkgs = append(pkgs, path)
		}
		return nil
	})
	sort.Strings(pkgs)
	type access struct{ v, kind, where string }
	var vars []string
	var accesses []access
	for _, dir := range pkgs {
		entries, _ := filepath.Glob(filepath.Join(dir, "*.go"))
		sort.Strings(entries)
		var files []*ast.File
		for _, e := range entries {
			if strings.HasSuffix(e, "_test.go") {
				continue
			}
			f, err := parser.ParseFile(fset, e, nil, 0)
			if err != nil {
				problems = append(problems, err.Error())
				continue
			}
			files = append(files, f)
		}
		if len(files) == 0 {
			continue
		}
		pkgName := files[0].Name.Name
		topVars := map[string]*ast.ValueSpec{}
		ptrMethods := map[string]bool{}
		for _, f := range files {
			for _, d := range f.Decls {
				switch d := d.(type) {
				case *ast.GenDecl:
					if d.Tok == token.VAR {
						for _, s := range d.Specs {
							vs := s.(*ast.ValueSpec)
							for _, n := range vs.Names {
								if n.Name != "_" {
									topVars[n.Name] = vs
									vars = append(vars, pkgName+"."+n.Name)
								}
							}
						}
					}
				case *ast.FuncDecl:
					if d.Recv != nil && len(d.Recv.List) == 1 {
						if _, ok := d.Recv.List[0].Type.(*ast.StarExpr); ok {
							ptrMethods[d.Name.Name] = true
						}
					}
				}
			}
		}
		isVar := func(e ast.Expr) (string, bool) {
			id, ok := e.(*ast.Ident)
			if !ok {
				return "", false
			}
			vs, ok := topVars[id.Name]
			if !ok {
				return "", false
			}
			if id.Obj != nil && id.Obj.Decl != vs {
				return "", false // shadowed by a local
			}
			return pkgName + "." + id.Name, true
		}
		for _, f := range files {
			for _, d := range f.Decls {
				fd, ok := d.(*ast.FuncDecl)
				if !ok || fd.Body == nil {
					continue
				}
				where := pkgName + "." + fd.Name.Name
				root := func(e ast.Expr) ast.Expr {
					for {
						switch x := e.(type) {
						case *ast.SelectorExpr:
							e = x.X
						case *ast.IndexExpr:
							e = x.X
						case *ast.ParenExpr:
							e = x.X
						case *ast.StarExpr:
							e = x.X
						default:
							return e
						}
					}
				}
				ast.Inspect(fd.Body, func(n ast.Node) bool {
					switch s := n.(type) {
					case *ast.AssignStmt:
						if s.Tok == token.DEFINE {
							return true
						}
						for _, l := range s.Lhs {
							if v, ok := isVar(root(l)); ok {
								accesses = append(accesses, access{v, "write", where})
							}
						}
					case *ast.IncDecStmt:
						if v, ok := isVar(root(s.X)); ok {
							accesses = append(accesses, access{v, "write", where})
						}
					case *ast.CallExpr:
						fn := norm(s.Fun)
						for _, a := range s.Args {
							if ue, ok := a.(*ast.UnaryExpr); ok && ue.Op == token.AND {
								if v, ok := isVar(root(ue.X)); ok {
									kind := "addr:" + fn
									if strings.HasPrefix(fn, "atomic.") {
										kind = "atomic"
									}
									accesses = append(accesses, access{v, kind, where})
								}
							}
						}
						if se, ok := s.Fun.(*ast.SelectorExpr); ok && ptrMethods[se.Sel.Name] {
							if v, ok := isVar(root(se.X)); ok {
								accesses = append(accesses, access{v, "ptrcall:" + se.Sel.Name, where})
							}
						}
					case *ast.UnaryExpr:
						if s.Op == token.AND {
							if v, ok := isVar(root(s.X)); ok {
								accesses = append(accesses, access{v, "addr", where})
							}
						}
					}
					return true
				})
			}
		}
	}
	// "addr" entries that are the argument of a call were also recorded with the call: drop the bare duplicate
	var out []string
	seen := map[string]bool{}
	hasCall := map[string]bool{}
	for _, a := range accesses {
		if strings.HasPrefix(a.kind, "addr:") || a.kind == "atomic" {
			hasCall[a.v+"@"+a.where] = true
		}
	}
	for _, a := range accesses {
		if a.kind == "addr" && hasCall[a.v+"@"+a.where] {
			continue
		}
		k := fmt.Sprintf("(%s, %s, %s)", strconv.Quote(a.v), strconv.Quote(a.kind), strconv.Quote(a.where))
		if !seen[k] {
			seen[k] = true
			out = append(out, k)
		}
	}
	sort.Strings(out)
	sort.Strings(vars)
	qv := make([]string, len(vars))
	for i, v := range vars {
		qv[i] = strconv.Quote(v)
	}
	addRaw("pkgVars", "List String", "[\n    "+strings.Join(qv, ",\n    ")+"]", "every package level variable of the non-test, non-fake packages")
	addRaw("pkgVarAccesses", "List (String × String × String)", "[\n    "+strings.Join(out, ",\n    ")+"]",
		"every write to / address-of / pointer-method call on one of them inside a function body: (variable, kind, function)")
}

func main() {
	out := flag.String("out", "", "output Lean file")
	outConc := flag.String("out-conc", "", "second output Lean file: the C14 facts (PV.FactsConc); not written when empty")
	outFn := flag.String("out-fn", "", "fourth output Lean file: decision expressions translated into Lean functions (PV.FactsFn); not written when empty")
	outAst := flag.String("out-ast", "", "third output Lean file: source text of the node/list primitives (PV.FactsAst); not written when empty")
	outProg := flag.String("out-prog", "", "fifth output Lean file: whole functions translated statement by statement (PV.FactsProg); not written when empty")
	outCore := flag.String("out-core", "", "sixth output Lean file: the parser core translated statement by statement (PV.FactsCore); not written when empty")
	outTree := flag.String("out-tree", "", "seventh output Lean file: the tree passes and the evaluation translated statement by statement (PV.FactsTree); not written when empty")
	outTerm := flag.String("out-term", "", "eighth output Lean file: the terminal parsers of text/terminal translated statement by statement (PV.FactsTerm); not written when empty")
	outJson := flag.String("out-json", "", "ninth output Lean file: the grammar examples/json/json.NewParser constructs, as a term of the model's grammar type (PV.FactsJson); not written when empty")
	flag.StringVar(&repo, "repo", "/repo", "repository root")
	flag.Parse()
	if *outJson != "" {
		if err := writeJsonFacts(*outJson); err != nil {
			fmt.Fprintln(os.Stderr, err)
			os.Exit(1)
		}
	}
	if *outTerm != "" {
		if err := writeTermFacts(*outTerm); err != nil {
			fmt.Fprintln(os.Stderr, err)
			os.Exit(1)
		}
	}
	if *outTree != "" {
		if err := writeTreeFacts(*outTree); err != nil {
			fmt.Fprintln(os.Stderr, err)
			os.Exit(1)
		}
	}
	if *outCore != "" {
		if err := writeCoreFacts(*outCore); err != nil {
			fmt.Fprintln(os.Stderr, err)
			os.Exit(1)
		}
	}
	if *outProg != "" {
		if err := writeProgFacts(*outProg); err != nil {
			fmt.Fprintln(os.Stderr, err)
			os.Exit(1)
		}
	}
	if *outFn != "" {
		if err := writeFnFacts(*outFn); err != nil {
			fmt.Fprintln(os.Stderr, err)
			os.Exit(1)
		}
	}
	if *outAst != "" {
		if err := writeAstFacts(*outAst); err != nil {
			fmt.Fprintln(os.Stderr, err)
			os.Exit(1)
		}
	}
	memoizeFacts()
	cacheFacts()
	seqFacts()
	errorFacts()
	textFacts()
	terminalFacts()
	dataFacts()
	pkgVarFacts()
	if *outConc != "" {
		var vars, accesses string
		for _, f := range facts {
			switch f.name {
			case "pkgVars":
				vars = f.val
			case "pkgVarAccesses":
				accesses = f.val
			}
		}
		if err := os.WriteFile(*outConc, []byte(concFacts(vars, accesses)), 0o644); err != nil {
			fmt.Fprintln(os.Stderr, err)
			os.Exit(1)
		}
	}

	var b strings.Builder
	b.WriteString("/- GENERATED by harness/cmd/factgen from the repository's current source on every run. Do not edit. -/\n")
	b.WriteString("namespace PV.Facts\n\n")
	// a restructured function can make an extraction site match more than once: the generated file must still be
	// well-formed Lean (the model driver imports it), so a repeated name is emitted under a suffixed name and reported
	// as an extraction problem (which the property theorems pin to the empty list)
	// the six constants the MODEL itself is written over must always be defined, or neither the model nor its driver
	// compiles and no correspondence run can look for a failing input: when the extractor did not find one (the code it
	// reads was restructured) the pinned value is emitted under the name and the extraction problem is recorded - the
	// check reports it for every property whose proofs mention the constant
	have := map[string]bool{}
	for _, f := range facts {
		have[f.name] = true
	}
	for _, d := range []fact{
		{"curtailSlack", "Nat", "1", "FALLBACK (not found in the current source)"},
		{"fileSetFirstPos", "Nat", "1", "FALLBACK (not found in the current source)"},
		{"fileSetGap", "Nat", "1", "FALLBACK (not found in the current source)"},
		{"newFileOffset", "Nat", "1", "FALLBACK (not found in the current source)"},
		{"wsBytes", "List Nat", "[32, 9, 10, 12]", "FALLBACK (not found in the current source)"},
		{"wsBreakBytes", "List Nat", "[10, 12]", "FALLBACK (not found in the current source)"},
	} {
		if !have[d.name] {
			facts = append(facts, d)
			if d.name == "curtailSlack" || d.name == "wsBytes" || d.name == "wsBreakBytes" {
				// (the whitespace byte sets: SkipWhitespaces as a whole is translated - FactsProg.Reader_SkipWhitespaces - and
				// Props/C10P.lean proves the model's skipWhitespaces over these sets equal to the translation)
				// the curtailment test is ALSO translated as an expression (FactsFn.curtails) and inside Memoize_parse
				// (FactsCore): Proofs/FactsTie.lean and Props/C01P.lean prove the model's test over this constant equal to
				// the translation, so a rewritten but equivalent test needs no alarm and a changed one breaks those proofs
				continue
			}
			problems = append(problems, fmt.Sprintf("fact %s extracted 0 times (fallback value emitted so that the model compiles)", d.name))
		}
	}
	seen := map[string]int{}
	for _, f := range facts {
		name := f.name
		if n := seen[f.name]; n > 0 {
			name = fmt.Sprintf("%s_dup%d", f.name, n)
			problems = append(problems, fmt.Sprintf("fact %s extracted %d times (value %d: %s)", f.name, n+1, n+1, f.val))
		}
		seen[f.name]++
		fmt.Fprintf(&b, "/-- %s -/\ndef %s : %s := %s\n\n", f.comment, name, f.typ, f.val)
	}
	qp := make([]string, len(problems))
	for i, p := range problems {
		qp[i] = strconv.Quote(p)
	}
	fmt.Fprintf(&b, "/-- things the extractor looked for and did not find -/\ndef extractionProblems : List String := [%s]\n\n", strings.Join(qp, ", "))
	b.WriteString("end PV.Facts\n")
	if *out == "" {
		fmt.Print(b.String())
		return
	}
	if err := os.WriteFile(*out, []byte(b.String()), 0o644); err != nil {
		fmt.Fprintln(os.Stderr, err)
		os.Exit(1)
	}
}
