package main

// Fourth output (-out-fn): a TRANSLATOR, not a text comparison.  The decision expressions of the parser core
// (lenCheck of the five sequence kinds, SepBy's value/separator test, isWordCharacter, Remaining, IsEOF, the file-set
// advance) are translated from the Go AST into Lean functions over Nat / Bool.  Lean then proves that the
// model's definitions equal these functions (Proofs/FactsTie.lean), so a semantically different expression
// breaks a theorem while a harmless rewrite (operand order, an equivalent comparison) does not.

import (
	"fmt"
	"go/ast"
	"go/token"
	"os"
	"strconv"
	"strings"
)

type fnFact struct {
	name, params, body, comment string
	ok                          bool
}

// leanExpr translates a Go expression.  `vars` maps the normalised text of a Go sub-expression to a Lean variable.
// Returned kind is "bool" or "nat".
func leanExpr(e ast.Expr, vars map[string]string) (string, string, bool) {
	if v, ok := vars[norm(e)]; ok {
		kind := "nat"
		if strings.HasPrefix(v, "b:") {
			kind, v = "bool", v[2:]
		}
		return v, kind, true
	}
	switch x := e.(type) {
	case *ast.ParenExpr:
		return leanExpr(x.X, vars)
	case *ast.BasicLit:
		switch x.Kind {
		case token.INT:
			return x.Value, "nat", true
		case token.CHAR:
			r, _, _, err := strconv.UnquoteChar(x.Value[1:len(x.Value)-1], '\'')
			if err != nil {
				return "", "", false
			}
			return strconv.Itoa(int(r)), "nat", true
		}
		return "", "", false
	case *ast.CallExpr:
		// conversions int(x), parsley.Pos(x): transparent
		if len(x.Args) == 1 {
			switch norm(x.Fun) {
			case "int", "parsley.Pos", "Pos", "byte", "rune":
				return leanExpr(x.Args[0], vars)
			}
		}
		return "", "", false
	case *ast.UnaryExpr:
		if x.Op == token.NOT {
			a, k, ok := leanExpr(x.X, vars)
			if !ok || k != "bool" {
				return "", "", false
			}
			return "(!" + a + ")", "bool", true
		}
		return "", "", false
	case *ast.BinaryExpr:
		a, ka, ok1 := leanExpr(x.X, vars)
		b, kb, ok2 := leanExpr(x.Y, vars)
		if !ok1 || !ok2 {
			return "", "", false
		}
		switch x.Op {
		case token.LAND, token.LOR:
			if ka != "bool" || kb != "bool" {
				return "", "", false
			}
			op := "&&"
			if x.Op == token.LOR {
				op = "||"
			}
			return "(" + a + " " + op + " " + b + ")", "bool", true
		case token.EQL, token.NEQ, token.LSS, token.LEQ, token.GTR, token.GEQ:
			if ka == "bool" && kb == "bool" && (x.Op == token.EQL || x.Op == token.NEQ) {
				if x.Op == token.EQL {
					return "(" + a + " == " + b + ")", "bool", true
				}
				return "(" + a + " != " + b + ")", "bool", true
			}
			if ka != "nat" || kb != "nat" {
				return "", "", false
			}
			op := map[token.Token]string{token.EQL: "=", token.NEQ: "≠", token.LSS: "<", token.LEQ: "≤", token.GTR: ">", token.GEQ: "≥"}[x.Op]
			return "decide (" + a + " " + op + " " + b + ")", "bool", true
		case token.ADD, token.SUB, token.REM, token.MUL:
			if ka != "nat" || kb != "nat" {
				return "", "", false
			}
			op := map[token.Token]string{token.ADD: "+", token.SUB: "-", token.REM: "%", token.MUL: "*"}[x.Op]
			return "(" + a + " " + op + " " + b + ")", "nat", true
		}
	}
	return "", "", false
}

func findIfCond(fd *ast.FuncDecl, pred func(cond ast.Expr, is *ast.IfStmt) bool) ast.Expr {
	var out ast.Expr
	if fd == nil {
		return nil
	}
	ast.Inspect(fd, func(n ast.Node) bool {
		if is, ok := n.(*ast.IfStmt); ok && out == nil && pred(is.Cond, is) {
			out = is.Cond
		}
		return true
	})
	return out
}

func lenCheckExpr(file *ast.File, fn string) ast.Expr {
	fd := findFunc(file, fn)
	var out ast.Expr
	if fd == nil {
		return nil
	}
	ast.Inspect(fd, func(n ast.Node) bool {
		if as, ok := n.(*ast.AssignStmt); ok && len(as.Lhs) == 1 && norm(as.Lhs[0]) == "lenCheck" {
			if fl, ok := as.Rhs[0].(*ast.FuncLit); ok && len(fl.Body.List) == 1 {
				if rs, ok := fl.Body.List[0].(*ast.ReturnStmt); ok {
					out = rs.Results[0]
				}
			}
		}
		return true
	})
	return out
}

func singleReturn(fd *ast.FuncDecl) ast.Expr {
	if fd == nil || fd.Body == nil || len(fd.Body.List) != 1 {
		return nil
	}
	if rs, ok := fd.Body.List[0].(*ast.ReturnStmt); ok && len(rs.Results) == 1 {
		return rs.Results[0]
	}
	return nil
}

func writeFnFacts(path string) error {
	var fs []fnFact
	add := func(name, params, wantKind, comment string, e ast.Expr, vars map[string]string) {
		f := fnFact{name: name, params: params, comment: comment}
		if e != nil {
			if body, kind, ok := leanExpr(e, vars); ok && kind == wantKind {
				f.body, f.ok = body, true
				f.comment += ": `" + norm(e) + "`"
			}
		}
		fs = append(fs, f)
	}
	seq := parseFile("combinator/seq.go")
	lv := map[string]string{"len": "len", "l": "l", "allowEmpty": "b:allowEmpty"}
	add("lenCheckSeqOf", "(len l : Nat)", "bool", "seq.go SeqOf lenCheck", lenCheckExpr(seq, "SeqOf"), lv)
	add("lenCheckSeqTry", "(len l : Nat)", "bool", "seq.go SeqTry lenCheck", lenCheckExpr(seq, "SeqTry"), lv)
	add("lenCheckSeqFirstOrAll", "(len l : Nat)", "bool", "seq.go SeqFirstOrAll lenCheck", lenCheckExpr(seq, "SeqFirstOrAll"), lv)
	add("lenCheckMany", "(allowEmpty : Bool) (len : Nat)", "bool", "many.go lenCheck", lenCheckExpr(parseFile("combinator/many.go"), "newMany"), lv)
	sepf := parseFile("combinator/sep_by.go")
	add("lenCheckSepBy", "(allowEmpty : Bool) (len : Nat)", "bool", "sep_by.go lenCheck", lenCheckExpr(sepf, "newSepBy"), lv)
	add("sepByIsValue", "(i : Nat)", "bool", "sep_by.go: index i gets the value parser",
		findIfCond(findFunc(sepf, "newSepBy"), func(c ast.Expr, _ *ast.IfStmt) bool { return true }), map[string]string{"i": "i"})
	// (the context-reset test of parseNext, Memoize's curtailment test, the reuse test of ResultCache.Get and SetError's test
	// were translated here as single expressions, found by the text of the `if` they stood in: all four functions are
	// translated WHOLE by progcore*.go and tied by Props/C01P.lean (seq_parse_sim, tie_Memoize, tie_Get, tie_SetError), which
	// subsumes these and, unlike a search for one `if`, survives a restructuring of the function)
	rd := parseFile("text/reader.go")
	add("isWordCharacter", "(b : Nat)", "bool", "reader.go isWordCharacter", singleReturn(findFunc(rd, "isWordCharacter")), map[string]string{"b": "b"})
	add("remaining", "(len pos off : Nat)", "nat", "reader.go Remaining", singleReturn(findMethod(rd, "Reader", "Remaining")),
		map[string]string{"r.file.len": "len", "pos": "pos", "r.file.offset": "off"})
	add("isEOF", "(len pos off : Nat)", "bool", "reader.go IsEOF", singleReturn(findMethod(rd, "Reader", "IsEOF")),
		map[string]string{"r.file.len": "len", "pos": "pos", "r.file.offset": "off"})
	var adv ast.Expr
	if fd := findMethod(parseFile("parsley/file_set.go"), "FileSet", "AddFile"); fd != nil {
		ast.Inspect(fd, func(n ast.Node) bool {
			if as, ok := n.(*ast.AssignStmt); ok && len(as.Lhs) == 1 && norm(as.Lhs[0]) == "fs.pos" && adv == nil {
				adv = as.Rhs[0]
			}
			return true
		})
	}
	add("fileSetNext", "(pos len : Nat)", "nat", "file_set.go AddFile: the next free position", adv, map[string]string{"fs.pos": "pos", "f.Len()": "len"})

	var sb strings.Builder
	sb.WriteString("/- GENERATED by harness/cmd/factgen (-out-fn): Go expressions TRANSLATED into Lean functions, from the repository's\n   current source on every run.  Do not edit. -/\nnamespace PV.FactsFn\n\n")
	var bad []string
	for _, f := range fs {
		if !f.ok {
			bad = append(bad, f.name)
			continue
		}
		typ := "Bool"
		if f.name == "remaining" || f.name == "fileSetNext" {
			typ = "Nat"
		}
		fmt.Fprintf(&sb, "/-- %s -/\ndef %s %s : %s := %s\n\n", f.comment, f.name, f.params, typ, f.body)
	}
	qb := make([]string, len(bad))
	for i, b := range bad {
		qb[i] = strconv.Quote(b)
	}
	fmt.Fprintf(&sb, "/-- expressions the translator could not find or could not translate -/\ndef untranslated : List String := [%s]\n\nend PV.FactsFn\n", strings.Join(qb, ", "))
	return os.WriteFile(path, []byte(sb.String()), 0o644)
}
