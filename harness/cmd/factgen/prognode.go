package main

// Part of the eighth output (-out-term), appended to Generated/FactsTerm.lean as the namespace PV.FactsTerm.Src: the typed LEAF
// NODE TYPES of text/terminal (BoolNode, CharNode, FloatNode, IntegerNode, NilNode, OpNode, StringNode, TimeDurationNode) and
// ast.TerminalNode — the struct declaration, the constructor NewX and the methods Token / Schema / Value / Pos / ReaderPos /
// SetReaderPos — translated expression by expression from the repository's current source.  A small engine of its own (the
// functions are straight-line: `return e` or `recv.f = e`, possibly after `x := e` definitions):
//   * `type T struct{…}` is a Lean structure with the same fields; `*T` is the structure's VALUE: a constructor answers a
//     fresh cell, nothing else refers to it; a method that assigns a field of its pointer receiver answers the cell's new
//     content (aliasing of node cells: Generated/SlicePrelude.lean / Props/C07P.lean, not here);
//   * parsley.Pos, int64, rune are `Int`, string is `Bytes`, bool is `Bool`, float64 / time.Duration are the symbolic
//     `Float64` / `Duration` of TermPrelude, `interface{}` is `Opaque`; a value of concrete type stored in an `interface{}`
//     carries its dynamic type (`Val.of…` of TermPrelude, by the STATIC type of the expression), the nil interface is `Val.nil`;
//     `func(parsley.Pos) parsley.Pos` is a pure function `Int → Int`;
//   * `&T{…}` (keyed or positional) is the structure instance, absent fields have the zero value of their type;
//   * a constant expression is its value; a call of a function-typed parameter is an application; a call of a translated
//     method of the receiver's type is a call of its translation.
// Anything else is refused with the reason (list `untranslatedNodes`; Props/C08R.lean proves it empty).

import (
	"fmt"
	"go/ast"
	"go/constant"
	"go/token"
	"go/types"
	"strconv"
	"strings"
)

type pnTarget struct {
	pkg   string
	types []string
}

var nodeTargets = []pnTarget{
	{"text/terminal", []string{"BoolNode", "CharNode", "FloatNode", "IntegerNode", "NilNode", "OpNode", "StringNode", "TimeDurationNode"}},
	{"ast", []string{"TerminalNode"}},
}

var pnMethods = []string{"Token", "Schema", "Value", "Pos", "ReaderPos", "SetReaderPos"}

var pnLeanKeywords = map[string]bool{"fun": true, "end": true, "from": true, "at": true, "in": true, "do": true, "then": true, "else": true,
	"if": true, "let": true, "have": true, "show": true, "by": true, "match": true, "with": true, "where": true, "def": true, "theorem": true,
	"structure": true, "instance": true, "open": true, "namespace": true, "section": true, "variable": true, "universe": true, "Type": true,
	"Prop": true, "Sort": true, "λ": true, "this": true, "deriving": true, "class": true, "inductive": true, "return": true, "for": true,
	"unless": true, "mut": true, "try": true, "catch": true, "finally": true, "import": true, "export": true, "private": true, "protected": true,
	"Val": true, "Go": true, "Opaque": true, "Bytes": true, "Int": true, "Bool": true, "Float64": true, "Duration": true, "true": true, "false": true}

func pnName(s string) string {
	if s == "_" || s == "" {
		return "_x"
	}
	if pnLeanKeywords[s] {
		return s + "_"
	}
	return s
}

type pnGen struct {
	info    *types.Info
	structs map[string]bool // names of the translated struct types of the current package
	methods map[string]bool // T_M translated so far or requested
}

func pnIsEmptyInterface(t types.Type) bool {
	i, ok := t.Underlying().(*types.Interface)
	return ok && i.NumMethods() == 0
}

func (g *pnGen) typ(t types.Type) string {
	switch pcNamedPath(t) {
	case "parsley.Pos":
		return "Int"
	case "time.Duration":
		return "Duration"
	}
	if p, ok := t.(*types.Pointer); ok {
		if n, ok := p.Elem().(*types.Named); ok && g.structs[n.Obj().Name()] {
			return n.Obj().Name()
		}
	}
	if pnIsEmptyInterface(t) {
		return "Opaque"
	}
	if s, ok := t.Underlying().(*types.Signature); ok && s.Recv() == nil && !s.Variadic() && s.Results().Len() == 1 && s.Params().Len() >= 1 {
		parts := []string{}
		for i := 0; i < s.Params().Len(); i++ {
			parts = append(parts, g.typ(s.Params().At(i).Type()))
		}
		parts = append(parts, g.typ(s.Results().At(0).Type()))
		return "(" + strings.Join(parts, " → ") + ")"
	}
	if b, ok := t.Underlying().(*types.Basic); ok {
		switch {
		case b.Kind() == types.Bool || b.Kind() == types.UntypedBool:
			return "Bool"
		case b.Info()&types.IsString != 0:
			return "Bytes"
		case b.Kind() == types.Float64:
			return "Float64"
		case b.Info()&types.IsInteger != 0:
			return "Int"
		}
	}
	pgFail("type %s is not supported", t.String())
	return ""
}

func (g *pnGen) zero(t types.Type) string {
	switch g.typ(t) {
	case "Int":
		return "0"
	case "Bool":
		return "false"
	case "Bytes":
		return "(Go.str \"\")"
	case "Opaque":
		return "Val.nil"
	}
	pgFail("zero value of type %s is not supported", t.String())
	return ""
}

// a value of static type `have` where a value of type `want` is expected
func (g *pnGen) inject(code string, have, want types.Type) string {
	if want == nil || !types.IsInterface(want) || have == nil || types.IsInterface(have) {
		return code
	}
	if !pnIsEmptyInterface(want) {
		pgFail("conversion to the interface %s is not supported", want.String())
	}
	if pcNamedPath(have) == "time.Duration" {
		return "(Val.ofDuration " + code + ")"
	}
	if _, named := have.(*types.Named); !named {
		if b, ok := have.Underlying().(*types.Basic); ok {
			switch {
			case b.Kind() == types.Bool || b.Kind() == types.UntypedBool:
				return "(Val.ofBool " + code + ")"
			case b.Kind() == types.Int32 || b.Kind() == types.UntypedRune:
				return "(Val.ofRune " + code + ")"
			case b.Kind() == types.Int64:
				return "(Val.ofInt64 " + code + ")"
			case b.Kind() == types.Float64:
				return "(Val.ofFloat64 " + code + ")"
			case b.Info()&types.IsString != 0:
				return "(Val.ofString " + code + ")"
			}
		}
	}
	pgFail("a value of type %s stored in an interface{} is not supported", have.String())
	return ""
}

func (g *pnGen) expr(e ast.Expr, want types.Type) string {
	tv := g.info.Types[e]
	if tv.IsNil() {
		if want != nil && pnIsEmptyInterface(want) {
			return "Val.nil"
		}
		pgFail("nil of type %v is not supported", want)
	}
	if tv.Value != nil {
		var code string
		switch tv.Value.Kind() {
		case constant.String:
			code = "(Go.str " + strconv.Quote(constant.StringVal(tv.Value)) + ")"
		case constant.Bool:
			code = strconv.FormatBool(constant.BoolVal(tv.Value))
		case constant.Int:
			code = "(" + tv.Value.ExactString() + " : Int)"
		default:
			pgFail("constant %s is not supported", norm(e))
		}
		return g.inject(code, tv.Type, want)
	}
	switch x := e.(type) {
	case *ast.ParenExpr:
		return g.expr(x.X, want)
	case *ast.Ident:
		if _, ok := g.info.Uses[x].(*types.Var); !ok {
			pgFail("identifier %s is not a variable", x.Name)
		}
		return g.inject(pnName(x.Name), tv.Type, want)
	case *ast.SelectorExpr:
		sel, ok := g.info.Selections[x]
		id, isId := x.X.(*ast.Ident)
		if !ok || !isId || sel.Kind() != types.FieldVal || len(sel.Index()) != 1 {
			pgFail("selector %s is not a field of a variable", norm(e))
		}
		g.typ(g.info.TypeOf(id)) // the variable is a translated struct
		return g.inject(pnName(id.Name)+"."+pnName(x.Sel.Name), tv.Type, want)
	case *ast.CallExpr:
		if id, ok := x.Fun.(*ast.Ident); ok {
			if v, ok := g.info.Uses[id].(*types.Var); ok {
				sig, ok := v.Type().Underlying().(*types.Signature)
				if !ok || sig.Variadic() || sig.Params().Len() != len(x.Args) {
					pgFail("call %s is not supported", norm(e))
				}
				g.typ(v.Type())
				parts := []string{pnName(id.Name)}
				for i, a := range x.Args {
					parts = append(parts, g.expr(a, sig.Params().At(i).Type()))
				}
				return g.inject("("+strings.Join(parts, " ")+")", tv.Type, want)
			}
		}
		if se, ok := x.Fun.(*ast.SelectorExpr); ok && len(x.Args) == 0 {
			if sel, ok := g.info.Selections[se]; ok && sel.Kind() == types.MethodVal {
				if id, ok := se.X.(*ast.Ident); ok {
					tn := g.typ(g.info.TypeOf(id))
					if g.methods[tn+"_"+se.Sel.Name] {
						return g.inject("("+tn+"_"+se.Sel.Name+" "+pnName(id.Name)+")", tv.Type, want)
					}
				}
			}
		}
		pgFail("call %s is not supported", norm(e))
	case *ast.UnaryExpr:
		if cl, ok := x.X.(*ast.CompositeLit); ok && x.Op == token.AND {
			return g.composite(cl)
		}
	}
	pgFail("expression %s is not supported", norm(e))
	return ""
}

func (g *pnGen) composite(cl *ast.CompositeLit) string {
	t := g.info.TypeOf(cl)
	n, isN := t.(*types.Named)
	st, isS := t.Underlying().(*types.Struct)
	if !isN || !isS || !g.structs[n.Obj().Name()] {
		pgFail("composite literal of type %s is not supported", t.String())
	}
	vals := make([]string, st.NumFields())
	for i, el := range cl.Elts {
		if kv, ok := el.(*ast.KeyValueExpr); ok {
			k, _ := kv.Key.(*ast.Ident)
			idx := -1
			for j := 0; j < st.NumFields(); j++ {
				if k != nil && st.Field(j).Name() == k.Name {
					idx = j
				}
			}
			if idx < 0 {
				pgFail("field %s of the composite literal", norm(kv.Key))
			}
			vals[idx] = g.expr(kv.Value, st.Field(idx).Type())
		} else {
			vals[i] = g.expr(el, st.Field(i).Type())
		}
	}
	parts := []string{}
	for j := 0; j < st.NumFields(); j++ {
		if vals[j] == "" {
			vals[j] = g.zero(st.Field(j).Type())
		}
		parts = append(parts, pnName(st.Field(j).Name())+" := "+vals[j])
	}
	return "({ " + strings.Join(parts, ", ") + " } : " + n.Obj().Name() + ")"
}

func (g *pnGen) structDecl(pkg string, n *types.Named, st *types.Struct) string {
	var sb strings.Builder
	fmt.Fprintf(&sb, "/-- %s: `type %s struct` -/\nstructure %s where\n", pkg, n.Obj().Name(), n.Obj().Name())
	for j := 0; j < st.NumFields(); j++ {
		fmt.Fprintf(&sb, "  %s : %s\n", pnName(st.Field(j).Name()), g.typ(st.Field(j).Type()))
	}
	return sb.String()
}

func (g *pnGen) fn(pkg, key string, fd *ast.FuncDecl, obj *types.Func) string {
	sig := obj.Type().(*types.Signature)
	var params []string
	recvName, recvType := "", ""
	if r := sig.Recv(); r != nil {
		recvName, recvType = pnName(r.Name()), g.typ(r.Type())
		if _, isPtr := r.Type().(*types.Pointer); !isPtr {
			pgFail("value receiver")
		}
		params = append(params, "("+recvName+" : "+recvType+")")
	}
	for i := 0; i < sig.Params().Len(); i++ {
		p := sig.Params().At(i)
		params = append(params, "("+pnName(p.Name())+" : "+g.typ(p.Type())+")")
	}
	if sig.Variadic() || sig.Results().Len() > 1 {
		pgFail("signature %s is not supported", sig.String())
	}
	var lets []string
	stmts := fd.Body.List
	locals := map[types.Object]bool{}
	for len(stmts) > 1 {
		// a local constant declaration: its uses are constants of the type checker, nothing to emit
		if ds, ok := stmts[0].(*ast.DeclStmt); ok {
			if gd, ok := ds.Decl.(*ast.GenDecl); ok && gd.Tok == token.CONST {
				stmts = stmts[1:]
				continue
			}
		}
		as, ok := stmts[0].(*ast.AssignStmt)
		// `x.f = e` on a local variable x that holds a translated struct (a node built field by field): x is rebound
		if ok && as.Tok == token.ASSIGN && len(as.Lhs) == 1 && len(as.Rhs) == 1 {
			if se, isSe := as.Lhs[0].(*ast.SelectorExpr); isSe {
				id, isId := se.X.(*ast.Ident)
				sel, isSel := g.info.Selections[se]
				if isId && isSel && sel.Kind() == types.FieldVal && len(sel.Index()) == 1 && locals[g.info.Uses[id]] {
					tn := g.typ(g.info.TypeOf(id))
					lets = append(lets, "  let "+pnName(id.Name)+" : "+tn+" := { "+pnName(id.Name)+" with "+pnName(se.Sel.Name)+" := "+g.expr(as.Rhs[0], sel.Type())+" }\n")
					stmts = stmts[1:]
					continue
				}
			}
		}
		if !ok || as.Tok != token.DEFINE || len(as.Lhs) != 1 || len(as.Rhs) != 1 {
			pgFail("statement %s is not supported", norm(stmts[0]))
		}
		locals[g.info.Defs[as.Lhs[0].(*ast.Ident)]] = true
		id := as.Lhs[0].(*ast.Ident)
		t := g.info.TypeOf(as.Rhs[0])
		lets = append(lets, "  let "+pnName(id.Name)+" : "+g.typ(t)+" := "+g.expr(as.Rhs[0], t)+"\n")
		stmts = stmts[1:]
	}
	if len(stmts) != 1 {
		pgFail("empty body")
	}
	res, val := "", ""
	switch s := stmts[0].(type) {
	case *ast.ReturnStmt:
		if sig.Results().Len() != 1 || len(s.Results) != 1 {
			pgFail("return statement %s is not supported", norm(s))
		}
		res, val = g.typ(sig.Results().At(0).Type()), g.expr(s.Results[0], sig.Results().At(0).Type())
	case *ast.AssignStmt:
		if sig.Results().Len() != 0 || s.Tok != token.ASSIGN || len(s.Lhs) != 1 || len(s.Rhs) != 1 || recvName == "" {
			pgFail("statement %s is not supported", norm(s))
		}
		se, ok := s.Lhs[0].(*ast.SelectorExpr)
		if !ok {
			pgFail("assignment to %s is not supported", norm(s.Lhs[0]))
		}
		id, isId := se.X.(*ast.Ident)
		sel, isSel := g.info.Selections[se]
		if !isId || !isSel || sel.Kind() != types.FieldVal || g.info.Uses[id] != sig.Recv() {
			pgFail("assignment to %s is not supported", norm(s.Lhs[0]))
		}
		res = recvType
		val = "{ " + recvName + " with " + pnName(se.Sel.Name) + " := " + g.expr(s.Rhs[0], sel.Type()) + " }"
	default:
		pgFail("statement %s is not supported", norm(s))
	}
	what := pkg + "." + obj.Name()
	if recvType != "" {
		what = pkg + ": (*" + recvType + ")." + obj.Name()
		if sig.Results().Len() == 0 {
			what += " (answers the new content of the receiver's cell)"
		}
	}
	return "/-- " + what + " -/\ndef " + key + " " + strings.Join(params, " ") + " : " + res + " :=\n" + strings.Join(lets, "") + "  " + val + "\n"
}

// the Lean text, the names translated, the refusals
func writeNodeFacts(l *concLoader) (out, names, bad []string) {
	for _, t := range nodeTargets {
		p, err := l.load(l.module + "/" + t.pkg)
		if err != nil || p.tpkg == nil {
			bad = append(bad, fmt.Sprintf("%s: the package does not load", t.pkg))
			continue
		}
		g := &pnGen{info: p.info, structs: map[string]bool{}, methods: map[string]bool{}}
		decls := map[string]*ast.FuncDecl{}
		for _, f := range p.files {
			for _, d := range f.Decls {
				fd, ok := d.(*ast.FuncDecl)
				if !ok || fd.Body == nil {
					continue
				}
				key := fd.Name.Name
				if obj, _ := p.info.Defs[fd.Name].(*types.Func); obj != nil {
					if r := obj.Type().(*types.Signature).Recv(); r != nil {
						key = strings.TrimPrefix(pcNamedPath(r.Type()), "*")
						key = key[strings.Index(key, ".")+1:] + "_" + fd.Name.Name
					}
				}
				decls[key] = fd
			}
		}
		for _, tn := range t.types {
			g.structs[tn] = true
		}
		for _, tn := range t.types {
			o := p.tpkg.Scope().Lookup(tn)
			var n *types.Named
			var st *types.Struct
			if o != nil {
				n, _ = o.Type().(*types.Named)
				if n != nil {
					st, _ = n.Underlying().(*types.Struct)
				}
			}
			if st == nil {
				bad = append(bad, t.pkg+"."+tn+": not a struct type of the package")
				delete(g.structs, tn)
				continue
			}
			failed := ""
			func() {
				defer func() {
					if r := recover(); r != nil {
						if e, ok := r.(pgErr); ok {
							failed = e.msg
							return
						}
						panic(r)
					}
				}()
				out = append(out, g.structDecl(t.pkg, n, st))
			}()
			if failed != "" {
				bad = append(bad, t.pkg+"."+tn+": "+failed)
				delete(g.structs, tn)
				continue
			}
			keys := []string{"New" + tn}
			for _, m := range pnMethods {
				keys = append(keys, tn+"_"+m)
			}
			for _, key := range keys {
				fd := decls[key]
				if fd == nil {
					bad = append(bad, key+": not found in package "+t.pkg)
					continue
				}
				obj := p.info.Defs[fd.Name].(*types.Func)
				func() {
					defer func() {
						if r := recover(); r != nil {
							if e, ok := r.(pgErr); ok {
								bad = append(bad, key+": "+e.msg)
								return
							}
							panic(r)
						}
					}()
					out = append(out, g.fn(t.pkg, key, fd, obj))
					names = append(names, key)
					g.methods[key] = true
				}()
			}
		}
	}
	return
}
