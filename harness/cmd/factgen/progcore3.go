package main

import (
	"go/ast"
	"go/token"
	"go/types"
	"sort"
	"strconv"
	"strings"
)

// ---- variables of a region ----

func pcRoot(e ast.Expr) *ast.Ident {
	for {
		switch x := e.(type) {
		case *ast.Ident:
			return x
		case *ast.SelectorExpr:
			e = x.X
		case *ast.ParenExpr:
			e = x.X
		case *ast.IndexExpr: // value level: writing an element writes the variable
			e = x.X
		case *ast.StarExpr:
			e = x.X
		default:
			return nil
		}
	}
}

// local variables the nodes assign, including receivers of in-out calls and the first argument of copy
func pcAssigned(g *pcGen, info *types.Info, nodes ...ast.Node) []*types.Var {
	seen := map[*types.Var]bool{}
	var out []*types.Var
	add := func(e ast.Expr) {
		if id := pcRoot(e); id != nil {
			o := info.Uses[id]
			if o == nil {
				o = info.Defs[id]
			}
			if g != nil && g.tree != nil && o != nil && ast.Expr(id) != e && g.tree.heapPtr(g, o.Type()) {
				return
			}
			if v, ok := pgLocal(o); ok && !seen[v] {
				seen[v] = true
				out = append(out, v)
			}
		}
	}
	for _, n := range nodes {
		if n == nil {
			continue
		}
		ast.Inspect(n, func(m ast.Node) bool {
			switch s := m.(type) {
			case *ast.AssignStmt:
				for _, l := range s.Lhs {
					add(l)
				}
			case *ast.IncDecStmt:
				add(s.X)
			case *ast.RangeStmt:
				if s.Key != nil {
					add(s.Key)
				}
				if s.Value != nil {
					add(s.Value)
				}
			case *ast.CallExpr:
				if id, ok := s.Fun.(*ast.Ident); ok && id.Name == "copy" && len(s.Args) == 2 {
					add(s.Args[0])
				}
				if f, ok := s.Fun.(*ast.SelectorExpr); ok && g != nil {
					if sel, ok := info.Selections[f]; ok && sel.Kind() == types.MethodVal {
						if tf, ok := sel.Obj().(*types.Func); ok {
							if fn := g.byObj[tf]; fn != nil && fn.inout {
								add(f.X)
							}
						}
					}
				}
			}
			return true
		})
	}
	sort.Slice(out, func(i, j int) bool { return out[i].Pos() < out[j].Pos() })
	return out
}

// ---- statements ----

func (c *pcCtx) lets(pre []string, body pgNode) pgNode {
	body = pgForce(body)
	for i := len(pre) - 1; i >= 0; i-- {
		body = &pgLet{pre[i], body}
	}
	return body
}

func (c *pcCtx) stmts(list []ast.Stmt, k pgNode) pgNode {
	if c.liftTop {
		c.liftTop = false
		if c.g.tree == nil { // (the tree functions are small: their continuations stay in line)
			if n := c.liftTail(list, k); n != nil {
				return n
			}
		}
	}
	for i := len(list) - 1; i >= 0; i-- {
		k = c.stmt(list[i], k)
	}
	return pgForce(k)
}

func (c *pcCtx) varType(v *types.Var) string {
	t := c.typ(v.Type())
	if c.boxed[v] {
		return "Nat"
	}
	if c.owned[v] && strings.HasPrefix(t, "(Option ") {
		return strings.TrimSuffix(strings.TrimPrefix(t, "(Option "), ")")
	}
	return t
}

// assignTo: the `let` lines that make the place `lhs` hold the value v
func (c *pcCtx) assignTo(lhs ast.Expr, v string, pre *[]string) {
	switch x := lhs.(type) {
	case *ast.ParenExpr:
		c.assignTo(x.X, v, pre)
		return
	case *ast.StarExpr:
		if _, ok := c.info.TypeOf(x).Underlying().(*types.Slice); ok {
			c.assignTo(x.X, v, pre)
			return
		}
	case *ast.Ident:
		if x.Name == "_" {
			*pre = append(*pre, "let _ := "+v)
			return
		}
		o := c.info.Defs[x]
		if o == nil {
			o = c.info.Uses[x]
		}
		lv, ok := pgLocal(o)
		if !ok || c.ctxObj[lv] {
			pgFail("assignment to %s, which is not a local variable", x.Name)
		}
		if c.boxed[lv] {
			if c.info.Defs[x] != nil {
				*pre = append(*pre, "let "+c.name(lv)+" ← Boxed.new"+c.boxKind(lv)+" "+pcP(v))
			} else {
				*pre = append(*pre, "Boxed.set"+c.boxKind(lv)+" "+c.name(lv)+" "+pcP(v))
			}
			return
		}
		*pre = append(*pre, "let "+c.name(lv)+" : "+c.varType(lv)+" := "+v)
		return
	case *ast.SelectorExpr:
		sel, ok := c.info.Selections[x]
		if !ok || sel.Kind() != types.FieldVal || len(sel.Index()) != 1 {
			pgFail("assignment to %s", norm(lhs))
		}
		c.typ(sel.Obj().Type())
		fld := pgField(sel.Obj().Name())
		if c.isCtxExpr(x.X) {
			*pre = append(*pre, "Go.modify (fun s_ => { s_ with "+fld+" := "+v+" })")
			return
		}
		if c.isHeapPtr(c.info.TypeOf(x.X)) {
			p := pcP(c.atom(x.X, pre))
			t := c.tmp()
			*pre = append(*pre, "let "+t+" ← Go.load "+p)
			*pre = append(*pre, "Go.store "+p+" { "+t+" with "+fld+" := "+v+" }")
			return
		}
		if _, isPtr := c.info.TypeOf(x.X).Underlying().(*types.Pointer); isPtr && !c.isOwned(x.X) {
			pgFail("assignment through the pointer %s", norm(x.X))
		}
		base := c.atom(x.X, pre)
		c.assignTo(x.X, "{ "+base+" with "+fld+" := "+v+" }", pre)
		return
	case *ast.IndexExpr:
		c.refuseMapAlias(x)
		a := pcP(c.atom(x.X, pre))
		i := pcP(c.atom(x.Index, pre))
		lt := c.typ(c.info.TypeOf(x.X))
		t := c.tmp()
		switch {
		case strings.HasPrefix(lt, "(List "):
			*pre = append(*pre, "let "+t+" ← Go.setNth "+a+" "+i+" "+pcP(v))
		case strings.HasPrefix(lt, "(Map "):
			*pre = append(*pre, "let "+t+" ← Go.mapSet "+a+" "+i+" "+pcP(v))
		case strings.HasPrefix(lt, "(SMap "):
			*pre = append(*pre, "let "+t+" := Go.smapSet "+a+" "+i+" "+pcP(v))
		default:
			pgFail("assignment to %s", norm(lhs))
		}
		c.assignTo(x.X, t, pre)
		return
	}
	pgFail("assignment to %s is outside the subset", norm(lhs))
}

// Maps are VALUES here: `m[k] = v` rebinds the variable m (and, for a path `a.f[k1][k2] = v`, every map on the path).  A local
// variable that holds a map it did not make itself — `inner := outer[k]`, `inner, ok := outer[k]`, a field, a call result — is
// in Go an ALIAS of that other map: a write through it would be lost at value level.  Such a write is refused.
func (c *pcCtx) refuseMapAlias(x *ast.IndexExpr) {
	if _, isMap := c.info.TypeOf(x.X).Underlying().(*types.Map); !isMap {
		return
	}
	id, ok := x.X.(*ast.Ident)
	if !ok {
		return
	}
	v, ok := pgLocal(c.info.Uses[id])
	if !ok {
		return
	}
	fresh := func(e ast.Expr) bool {
		switch r := e.(type) {
		case *ast.CallExpr:
			if f, ok := r.Fun.(*ast.Ident); ok {
				if b, ok := c.info.Uses[f].(*types.Builtin); ok && b.Name() == "make" {
					return true
				}
			}
		case *ast.CompositeLit:
			return true
		}
		return c.info.Types[e].IsNil()
	}
	bad := ""
	var scope ast.Node = c.fn.body
	if c.fn.lit != nil {
		scope = c.fn.decl.Body
	}
	if c.helperBody != nil {
		scope = c.helperBody
	}
	ast.Inspect(scope, func(m ast.Node) bool {
		switch s := m.(type) {
		case *ast.AssignStmt:
			for i, l := range s.Lhs {
				lid, ok := l.(*ast.Ident)
				if !ok || (c.info.Defs[lid] != v && c.info.Uses[lid] != v) {
					continue
				}
				if len(s.Rhs) != len(s.Lhs) || !fresh(s.Rhs[i]) {
					bad = norm(s)
				}
			}
		case *ast.ValueSpec:
			for i, lid := range s.Names {
				if c.info.Defs[lid] == v && len(s.Values) == len(s.Names) && !fresh(s.Values[i]) {
					bad = norm(s)
				}
			}
		case *ast.RangeStmt:
			for _, l := range []ast.Expr{s.Key, s.Value} {
				if lid, ok := l.(*ast.Ident); ok && (c.info.Defs[lid] == v || c.info.Uses[lid] == v) {
					bad = "range " + norm(s.X)
				}
			}
		}
		return true
	})
	if bad != "" {
		pgFail("write into the map %s, which may alias another map (`%s`): map aliasing is not modelled at value level", id.Name, bad)
	}
}

func (c *pcCtx) assign(lhs ast.Expr, rhs ast.Expr, op token.Token, define bool, k pgNode) pgNode {
	var pre []string
	if op != token.ILLEGAL {
		cur := c.atom(lhs, &pre)
		r := "1"
		if rhs != nil {
			r = c.atom(rhs, &pre)
		}
		c.assignTo(lhs, "("+cur+" "+op.String()+" "+r+")", &pre)
		return c.lets(pre, k)
	}
	// x := &T{…}: an owned struct value
	if id, ok := lhs.(*ast.Ident); ok && define {
		if u, ok := rhs.(*ast.UnaryExpr); ok && u.Op == token.AND {
			if cl, ok := u.X.(*ast.CompositeLit); ok {
				if o := c.info.Defs[id]; o != nil {
					c.owned[o] = true
					p, code, _ := c.parts(cl)
					pre = append(pre, p...)
					c.assignTo(lhs, code, &pre)
					return c.lets(pre, k)
				}
			}
		}
	}
	// x = ast.SetReaderPos(x, func literal assigning captured variables)
	if call, ok := rhs.(*ast.CallExpr); ok && len(call.Args) == 2 {
		if lit, ok := call.Args[1].(*ast.FuncLit); ok && strings.HasSuffix(norm(call.Fun), "SetReaderPos") {
			node := pcP(c.atom(call.Args[0], &pre))
			fn, state := c.stateClosure(lit)
			var sn []string
			for _, o := range state {
				sn = append(sn, c.name(o))
			}
			t := c.tmp()
			pre = append(pre, "let ("+pcStateTuple(sn)+", "+t+") ← SetReaderPos "+node+" "+fn+" "+pcStateTuple(sn))
			c.assignTo(lhs, t, &pre)
			return c.lets(pre, k)
		}
	}
	want := c.info.TypeOf(lhs)
	if id, ok := lhs.(*ast.Ident); ok && id.Name != "_" && !c.info.Types[rhs].IsNil() && !c.isBoxedIdent(id) {
		have := c.info.TypeOf(rhs)
		if !(types.IsInterface(want) && have != nil && !types.IsInterface(have)) {
			p, code, mon := c.parts(rhs)
			if mon { // x := call: bind directly
				pre = append(pre, p...)
				var tmpPre []string
				c.assignTo(lhs, "", &tmpPre)
				line := strings.TrimSuffix(tmpPre[0], ":= ") + "← " + code
				return c.lets(append(pre, line), k)
			}
			pre = append(pre, p...)
			c.assignTo(lhs, code, &pre)
			return c.lets(pre, k)
		}
	}
	v := c.arg(rhs, want, &pre)
	c.assignTo(lhs, v, &pre)
	return c.lets(pre, k)
}

func (c *pcCtx) pattern(lhs []ast.Expr) string {
	var ns []string
	for _, l := range lhs {
		id, ok := l.(*ast.Ident)
		if !ok {
			pgFail("tuple assignment to %s", norm(l))
		}
		if id.Name == "_" {
			ns = append(ns, "_")
			continue
		}
		o := c.info.Defs[id]
		if o == nil {
			o = c.info.Uses[id]
		}
		lv, ok := pgLocal(o)
		if !ok || c.ctxObj[lv] {
			pgFail("assignment to %s, which is not a local variable", id.Name)
		}
		c.typ(lv.Type())
		ns = append(ns, c.name(lv))
	}
	return "(" + strings.Join(ns, ", ") + ")"
}

var pcAsFn = map[string]string{"ast.NodeList": "Node.asNodeList", "ast.EmptyNode": "Node.asEmptyNode", "parsley.NonTerminalNode": "Node.asNonTerminalNode"}

func (c *pcCtx) asFn(t types.Type, from types.Type) string {
	if c.g.tree != nil {
		return c.g.tree.asFn(c, t, from)
	}
	if lt, _ := c.g.leanType(from); lt != "Node" {
		pgFail("type test on a value that is not a node")
	}
	f, ok := pcAsFn[pcNamedPath(t)]
	if !ok {
		pgFail("type test for %s", types.TypeString(t, qual))
	}
	return f
}

// an in-out call (the callee returns its written receiver first): binds the receiver back, returns the result names
func (c *pcCtx) inoutCall(call *ast.CallExpr, fn *pcFn, recv ast.Expr, names []string, pre *[]string) []string {
	c.fn.deps = append(c.fn.deps, fn)
	sig := fn.obj.Type().(*types.Signature)
	n := sig.Results().Len()
	for len(names) < n {
		names = append(names, c.tmp())
	}
	var r string
	var back func(string)
	if rc, ok := recv.(*ast.CallExpr); ok { // ctx.Getter().Method(…): the field is read, and written back
		fld := c.getterField(rc)
		r = c.tmp()
		*pre = append(*pre, "let "+r+" ← Go.read (fun s_ => s_."+fld+")")
		back = func(v string) { *pre = append(*pre, "Go.modify (fun s_ => { s_ with "+fld+" := "+v+" })") }
	} else {
		id := pcRoot(recv)
		if id == nil {
			pgFail("%s writes its receiver: the receiver %s must be a variable or a field path", fn.key, norm(recv))
		}
		r = pcP(c.atom(recv, pre))
		back = func(v string) { c.assignTo(recv, v, pre) }
	}
	as := append([]string{r}, c.callArgs(call, sig, pre)...)
	nr := c.tmp()
	pat := nr
	if n > 0 {
		pat = "(" + nr + ", " + strings.Join(names[:n], ", ") + ")"
	}
	*pre = append(*pre, "let "+pat+" ← "+c.refFn(fn)+" "+strings.Join(as, " "))
	back(nr)
	return names[:n]
}

// ctx.X() where X is `func (c *Context) X() T { return c.field }`: the field
func (c *pcCtx) getterField(rc *ast.CallExpr) string {
	f, ok := rc.Fun.(*ast.SelectorExpr)
	if ok && c.isCtxExpr(f.X) && len(rc.Args) == 0 {
		if sel, ok := c.info.Selections[f]; ok {
			if tf, ok := sel.Obj().(*types.Func); ok {
				if g := c.g.byObj[tf]; g != nil && g.decl != nil && len(g.decl.Body.List) == 1 {
					if rs, ok := g.decl.Body.List[0].(*ast.ReturnStmt); ok && len(rs.Results) == 1 {
						if fs, ok := rs.Results[0].(*ast.SelectorExpr); ok {
							if id, ok := fs.X.(*ast.Ident); ok && g.pkg.info.Uses[id] == g.obj.Type().(*types.Signature).Recv() {
								c.fn.deps = append(c.fn.deps, g)
								return pgField(fs.Sel.Name)
							}
						}
					}
				}
			}
		}
	}
	pgFail("receiver %s of a method that writes its receiver is not a getter of the context", norm(rc))
	return ""
}

func (c *pcCtx) calleeFn(call *ast.CallExpr) (*pcFn, ast.Expr) {
	if f, ok := call.Fun.(*ast.SelectorExpr); ok {
		if sel, ok := c.info.Selections[f]; ok && sel.Kind() == types.MethodVal {
			if tf, ok := sel.Obj().(*types.Func); ok {
				return c.g.byObj[tf], f.X
			}
		}
	}
	return nil, nil
}

func (c *pcCtx) stmt(s ast.Stmt, k pgNode) pgNode {
	switch x := s.(type) {
	case *ast.EmptyStmt:
		return k
	case *ast.BlockStmt:
		return c.stmts(x.List, k)
	case *ast.ReturnStmt:
		if c.helperK != nil && len(x.Results) == 1 { // a `return` of a helper translated in continuation style
			return c.helperK(c, x.Results[0])
		}
		var pre, vals []string
		if call, ok := x.Results[0:min(1, len(x.Results))], true; ok && c.g.tree != nil && len(x.Results) == 1 && c.resT != nil && c.resT.Len() > 1 {
			// `return f(…)` with several results
			if ce, ok := call[0].(*ast.CallExpr); ok {
				p, code, mon := c.call(ce)
				t := c.tmp()
				if mon {
					p = append(p, "let "+t+" ← "+code)
				} else {
					p = append(p, "let "+t+" := "+code)
				}
				return c.lets(p, c.retRaw(t))
			}
		}
		for i, r := range x.Results {
			var want types.Type
			if c.resT != nil && i < c.resT.Len() {
				want = c.resT.At(i).Type()
			}
			vals = append(vals, c.arg(r, want, &pre))
		}
		return c.lets(pre, c.ret(vals))
	case *ast.DeclStmt:
		gd, ok := x.Decl.(*ast.GenDecl)
		if !ok || gd.Tok != token.VAR {
			pgFail("declaration %s", norm(x))
		}
		var todo []func(pgNode) pgNode
		for _, sp := range gd.Specs {
			vs := sp.(*ast.ValueSpec)
			if len(vs.Values) != 0 && len(vs.Values) != len(vs.Names) {
				pgFail("declaration %s", norm(x))
			}
			for i, id := range vs.Names {
				id := id
				if len(vs.Values) == 0 {
					o := c.info.Defs[id]
					todo = append(todo, func(k pgNode) pgNode {
						if c.boxed[o] {
							c.typ(o.Type())
							return &pgLet{"let " + c.name(o) + " ← Boxed.new" + c.boxKind(o) + " " + c.zero(o.Type()), k}
						}
						return &pgLet{"let " + c.name(o) + " : " + c.typ(o.Type()) + " := " + c.zero(o.Type()), k}
					})
				} else {
					v := vs.Values[i]
					todo = append(todo, func(k pgNode) pgNode { return c.assign(id, v, token.ILLEGAL, true, k) })
				}
			}
		}
		for i := len(todo) - 1; i >= 0; i-- {
			k = todo[i](k)
		}
		return k
	case *ast.IncDecStmt:
		op := token.ADD
		if x.Tok == token.DEC {
			op = token.SUB
		}
		return c.assign(x.X, nil, op, false, k)
	case *ast.AssignStmt:
		if op, ok := pgAssignOps[x.Tok]; ok && len(x.Lhs) == 1 {
			return c.assign(x.Lhs[0], x.Rhs[0], op, false, k)
		}
		if x.Tok != token.ASSIGN && x.Tok != token.DEFINE {
			pgFail("assignment operator %s", x.Tok)
		}
		if len(x.Lhs) == 1 && len(x.Rhs) == 1 {
			return c.assign(x.Lhs[0], x.Rhs[0], token.ILLEGAL, x.Tok == token.DEFINE, k)
		}
		if len(x.Rhs) == 1 {
			var pre []string
			switch r := x.Rhs[0].(type) {
			case *ast.IndexExpr:
				if len(x.Lhs) == 2 && strings.HasPrefix(c.typ(c.info.TypeOf(r.X)), "(Map ") {
					a := pcP(c.atom(r.X, &pre))
					i := pcP(c.atom(r.Index, &pre))
					return c.lets(append(pre, "let "+c.pattern(x.Lhs)+" := Go.mapGet2 "+a+" "+i), k)
				}
			case *ast.TypeAssertExpr:
				if len(x.Lhs) == 2 {
					f := c.asFn(c.info.TypeOf(r.Type), c.info.TypeOf(r.X))
					a := pcP(c.atom(r.X, &pre))
					return c.lets(append(pre, "let "+c.pattern(x.Lhs)+" := "+f+" "+a), k)
				}
			case *ast.CallExpr:
				if fn, recv := c.calleeFn(r); fn != nil && fn.inout {
					pat := c.pattern(x.Lhs)
					names := strings.Split(strings.Trim(pat, "()"), ", ")
					c.inoutCall(r, fn, recv, names, &pre)
					return c.lets(pre, k)
				}
				if c.g.tree != nil && !c.plainPattern(x.Lhs) {
					return c.tupleAssign(x, r, k)
				}
				p, code, mon := c.call(r)
				if mon {
					return c.lets(append(p, "let "+c.pattern(x.Lhs)+" ← "+code), k)
				}
				return c.lets(append(p, "let "+c.pattern(x.Lhs)+" := "+code), k)
			}
		}
		pgFail("assignment %s is outside the subset", norm(x))
	case *ast.ExprStmt:
		call, ok := x.X.(*ast.CallExpr)
		if !ok {
			pgFail("statement %s", norm(x))
		}
		if id, ok := call.Fun.(*ast.Ident); ok {
			if b, ok := c.info.Uses[id].(*types.Builtin); ok {
				switch b.Name() {
				case "panic":
					return &pgTerm{"Go.panic"}
				case "copy":
					var pre []string
					d := pcP(c.atom(call.Args[0], &pre))
					sv := pcP(c.atom(call.Args[1], &pre))
					c.assignTo(call.Args[0], "Go.copy "+d+" "+sv, &pre)
					return c.lets(pre, k)
				}
			}
		}
		if fn, recv := c.calleeFn(call); fn != nil && fn.inout {
			var pre []string
			c.inoutCall(call, fn, recv, nil, &pre)
			return c.lets(pre, k)
		}
		pre, code, mon := c.parts(call)
		if !mon {
			return c.lets(append(pre, "let _ := "+code), k)
		}
		unit := false
		if sig, ok := c.info.TypeOf(call.Fun).Underlying().(*types.Signature); ok && sig.Results().Len() == 0 {
			unit = true
		}
		if unit {
			return c.lets(append(pre, code), k)
		}
		return c.lets(append(pre, "let _ ← "+code), k)
	case *ast.IfStmt:
		if j := c.joinIf(x, k); j != nil {
			return j
		}
		if n := c.inlineCond(x, k); n != nil {
			return n
		}
		var pre []string
		var cond string
		if call, ok := x.Cond.(*ast.CallExpr); ok {
			if fn, recv := c.calleeFn(call); fn != nil && fn.inout {
				cond = c.inoutCall(call, fn, recv, nil, &pre)[0]
			}
		}
		if cond == "" {
			cond = c.atom(x.Cond, &pre)
		}
		els := k
		if x.Else != nil {
			els = c.stmt(x.Else, k)
		}
		n := c.lets(pre, &pgIf{cond, c.stmts(x.Body.List, k), pgForce(els)})
		if x.Init != nil {
			return c.stmt(x.Init, n)
		}
		return n
	case *ast.SwitchStmt:
		return c.switchStmt(x, k)
	case *ast.TypeSwitchStmt:
		return c.typeSwitch(x, k)
	case *ast.RangeStmt:
		return c.rangeLoop(x, k)
	case *ast.ForStmt:
		if c.g.tree != nil {
			return c.forLoop(x, k)
		}
	case *ast.BranchStmt:
		if x.Label != nil || len(c.loops) == 0 || (x.Tok != token.BREAK && x.Tok != token.CONTINUE) {
			pgFail("branch statement %s", norm(x))
		}
		if x.Tok == token.BREAK {
			if c.inSwch > 0 {
				pgFail("break inside a switch")
			}
			return c.loops[len(c.loops)-1].brk
		}
		return c.loops[len(c.loops)-1].cont
	}
	pgFail("statement %s is outside the subset", norm(s))
	return nil
}

func (c *pcCtx) switchStmt(x *ast.SwitchStmt, k pgNode) pgNode {
	var pre []string
	tag := ""
	if x.Tag != nil {
		if !pgIsInt(c.info.TypeOf(x.Tag)) {
			pgFail("switch on a non-integer")
		}
		tag = c.atom(x.Tag, &pre)
	}
	c.inSwch++
	defer func() { c.inSwch-- }()
	var dflt *ast.CaseClause
	var clauses []*ast.CaseClause
	for _, s := range x.Body.List {
		cc := s.(*ast.CaseClause)
		for _, b := range cc.Body {
			if br, ok := b.(*ast.BranchStmt); ok && br.Tok == token.FALLTHROUGH {
				pgFail("fallthrough")
			}
		}
		if cc.List == nil {
			dflt = cc
		} else {
			clauses = append(clauses, cc)
		}
	}
	var out pgNode
	if dflt != nil {
		out = c.stmts(dflt.Body, k)
	} else {
		out = pgForce(k)
	}
	for i := len(clauses) - 1; i >= 0; i-- {
		cc := clauses[i]
		body := c.stmts(cc.Body, k)
		for j := len(cc.List) - 1; j >= 0; j-- {
			var p []string
			var cond string
			if tag == "" {
				cond = c.atom(cc.List[j], &p)
			} else {
				cond = "decide (" + tag + " = " + c.atom(cc.List[j], &p) + ")"
			}
			out = c.lets(p, &pgIf{cond, body, out})
		}
	}
	n := c.lets(pre, out)
	if x.Init != nil {
		return c.stmt(x.Init, n)
	}
	return n
}

// switch v := x.(type) on a node: the prelude's tests, in order; the default clause last
func (c *pcCtx) typeSwitch(x *ast.TypeSwitchStmt, k pgNode) pgNode {
	if x.Init != nil {
		pgFail("type switch with an init statement")
	}
	var ta *ast.TypeAssertExpr
	switch a := x.Assign.(type) {
	case *ast.AssignStmt:
		ta, _ = a.Rhs[0].(*ast.TypeAssertExpr)
	case *ast.ExprStmt:
		ta, _ = a.X.(*ast.TypeAssertExpr)
	}
	if ta == nil {
		pgFail("type switch %s", norm(x.Assign))
	}
	var pre []string
	scrut := pcP(c.atom(ta.X, &pre))
	st := c.info.TypeOf(ta.X)
	c.inSwch++
	defer func() { c.inSwch-- }()
	var dflt *ast.CaseClause
	var clauses []*ast.CaseClause
	for _, s := range x.Body.List {
		cc := s.(*ast.CaseClause)
		if cc.List == nil {
			dflt = cc
		} else {
			clauses = append(clauses, cc)
		}
	}
	bind := func(cc *ast.CaseClause, val string, body pgNode) pgNode {
		if o := c.info.Implicits[cc]; o != nil {
			return &pgLet{"let " + c.name(o) + " : " + c.typ(o.Type()) + " := " + val, body}
		}
		return body
	}
	var out pgNode
	if dflt != nil {
		out = bind(dflt, scrut, c.stmts(dflt.Body, k))
	} else {
		out = pgForce(k)
	}
	for i := len(clauses) - 1; i >= 0; i-- {
		cc := clauses[i]
		if len(cc.List) != 1 {
			pgFail("type switch clause with several types")
		}
		f := c.asFn(c.info.TypeOf(cc.List[0]), st)
		v, ok := c.tmp(), c.tmp()
		body := bind(cc, v, c.stmts(cc.Body, k))
		out = &pgLet{"let (" + v + ", " + ok + ") := " + f + " " + scrut, &pgIf{ok, body, out}}
	}
	return c.lets(pre, out)
}

func pcHasReturn(n ast.Node) bool {
	found := false
	ast.Inspect(n, func(m ast.Node) bool {
		switch m.(type) {
		case *ast.FuncLit:
			return false
		case *ast.ReturnStmt:
			found = true
		}
		return true
	})
	return found
}

// `for k, v := range list`: a generated function, structurally recursive on the list
func (c *pcCtx) rangeLoop(x *ast.RangeStmt, k pgNode) pgNode {
	var pre []string
	coll := pcP(c.atom(x.X, &pre))
	lt := c.typ(c.info.TypeOf(x.X))
	if !strings.HasPrefix(lt, "(List ") {
		pgFail("range over %s", norm(x.X))
	}
	elemT := strings.TrimSuffix(strings.TrimPrefix(lt, "(List "), ")")
	rv := func(e ast.Expr) string {
		if e == nil {
			return "_"
		}
		id, ok := e.(*ast.Ident)
		if !ok || (x.Tok != token.DEFINE && id.Name != "_") {
			pgFail("range assigns to %s", norm(e))
		}
		if id.Name == "_" {
			return "_"
		}
		o := c.info.Defs[id]
		c.typ(o.Type())
		return c.name(o)
	}
	kv, vv := rv(x.Key), rv(x.Value)
	inside := func(p token.Pos) bool { return x.Pos() <= p && p < x.End() }
	hasRet := pcHasReturn(x.Body)

	assigned := map[*types.Var]bool{}
	for _, v := range pcAssigned(c.g, c.info, x.Body) {
		assigned[v] = true
	}
	var fixed, state []pgVar
	usedVars := pgUsed(c.info, x.Body)
	if hasRet && c.fn.inout && c.recvObj != nil { // a `return` in the body returns the receiver too
		has := false
		for _, v := range usedVars {
			if v == c.recvObj {
				has = true
			}
		}
		if !has {
			usedVars = append([]*types.Var{c.recvObj}, usedVars...)
		}
	}
	for _, v := range usedVars {
		if inside(v.Pos()) || c.ctxObj[v] {
			continue
		}
		pv := pgVar{c.name(v), c.varType(v)}
		if assigned[v] {
			state = append(state, pv)
		} else {
			fixed = append(fixed, pv)
		}
	}
	if c.fn.fuel && !c.fn.rec {
		fixed = append(fixed, pgVar{"fuel", "Nat"})
	}
	cnt := ""
	if kv != "_" {
		cnt = kv
		state = append(state, pgVar{cnt, "Int"})
	}
	*c.nloop++
	name := c.fn.key + "_loop" + strconv.Itoa(*c.nloop)
	var stn, stt []string
	for _, v := range state {
		stn = append(stn, v.name)
		stt = append(stt, pgAtomT(v.typ))
	}
	stTuple := pgTuple(stn, "")
	stType := "Unit"
	if len(stt) == 1 {
		stType = stt[0]
	} else if len(stt) > 1 {
		stType = "(" + strings.Join(stt, " × ") + ")"
	}
	resT := stType
	doneCode := "pure " + pcP(stTuple)
	if hasRet {
		resT = "(Brk " + c.fnResT() + " " + stType + ")"
		doneCode = "pure (Brk.done " + pcP(stTuple) + ")"
	}
	// the body, in a context where the cycle members are parameters and `return` leaves through Brk.ret
	sub := *c
	outerRef := c.recRef
	sub.recRef = map[*pcFn]string{}
	for f := range outerRef {
		sub.recRef[f] = "rec_" + f.key
	}
	if hasRet {
		tup := c.retTuple
		sub.ret = func(vals []string) pgNode { return &pgTerm{"pure (Brk.ret " + pcP(tup(vals)) + ")"} }
		sub.retTuple = tup
		sub.retRaw = func(v string) pgNode { return &pgTerm{"pure (Brk.ret " + v + ")"} }
	}
	var fxn []string
	for _, v := range fixed {
		fxn = append(fxn, v.name)
	}
	var recNames []string
	for _, f := range c.cycleOrder() {
		recNames = append(recNames, "rec_"+f.key)
	}
	againParts := append([]string{name, "W"}, fxn...)
	againParts = append(againParts, recNames...)
	againParts = append(againParts, "rest")
	againParts = append(againParts, stn...)
	var again pgNode = &pgTerm{strings.Join(againParts, " ")}
	if cnt != "" {
		again = &pgLet{"let " + cnt + " : Int := (" + cnt + " + 1)", again}
	}
	done := &pgTerm{doneCode}
	sub.loops = append(append([]pgLoopK{}, c.loops...), pgLoopK{done, again, ""})
	sub.inSwch = 0
	body := sub.stmts(x.Body.List, again)
	var lines []string
	pcPrint(body, "    ", &lines)
	hdr := "def " + name + " " + c.g.worldB()
	for _, v := range fixed {
		hdr += " (" + v.name + " : " + v.typ + ")"
	}
	for _, f := range c.cycleOrder() {
		hdr += " (rec_" + f.key + " : " + f.ftype + ")"
	}
	hdr += " : List " + elemT
	for _, t := range stt {
		hdr += " → " + t
	}
	hdr += " → " + c.g.mon() + " " + resT
	base := "  | " + strings.Join(append([]string{"[]"}, stn...), ", ") + " => " + doneCode + "\n"
	pat := vv
	if vv == "_" {
		pat = "_"
	}
	step := "  | " + strings.Join(append([]string{pat + " :: rest"}, stn...), ", ") + " => do\n"
	*c.aux = append(*c.aux, hdr+"\n"+base+step+strings.Join(lines, "\n")+"\n")
	// the call
	parts := []string{name, "W"}
	parts = append(parts, fxn...)
	for _, f := range c.cycleOrder() {
		parts = append(parts, pcP(outerRef[f]))
	}
	parts = append(parts, coll)
	if cnt != "" {
		pre = append(pre, "let "+cnt+" : Int := 0")
	}
	parts = append(parts, stn...)
	run := strings.Join(parts, " ")
	if !hasRet {
		switch len(stn) {
		case 0:
			return c.lets(append(pre, run), k)
		default:
			return c.lets(append(pre, "let "+stTuple+" ← "+run), k)
		}
	}
	r := c.tmp()
	rv2 := c.tmp()
	m := &pcMatch{r, []pcCase{{"Brk.ret " + rv2, pgForce(c.retRaw(rv2))}, {"Brk.done " + pcP(stTuple), pgForce(k)}}}
	if len(stn) == 0 {
		m.cases[1].pat = "Brk.done _"
	}
	return c.lets(append(pre, "let "+r+" ← "+run), m)
}

func pcHasJump(n ast.Node) bool {
	found := false
	ast.Inspect(n, func(m ast.Node) bool {
		switch m.(type) {
		case *ast.FuncLit:
			return false
		case *ast.ReturnStmt, *ast.BranchStmt:
			found = true
		}
		return true
	})
	return found
}

// an `if` whose branches neither return nor break/continue: a block that yields the variables it assigns (a join
// point: the continuation is not duplicated)
func (c *pcCtx) joinIf(x *ast.IfStmt, k pgNode) pgNode {
	if pcHasJump(x.Body) || (x.Else != nil && pcHasJump(x.Else)) {
		return nil
	}
	var els ast.Node
	if x.Else != nil {
		els = x.Else
	}
	var vars []string
	for _, v := range pcAssigned(c.g, c.info, x.Body, els) {
		if v.Pos() < x.Pos() && !c.ctxObj[v] {
			vars = append(vars, c.name(v))
		}
	}
	tuple := pgTuple(vars, "")
	yield := &pgTerm{"pure " + pcP(tuple)}
	var pre []string
	var cond string
	if call, ok := x.Cond.(*ast.CallExpr); ok {
		if fn, recv := c.calleeFn(call); fn != nil && fn.inout {
			cond = c.inoutCall(call, fn, recv, nil, &pre)[0]
		}
	}
	if cond == "" {
		cond = c.atom(x.Cond, &pre)
	}
	a := c.stmts(x.Body.List, yield)
	var b pgNode = yield
	if x.Else != nil {
		b = c.stmt(x.Else, yield)
	}
	line := "(if " + cond + " then (do " + pcInline(a) + ") else (do " + pcInline(pgForce(b)) + "))"
	if len(vars) == 0 {
		line = "let _ ← " + line
	} else {
		line = "let " + tuple + " ← " + line
	}
	n := c.lets(append(pre, line), k)
	if x.Init != nil {
		return c.stmt(x.Init, n)
	}
	return n
}

// In a function on a recursive cycle, what follows the LAST join-`if` at the top level of the body is emitted as an
// auxiliary function <fn>_k1 over the variables it uses (the cycle members being function parameters, as for loops):
// the continuation of the join point gets a name instead of being inlined.
func (c *pcCtx) liftTail(list []ast.Stmt, k pgNode) pgNode {
	if !c.fn.rec {
		return nil
	}
	cut := -1
	for i, st := range list {
		if x, ok := st.(*ast.IfStmt); ok && i+1 < len(list) {
			if !pcHasJump(x.Body) && (x.Else == nil || !pcHasJump(x.Else)) {
				cut = i
			}
		}
	}
	if cut < 0 {
		return nil
	}
	rest := list[cut+1:]
	var nodes []ast.Node
	for _, st := range rest {
		nodes = append(nodes, st)
	}
	used := pgUsed(c.info, nodes...)
	if c.fn.inout && c.recvObj != nil {
		has := false
		for _, v := range used {
			if v == c.recvObj {
				has = true
			}
		}
		if !has {
			used = append([]*types.Var{c.recvObj}, used...)
		}
	}
	var vars []pgVar
	for _, v := range used {
		if v.Pos() >= rest[0].Pos() || c.ctxObj[v] {
			continue
		}
		vars = append(vars, pgVar{c.name(v), c.varType(v)})
	}
	name := c.fn.key + "_k1"
	sub := *c
	sub.recRef = map[*pcFn]string{}
	for f := range c.recRef {
		sub.recRef[f] = "rec_" + f.key
	}
	body := sub.stmts(rest, k)
	var lines []string
	pcPrint(body, "  ", &lines)
	hdr := "/-- " + c.fn.pkg.tpkg.Name() + "." + c.fn.key + ": what follows its last top-level join point -/\ndef " + name + " " + c.g.worldB()
	call := []string{name, "W"}
	for _, v := range vars {
		hdr += " (" + v.name + " : " + v.typ + ")"
		call = append(call, v.name)
	}
	for _, f := range c.cycleOrder() {
		hdr += " (rec_" + f.key + " : " + f.ftype + ")"
		call = append(call, pcP(c.recRef[f]))
	}
	hdr += " : " + c.g.mon() + " " + c.resLean + " := do"
	*c.aux = append(*c.aux, hdr+"\n"+strings.Join(lines, "\n")+"\n")
	return c.stmts(list[:cut+1], &pgTerm{strings.Join(call, " ")})
}
