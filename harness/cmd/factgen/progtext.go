package main

// Extensions of the statement-level translator (progfacts.go) for the text level: the reader primitives, the file set,
// Position.String and unquoteString.  Everything here is trusted base in the same sense as progfacts.go.
//
//   * strings: a struct FIELD of type string is a Lean `String` (opaque text: a file name), every other string (parameter,
//     local variable, result, conversion) is a byte string `Str` (a list of integers); a constant takes the kind of its
//     context; any flow between the two kinds is refused — except that a string variable or parameter the function does
//     nothing with but store it in string fields is itself text (pgTextVars below: `NewFile(filename string, …)`).  `len(s)`, `s[i]` (range checked), `s == t`, `[]byte(s)` (a fresh
//     array), `string(bytes)`, `string(rune)` (the UTF-8 encoding), `append(b, s...)` are prelude calls;
//   * integer conversions that can lose information (`int8(x)`, `byte(x)`, …) wrap around (`Go.wrap bits signed x`);
//     conversions into a type that holds every value of the source type are the identity, as before;
//   * a slice whose elements are (pointers to) structs is an OWNED Lean list: append, index (range checked), len, range;
//     aliasing between such slices is not modelled (as for struct pointers);
//   * an interface all of whose calls are dispatched to one struct type (pgDispatch: parsley.File -> *text.File, checked
//     with types.Implements) is that struct; comparing such a value with nil is `false`;
//   * a method that writes its receiver may be called on a field path or on an element of an owned list, in a statement,
//     in `x := recv.M(…)` and in `return recv.M(…)`: the written receiver is stored back;
//   * `return` inside a loop: the loop function answers `(some result, state)`, its caller returns the result;
//     `for { … }` without a condition takes its fuel from the guards `if a >= b { return/break }` of its body and from the
//     lengths of the slices and strings it mentions (too little fuel is the outcome `outOfFuel`, never a value);
//   * `bytes.Replace(s, old, new, -1)` (only with the constant -1) and `bytes.ReplaceAll(s, old, new)` are the prelude's
//     `Go.bytesReplaceAll`; `return &v` of a local struct variable returns the variable's value (owned struct pointers);
//   * the standard library: utf8.DecodeRune, bytes.HasPrefix, fmt.Sprintf (verbs %s %d, constant format, parsed here) are
//     prelude functions; the regexp engine (`r.getPattern(expr).FindIndex(b)`) and strconv.UnquoteChar are fields of the
//     external world `X : Ext`, the first parameter of every function that (transitively) needs it.

import (
	"fmt"
	"go/ast"
	"go/constant"
	"go/token"
	"go/types"
	"strconv"
	"strings"
)

// interfaces whose method calls are dispatched to the one struct type that implements them in the repository
// (outside the generated test fakes)
var pgDispatch = map[string]string{"parsley.File": "text.File"}

const (
	pgConst = iota
	pgText
	pgBytes
)

func pgUnparen(e ast.Expr) ast.Expr {
	for {
		p, ok := e.(*ast.ParenExpr)
		if !ok {
			return e
		}
		e = p.X
	}
}

// strKind: a constant, the text of a struct field, or a byte string
func (c *pgCtx) strKind(e ast.Expr) int {
	e = pgUnparen(e)
	if tv := c.info.Types[e]; tv.Value != nil {
		return pgConst
	}
	if x, ok := e.(*ast.SelectorExpr); ok {
		if sel, ok := c.info.Selections[x]; ok && sel.Kind() == types.FieldVal {
			return pgText
		}
	}
	if id, ok := e.(*ast.Ident); ok && c.isText(c.info.Uses[id]) { // a variable that is only stored (pgTextVars)
		return pgText
	}
	return pgBytes
}

// strVal: the string-typed e as a Lean `String` (text) or as a `Str` (bytes)
func (c *pgCtx) strVal(e ast.Expr, text bool, pre *[]string) string {
	e = pgUnparen(e)
	switch c.strKind(e) {
	case pgConst:
		tv := c.info.Types[e]
		if tv.Value.Kind() != constant.String {
			pgFail("constant %s is not a string", norm(e))
		}
		q := strconv.Quote(constant.StringVal(tv.Value))
		if text {
			return q
		}
		if q == `""` {
			return "([] : Str)"
		}
		return "(Go.lit " + q + ")"
	case pgText:
		if !text {
			pgFail("the field %s (text) is used as a byte string", norm(e))
		}
	case pgBytes:
		if text {
			pgFail("the byte string %s is used as the text of a field", norm(e))
		}
	}
	return c.atom(e, pre)
}

func (g *pgGen) implOf(t types.Type) *types.Named {
	if nt, ok := t.(*types.Named); ok && types.IsInterface(nt) && g != nil {
		return g.impl[nt.Obj()]
	}
	return nil
}

// structOf: pgStructOf, or the struct type a dispatched interface stands for
func (g *pgGen) structOf(t types.Type) (*types.Named, *types.Struct) {
	if n, s := pgStructOf(t); n != nil {
		return n, s
	}
	if impl := g.implOf(t); impl != nil {
		return impl, impl.Underlying().(*types.Struct)
	}
	return nil, nil
}

// dispatch: the method of the implementing struct an interface method call stands for
func (g *pgGen) dispatch(sel *types.Selection) *types.Func {
	if g == nil {
		return nil
	}
	impl := g.implOf(sel.Recv())
	if impl == nil {
		return nil
	}
	m := types.NewMethodSet(types.NewPointer(impl)).Lookup(sel.Obj().Pkg(), sel.Obj().Name())
	if m == nil {
		return nil
	}
	f, _ := m.Obj().(*types.Func)
	return f
}

func (g *pgGen) resolveImpl(l *concLoader) []string {
	var bad []string
	g.impl = map[*types.TypeName]*types.Named{}
	find := func(qn string) *types.Named {
		i := strings.LastIndex(qn, ".")
		p, err := l.load(l.module + "/" + qn[:i])
		if err != nil || p.tpkg == nil {
			return nil
		}
		o, _ := p.tpkg.Scope().Lookup(qn[i+1:]).(*types.TypeName)
		if o == nil {
			return nil
		}
		n, _ := o.Type().(*types.Named)
		return n
	}
	for iface, impl := range pgDispatch {
		in, sn := find(iface), find(impl)
		if in == nil || sn == nil {
			bad = append(bad, "dispatch "+iface+" -> "+impl+": type not found")
			continue
		}
		it, ok := in.Underlying().(*types.Interface)
		if _, isStruct := sn.Underlying().(*types.Struct); !ok || !isStruct || !types.Implements(types.NewPointer(sn), it) {
			bad = append(bad, "dispatch "+iface+" -> "+impl+": not an implementation")
			continue
		}
		g.impl[in.Obj()] = sn
	}
	return bad
}

// pgNarrowing: does the conversion from -> to lose values, and into which range does it wrap
func pgNarrowing(from, to types.Type) (bits int, signed, narrow bool) {
	size := func(t types.Type) (int, bool, bool) {
		b, ok := t.Underlying().(*types.Basic)
		if !ok {
			return 0, false, false
		}
		switch b.Kind() {
		case types.Int8:
			return 8, true, true
		case types.Int16:
			return 16, true, true
		case types.Int32:
			return 32, true, true
		case types.Int64, types.Int:
			return 64, true, true
		case types.Uint8:
			return 8, false, true
		case types.Uint16:
			return 16, false, true
		case types.Uint32:
			return 32, false, true
		case types.Uint64, types.Uint, types.Uintptr:
			return 64, false, true
		}
		return 0, false, false
	}
	fb, fs, ok1 := size(from)
	tb, ts, ok2 := size(to)
	if !ok1 || !ok2 {
		pgFail("conversion between %s and %s", types.TypeString(from, qual), types.TypeString(to, qual))
	}
	fits := false
	switch {
	case fs == ts:
		fits = fb <= tb
	case !fs && ts:
		fits = fb < tb
	}
	return tb, ts, !fits
}

// conversions other than integer to integer
func (c *pgCtx) convert(x *ast.CallExpr, from, to types.Type) (pre []string, code string, mon bool) {
	isBytes := func(t types.Type) bool {
		s, ok := t.Underlying().(*types.Slice)
		if !ok {
			return false
		}
		b, ok := s.Elem().Underlying().(*types.Basic)
		return ok && b.Kind() == types.Uint8
	}
	switch {
	case pgIsString(from) && isBytes(to): // []byte(s): a fresh array
		return pre, "Go.bytesOf " + c.strVal(x.Args[0], false, &pre), true
	case isBytes(from) && pgIsString(to): // string(b): the bytes the slice shows
		return pre, "Go.strOf " + c.atom(x.Args[0], &pre), true
	case pgIsInt(from) && pgIsString(to): // string(r): the UTF-8 encoding of the rune
		return pre, "Go.runeStr " + pgP(c.atom(x.Args[0], &pre)), false
	case pgIsString(from) && pgIsString(to):
		return pre, c.strVal(x.Args[0], false, &pre), false
	}
	pgFail("conversion %s is outside the subset", norm(x))
	return
}

// append(b, s...) for a byte slice b and a byte slice or string s
func (c *pgCtx) appendSpread(x *ast.CallExpr) (pre []string, code string, mon bool) {
	if len(x.Args) != 2 || c.typ(c.info.TypeOf(x.Args[0])) != "Sl" {
		pgFail("call with `...`: %s", norm(x))
	}
	a := c.atom(x.Args[0], &pre)
	t := c.info.TypeOf(x.Args[1])
	switch {
	case pgIsString(t):
		return pre, "Go.appendStr " + a + " " + pgP(c.strVal(x.Args[1], false, &pre)), true
	case c.typ(t) == "Sl":
		return pre, "Go.appendSl " + a + " " + c.atom(x.Args[1], &pre), true
	}
	pgFail("call with `...`: %s", norm(x))
	return
}

// the functions of the standard library the prelude gives a meaning to
func (c *pgCtx) external(o *types.Func, x *ast.CallExpr, recv ast.Expr) (pre []string, code string, mon, ok bool) {
	if o.Pkg() == nil {
		return
	}
	switch o.Pkg().Path() + "." + o.Name() {
	case "unicode/utf8.DecodeRune":
		return pre, "Go.decodeRune " + c.atom(x.Args[0], &pre), true, true
	case "bytes.HasPrefix":
		a := c.atom(x.Args[0], &pre)
		return pre, "Go.hasPrefix " + a + " " + c.atom(x.Args[1], &pre), true, true
	case "bytes.Replace", "bytes.ReplaceAll":
		// bytes.Replace(s, old, new, -1) = bytes.ReplaceAll(s, old, new); any other count is outside the subset
		if o.Name() == "Replace" {
			tv := c.info.Types[x.Args[3]]
			n, exact := int64(0), false
			if tv.Value != nil && tv.Value.Kind() == constant.Int {
				n, exact = constant.Int64Val(tv.Value)
			}
			if !exact || n != -1 {
				pgFail("bytes.Replace with a count that is not the constant -1: %s", norm(x))
			}
		}
		a := c.atom(x.Args[0], &pre)
		b := c.atom(x.Args[1], &pre)
		return pre, "Go.bytesReplaceAll " + a + " " + b + " " + c.atom(x.Args[2], &pre), true, true
	case "strconv.UnquoteChar":
		c.needExt()
		a := pgP(c.strVal(x.Args[0], false, &pre))
		return pre, "Go.unquoteChar X " + a + " " + pgP(c.atom(x.Args[1], &pre)), true, true
	case "regexp.FindIndex":
		// only in the shape r.getPattern(expr).FindIndex(b): the anchored pattern of expr, applied to b, by the engine of X
		call, isCall := pgUnparen(recv).(*ast.CallExpr)
		if !isCall || len(call.Args) != 1 {
			pgFail("FindIndex on %s", norm(recv))
		}
		sel, isSel := call.Fun.(*ast.SelectorExpr)
		if !isSel || sel.Sel.Name != "getPattern" {
			pgFail("FindIndex on %s", norm(recv))
		}
		if s, has := c.info.Selections[sel]; !has || s.Kind() != types.MethodVal || s.Obj().Pkg() == nil || s.Obj().Pkg().Name() != "text" {
			pgFail("FindIndex on %s", norm(recv))
		}
		c.needExt()
		e := pgP(c.strVal(call.Args[0], false, &pre))
		return pre, "Go.findIndex X " + e + " " + c.atom(x.Args[0], &pre), true, true
	case "fmt.Sprintf":
		return pre, c.sprintf(x, &pre), false, true
	case "fmt.Errorf": // progerr.go: the record of an error whose Error() is the formatted text
		s := c.sprintf(x, &pre)
		return pre, "(Go.errorf (" + s + "))", false, true
	}
	return
}

func (c *pgCtx) needExt() {
	if !c.fn.ext {
		pgFail("internal: %s uses the external world but was not marked", c.fn.key)
	}
}

// fmt.Sprintf with a constant format of literal text, %s, %d and %%
func (c *pgCtx) sprintf(x *ast.CallExpr, pre *[]string) string {
	if len(x.Args) == 0 {
		pgFail("Sprintf without a format")
	}
	tv := c.info.Types[x.Args[0]]
	if tv.Value == nil || tv.Value.Kind() != constant.String {
		pgFail("Sprintf with a format that is not a constant")
	}
	format := constant.StringVal(tv.Value)
	args := x.Args[1:]
	var parts []string
	lit := ""
	flush := func() {
		if lit != "" {
			parts = append(parts, "Fmt.lit "+strconv.Quote(lit))
			lit = ""
		}
	}
	for i := 0; i < len(format); i++ {
		if format[i] != '%' {
			lit += string(format[i])
			continue
		}
		i++
		if i >= len(format) {
			pgFail("Sprintf format %q", format)
		}
		switch format[i] {
		case '%':
			lit += "%"
		case 's', 'd':
			flush()
			if len(args) == 0 {
				pgFail("Sprintf format %q: too few arguments", format)
			}
			a := args[0]
			args = args[1:]
			t := c.info.TypeOf(a)
			switch {
			case format[i] == 'd' && pgIsInt(t):
				parts = append(parts, "Fmt.int "+pgP(c.atom(a, pre)))
			case format[i] == 's' && pgIsString(t) && c.strKind(a) == pgText:
				parts = append(parts, "Fmt.text "+c.strVal(a, true, pre))
			case format[i] == 's' && pgIsString(t) && c.strKind(a) == pgConst:
				parts = append(parts, "Fmt.lit "+c.strVal(a, true, pre))
			case format[i] == 's' && pgIsString(t):
				parts = append(parts, "Fmt.bytes "+pgP(c.strVal(a, false, pre)))
			default:
				pgFail("Sprintf verb %%%c with %s", format[i], norm(a))
			}
		default:
			pgFail("Sprintf verb %%%c", format[i])
		}
	}
	flush()
	if len(args) != 0 {
		pgFail("Sprintf format %q: too many arguments", format)
	}
	return "Go.sprintf [" + strings.Join(parts, ", ") + "]"
}

// pgRootL: pgRoot, also through the index of an owned list (the element is part of the variable's value)
func pgRootL(g *pgGen, info *types.Info, e ast.Expr) *ast.Ident {
	for {
		switch x := e.(type) {
		case *ast.Ident:
			return x
		case *ast.SelectorExpr:
			e = x.X
		case *ast.ParenExpr:
			e = x.X
		case *ast.IndexExpr:
			if g == nil {
				return nil
			}
			sl, ok := info.TypeOf(x.X).Underlying().(*types.Slice)
			if !ok {
				return nil
			}
			if n, _ := g.structOf(sl.Elem()); n == nil {
				return nil // an integer slice or a map: a write to the heap, not to a variable
			}
			e = x.X
		default:
			return nil
		}
	}
}

func pgHasReturn(nodes []ast.Node) bool {
	found := false
	for _, n := range nodes {
		if n == nil {
			continue
		}
		ast.Inspect(n, func(m ast.Node) bool {
			switch m.(type) {
			case *ast.FuncLit:
				return false
			case *ast.ReturnStmt:
				found = true
			}
			return true
		})
	}
	return found
}

// fuel of a `for { … }`: the bounds of the guards `if a >= b { …; return/break }` at the top of the body, and the lengths
// of the integer slices and byte strings the loop mentions (their values at the loop's entry)
func (c *pgCtx) guardFuel(x *ast.ForStmt) []string {
	var atoms []string
	for _, s := range x.Body.List {
		is, ok := s.(*ast.IfStmt)
		if !ok || is.Else != nil || is.Init != nil || len(is.Body.List) == 0 {
			continue
		}
		switch last := is.Body.List[len(is.Body.List)-1].(type) {
		case *ast.ReturnStmt:
			c.fuelAtoms(is.Cond, true, &atoms)
		case *ast.BranchStmt:
			if last.Tok == token.BREAK && last.Label == nil {
				c.fuelAtoms(is.Cond, true, &atoms)
			}
		}
	}
	var cond ast.Node
	if x.Cond != nil {
		cond = x.Cond
	}
	for _, v := range pgUsed(c.info, cond, x.Body) {
		if (x.Body.Pos() <= v.Pos() && v.Pos() < x.Body.End()) || c.loopLocal[v] {
			continue
		}
		if lt, ok := c.g.leanType(v.Type()); ok {
			switch lt {
			case "Sl":
				atoms = append(atoms, "Go.len "+c.name(v))
			case "Str":
				atoms = append(atoms, "Go.strLen "+c.name(v))
			}
		}
	}
	return atoms
}

// is the call a call of a translated method that writes its receiver
func (c *pgCtx) isInoutCall(x *ast.CallExpr) bool {
	f, ok := x.Fun.(*ast.SelectorExpr)
	if !ok {
		return false
	}
	sel, ok := c.info.Selections[f]
	if !ok || sel.Kind() != types.MethodVal {
		return false
	}
	obj := sel.Obj()
	if types.IsInterface(sel.Recv()) {
		if m := c.g.dispatch(sel); m != nil {
			obj = m
		}
	}
	tf, ok := obj.(*types.Func)
	if !ok {
		return false
	}
	fn := c.g.byObj[tf]
	return fn != nil && fn.inout
}

// recv.M(args) where M writes its receiver: evaluate the receiver and the arguments, call, store the receiver back;
// returns the statements and the names of M's results
func (c *pgCtx) inoutCall(x *ast.CallExpr) (pre []string, vals []string) {
	fn, recv, _ := c.callee(x)
	if fn == nil || !fn.inout || recv == nil {
		pgFail("call %s", norm(x))
	}
	if x.Ellipsis.IsValid() {
		pgFail("call with `...`: %s", norm(x))
	}
	c.fn.deps = append(c.fn.deps, fn)
	r := pgP(c.atom(recv, &pre))
	var as []string
	if fn.ext {
		as = append(as, "X")
	}
	as = append(as, r)
	sig := fn.obj.Type().(*types.Signature)
	for i, a := range x.Args {
		if c.isText(sig.Params().At(i)) {
			as = append(as, c.strVal(a, true, &pre))
			continue
		}
		as = append(as, c.arg(a, sig.Params().At(i).Type(), &pre))
	}
	nr := c.tmp()
	pat := []string{nr}
	for i := 0; i < sig.Results().Len(); i++ {
		v := c.tmp()
		pat = append(pat, v)
		vals = append(vals, v)
	}
	p := nr
	if len(pat) > 1 {
		p = "(" + strings.Join(pat, ", ") + ")"
	}
	pre = append(pre, "let "+p+" ← "+fn.key+" "+strings.Join(as, " "))
	pre = append(pre, c.assignPath(recv, nr))
	return
}

// which functions need the external world: those that call strconv.UnquoteChar or the regexp engine, and their callers
func (g *pgGen) markExt() {
	uses := func(fn *pgFn) bool {
		found := false
		walkWithHelpers(fn.decl.Body, fn.pkg, func(tf *types.Func) bool { return g.byObj[tf] != nil }, func(m ast.Node) bool {
			call, ok := m.(*ast.CallExpr)
			if !ok {
				return true
			}
			var id *ast.Ident
			switch f := call.Fun.(type) {
			case *ast.Ident:
				id = f
			case *ast.SelectorExpr:
				id = f.Sel
				if sel, ok := fn.pkg.info.Selections[f]; ok && sel.Kind() == types.MethodVal {
					obj := sel.Obj()
					if types.IsInterface(sel.Recv()) {
						if d := g.dispatch(sel); d != nil {
							obj = d
						}
					}
					if tf, ok := obj.(*types.Func); ok {
						if callee := g.byObj[tf]; callee != nil && callee.ext {
							found = true
						}
						if tf.Pkg() != nil && tf.Pkg().Path() == "regexp" && tf.Name() == "FindIndex" {
							found = true
						}
					}
					return true
				}
			}
			if id == nil {
				return true
			}
			if tf, ok := fn.pkg.info.Uses[id].(*types.Func); ok {
				if callee := g.byObj[tf]; callee != nil && callee.ext {
					found = true
				}
				if tf.Pkg() != nil && tf.Pkg().Path() == "strconv" && tf.Name() == "UnquoteChar" {
					found = true
				}
			}
			return true
		})
		return found
	}
	for changed := true; changed; {
		changed = false
		for _, fn := range g.fns {
			if !fn.ext && uses(fn) {
				fn.ext, changed = true, true
			}
		}
	}
}

var _ = fmt.Sprintf

// ---- text variables ----
//
// A string-typed parameter or local variable holds TEXT (a Lean `String`, like a struct field of type string) instead of a
// byte string when the function does nothing with it but store it: every mention of it is the value of a string field in a
// struct literal, the right-hand side of an assignment to a string field, or the right-hand side of an assignment to
// another text variable; and (for a local variable) every value assigned to it is a constant, a string field or a text
// variable.  A variable that is never mentioned is not text.  (Without this rule such a function is refused — "the byte
// string … is used as the text of a field" — so the rule changes the translation of no function that was translated.)
func pgTextVars(info *types.Info, fd *ast.FuncDecl) map[*types.Var]bool {
	cand := map[*types.Var]bool{}
	isParam := map[*types.Var]bool{}
	if fd.Type.Params != nil {
		for _, f := range fd.Type.Params.List {
			for _, id := range f.Names {
				if v, ok := pgLocal(info.Defs[id]); ok && pgIsString(v.Type()) {
					cand[v], isParam[v] = true, true
				}
			}
		}
	}
	bad := map[*types.Var]bool{}
	uses := map[*types.Var]int{}
	flows := map[*types.Var][]*types.Var{} // u -> the variables u is assigned to
	srcs := map[*types.Var][]*types.Var{}  // v -> the variables assigned to v
	lhsIdent := map[*ast.Ident]bool{}
	sinkField := map[*ast.Ident]bool{}
	sinkVar := map[*ast.Ident]*types.Var{}
	varOf := func(e ast.Expr) (*ast.Ident, *types.Var) {
		id, ok := pgUnparen(e).(*ast.Ident)
		if !ok {
			return nil, nil
		}
		o := info.Uses[id]
		if o == nil {
			o = info.Defs[id]
		}
		v, ok := pgLocal(o)
		if !ok || !pgIsString(v.Type()) {
			return nil, nil
		}
		return id, v
	}
	isStrField := func(e ast.Expr) bool {
		x, ok := pgUnparen(e).(*ast.SelectorExpr)
		if !ok {
			return false
		}
		sel, ok := info.Selections[x]
		return ok && sel.Kind() == types.FieldVal && pgIsString(sel.Obj().Type())
	}
	define := func(lhs, rhs ast.Expr, isDef bool) {
		if isStrField(lhs) {
			if id, _ := varOf(rhs); id != nil {
				sinkField[id] = true
			}
			return
		}
		lid, w := varOf(lhs)
		if w == nil {
			return
		}
		lhsIdent[lid] = true
		if isDef {
			cand[w] = true
		}
		if rhs == nil {
			return
		}
		rid, u := varOf(rhs)
		switch {
		case u != nil:
			sinkVar[rid] = w
			flows[u] = append(flows[u], w)
			srcs[w] = append(srcs[w], u)
		case info.Types[rhs].Value != nil || isStrField(rhs):
		default:
			bad[w] = true
		}
	}
	ast.Inspect(fd.Body, func(n ast.Node) bool {
		switch x := n.(type) {
		case *ast.CompositeLit:
			if _, st := pgStructOf(info.TypeOf(x)); st != nil {
				for i, el := range x.Elts {
					val, ft := el, types.Type(nil)
					if kv, ok := el.(*ast.KeyValueExpr); ok {
						val = kv.Value
						if k, ok := kv.Key.(*ast.Ident); ok {
							for j := 0; j < st.NumFields(); j++ {
								if st.Field(j).Name() == k.Name {
									ft = st.Field(j).Type()
								}
							}
						}
					} else if i < st.NumFields() {
						ft = st.Field(i).Type()
					}
					if ft != nil && pgIsString(ft) {
						if id, _ := varOf(val); id != nil {
							sinkField[id] = true
						}
					}
				}
			}
		case *ast.AssignStmt:
			if (x.Tok == token.ASSIGN || x.Tok == token.DEFINE) && len(x.Lhs) == len(x.Rhs) {
				for i := range x.Lhs {
					define(x.Lhs[i], x.Rhs[i], x.Tok == token.DEFINE)
				}
			} else {
				for _, l := range x.Lhs {
					if id, w := varOf(l); w != nil {
						lhsIdent[id], bad[w] = true, true
					}
				}
			}
		case *ast.ValueSpec:
			for i, id := range x.Names {
				if len(x.Values) == len(x.Names) {
					define(id, x.Values[i], true)
				} else if len(x.Values) == 0 {
					define(id, nil, true)
				} else if _, w := varOf(id); w != nil {
					bad[w] = true
				}
			}
		}
		return true
	})
	ast.Inspect(fd.Body, func(n ast.Node) bool {
		id, ok := n.(*ast.Ident)
		if !ok || lhsIdent[id] {
			return true
		}
		v, ok := pgLocal(info.Uses[id])
		if !ok || !cand[v] {
			return true
		}
		uses[v]++
		if !sinkField[id] && sinkVar[id] == nil {
			bad[v] = true
		}
		return true
	})
	text := map[*types.Var]bool{}
	for v := range cand {
		if !bad[v] && uses[v] > 0 {
			text[v] = true
		}
	}
	for changed := true; changed; {
		changed = false
		for v := range text {
			ok := true
			for _, w := range flows[v] {
				ok = ok && text[w]
			}
			for _, u := range srcs[v] {
				ok = ok && text[u]
			}
			if !ok {
				delete(text, v)
				changed = true
			}
		}
	}
	return text
}

// isText: the variable holds text (see pgTextVars)
func (c *pgCtx) isText(o types.Object) bool {
	v, ok := o.(*types.Var)
	return ok && c.g != nil && c.g.textVars[v]
}

// varTyp: the Lean type of a parameter or local variable
func (c *pgCtx) varTyp(v types.Object) string {
	if c.isText(v) {
		return "String"
	}
	return c.typ(v.Type())
}
