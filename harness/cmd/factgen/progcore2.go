package main

import (
	"go/ast"
	"go/constant"
	"go/token"
	"go/types"
	"strconv"
	"strings"
)

// ---- expressions ----

func pcP(s string) string {
	if strings.HasPrefix(s, "(") || strings.HasPrefix(s, "[") || strings.HasPrefix(s, "\"") || !strings.ContainsAny(s, " ") {
		return s
	}
	return "(" + s + ")"
}

func (c *pcCtx) isCtxExpr(e ast.Expr) bool {
	for {
		p, ok := e.(*ast.ParenExpr)
		if !ok {
			break
		}
		e = p.X
	}
	id, ok := e.(*ast.Ident)
	if !ok {
		return false
	}
	o := c.info.Uses[id]
	return o != nil && c.ctxObj[o]
}

func (c *pcCtx) isOwned(e ast.Expr) bool {
	for {
		p, ok := e.(*ast.ParenExpr)
		if !ok {
			break
		}
		e = p.X
	}
	id, ok := e.(*ast.Ident)
	if !ok {
		return false
	}
	o := c.info.Uses[id]
	return o != nil && c.owned[o]
}

func (c *pcCtx) parts(e ast.Expr) (pre []string, code string, mon bool) {
	tv := c.info.Types[e]
	if tv.Value != nil {
		switch tv.Value.Kind() {
		case constant.Int:
			s := tv.Value.ExactString()
			if strings.HasPrefix(s, "-") {
				s = "(" + s + ")"
			}
			if !pgIsInt(tv.Type) {
				pgFail("constant %s of type %s", s, types.TypeString(tv.Type, qual))
			}
			return nil, s, false
		case constant.Bool:
			return nil, strconv.FormatBool(constant.BoolVal(tv.Value)), false
		case constant.String:
			return nil, "(Go.str " + strconv.Quote(constant.StringVal(tv.Value)) + ")", false
		}
		pgFail("constant %s is outside the subset", norm(e))
	}
	switch x := e.(type) {
	case *ast.ParenExpr:
		return c.parts(x.X)
	case *ast.Ident:
		if x.Name == "nil" && tv.IsNil() {
			pgFail("nil without a type")
		}
		o := c.info.Uses[x]
		if v, ok := o.(*types.Var); ok && !v.IsField() && v.Parent() != v.Pkg().Scope() {
			if c.ctxObj[v] {
				pgFail("the context %s used as a value", x.Name)
			}
			c.typ(v.Type())
			if c.boxed[v] {
				return nil, "Boxed.get" + c.boxKind(v) + " " + c.name(v), true
			}
			return nil, c.name(v), false
		}
		if v, ok := o.(*types.Var); ok && c.g.tree != nil && !v.IsField() {
			return nil, c.g.tree.global(c, v), false
		}
		pgFail("identifier %s is not a local variable or a constant", x.Name)
	case *ast.StarExpr:
		if _, ok := c.info.TypeOf(x.X).Underlying().(*types.Pointer); ok {
			if _, ok := c.info.TypeOf(x).Underlying().(*types.Slice); ok {
				return c.parts(x.X)
			}
		}
		pgFail("dereference %s is outside the subset", norm(x))
	case *ast.SelectorExpr:
		if sel, ok := c.info.Selections[x]; ok && sel.Kind() == types.FieldVal && len(sel.Index()) == 1 {
			fld := pgField(sel.Obj().Name())
			if c.isCtxExpr(x.X) {
				c.typ(sel.Obj().Type())
				return nil, "Go.read (fun s_ => s_." + fld + ")", true
			}
			c.typ(sel.Obj().Type())
			a := c.atom(x.X, &pre)
			if c.isHeapPtr(c.info.TypeOf(x.X)) {
				t := c.tmp()
				pre = append(pre, "let "+t+" ← Go.load "+a)
				return pre, t + "." + fld, false
			}
			if _, isPtr := c.info.TypeOf(x.X).Underlying().(*types.Pointer); isPtr && !c.isOwned(x.X) {
				t := c.tmp()
				pre = append(pre, "let "+t+" ← Go.deref "+a)
				a = t
			}
			return pre, a + "." + fld, false
		}
		if v, ok := c.info.Uses[x.Sel].(*types.Var); ok && !v.IsField() && v.Pkg() != nil && v.Parent() == v.Pkg().Scope() {
			switch v.Pkg().Name() + "." + v.Name() {
			case "data.EmptyIntSet":
				return nil, "Data.EmptyIntSet", false
			case "data.EmptyIntMap":
				return nil, "Data.EmptyIntMap", false
			}
		}
		if v, ok := c.info.Uses[x.Sel].(*types.Var); ok && c.g.tree != nil && !v.IsField() && v.Pkg() != nil && v.Parent() == v.Pkg().Scope() {
			return nil, c.g.tree.global(c, v), false
		}
		pgFail("selector %s is outside the subset", norm(x))
	case *ast.IndexExpr:
		a := c.atom(x.X, &pre)
		i := c.atom(x.Index, &pre)
		lt := c.typ(c.info.TypeOf(x.X))
		switch {
		case strings.HasPrefix(lt, "(List "):
			return pre, "Go.nth " + a + " " + pcP(i), true
		case strings.HasPrefix(lt, "(Map "):
			return pre, "Go.mapGet " + a + " " + pcP(i), false
		case strings.HasPrefix(lt, "(Option (List "):
			return pre, "Go.onth " + a + " " + pcP(i), true
		}
		pgFail("index into %s", norm(x.X))
	case *ast.SliceExpr:
		if !strings.HasPrefix(c.typ(c.info.TypeOf(x.X)), "(List ") {
			pgFail("slice expression %s is outside the subset", norm(x))
		}
		a := c.atom(x.X, &pre)
		lo, hi := "0", "(Go.len "+a+")"
		if x.Low != nil {
			lo = pcP(c.atom(x.Low, &pre))
		}
		if x.High != nil {
			hi = pcP(c.atom(x.High, &pre))
		}
		if x.Slice3 {
			return pre, "Go.slice3 " + a + " " + lo + " " + hi + " " + pcP(c.atom(x.Max, &pre)), true
		}
		return pre, "Go.slice " + a + " " + lo + " " + hi, true
	case *ast.UnaryExpr:
		switch x.Op {
		case token.NOT:
			a := c.atom(x.X, &pre)
			return pre, "(!" + pcP(a) + ")", false
		case token.SUB:
			a := c.atom(x.X, &pre)
			return pre, "(-" + a + ")", false
		case token.AND:
			if cl, ok := x.X.(*ast.CompositeLit); ok {
				p, code, _ := c.parts(cl)
				return p, "(some " + code + ")", false
			}
		}
		pgFail("unary %s is outside the subset", norm(x))
	case *ast.BinaryExpr:
		return c.binary(x)
	case *ast.CompositeLit:
		return c.composite(x)
	case *ast.CallExpr:
		return c.call(x)
	case *ast.FuncLit:
		return nil, c.closure(x), false
	case *ast.TypeAssertExpr:
		from, ok1 := c.g.leanType(c.info.TypeOf(x.X))
		to, ok2 := c.g.leanType(c.info.TypeOf(x))
		if ok1 && ok2 && from == to && from == "ReaderH" {
			return c.parts(x.X)
		}
		if c.g.tree != nil && ok1 && ok2 {
			return c.treeAssert1(x, from, to)
		}
		pgFail("type assertion %s is outside the subset", norm(x))
	}
	pgFail("expression %s is outside the subset", norm(e))
	return
}

func (c *pcCtx) atom(e ast.Expr, pre *[]string) string {
	p, code, mon := c.parts(e)
	*pre = append(*pre, p...)
	if !mon {
		return code
	}
	t := c.tmp()
	*pre = append(*pre, "let "+t+" ← "+code)
	return t
}

// arg: the value of e for a position of type `want` (nil takes the zero value of `want`; a concrete value stored in an
// interface is injected; an owned struct passed as a pointer is wrapped)
func (c *pcCtx) arg(e ast.Expr, want types.Type, pre *[]string) string {
	if want != nil && c.info.Types[e].IsNil() {
		return c.zero(want)
	}
	if want != nil && c.isOwned(e) {
		if _, isPtr := want.Underlying().(*types.Pointer); isPtr {
			return "(some " + c.atom(e, pre) + ")"
		}
	}
	v := pcP(c.atom(e, pre))
	return c.inject(v, c.info.TypeOf(e), want)
}

func (c *pcCtx) binary(x *ast.BinaryExpr) (pre []string, code string, mon bool) {
	if x.Op == token.LAND || x.Op == token.LOR {
		pa, ca, ma := c.parts(x.X)
		pb, cb, mb := c.parts(x.Y)
		if len(pa) == 0 && len(pb) == 0 && !ma && !mb {
			op := "&&"
			if x.Op == token.LOR {
				op = "||"
			}
			return nil, "(" + ca + " " + op + " " + cb + ")", false
		}
		pre = pa
		if ma {
			t := c.tmp()
			pre = append(pre, "let "+t+" ← "+ca)
			ca = t
		}
		if !mb {
			cb = "pure " + pcP(cb)
		}
		right := pgDo(pb, cb)
		if x.Op == token.LAND {
			return pre, "(if " + ca + " then " + right + " else pure false)", true
		}
		return pre, "(if " + ca + " then pure true else " + right + ")", true
	}
	tx, ty := c.info.TypeOf(x.X), c.info.TypeOf(x.Y)
	if x.Op == token.EQL || x.Op == token.NEQ {
		for _, p := range [][2]ast.Expr{{x.X, x.Y}, {x.Y, x.X}} {
			if c.info.Types[p[1]].IsNil() {
				a := c.atom(p[0], &pre)
				lt := c.typ(c.info.TypeOf(p[0]))
				var r string
				switch {
				case lt == "Node" || lt == "Err" || lt == "Cause" || lt == "Parser" || strings.HasPrefix(lt, "(Map ") || lt == "Interp" || lt == "Value":
					r = a + ".isNil"
				case strings.HasPrefix(lt, "(Option "):
					r = a + ".isNone"
				default:
					pgFail("comparison %s with nil", norm(x))
				}
				if x.Op == token.NEQ {
					r = "(!" + r + ")"
				}
				return pre, r, false
			}
		}
		// interface value == value of a concrete node type
		for _, p := range [][2]ast.Expr{{x.X, x.Y}, {x.Y, x.X}} {
			ti, tc := c.info.TypeOf(p[0]), c.info.TypeOf(p[1])
			if types.IsInterface(ti) && !types.IsInterface(tc) {
				if lt, _ := c.g.leanType(ti); lt == "Node" && pcNamedPath(tc) == "ast.EmptyNode" {
					a := c.atom(p[0], &pre)
					b := c.atom(p[1], &pre)
					r := "Node.eqEmptyNode " + a + " " + pcP(b)
					if x.Op == token.NEQ {
						r = "(!(" + r + "))"
					}
					return pre, r, false
				}
				pgFail("comparison %s of an interface value", norm(x))
			}
		}
	}
	a := c.atom(x.X, &pre)
	b := c.atom(x.Y, &pre)
	switch x.Op {
	case token.EQL, token.NEQ, token.LSS, token.LEQ, token.GTR, token.GEQ:
		if pgIsBool(tx) && pgIsBool(ty) && (x.Op == token.EQL || x.Op == token.NEQ) {
			if x.Op == token.EQL {
				return pre, "(" + a + " == " + b + ")", false
			}
			return pre, "(" + a + " != " + b + ")", false
		}
		if pgIsString(tx) && pgIsString(ty) && (x.Op == token.EQL || x.Op == token.NEQ) {
			if x.Op == token.EQL {
				return pre, "decide (" + a + " = " + b + ")", false
			}
			return pre, "decide (" + a + " ≠ " + b + ")", false
		}
		if !pgIsInt(tx) || !pgIsInt(ty) {
			pgFail("comparison %s of non-integers", norm(x))
		}
		op := map[token.Token]string{token.EQL: "=", token.NEQ: "≠", token.LSS: "<", token.LEQ: "≤", token.GTR: ">", token.GEQ: "≥"}[x.Op]
		return pre, "decide (" + a + " " + op + " " + b + ")", false
	case token.ADD, token.SUB, token.MUL:
		if !pgIsInt(tx) || !pgIsInt(ty) {
			pgFail("arithmetic %s on non-integers", norm(x))
		}
		op := map[token.Token]string{token.ADD: "+", token.SUB: "-", token.MUL: "*"}[x.Op]
		return pre, "(" + a + " " + op + " " + b + ")", false
	case token.REM, token.QUO:
		if !pgIsInt(tx) || !pgIsInt(ty) {
			pgFail("arithmetic %s on non-integers", norm(x))
		}
		// Go's / and % truncate towards zero; a zero divisor is a run-time panic
		t := c.tmp()
		f := map[token.Token]string{token.REM: "Int.tmod", token.QUO: "Int.tdiv"}[x.Op]
		pre = append(pre, "let "+t+" ← (if decide ("+b+" = 0) then Go.panic else pure ("+f+" "+pcP(a)+" "+pcP(b)+"))")
		return pre, t, false
	}
	pgFail("operator %s is outside the subset", x.Op)
	return
}

func (c *pcCtx) composite(x *ast.CompositeLit) (pre []string, code string, mon bool) {
	t := c.info.TypeOf(x)
	if n, s := pgStructOf(t); n != nil {
		given := map[string]string{}
		for i, el := range x.Elts {
			if kv, ok := el.(*ast.KeyValueExpr); ok {
				name := kv.Key.(*ast.Ident).Name
				var ft types.Type
				for j := 0; j < s.NumFields(); j++ {
					if s.Field(j).Name() == name {
						ft = s.Field(j).Type()
					}
				}
				given[name] = c.arg(kv.Value, ft, &pre)
			} else {
				given[s.Field(i).Name()] = c.arg(el, s.Field(i).Type(), &pre)
			}
		}
		return pre, c.structLit(n, s, given), false
	}
	if sl, ok := t.Underlying().(*types.Slice); ok {
		c.typ(t)
		var vs []string
		for _, el := range x.Elts {
			if _, ok := el.(*ast.KeyValueExpr); ok {
				pgFail("keyed slice literal")
			}
			vs = append(vs, c.arg(el, sl.Elem(), &pre))
		}
		return pre, "[" + strings.Join(vs, ", ") + "]", false
	}
	pgFail("composite literal %s is outside the subset", norm(x))
	return
}

// a function literal that assigns no captured variable: a Lean lambda
func (c *pcCtx) closure(x *ast.FuncLit) string {
	sig := c.info.TypeOf(x).(*types.Signature)
	for _, o := range pgAssigned(c.info, x.Body) {
		if !(x.Pos() <= o.Pos() && o.Pos() < x.End()) && !c.boxed[o] {
			pgFail("the function literal assigns the captured variable %s", o.Name())
		}
	}
	sub := *c
	sub.loops, sub.inSwch, sub.resT = nil, 0, sig.Results()
	sub.helperK = nil
	sub.ret = func(vals []string) pgNode {
		if len(vals) != sig.Results().Len() {
			pgFail("naked return in a function literal")
		}
		return &pgTerm{pgTuple(vals, "pure ")}
	}
	sub.retRaw = func(v string) pgNode { return &pgTerm{"pure " + v} }
	hdr := "fun"
	for _, f := range x.Type.Params.List {
		for _, id := range f.Names {
			o := c.info.Defs[id]
			if pcIsCtx(o.Type()) {
				sub.ctxObj[o] = true
				continue
			}
			hdr += " (" + c.name(o) + " : " + c.typ(o.Type()) + ")"
		}
		if len(f.Names) == 0 {
			pgFail("unnamed parameter of a function literal")
		}
	}
	if hdr == "fun" {
		hdr += " (_ : Unit)"
	}
	body := sub.stmts(x.Body.List, sub.ret0())
	return "(" + hdr + " => do " + pcInline(body) + ")"
}

// a function literal `func(a T) R` that assigns the captured variables vs: fun (vs) (a) => M (vs × R)
func (c *pcCtx) stateClosure(x *ast.FuncLit) (fn string, state []*types.Var) {
	sig := c.info.TypeOf(x).(*types.Signature)
	for _, o := range pgAssigned(c.info, x.Body) {
		if !(x.Pos() <= o.Pos() && o.Pos() < x.End()) {
			state = append(state, o)
		}
	}
	if len(state) == 0 || sig.Results().Len() != 1 {
		pgFail("function literal %s: not a state-passing closure of the subset", norm(x.Type))
	}
	var sn, st []string
	for _, o := range state {
		sn = append(sn, c.name(o))
		st = append(st, c.typ(o.Type()))
	}
	sub := *c
	sub.loops, sub.inSwch, sub.resT = nil, 0, sig.Results()
	sub.helperK = nil
	sub.ret = func(vals []string) pgNode {
		if len(vals) != 1 {
			pgFail("naked return in a function literal")
		}
		return &pgTerm{"pure (" + pcStateTuple(sn) + ", " + vals[0] + ")"}
	}
	hdr := "fun (" + pcStatePat(sn, st) + ")"
	for _, f := range x.Type.Params.List {
		for _, id := range f.Names {
			o := c.info.Defs[id]
			hdr += " (" + c.name(o) + " : " + c.typ(o.Type()) + ")"
		}
	}
	body := sub.stmts(x.Body.List, sub.ret0())
	if len(sn) > 1 {
		return "(fun (st_ : " + strings.Join(st, " × ") + ") => match st_ with | " + pcStateTuple(sn) + " => " + "(" + strings.Replace(hdr, "fun ("+pcStatePat(sn, st)+")", "fun", 1) + " => do " + pcInline(body) + "))", state
	}
	return "(" + hdr + " => do " + pcInline(body) + ")", state
}

func pcStateTuple(ns []string) string {
	if len(ns) == 1 {
		return ns[0]
	}
	return "(" + strings.Join(ns, ", ") + ")"
}

func pcStatePat(ns, ts []string) string {
	if len(ns) == 1 {
		return ns[0] + " : " + ts[0]
	}
	return "st_ : " + strings.Join(ts, " × ")
}

func (c *pcCtx) ret0() pgNode {
	return &pgLazy{func() pgNode { return c.ret(nil) }}
}

// ---- calls ----

func (c *pcCtx) refFn(fn *pcFn) string {
	if fn.rec && fn.scc == c.fn.scc && c.fn.rec {
		if r, ok := c.recRef[fn]; ok {
			return r
		}
	}
	if fn.fuel {
		if !c.fn.fuel {
			pgFail("%s needs fuel and %s has none to pass", fn.key, c.fn.key)
		}
		return fn.key + " W fuel"
	}
	return fn.key + " W"
}

// the arguments of a call, the ones of type *parsley.Context dropped
func (c *pcCtx) callArgs(x *ast.CallExpr, sig *types.Signature, pre *[]string) []string {
	var as []string
	if sig.Variadic() {
		n := sig.Params().Len() - 1
		for i := 0; i < n; i++ {
			if pcIsCtx(sig.Params().At(i).Type()) {
				continue
			}
			as = append(as, c.arg(x.Args[i], sig.Params().At(i).Type(), pre))
		}
		if x.Ellipsis.IsValid() {
			as = append(as, c.arg(x.Args[n], sig.Params().At(n).Type(), pre))
		} else {
			et := sig.Params().At(n).Type().(*types.Slice).Elem()
			var vs []string
			for _, a := range x.Args[n:] {
				vs = append(vs, c.arg(a, et, pre))
			}
			as = append(as, "["+strings.Join(vs, ", ")+"]")
		}
		return as
	}
	for i, a := range x.Args {
		pt := sig.Params().At(i).Type()
		if pcIsCtx(pt) {
			if !c.isCtxExpr(a) {
				pgFail("argument %s of type *parsley.Context is not the context", norm(a))
			}
			continue
		}
		as = append(as, c.arg(a, pt, pre))
	}
	return as
}

func (c *pcCtx) call(x *ast.CallExpr) (pre []string, code string, mon bool) {
	if c.info.Types[x.Fun].IsType() { // conversion
		from, to := c.info.TypeOf(x.Args[0]), c.info.TypeOf(x.Fun)
		if c.info.Types[x.Args[0]].IsNil() {
			return nil, c.zero(to), false
		}
		lf, ok1 := c.g.leanType(from)
		lt, ok2 := c.g.leanType(to)
		if ok1 && ok2 && lf == lt && !types.IsInterface(to) {
			return c.parts(x.Args[0])
		}
		if ok2 && types.IsInterface(to) {
			v := c.arg(x.Args[0], to, &pre)
			return pre, v, false
		}
		if c.g.term != nil {
			if p, code, ok := c.termConversion(x); ok {
				return p, code, false
			}
		}
		pgFail("conversion %s is outside the subset", norm(x))
	}
	var obj types.Object
	var recv ast.Expr
	var fn *pcFn
	switch f := x.Fun.(type) {
	case *ast.Ident:
		obj = c.info.Uses[f]
	case *ast.SelectorExpr:
		if sel, ok := c.info.Selections[f]; ok {
			switch sel.Kind() {
			case types.FieldVal: // a field of function type
				sig, ok := sel.Obj().Type().Underlying().(*types.Signature)
				if !ok {
					pgFail("call of the field %s", norm(f))
				}
				fv := c.atom(f, &pre)
				as := c.callArgs(x, sig, &pre)
				if len(as) == 0 {
					as = []string{"()"}
				}
				return pre, fv + " " + strings.Join(as, " "), true
			case types.MethodVal:
				obj, recv = sel.Obj(), f.X
				if types.IsInterface(sel.Recv()) {
					return c.ifaceCall(x, f, sel)
				}
			default:
				pgFail("call %s", norm(x))
			}
		} else {
			obj = c.info.Uses[f.Sel]
		}
	default:
		pgFail("call %s", norm(x))
	}
	if tf, ok := obj.(*types.Func); ok {
		fn = c.g.byObj[tf]
	}
	switch o := obj.(type) {
	case *types.Builtin:
		return c.builtin(o.Name(), x)
	case *types.Var: // a local function value
		sig, ok := o.Type().Underlying().(*types.Signature)
		if !ok {
			pgFail("call of %s", o.Name())
		}
		if c.typ(o.Type()) == "FnName" {
			as := c.callArgs(x, sig, &pre)
			return pre, c.g.tree.fnNameCall(c, c.name(o), as), true
		}
		as := c.callArgs(x, sig, &pre)
		if len(as) == 0 {
			as = []string{"()"}
		}
		return pre, c.name(o) + " " + strings.Join(as, " "), true
	case *types.Func:
		sig := o.Type().(*types.Signature)
		if fn == nil {
			if fd := c.helperOf(o); fd != nil { // an unexported helper of the same package: translated in line
				return c.inlineCall(x, o, recv, fd)
			}
			return c.externCall(x, o, recv)
		}
		if fn.lit != nil {
			// a constructor of a function value: the translated literal applied to the captured variables, which must
			// all be parameters of the constructor
			c.fn.deps = append(c.fn.deps, fn)
			var as []string
			for _, cv := range fn.captured {
				idx := -1
				for i := 0; i < sig.Params().Len(); i++ {
					if sig.Params().At(i) == cv {
						idx = i
					}
				}
				if idx < 0 || sig.Variadic() {
					pgFail("call of the constructor %s, which captures the local variable %s", fn.key, cv.Name())
				}
				as = append(as, c.arg(x.Args[idx], cv.Type(), &pre))
			}
			return pre, "(" + strings.TrimSpace(c.refFn(fn)+" "+strings.Join(as, " ")) + ")", false
		}
		if fn.inout { // the receiver is bound back, the (single) result is the value
			if sig.Results().Len() != 1 {
				pgFail("%s writes its receiver and has %d results: only supported as a statement", fn.key, sig.Results().Len())
			}
			r := c.inoutCall(x, fn, recv, nil, &pre)
			return pre, r[0], false
		}
		c.fn.deps = append(c.fn.deps, fn)
		var as []string
		if recv != nil && !fn.ctxRecv {
			r := pcP(c.atom(recv, &pre))
			if _, isPtr := c.info.TypeOf(recv).Underlying().(*types.Pointer); isPtr && !c.isOwned(recv) && c.g.tree == nil {
				if _, st := pgStructOf(c.info.TypeOf(recv)); st != nil {
					t := c.tmp()
					pre = append(pre, "let "+t+" ← Go.deref "+r)
					r = t
				}
			}
			as = append(as, r)
		}
		if recv != nil && fn.ctxRecv && !c.isCtxExpr(recv) {
			pgFail("receiver %s of %s is not the context", norm(recv), fn.key)
		}
		as = append(as, c.callArgs(x, sig, &pre)...)
		return pre, strings.TrimSpace(c.refFn(fn) + " " + strings.Join(as, " ")), true
	}
	pgFail("call %s is outside the subset", norm(x))
	return
}

// a call of an interface method: the world, or a prelude function
func (c *pcCtx) ifaceCall(x *ast.CallExpr, f *ast.SelectorExpr, sel *types.Selection) (pre []string, code string, mon bool) {
	rt, ok := c.g.leanType(sel.Recv())
	if !ok {
		pgFail("call of the interface method %s", norm(f))
	}
	sig := sel.Obj().Type().(*types.Signature)
	m := sel.Obj().Name()
	r := pcP(c.atom(f.X, &pre))
	if c.g.tree != nil {
		as := c.callArgs(x, sig, &pre)
		return pre, c.g.tree.dispatch(c, rt, sel.Recv(), m, r, as), true
	}
	switch {
	case rt == "Parser" && m == "Parse":
		as := c.callArgs(x, sig, &pre)
		return pre, "W.parse " + r + " " + strings.Join(as, " "), true
	case rt == "ReaderH" && (m == "Remaining" || m == "IsEOF" || m == "Pos"):
		as := c.callArgs(x, sig, &pre)
		return pre, "W.Reader_" + m + " " + strings.Join(as, " "), false
	case rt == "Node" && (m == "ReaderPos" || m == "Pos" || m == "Token" || m == "Children") && len(x.Args) == 0:
		return pre, "Node_" + m + " " + r, true
	case rt == "Err" && (m == "Pos" || m == "Cause") && len(x.Args) == 0:
		return pre, "Err_" + m + " " + r, true
	case strings.HasPrefix(rt, "(Option (Int → Bytes") && m == "HandleResult":
		as := c.callArgs(x, sig, &pre)
		t := c.tmp()
		pre = append(pre, "let "+t+" ← Go.deref "+r)
		return pre, t + " " + strings.Join(as, " "), true
	}
	pgFail("call of the interface method %s", norm(f))
	return
}

// functions that are not translated: the data package (value level), the prelude's constructors, the world
func (c *pcCtx) externCall(x *ast.CallExpr, o *types.Func, recv ast.Expr) (pre []string, code string, mon bool) {
	sig := o.Type().(*types.Signature)
	full := o.FullName()
	full = strings.Replace(full, "github.com/opsidian/parsley/", "", 1)
	if c.g.term != nil {
		if p, code, mon, ok := c.termExtern(x, o, recv); ok {
			return p, code, mon
		}
	}
	if c.g.tree != nil {
		switch full {
		case "parsley.Parse":
			as := c.callArgs(x, sig, &pre)
			return pre, "W.Parse " + strings.Join(as, " "), true
		case "parsley.NewError", "(*parsley.Context).UserContext", "(*parsley.FileSet).ErrorWithPosition":
		default:
			pgFail("call of %s, which is not among the translated functions", o.FullName())
		}
	}
	switch full {
	case "(data.IntSet).Union", "(data.IntMap).Get", "(data.IntMap).Inc", "(data.IntMap).Filter", "(data.IntMap).Keys":
		r := pcP(c.atom(recv, &pre))
		as := c.callArgs(x, sig, &pre)
		name := strings.NewReplacer("(data.", "Data.", ").", "_").Replace(full)
		return pre, strings.TrimSpace(name + " " + r + " " + strings.Join(as, " ")), false
	case "data.NewIntSet":
		as := c.callArgs(x, sig, &pre)
		return pre, "Data.NewIntSet " + strings.Join(as, " "), false
	case "parsley.NewError":
		as := c.callArgs(x, sig, &pre)
		return pre, "NewError " + strings.Join(as, " "), false
	case "parsley.NewErrorf":
		if len(x.Args) != 2 {
			pgFail("NewErrorf with values")
		}
		a := pcP(c.atom(x.Args[0], &pre))
		return pre, "NewErrorf " + a + " " + pcP(c.atom(x.Args[1], &pre)), false
	case "parsley.IsNotFoundError", "parsley.IsWhitespaceError":
		if lt, _ := c.g.leanType(c.info.TypeOf(x.Args[0])); lt != "Err" {
			pgFail("%s of a value that is not a parsley.Error", o.Name())
		}
		return pre, o.Name() + " " + pcP(c.atom(x.Args[0], &pre)), false
	case "ast.NewNonTerminalNode":
		as := c.callArgs(x, sig, &pre)
		return pre, "NewNonTerminalNode " + strings.Join(as, " "), true
	case "ast.NewEmptyNonTerminalNode":
		as := c.callArgs(x, sig, &pre)
		return pre, "NewEmptyNonTerminalNode " + strings.Join(as, " "), false
	case "(*text.Reader).SkipWhitespaces":
		c.atom(recv, &pre)
		as := c.callArgs(x, sig, &pre)
		return pre, "W.Reader_SkipWhitespaces " + strings.Join(as, " "), false
	case "(*parsley.FileSet).ErrorWithPosition":
		// the receiver is ctx.FileSet(): a getter, not evaluated
		if rc, ok := recv.(*ast.CallExpr); !ok || !strings.HasSuffix(norm(rc.Fun), ".FileSet") {
			pgFail("receiver %s of ErrorWithPosition", norm(recv))
		}
		if lt, _ := c.g.leanType(c.info.TypeOf(x.Args[0])); lt != "Err" {
			pgFail("ErrorWithPosition of a value that is not a parsley.Error")
		}
		return pre, "ErrorWithPosition " + pcP(c.atom(x.Args[0], &pre)), true
	case "fmt.Errorf":
		if len(x.Args) == 2 {
			if tv := c.info.Types[x.Args[0]]; tv.Value != nil && tv.Value.Kind() == constant.String {
				if lt, _ := c.g.leanType(c.info.TypeOf(x.Args[1])); lt == "Cause" {
					a := pcP(c.atom(x.Args[0], &pre))
					return pre, "Go.errorf " + a + " " + pcP(c.atom(x.Args[1], &pre)), false
				}
			}
		}
	case "parsley.Transform", "parsley.StaticCheck":
		as := c.callArgs(x, sig, &pre)
		return pre, "W." + o.Name() + " " + strings.Join(as, " "), false
	case "(*parsley.Context).UserContext":
		return nil, "Go.read (fun s_ => s_.userCtx)", true
	case "ast.SetReaderPos":
		pgFail("ast.SetReaderPos is only supported as `x = ast.SetReaderPos(x, func literal)`")
	}
	pgFail("call of %s, which is not among the translated functions", o.FullName())
	return
}

func (c *pcCtx) builtin(name string, x *ast.CallExpr) (pre []string, code string, mon bool) {
	switch name {
	case "len":
		lt := c.typ(c.info.TypeOf(x.Args[0]))
		if strings.HasPrefix(lt, "(List ") || lt == "Bytes" {
			return pre, "Go.len " + pcP(c.atom(x.Args[0], &pre)), false
		}
		if strings.HasPrefix(lt, "(Option (List ") {
			return pre, "Go.olen " + pcP(c.atom(x.Args[0], &pre)), false
		}
	case "append":
		if len(x.Args) == 2 && !x.Ellipsis.IsValid() {
			if sl, ok := c.info.TypeOf(x.Args[0]).Underlying().(*types.Slice); ok {
				c.typ(sl)
				a := pcP(c.atom(x.Args[0], &pre))
				return pre, "Go.append " + a + " " + c.arg(x.Args[1], sl.Elem(), &pre), false
			}
		}
	case "make":
		lt := c.typ(c.info.TypeOf(x.Args[0]))
		switch {
		case strings.HasPrefix(lt, "(List ") && len(x.Args) == 2:
			return pre, "Go.mkList " + pcP(c.atom(x.Args[1], &pre)), true
		case strings.HasPrefix(lt, "(Map "):
			if len(x.Args) == 2 {
				c.atom(x.Args[1], &pre)
			}
			return pre, "Go.mkMap", false
		case strings.HasPrefix(lt, "(SMap "):
			if len(x.Args) == 2 {
				c.atom(x.Args[1], &pre)
			}
			return pre, "Go.mkSMap", false
		}
	}
	pgFail("builtin call %s is outside the subset", norm(x))
	return
}
