package main

// NODE-HEAP translator (second half of -out-ast, namespace PV.FactsAstProg): the primitives of package ast that mutate node
// structs and list arrays IN PLACE — ast.SetReaderPos, NodeList.SetReaderPos, (*TerminalNode).SetReaderPos,
// (*NonTerminalNode).SetReaderPos, parser.EndNode.SetReaderPos, ast.AppendNode, (*NodeList).Append — translated statement by statement into Lean definitions over
// the run-time of lean/ParsleyVerif/Generated/SlicePrelude.lean (hand-written: node structs on a heap, a NodeList as a slice
// header into a heap of arrays of interface values, the closed set of dynamic node types).  The slice-level machine of C07
// (Model/Slice.lean) is PROVED to do what the translated functions do (Props/C07P.lean).
//
// The translation is syntax directed and small:
//   * every translated function takes a FUEL argument first; every call of a translated function and every round of a loop
//     passes on the predecessor (the functions are mutually recursive through the dynamic dispatch);
//   * a statement list is translated with a continuation (what follows); an `if` / type switch whose branches fall through
//     gets the continuation in every branch, so an early `return` needs no special treatment;
//   * `switch n := x.(type)` and `if v, ok := x.(T); ok` become a chain of tests in source order (default last): a test for a
//     concrete type is `match Node.asT x`, a test for an interface is `Node.hasKind ks x` with the list ks of the dynamic
//     types implementing it COMPUTED from the method sets;
//   * a method call on an interface value is an in-line match on the dynamic type calling the translated method of each type
//     that has it;
//   * `for i, v := range s` over a list evaluates the header once and reads s[i] in every round;
//   * p.readerPos / p.readerPos = e on a node pointer, s[i] / s[i] = e on a list, f(e) on the call-back, conversions between
//     the integer types, comparisons with nil.
//   * a method with a POINTER receiver to a list (`func (nl *NodeList) Append(…)`) is an IN-OUT function: it takes the current
//     value of `*nl` and returns the new one; `*nl` reads the variable, `*nl = e` rebinds it (Lean shadowing), a call
//     `x.Append(a)` on a local variable / on the receiver rebinds `x`.  This is sound because the pointer is used for nothing
//     else (checked: the pointer variable occurs only under `*` and as the receiver of a method call);
//   * `append(s, v)` is `Go.append` (in place when len < cap, else a fresh array by the growth policy of the store),
//     `[]parsley.Node{…}` is `Go.litSlice`; `x == v` between an interface value and a value of a comparable node type is
//     equality of interface values;
//   * a loop whose body returns, or changes a variable of the function, is a loop function in CONTINUATION style: it takes
//     the variables it (and what follows it) mentions, and its exit branch is what follows the loop in the function;
//   * a call of an unexported function / method of the package that is not a target (a helper a refactoring split off) is
//     translated IN LINE in continuation style: every `return v` of the helper goes on with what follows the call, given v
//     (an `if` on a constant result is folded), so the definitions do not depend on whether the helper was split off.
// Anything else makes the function (and with it the whole group) "untranslated", with the reason, which the tie notices.

import (
	"fmt"
	"go/ast"
	"go/importer"
	"go/token"
	"go/types"
	"sort"
	"strconv"
	"strings"
)

type paKind struct {
	ctor string // constructor of Node and of Kind
	typ  types.Type
	lean string // Lean type of a value of this static type
	as   string // the type test
	recv string // how translated methods of this type are named
}

type paTarget struct{ pkg, recv, name string }

var astProgTargets = []paTarget{
	{"ast", "", "SetReaderPos"},
	{"ast", "NodeList", "SetReaderPos"},
	{"ast", "TerminalNode", "SetReaderPos"},
	{"ast", "NonTerminalNode", "SetReaderPos"},
	{"parser", "EndNode", "SetReaderPos"},
	{"ast", "", "AppendNode"},
	{"ast", "NodeList", "Append"},
}

type paFn struct {
	key  string
	t    paTarget
	pkg  *concPkg
	decl *ast.FuncDecl
	obj  *types.Func
	text []string
	err  string
	// a method with a pointer receiver to a list: takes the value of *recv, returns the new value
	inout bool
}

type paGen struct {
	l     *concLoader
	kinds []*paKind
	fns   []*paFn
	byObj map[*types.Func]*paFn
}

type paErr struct{ msg string }

type paCtx struct {
	g      *paGen
	fn     *paFn
	info   *types.Info
	tmp    int
	loops  int
	aux    []string
	names  map[types.Object]string
	used   map[string]bool
	ret    func(val string) []string
	inLoop bool
	sig    *types.Signature    // of the function whose body is being translated (the target, or a helper in line)
	resTy  string              // Lean result type of the target
	inout  map[*types.Var]bool // pointer variables standing for the list variable they point to
	scope  []paVar             // the Lean variables bound on the path to the current statement
	inl    []*types.Func       // helpers being translated in line
}

type paVar struct{ name, ty string }

func (c *paCtx) bind(name, ty string) {
	if name == "_" {
		return
	}
	for _, v := range c.scope {
		if v.name == name {
			return
		}
	}
	c.scope = append(c.scope, paVar{name, ty})
}

// a branch: what it binds is not in scope after it
func (c *paCtx) scoped(f func() []string) []string {
	n := len(c.scope)
	out := f()
	c.scope = c.scope[:n:n]
	return out
}

func paFail(format string, a ...interface{}) { panic(paErr{fmt.Sprintf(format, a...)}) }

func paIndent(lines []string) []string {
	out := make([]string, len(lines))
	for i, l := range lines {
		out[i] = "  " + l
	}
	return out
}

var paReserved = map[string]bool{"end": true, "at": true, "from": true, "fun": true, "open": true, "match": true, "with": true, "do": true,
	"then": true, "else": true, "if": true, "let": true, "in": true, "have": true, "show": true, "by": true, "fuel": true, "def": true,
	"instance": true, "structure": true, "where": true, "Type": true, "Prop": true, "variable": true, "namespace": true, "section": true}

func (c *paCtx) name(o types.Object) string {
	if n, ok := c.names[o]; ok {
		return n
	}
	base := o.Name()
	if base == "_" || base == "" {
		base = "blank"
	}
	n := base
	for i := 2; paReserved[n] || c.used[n]; i++ {
		n = fmt.Sprintf("%s_%d", base, i)
	}
	c.used[n] = true
	c.names[o] = n
	return n
}

func (c *paCtx) fresh() string {
	for {
		c.tmp++
		n := fmt.Sprintf("t%d", c.tmp)
		if !c.used[n] {
			c.used[n] = true
			return n
		}
	}
}

// ---- types ----

func (g *paGen) kindOf(t types.Type) *paKind {
	for _, k := range g.kinds {
		if types.Identical(k.typ, t) {
			return k
		}
	}
	return nil
}

func paIsIface(t types.Type) bool {
	i, ok := t.Underlying().(*types.Interface)
	return ok && i.NumMethods() > 0
}

func paIsInt(t types.Type) bool {
	b, ok := t.Underlying().(*types.Basic)
	return ok && b.Info()&types.IsInteger != 0
}

func (g *paGen) leanType(t types.Type) string {
	if k := g.kindOf(t); k != nil {
		return k.lean
	}
	if paIsIface(t) {
		return "Node"
	}
	if paIsInt(t) {
		return "Int"
	}
	if sl, ok := t.Underlying().(*types.Slice); ok && paIsIface(sl.Elem()) {
		return "Sl" // []parsley.Node: a list header
	}
	if g.isListPtr(t) {
		return "Sl" // an in-out list variable
	}
	if b, ok := t.Underlying().(*types.Basic); ok && b.Kind() == types.Bool {
		return "Bool"
	}
	if s, ok := t.Underlying().(*types.Signature); ok && s.Params().Len() == 1 && s.Results().Len() == 1 && !s.Variadic() &&
		paIsInt(s.Params().At(0).Type()) && paIsInt(s.Results().At(0).Type()) {
		return "(Int → Int)"
	}
	paFail("a value of type %s", types.TypeString(t, func(p *types.Package) string { return p.Name() }))
	return ""
}

// *NodeList
func (g *paGen) isListPtr(t types.Type) bool {
	p, ok := t.(*types.Pointer)
	if !ok {
		return false
	}
	k := g.kindOf(p.Elem())
	return k != nil && k.lean == "Sl"
}

// a value `code` of static type `from` used where `to` is expected
func (c *paCtx) inject(code string, from, to types.Type) string {
	if from == nil || to == nil {
		return code
	}
	if b, ok := from.(*types.Basic); ok && b.Kind() == types.UntypedNil {
		if paIsIface(to) {
			return "Node.nil"
		}
		paFail("nil used as %s", to.String())
	}
	if paIsIface(to) {
		if paIsIface(from) {
			return code
		}
		if k := c.g.kindOf(from); k != nil {
			return "(Node." + k.ctor + " " + code + ")"
		}
		paFail("a value of type %s stored in an interface", from.String())
	}
	if c.g.leanType(from) != c.g.leanType(to) {
		paFail("conversion from %s to %s", from.String(), to.String())
	}
	return code
}

// the dynamic types implementing interface t
func (g *paGen) implementing(t types.Type) []*paKind {
	it, _ := t.Underlying().(*types.Interface)
	var out []*paKind
	for _, k := range g.kinds {
		if it != nil && types.Implements(k.typ, it) {
			out = append(out, k)
		}
	}
	return out
}

func paKindList(ks []*paKind) string {
	s := make([]string, len(ks))
	for i, k := range ks {
		s[i] = "Kind." + k.ctor
	}
	return "[" + strings.Join(s, ", ") + "]"
}

// ---- expressions ----

func (c *paCtx) typeOf(e ast.Expr) types.Type { return c.info.TypeOf(e) }

func paParen(e ast.Expr) ast.Expr {
	for {
		p, ok := e.(*ast.ParenExpr)
		if !ok {
			return e
		}
		e = p.X
	}
}

func paAtom(s string) string {
	if strings.ContainsAny(s, " ") && !(strings.HasPrefix(s, "(") && strings.HasSuffix(s, ")")) {
		return "(" + s + ")"
	}
	return s
}

// expr translates e; monadic parts are bound in pre
func (c *paCtx) expr(e ast.Expr, pre *[]string) string {
	e = paParen(e)
	switch x := e.(type) {
	case *ast.Ident:
		if x.Name == "nil" && c.info.Uses[x] == types.Universe.Lookup("nil") {
			return "Node.nil"
		}
		if x.Name == "true" || x.Name == "false" {
			return x.Name
		}
		o := c.info.Uses[x]
		if v, ok := o.(*types.Var); ok && !v.IsField() && v.Pkg() != nil && v.Parent() != v.Pkg().Scope() {
			if c.inout[v] {
				paFail("the pointer %s used as a value", x.Name)
			}
			return c.name(v)
		}
		paFail("identifier %s", x.Name)
	case *ast.StarExpr:
		if id, ok := paParen(x.X).(*ast.Ident); ok {
			if v, ok := c.info.Uses[id].(*types.Var); ok && c.inout[v] {
				return c.name(v)
			}
		}
		paFail("dereference %s", norm(x))
	case *ast.CompositeLit:
		if sl, ok := c.typeOf(x).Underlying().(*types.Slice); ok && paIsIface(sl.Elem()) {
			var es []string
			for _, e := range x.Elts {
				if _, kv := e.(*ast.KeyValueExpr); kv {
					paFail("slice literal with keys")
				}
				es = append(es, c.inject(c.expr(e, pre), c.typeOf(e), sl.Elem()))
			}
			t := c.fresh()
			*pre = append(*pre, fmt.Sprintf("let %s ← Go.litSlice [%s]", t, strings.Join(es, ", ")))
			return t
		}
		paFail("composite literal %s", norm(x))
	case *ast.BasicLit:
		if x.Kind == token.INT {
			return x.Value
		}
		paFail("literal %s", x.Value)
	case *ast.CallExpr:
		code, unit := c.call(x, pre)
		if unit {
			paFail("a call without a result used as a value")
		}
		return code
	case *ast.SelectorExpr:
		sel := c.info.Selections[x]
		if sel != nil && sel.Kind() == types.FieldVal {
			k := c.g.kindOf(c.typeOf(x.X))
			if k != nil && k.lean == "Nat" && sel.Obj().Name() == "readerPos" {
				r := c.expr(x.X, pre)
				t := c.fresh()
				*pre = append(*pre, fmt.Sprintf("let %s ← Go.readerPos %s", t, paAtom(r)))
				return t
			}
		}
		paFail("selector %s", norm(x))
	case *ast.IndexExpr:
		if k := c.g.kindOf(c.typeOf(x.X)); k != nil && k.lean == "Sl" {
			s := c.expr(x.X, pre)
			i := c.expr(x.Index, pre)
			t := c.fresh()
			*pre = append(*pre, fmt.Sprintf("let %s ← Go.idx %s %s", t, paAtom(s), paAtom(i)))
			return t
		}
		paFail("index expression %s", norm(x))
	case *ast.BinaryExpr:
		switch x.Op {
		case token.EQL, token.NEQ:
			lt, rt := c.typeOf(x.X), c.typeOf(x.Y)
			neg := ""
			if x.Op == token.NEQ {
				neg = "!"
			}
			isNil := func(t types.Type) bool { b, ok := t.(*types.Basic); return ok && b.Kind() == types.UntypedNil }
			if isNil(rt) && paIsIface(lt) {
				return "(" + neg + "Node.isNil " + paAtom(c.expr(x.X, pre)) + ")"
			}
			if isNil(lt) && paIsIface(rt) {
				return "(" + neg + "Node.isNil " + paAtom(c.expr(x.Y, pre)) + ")"
			}
			// an interface value against a value of a comparable node type (never a run-time panic: a list on the left has
			// another dynamic type than the right-hand side)
			cmpIface := func(ie, ke ast.Expr, kt types.Type) string {
				k := c.g.kindOf(kt)
				if k == nil || k.lean == "Sl" {
					paFail("comparison %s", norm(x))
				}
				a := c.expr(ie, pre)
				b := c.inject(c.expr(ke, pre), kt, c.typeOf(ie))
				return fmt.Sprintf("(%sdecide (%s = %s))", neg, a, b)
			}
			if paIsIface(lt) && !paIsIface(rt) && !isNil(rt) {
				return cmpIface(x.X, x.Y, rt)
			}
			if paIsIface(rt) && !paIsIface(lt) && !isNil(lt) {
				return cmpIface(x.Y, x.X, lt)
			}
			if paIsInt(lt) && paIsInt(rt) && c.g.kindOf(lt) == nil && c.g.kindOf(rt) == nil {
				op := "="
				if x.Op == token.NEQ {
					op = "≠"
				}
				return fmt.Sprintf("decide (%s %s %s)", c.expr(x.X, pre), op, c.expr(x.Y, pre))
			}
		case token.LSS, token.LEQ, token.GTR, token.GEQ:
			if paIsInt(c.typeOf(x.X)) && paIsInt(c.typeOf(x.Y)) {
				op := map[token.Token]string{token.LSS: "<", token.LEQ: "≤", token.GTR: ">", token.GEQ: "≥"}[x.Op]
				return fmt.Sprintf("decide (%s %s %s)", c.expr(x.X, pre), op, c.expr(x.Y, pre))
			}
		case token.ADD, token.SUB, token.MUL:
			if paIsInt(c.typeOf(x.X)) && paIsInt(c.typeOf(x.Y)) {
				return fmt.Sprintf("(%s %s %s)", c.expr(x.X, pre), x.Op.String(), c.expr(x.Y, pre))
			}
		}
		paFail("operation %s", norm(x))
	case *ast.UnaryExpr:
		if x.Op == token.NOT {
			return "(!" + paAtom(c.expr(x.X, pre)) + ")"
		}
		paFail("operation %s", norm(x))
	}
	paFail("expression %s", norm(e))
	return ""
}

// call translates a call; the result is the code of its value (bound in pre when monadic), or the statement (unit = true)
func (c *paCtx) call(x *ast.CallExpr, pre *[]string) (code string, unit bool) {
	// conversion
	if tv, ok := c.info.Types[x.Fun]; ok && tv.IsType() && len(x.Args) == 1 {
		from, to := c.typeOf(x.Args[0]), tv.Type
		a := c.expr(x.Args[0], pre)
		if paIsInt(from) && paIsInt(to) {
			return a, false // EmptyNode(pos), parsley.Pos(n), …: one integer
		}
		return c.inject(a, from, to), false
	}
	fun := paParen(x.Fun)
	if id, ok := fun.(*ast.Ident); ok {
		switch o := c.info.Uses[id].(type) {
		case *types.Builtin:
			switch o.Name() {
			case "len":
				if k := c.g.kindOf(c.typeOf(x.Args[0])); k != nil && k.lean == "Sl" {
					return "Go.len " + paAtom(c.expr(x.Args[0], pre)), false
				}
			case "append":
				if len(x.Args) == 2 && !x.Ellipsis.IsValid() && c.g.leanType(c.typeOf(x.Args[0])) == "Sl" {
					sl := c.expr(x.Args[0], pre)
					et := c.typeOf(x.Args[0]).Underlying().(*types.Slice).Elem()
					v := c.inject(c.expr(x.Args[1], pre), c.typeOf(x.Args[1]), et)
					t := c.fresh()
					*pre = append(*pre, fmt.Sprintf("let %s ← Go.append %s %s", t, paAtom(sl), paAtom(v)))
					return t, false
				}
			}
			paFail("builtin %s", o.Name())
		case *types.Var: // the call-back
			if c.g.leanType(o.Type()) == "(Int → Int)" {
				return "(" + c.name(o) + " " + paAtom(c.expr(x.Args[0], pre)) + ")", false
			}
		case *types.Func:
			return c.callFn(c.g.byObj[o], o, "", x.Args, pre)
		}
		paFail("call of %s", id.Name)
	}
	if se, ok := fun.(*ast.SelectorExpr); ok {
		sel := c.info.Selections[se]
		if sel == nil { // package-qualified function
			if o, ok := c.info.Uses[se.Sel].(*types.Func); ok {
				return c.callFn(c.g.byObj[o], o, "", x.Args, pre)
			}
			paFail("call of %s", norm(se))
		}
		if sel.Kind() != types.MethodVal {
			paFail("call of %s", norm(se))
		}
		m := sel.Obj().(*types.Func)
		rt := c.typeOf(se.X)
		if mr := m.Type().(*types.Signature).Recv(); mr != nil && c.g.isListPtr(mr.Type()) { // in-out method: rebinds the variable
			v := c.listVar(se.X)
			f := c.g.byObj[m]
			if v == nil {
				paFail("call of %s: the receiver is not a list variable", norm(se))
			}
			if f == nil || !f.inout {
				paFail("call of %s, which is not among the translated functions", m.FullName())
			}
			code, unit := c.callFn(f, m, c.name(v), x.Args, pre)
			if !unit {
				paFail("call of %s: a pointer-receiver method with a result", norm(se))
			}
			return "let " + c.name(v) + " ← " + code, true
		}
		var r string
		if v := c.listVar(se.X); v != nil && c.inout[v] { // (*nl).m(…) written nl.m(…)
			r, rt = c.name(v), v.Type().(*types.Pointer).Elem()
		} else {
			r = c.expr(se.X, pre)
		}
		if paIsIface(rt) { // dynamic dispatch
			var arms []string
			sig := m.Type().(*types.Signature)
			isUnit := sig.Results().Len() == 0
			for _, k := range c.g.kinds {
				ms := types.NewMethodSet(k.typ)
				s := ms.Lookup(m.Pkg(), m.Name())
				if s == nil {
					continue
				}
				cm := s.Obj().(*types.Func)
				var p []string
				cc, _ := c.callFn(c.g.byObj[cm], cm, "r'", x.Args, &p)
				if len(p) > 1 || (len(p) == 1 && isUnit) {
					paFail("argument of %s with an effect", norm(se))
				}
				if len(p) == 1 { // `let t ← CALL`: the call itself
					cc = p[0][strings.Index(p[0], "← ")+len("← "):]
					c.used[strings.Fields(p[0])[1]] = false
				}
				arms = append(arms, fmt.Sprintf("| .%s r' => %s", k.ctor, cc))
			}
			mt := "(match " + r + " with " + strings.Join(arms, " ") + " | _ => Go.noMethod)"
			if isUnit {
				return mt, true
			}
			t := c.fresh()
			*pre = append(*pre, fmt.Sprintf("let %s ← %s", t, mt))
			return t, false
		}
		if _, ptr := rt.(*types.Pointer); ptr && c.g.kindOf(rt) == nil {
			paFail("call of %s on a pointer", norm(se))
		}
		return c.callFn(c.g.byObj[m], m, r, x.Args, pre)
	}
	paFail("call %s", norm(x))
	return "", false
}

// the list variable e denotes: a local variable of list type, or an in-out pointer (possibly under `*`)
func (c *paCtx) listVar(e ast.Expr) *types.Var {
	e = paParen(e)
	if st, ok := e.(*ast.StarExpr); ok {
		if id, ok := paParen(st.X).(*ast.Ident); ok {
			if v, ok := c.info.Uses[id].(*types.Var); ok && c.inout[v] {
				return v
			}
		}
		return nil
	}
	id, ok := e.(*ast.Ident)
	if !ok {
		return nil
	}
	v, ok := c.info.Uses[id].(*types.Var)
	if !ok || v.IsField() || v.Pkg() == nil || v.Parent() == v.Pkg().Scope() {
		return nil
	}
	if c.inout[v] {
		return v
	}
	if k := c.g.kindOf(v.Type()); k != nil && k.lean == "Sl" {
		return v
	}
	return nil
}

func (c *paCtx) callFn(f *paFn, o *types.Func, recv string, args []ast.Expr, pre *[]string) (string, bool) {
	if f == nil {
		paFail("call of %s, which is not among the translated functions", o.FullName())
	}
	sig := o.Type().(*types.Signature)
	if sig.Variadic() || sig.Params().Len() != len(args) || sig.Results().Len() > 1 {
		paFail("call of %s: its signature", o.FullName())
	}
	parts := []string{f.key, "fuel"}
	if recv != "" {
		parts = append(parts, paAtom(recv))
	}
	for i, a := range args {
		parts = append(parts, paAtom(c.inject(c.expr(a, pre), c.typeOf(a), sig.Params().At(i).Type())))
	}
	callCode := strings.Join(parts, " ")
	if f.inout && sig.Results().Len() != 0 {
		paFail("call of %s: a pointer-receiver method with a result", o.FullName())
	}
	if sig.Results().Len() == 0 {
		return callCode, true
	}
	t := c.fresh()
	*pre = append(*pre, fmt.Sprintf("let %s ← %s", t, callCode))
	return t, false
}

// ---- statements ----

func (c *paCtx) stmts(list []ast.Stmt, k func() []string) []string {
	if len(list) == 0 {
		return k()
	}
	return c.stmt(list[0], func() []string { return c.stmts(list[1:], k) })
}

func (c *paCtx) typeTest(ev string, from types.Type, t ast.Expr, bind types.Object, yes, no func() []string) []string {
	var lines []string
	if t == nil { // default
		if bind != nil {
			lines = append(lines, fmt.Sprintf("let %s : %s := %s", c.name(bind), c.g.leanType(from), ev))
			c.bind(c.name(bind), c.g.leanType(from))
		}
		return append(lines, yes()...)
	}
	yesB := func(ty string) []string {
		return c.scoped(func() []string {
			if bind != nil {
				c.bind(c.name(bind), ty)
			}
			return yes()
		})
	}
	noB := func() []string { return c.scoped(no) }
	if id, ok := paParen(t).(*ast.Ident); ok && id.Name == "nil" && c.info.Uses[id] == types.Universe.Lookup("nil") {
		lines = append(lines, "if Node.isNil "+ev+" then")
		if bind != nil {
			lines = append(lines, fmt.Sprintf("  let %s : Node := %s", c.name(bind), ev))
		}
		lines = append(lines, paIndent(yesB("Node"))...)
		lines = append(lines, "else")
		return append(lines, paIndent(noB())...)
	}
	tt := c.typeOf(t)
	if paIsIface(tt) {
		lines = append(lines, fmt.Sprintf("if Node.hasKind %s %s then", paKindList(c.g.implementing(tt)), ev))
		if bind != nil {
			lines = append(lines, fmt.Sprintf("  let %s : Node := %s", c.name(bind), ev))
		}
		lines = append(lines, paIndent(yesB("Node"))...)
		lines = append(lines, "else")
		return append(lines, paIndent(noB())...)
	}
	k := c.g.kindOf(tt)
	if k == nil {
		paFail("type test for %s", norm(t))
	}
	b := "_"
	if bind != nil {
		b = c.name(bind)
	}
	lines = append(lines, fmt.Sprintf("match %s %s with", k.as, ev))
	lines = append(lines, fmt.Sprintf("| some %s =>", b))
	lines = append(lines, paIndent(yesB(k.lean))...)
	lines = append(lines, "| none =>")
	return append(lines, paIndent(noB())...)
}

func (c *paCtx) atomise(code string, ty string, lines *[]string) string {
	if !strings.ContainsAny(code, " (") {
		return code
	}
	t := c.fresh()
	*lines = append(*lines, fmt.Sprintf("let %s : %s := %s", t, ty, code))
	return t
}

func (c *paCtx) stmt(s ast.Stmt, rest func() []string) []string {
	switch x := s.(type) {
	case *ast.BlockStmt:
		return c.stmts(x.List, rest)
	case *ast.EmptyStmt:
		return rest()
	case *ast.ReturnStmt:
		sig := c.sig
		if len(x.Results) == 1 && sig.Results().Len() == 1 {
			if call, o, fd := c.helperCall(x.Results[0]); fd != nil {
				rt := sig.Results().At(0).Type()
				ht := o.Type().(*types.Signature).Results()
				return c.inlineCall(call, o, fd, func(val string) []string {
					return c.ret(c.inject(val, ht.At(0).Type(), rt))
				})
			}
		}
		if len(x.Results) == 0 {
			if sig.Results().Len() != 0 {
				paFail("a bare return of named results")
			}
			return c.ret("()")
		}
		if len(x.Results) != 1 || sig.Results().Len() != 1 {
			paFail("return of several values")
		}
		var pre []string
		v := c.inject(c.expr(x.Results[0], &pre), c.typeOf(x.Results[0]), sig.Results().At(0).Type())
		return append(pre, c.ret(v)...)
	case *ast.ExprStmt:
		call, ok := paParen(x.X).(*ast.CallExpr)
		if !ok {
			paFail("statement %s", norm(x))
		}
		if id, ok := paParen(call.Fun).(*ast.Ident); ok {
			if b, ok := c.info.Uses[id].(*types.Builtin); ok && b.Name() == "panic" {
				return []string{"Go.panic"}
			}
		}
		if hc, o, fd := c.helperCall(call); fd != nil {
			return c.inlineCall(hc, o, fd, func(string) []string { return rest() })
		}
		var pre []string
		code, unit := c.call(call, &pre)
		if unit {
			if c.inLoop && strings.HasPrefix(code, "let ") {
				paFail("%s inside a loop", norm(x))
			}
			pre = append(pre, code)
		}
		return append(pre, rest()...)
	case *ast.AssignStmt:
		if len(x.Lhs) != 1 || len(x.Rhs) != 1 || (x.Tok != token.ASSIGN && x.Tok != token.DEFINE) {
			paFail("assignment %s", norm(x))
		}
		var pre []string
		// the value goes into the Lean variable `name`: `let t ← X` as the last step becomes `let name ← X`
		setVar := func(name, ty, val string) []string {
			if n := len(pre); n > 0 && strings.HasPrefix(pre[n-1], "let "+val+" ← ") && val != name {
				pre[n-1] = "let " + name + " ← " + strings.TrimPrefix(pre[n-1], "let "+val+" ← ")
				c.used[val] = false
			} else {
				pre = append(pre, fmt.Sprintf("let %s : %s := %s", name, ty, val))
			}
			c.bind(name, ty)
			return append(pre, rest()...)
		}
		switch l := paParen(x.Lhs[0]).(type) {
		case *ast.StarExpr:
			if v := c.listVar(l); v != nil && x.Tok == token.ASSIGN {
				if c.inLoop {
					paFail("assignment %s inside a loop", norm(x))
				}
				val := c.inject(c.expr(x.Rhs[0], &pre), c.typeOf(x.Rhs[0]), v.Type().(*types.Pointer).Elem())
				return setVar(c.name(v), "Sl", val)
			}
		case *ast.Ident:
			if l.Name == "_" {
				c.expr(x.Rhs[0], &pre)
				return append(pre, rest()...)
			}
			var o types.Object
			if x.Tok == token.DEFINE {
				o = c.info.Defs[l]
			} else {
				o = c.info.Uses[l]
				if c.inLoop {
					paFail("assignment to %s inside a loop", l.Name)
				}
			}
			v, ok := o.(*types.Var)
			if !ok || v.IsField() || v.Parent() == v.Pkg().Scope() {
				paFail("assignment to %s", l.Name)
			}
			if c.inout[v] {
				paFail("assignment to the pointer %s", l.Name)
			}
			if hc, ho, fd := c.helperCall(x.Rhs[0]); fd != nil {
				ht := ho.Type().(*types.Signature).Results()
				return c.inlineCall(hc, ho, fd, func(val string) []string {
					pre = nil
					return setVar(c.name(v), c.g.leanType(v.Type()), c.inject(val, ht.At(0).Type(), v.Type()))
				})
			}
			val := c.inject(c.expr(x.Rhs[0], &pre), c.typeOf(x.Rhs[0]), v.Type())
			if c.g.leanType(v.Type()) == "Sl" {
				return setVar(c.name(v), "Sl", val)
			}
			pre = append(pre, fmt.Sprintf("let %s : %s := %s", c.name(v), c.g.leanType(v.Type()), val))
			c.bind(c.name(v), c.g.leanType(v.Type()))
			return append(pre, rest()...)
		case *ast.IndexExpr:
			if x.Tok == token.ASSIGN {
				if k := c.g.kindOf(c.typeOf(l.X)); k != nil && k.lean == "Sl" {
					sl := c.expr(l.X, &pre)
					i := c.expr(l.Index, &pre)
					et := c.typeOf(l.X).Underlying().(*types.Slice).Elem()
					val := c.inject(c.expr(x.Rhs[0], &pre), c.typeOf(x.Rhs[0]), et)
					pre = append(pre, fmt.Sprintf("Go.setIdx %s %s %s", paAtom(sl), paAtom(i), paAtom(val)))
					return append(pre, rest()...)
				}
			}
		case *ast.SelectorExpr:
			sel := c.info.Selections[l]
			if x.Tok == token.ASSIGN && sel != nil && sel.Kind() == types.FieldVal && sel.Obj().Name() == "readerPos" {
				if k := c.g.kindOf(c.typeOf(l.X)); k != nil && k.lean == "Nat" {
					p := c.expr(l.X, &pre)
					val := c.expr(x.Rhs[0], &pre)
					if !paIsInt(c.typeOf(x.Rhs[0])) {
						paFail("assignment %s", norm(x))
					}
					pre = append(pre, fmt.Sprintf("Go.setReaderPos %s %s", paAtom(p), paAtom(val)))
					return append(pre, rest()...)
				}
			}
		}
		paFail("assignment %s", norm(x))
	case *ast.IfStmt:
		if x.Init != nil {
			// if v, ok := e.(T); ok { … }
			as, ok := x.Init.(*ast.AssignStmt)
			if ok && as.Tok == token.DEFINE && len(as.Lhs) == 2 && len(as.Rhs) == 1 {
				if ta, ok := paParen(as.Rhs[0]).(*ast.TypeAssertExpr); ok && ta.Type != nil {
					okId, _ := as.Lhs[1].(*ast.Ident)
					vId, _ := as.Lhs[0].(*ast.Ident)
					cond := paParen(x.Cond)
					neg := false
					if u, ok := cond.(*ast.UnaryExpr); ok && u.Op == token.NOT {
						neg, cond = true, paParen(u.X)
					}
					cid, _ := cond.(*ast.Ident)
					if okId != nil && vId != nil && cid != nil && okId.Name != "_" && c.info.Uses[cid] == c.info.Defs[okId] {
						var lines []string
						ev := c.atomise(c.expr(ta.X, &lines), "Node", &lines)
						var bind types.Object
						if vId.Name != "_" {
							bind = c.info.Defs[vId]
						}
						yes := func() []string { return c.stmts(x.Body.List, rest) }
						no := rest
						if x.Else != nil {
							no = func() []string { return c.stmt(x.Else, rest) }
						}
						if neg {
							if bind != nil {
								paFail("a negated type test that binds a value")
							}
							yes, no = no, yes
						}
						return append(lines, c.typeTest(ev, c.typeOf(ta.X), ta.Type, bind, yes, no)...)
					}
				}
			}
			paFail("if statement with the initialisation %s", norm(x.Init))
		}
		thenB := func() []string { return c.scoped(func() []string { return c.stmts(x.Body.List, rest) }) }
		elseB := func() []string {
			return c.scoped(func() []string {
				if x.Else != nil {
					return c.stmt(x.Else, rest)
				}
				return rest()
			})
		}
		// the condition is (the negation of) a call of a helper: in line, every `return v` of the helper goes on with the
		// branch v selects
		hcond, neg := paParen(x.Cond), false
		for {
			u, ok := hcond.(*ast.UnaryExpr)
			if !ok || u.Op != token.NOT {
				break
			}
			hcond, neg = paParen(u.X), !neg
		}
		if hc, o, fd := c.helperCall(hcond); fd != nil {
			return c.inlineCall(hc, o, fd, func(val string) []string {
				yes, no := thenB, elseB
				if neg {
					yes, no = no, yes
				}
				switch val {
				case "true":
					return yes()
				case "false":
					return no()
				}
				ls := []string{"if " + val + " then"}
				ls = append(ls, paIndent(yes())...)
				ls = append(ls, "else")
				return append(ls, paIndent(no())...)
			})
		}
		var lines []string
		cond := c.expr(x.Cond, &lines)
		lines = append(lines, "if "+cond+" then")
		lines = append(lines, paIndent(thenB())...)
		lines = append(lines, "else")
		lines = append(lines, paIndent(elseB())...)
		return lines
	case *ast.TypeSwitchStmt:
		if x.Init != nil {
			paFail("type switch with an initialisation")
		}
		var subject ast.Expr
		bound := false
		switch a := x.Assign.(type) {
		case *ast.ExprStmt:
			subject = paParen(a.X).(*ast.TypeAssertExpr).X
		case *ast.AssignStmt:
			subject = paParen(a.Rhs[0]).(*ast.TypeAssertExpr).X
			bound = true
		}
		var lines []string
		ev := c.atomise(c.expr(subject, &lines), "Node", &lines)
		from := c.typeOf(subject)
		var clauses []*ast.CaseClause
		var def *ast.CaseClause
		for _, cl := range x.Body.List {
			cc := cl.(*ast.CaseClause)
			ast.Inspect(cc, func(n ast.Node) bool {
				if b, ok := n.(*ast.BranchStmt); ok {
					paFail("%s inside a type switch", b.Tok.String())
				}
				return true
			})
			if cc.List == nil {
				def = cc
			} else if len(cc.List) != 1 {
				paFail("a case with several types")
			} else {
				clauses = append(clauses, cc)
			}
		}
		var chain func(i int) []string
		chain = func(i int) []string {
			if i == len(clauses) {
				if def == nil {
					return rest()
				}
				var bind types.Object
				if bound {
					bind = c.info.Implicits[def]
				}
				return c.typeTest(ev, from, nil, bind, func() []string { return c.stmts(def.Body, rest) }, nil)
			}
			cc := clauses[i]
			var bind types.Object
			if bound {
				bind = c.info.Implicits[cc]
			}
			return c.typeTest(ev, from, cc.List[0], bind, func() []string { return c.stmts(cc.Body, rest) }, func() []string { return chain(i + 1) })
		}
		return append(lines, chain(0)...)
	case *ast.RangeStmt:
		return c.rangeLoop(x, rest)
	}
	paFail("statement %s", norm(s))
	return nil
}

// for i, v := range s { body } over a list; the body assigns no outer variable and does not return (checked)
func (c *paCtx) rangeLoop(x *ast.RangeStmt, rest func() []string) []string {
	k := c.g.kindOf(c.typeOf(x.X))
	if k == nil || k.lean != "Sl" || (x.Tok != token.DEFINE && (x.Key != nil || x.Value != nil)) {
		paFail("range over %s", norm(x.X))
	}
	if c.loopNeedsK(x) {
		return c.rangeLoopK(x, rest)
	}
	ast.Inspect(x.Body, func(n ast.Node) bool {
		switch b := n.(type) {
		case *ast.ReturnStmt:
			paFail("return inside a loop")
		case *ast.BranchStmt:
			paFail("%s inside a loop", b.Tok.String())
		case *ast.FuncLit:
			paFail("function literal")
		}
		return true
	})
	var lines []string
	// the header is evaluated once
	var hdrPre []string
	hdr := c.expr(x.X, &hdrPre)
	lines = append(lines, hdrPre...)
	// the loop function's parameters: the outer local variables the loop mentions (+ the header, unless it is one of them)
	type pv struct {
		v   *types.Var
		pos token.Pos
	}
	seen := map[*types.Var]bool{}
	var ps []pv
	ast.Inspect(x, func(n ast.Node) bool {
		if id, ok := n.(*ast.Ident); ok {
			if v, ok := c.info.Uses[id].(*types.Var); ok && !v.IsField() && v.Pkg() != nil && v.Parent() != v.Pkg().Scope() &&
				!(v.Pos() >= x.Pos() && v.Pos() < x.End()) && !seen[v] {
				seen[v] = true
				ps = append(ps, pv{v, v.Pos()})
			}
		}
		return true
	})
	sort.Slice(ps, func(i, j int) bool { return ps[i].pos < ps[j].pos })
	c.loops++
	name := fmt.Sprintf("%s_loop%d", c.fn.key, c.loops)
	var tys, pats, args []string
	hdrIsParam := false
	for _, p := range ps {
		tys = append(tys, c.g.leanType(p.v.Type()))
		pats = append(pats, c.name(p.v))
		args = append(args, c.name(p.v))
		if c.name(p.v) == hdr {
			hdrIsParam = true
		}
	}
	rng := hdr
	if !hdrIsParam {
		rng = "rng"
		for c.used[rng] {
			rng += "'"
		}
		c.used[rng] = true
		tys = append(tys, "Sl")
		pats = append(pats, rng)
		args = append(args, paAtom(hdr))
	}
	kv := "k"
	for c.used[kv] {
		kv += "'"
	}
	c.used[kv] = true
	var body []string
	nScope := len(c.scope)
	if id, ok := x.Key.(*ast.Ident); ok && id.Name != "_" {
		body = append(body, fmt.Sprintf("let %s : Int := %s", c.name(c.info.Defs[id]), kv))
		c.bind(c.name(c.info.Defs[id]), "Int")
	}
	if id, ok := x.Value.(*ast.Ident); ok && id.Name != "_" {
		body = append(body, fmt.Sprintf("let %s ← Go.idx %s %s", c.name(c.info.Defs[id]), rng, kv))
		c.bind(c.name(c.info.Defs[id]), "Node")
	}
	again := name + " fuel " + strings.Join(pats, " ") + " (" + kv + " + 1)"
	saveRet, saveIn := c.ret, c.inLoop
	c.inLoop = true
	body = append(body, c.stmts(x.Body.List, func() []string { return []string{again} })...)
	c.ret, c.inLoop = saveRet, saveIn
	c.scope = c.scope[:nScope:nScope]
	under := strings.Repeat(", _", len(pats)+1)
	def := []string{
		fmt.Sprintf("def %s : Nat → %s → Int → M Unit", name, strings.Join(tys, " → ")),
		"  | 0" + under + " => Go.outOfFuel",
		fmt.Sprintf("  | fuel + 1, %s, %s => do", strings.Join(pats, ", "), kv),
		fmt.Sprintf("    if decide (%s < Go.len %s) then", kv, rng),
	}
	for _, l := range body {
		def = append(def, "      "+l)
	}
	def = append(def, "    else", "      pure ()", "")
	c.aux = append(c.aux, def...)
	lines = append(lines, name+" fuel "+strings.Join(args, " ")+" 0")
	return append(lines, rest()...)
}

// does the loop need the continuation form: its body returns, changes a variable of the function (an assignment, a call of
// an in-out method) or calls a helper
func (c *paCtx) loopNeedsK(x *ast.RangeStmt) bool {
	need := false
	ast.Inspect(x.Body, func(n ast.Node) bool {
		switch y := n.(type) {
		case *ast.ReturnStmt:
			need = true
		case *ast.AssignStmt:
			if y.Tok == token.ASSIGN {
				for _, l := range y.Lhs {
					switch paParen(l).(type) {
					case *ast.Ident, *ast.StarExpr:
						need = true
					}
				}
			}
		case *ast.CallExpr:
			if o := calleeObj(c.info, y); o != nil {
				if r := o.Type().(*types.Signature).Recv(); r != nil && c.g.isListPtr(r.Type()) {
					need = true
				}
				if helperDecl(o, c.fn.pkg, c.g.byObj[o] != nil) != nil {
					need = true
				}
			}
		}
		return true
	})
	return need
}

const paAgain = "\x00again\x00"

func paTokens(lines []string) map[string]bool {
	out := map[string]bool{}
	for _, l := range lines {
		for _, w := range strings.FieldsFunc(l, func(r rune) bool {
			return !(r == '_' || r == '\'' || (r >= '0' && r <= '9') || (r >= 'a' && r <= 'z') || (r >= 'A' && r <= 'Z'))
		}) {
			out[w] = true
		}
	}
	return out
}

// for i, v := range s { body } in CONTINUATION style: the loop function takes the variables in scope that the loop or what
// follows it mentions, goes round with their current values, and its exit branch is what follows the loop (`rest`); a
// `return` of the body is a `return` of the function.  The header is evaluated once (a copy, when the body changes it).
func (c *paCtx) rangeLoopK(x *ast.RangeStmt, rest func() []string) []string {
	ast.Inspect(x.Body, func(n ast.Node) bool {
		switch b := n.(type) {
		case *ast.BranchStmt:
			paFail("%s inside a loop", b.Tok.String())
		case *ast.FuncLit:
			paFail("function literal")
		}
		return true
	})
	if c.inLoop {
		paFail("a loop in continuation form inside a loop")
	}
	var lines []string
	hdr := c.expr(x.X, &lines)
	// a copy of the header, unless it is a variable the body does not change
	hv := c.listVar(x.X)
	changed := hv == nil
	if hv != nil {
		ast.Inspect(x.Body, func(n ast.Node) bool {
			switch y := n.(type) {
			case *ast.AssignStmt:
				for _, l := range y.Lhs {
					if c.listVar(l) == hv {
						changed = true
					}
				}
			case *ast.CallExpr:
				if se, ok := paParen(y.Fun).(*ast.SelectorExpr); ok && c.listVar(se.X) == hv {
					if o := calleeObj(c.info, y); o != nil {
						if r := o.Type().(*types.Signature).Recv(); r != nil && c.g.isListPtr(r.Type()) {
							changed = true
						}
					}
				}
			}
			return true
		})
	}
	if changed {
		rng := "rng"
		for c.used[rng] {
			rng += "'"
		}
		c.used[rng] = true
		lines = append(lines, fmt.Sprintf("let %s : Sl := %s", rng, hdr))
		c.bind(rng, "Sl")
		hdr = rng
	}
	c.loops++
	name := fmt.Sprintf("%s_loop%d", c.fn.key, c.loops)
	kv := "k"
	for c.used[kv] {
		kv += "'"
	}
	c.used[kv] = true
	outer := append([]paVar{}, c.scope...)
	nScope := len(c.scope)
	head := []string{fmt.Sprintf("if decide (%s < Go.len %s) then", kv, hdr)}
	var body []string
	if id, ok := x.Key.(*ast.Ident); ok && id.Name != "_" {
		body = append(body, fmt.Sprintf("let %s : Int := %s", c.name(c.info.Defs[id]), kv))
		c.bind(c.name(c.info.Defs[id]), "Int")
	}
	if id, ok := x.Value.(*ast.Ident); ok && id.Name != "_" {
		body = append(body, fmt.Sprintf("let %s ← Go.idx %s %s", c.name(c.info.Defs[id]), hdr, kv))
		c.bind(c.name(c.info.Defs[id]), "Node")
	}
	body = append(body, c.stmts(x.Body.List, func() []string { return []string{paAgain} })...)
	c.scope = c.scope[:nScope:nScope]
	exit := c.scoped(rest)
	c.used[kv] = false
	// the parameters: the variables in scope that the loop function mentions
	toks := paTokens(append(append(append([]string{}, head...), body...), exit...))
	var tys, pats []string
	for _, v := range outer {
		if toks[v.name] {
			tys = append(tys, v.ty)
			pats = append(pats, v.name)
		}
	}
	again := name + " fuel " + strings.Join(pats, " ") + " (" + kv + " + 1)"
	def := []string{
		fmt.Sprintf("def %s : Nat → %s → Int → M %s", name, strings.Join(tys, " → "), c.resTy),
		"  | 0" + strings.Repeat(", _", len(pats)+1) + " => Go.outOfFuel",
		fmt.Sprintf("  | fuel + 1, %s, %s => do", strings.Join(pats, ", "), kv),
		"    " + head[0],
	}
	for _, l := range body {
		def = append(def, "      "+strings.ReplaceAll(l, paAgain, again))
	}
	def = append(def, "    else")
	for _, l := range exit {
		def = append(def, "      "+l)
	}
	def = append(def, "")
	c.aux = append(c.aux, def...)
	return append(lines, name+" fuel "+strings.Join(pats, " ")+" 0")
}

// ---- helpers in line ----

// e is a call of an unexported function / method of the package that is not translated on its own
func (c *paCtx) helperCall(e ast.Expr) (*ast.CallExpr, *types.Func, *ast.FuncDecl) {
	call, ok := paParen(e).(*ast.CallExpr)
	if !ok {
		return nil, nil, nil
	}
	o := calleeObj(c.info, call)
	if o == nil {
		return nil, nil, nil
	}
	fd := helperDecl(o, c.fn.pkg, c.g.byObj[o] != nil)
	if fd == nil {
		return nil, nil, nil
	}
	for _, f := range c.inl {
		if f == o {
			paFail("the helper %s is recursive", o.Name())
		}
	}
	return call, o, fd
}

// the variables a body assigns (or takes the address of)
func paAssignedVars(info *types.Info, body ast.Node) map[types.Object]bool {
	out := map[types.Object]bool{}
	mark := func(e ast.Expr) {
		if id, ok := paParen(e).(*ast.Ident); ok {
			if o := info.Uses[id]; o != nil {
				out[o] = true
			}
		}
	}
	ast.Inspect(body, func(n ast.Node) bool {
		switch y := n.(type) {
		case *ast.AssignStmt:
			for _, l := range y.Lhs {
				mark(l)
			}
		case *ast.IncDecStmt:
			mark(y.X)
		case *ast.UnaryExpr:
			if y.Op == token.AND {
				mark(y.X)
			}
		case *ast.RangeStmt:
			if y.Tok == token.ASSIGN {
				if y.Key != nil {
					mark(y.Key)
				}
				if y.Value != nil {
					mark(y.Value)
				}
			}
		}
		return true
	})
	return out
}

func paIsName(s string) bool {
	if s == "" || s == "true" || s == "false" {
		return false
	}
	for _, r := range s {
		if !(r == '_' || r == '\'' || (r >= '0' && r <= '9') || (r >= 'a' && r <= 'z') || (r >= 'A' && r <= 'Z')) {
			return false
		}
	}
	return !(s[0] >= '0' && s[0] <= '9')
}

// the call of the helper o (declaration fd) translated in line: the arguments are bound to the helper's parameters (a
// parameter the helper never assigns, given a variable, IS that variable), the body follows, and every `return v` of it goes
// on with k(v) — the translation of what follows the call in the caller
func (c *paCtx) inlineCall(call *ast.CallExpr, o *types.Func, fd *ast.FuncDecl, k func(val string) []string) []string {
	sig := o.Type().(*types.Signature)
	if sig.Variadic() || call.Ellipsis.IsValid() || sig.Results().Len() > 1 || sig.Params().Len() != len(call.Args) {
		paFail("helper %s: its signature", o.Name())
	}
	if sig.Results().Len() == 1 && sig.Results().At(0).Name() != "" {
		paFail("helper %s: named result", o.Name())
	}
	ast.Inspect(fd.Body, func(n ast.Node) bool {
		if _, ok := n.(*ast.FuncLit); ok {
			paFail("helper %s: function literal", o.Name())
		}
		return true
	})
	var lines []string
	assigned := paAssignedVars(c.info, fd.Body)
	bindParam := func(p *types.Var, code string) {
		if p.Name() == "" || p.Name() == "_" {
			return
		}
		delete(c.names, p)
		if !assigned[p] && paIsName(code) {
			c.names[p] = code
			return
		}
		ty := c.g.leanType(p.Type())
		lines = append(lines, fmt.Sprintf("let %s : %s := %s", c.name(p), ty, code))
		c.bind(c.name(p), ty)
	}
	if r := sig.Recv(); r != nil {
		se, ok := paParen(call.Fun).(*ast.SelectorExpr)
		if !ok {
			paFail("helper %s: method value", o.Name())
		}
		if c.g.isListPtr(r.Type()) { // the helper works on the caller's list variable
			v := c.listVar(se.X)
			if v == nil {
				paFail("helper %s: the receiver is not a list variable", o.Name())
			}
			delete(c.names, r)
			c.names[r] = c.name(v)
			c.inout[r] = true
		} else if v := c.listVar(se.X); v != nil && c.inout[v] {
			bindParam(r, c.name(v))
		} else {
			bindParam(r, c.expr(se.X, &lines))
		}
	}
	for i, a := range call.Args {
		p := sig.Params().At(i)
		bindParam(p, c.inject(c.expr(a, &lines), c.typeOf(a), p.Type()))
	}
	saveRet, saveSig, saveInl := c.ret, c.sig, c.inl
	c.inl = append(append([]*types.Func{}, c.inl...), o)
	c.sig = sig
	c.ret = func(val string) []string {
		r, s, in := c.ret, c.sig, c.inl
		c.ret, c.sig, c.inl = saveRet, saveSig, saveInl
		out := k(val)
		c.ret, c.sig, c.inl = r, s, in
		return out
	}
	body := c.stmts(fd.Body.List, func() []string {
		if sig.Results().Len() != 0 {
			paFail("helper %s: the end of its body can be reached without a return", o.Name())
		}
		return c.ret("()")
	})
	c.ret, c.sig, c.inl = saveRet, saveSig, saveInl
	return append(lines, body...)
}

// ---- functions ----

func (g *paGen) translate(f *paFn) {
	defer func() {
		if r := recover(); r != nil {
			if e, ok := r.(paErr); ok {
				f.err = e.msg
				f.text = nil
				return
			}
			panic(r)
		}
	}()
	c := &paCtx{g: g, fn: f, info: f.pkg.info, names: map[types.Object]string{}, used: map[string]bool{}, inout: map[*types.Var]bool{}}
	sig := f.obj.Type().(*types.Signature)
	c.sig = sig
	var tys, pats []string
	add := func(v *types.Var, t types.Type) {
		tys = append(tys, g.leanType(t))
		if v.Name() == "" || v.Name() == "_" {
			pats = append(pats, "_")
		} else {
			pats = append(pats, c.name(v))
			c.bind(c.name(v), g.leanType(t))
		}
	}
	if r := sig.Recv(); r != nil {
		if f.inout {
			if r.Name() == "" || r.Name() == "_" {
				paFail("a pointer receiver without a name")
			}
			c.inout[r] = true
		} else if g.kindOf(r.Type()) == nil {
			paFail("receiver of type %s", r.Type().String())
		}
		add(r, r.Type())
	}
	for i := 0; i < sig.Params().Len(); i++ {
		add(sig.Params().At(i), sig.Params().At(i).Type())
	}
	res := "Unit"
	if sig.Results().Len() == 1 {
		if sig.Results().At(0).Name() != "" {
			paFail("named result")
		}
		res = g.leanType(sig.Results().At(0).Type())
	} else if sig.Results().Len() > 1 {
		paFail("several results")
	}
	if f.inout {
		if res != "Unit" {
			paFail("a pointer-receiver method with a result")
		}
		res = "Sl" // the new value of the variable the receiver points to
		recv := sig.Recv()
		c.resTy = res
		c.ret = func(string) []string { return []string{"pure " + c.name(recv)} }
		body := c.stmts(f.decl.Body.List, func() []string { return c.ret("()") })
		f.text = append(c.aux, paDef(f, tys, pats, res, body)...)
		return
	}
	c.resTy = res
	c.ret = func(v string) []string { return []string{"pure " + paAtom(v)} }
	end := func() []string {
		if res != "Unit" {
			paFail("the end of the body can be reached without a return")
		}
		return []string{"pure ()"}
	}
	body := c.stmts(f.decl.Body.List, end)
	f.text = append(c.aux, paDef(f, tys, pats, res, body)...)
}

func paDef(f *paFn, tys, pats []string, res string, body []string) []string {
	def := []string{
		fmt.Sprintf("/-- %s -/", f.obj.FullName()),
		fmt.Sprintf("def %s : Nat → %s → M %s", f.key, strings.Join(tys, " → "), res),
		"  | 0" + strings.Repeat(", _", len(pats)) + " => Go.outOfFuel",
		fmt.Sprintf("  | fuel + 1, %s => do", strings.Join(pats, ", ")),
	}
	for _, l := range body {
		def = append(def, "    "+l)
	}
	return append(def, "")
}

func paFindDecl(p *concPkg, recv, name string) *ast.FuncDecl {
	for _, file := range p.files {
		for _, d := range file.Decls {
			fd, ok := d.(*ast.FuncDecl)
			if !ok || fd.Name.Name != name || fd.Body == nil {
				continue
			}
			r := ""
			if fd.Recv != nil && len(fd.Recv.List) == 1 {
				t := fd.Recv.List[0].Type
				if s, ok := t.(*ast.StarExpr); ok {
					t = s.X
				}
				if id, ok := t.(*ast.Ident); ok {
					r = id.Name
				}
			}
			if r == recv {
				return fd
			}
		}
	}
	return nil
}

// astProgSection: the text of namespace PV.FactsAstProg
func astProgSection() string {
	g := &paGen{byObj: map[*types.Func]*paFn{}}
	l := &concLoader{fset: fset, module: readModulePath(repo), root: repo, pkgs: map[string]*concPkg{}, loading: map[string]bool{}}
	l.std = importer.ForCompiler(fset, "source", nil)
	g.l = l
	var bad []string
	lookup := func(pkg, name string) types.Type {
		p, err := l.load(l.module + "/" + pkg)
		if err != nil || p.tpkg == nil {
			return nil
		}
		o := p.tpkg.Scope().Lookup(name)
		if o == nil {
			return nil
		}
		return o.Type()
	}
	for _, k := range []struct {
		ctor, pkg, name string
		ptr             bool
		lean, as        string
	}{
		{"term", "ast", "TerminalNode", true, "Nat", "Node.asTerm"},
		{"nonterm", "ast", "NonTerminalNode", true, "Nat", "Node.asNonterm"},
		{"empty", "ast", "EmptyNode", false, "Int", "Node.asEmpty"},
		{"eof", "parser", "EndNode", false, "Int", "Node.asEof"},
		{"list", "ast", "NodeList", false, "Sl", "Node.asList"},
	} {
		t := lookup(k.pkg, k.name)
		if t == nil {
			bad = append(bad, fmt.Sprintf("type %s.%s not found", k.pkg, k.name))
			continue
		}
		ok := false
		switch k.lean {
		case "Nat":
			_, ok = t.Underlying().(*types.Struct)
		case "Int":
			ok = paIsInt(t)
		case "Sl":
			var s *types.Slice
			s, ok = t.Underlying().(*types.Slice)
			ok = ok && paIsIface(s.Elem())
		}
		if !ok {
			bad = append(bad, fmt.Sprintf("type %s.%s is not what the run-time represents it as", k.pkg, k.name))
			continue
		}
		if k.ptr {
			t = types.NewPointer(t)
		}
		g.kinds = append(g.kinds, &paKind{ctor: k.ctor, typ: t, lean: k.lean, as: k.as, recv: k.name})
	}
	for _, t := range astProgTargets {
		key := t.name
		if t.recv != "" {
			key = t.recv + "_" + t.name
		}
		f := &paFn{key: key, t: t}
		g.fns = append(g.fns, f)
		p, err := l.load(l.module + "/" + t.pkg)
		if err != nil || p.tpkg == nil {
			f.err = "package " + t.pkg + " does not load"
			continue
		}
		f.pkg = p
		f.decl = paFindDecl(p, t.recv, t.name)
		if f.decl == nil {
			f.err = "not found in the source"
			continue
		}
		f.obj, _ = p.info.Defs[f.decl.Name].(*types.Func)
		if f.obj == nil {
			f.err = "no type information"
			continue
		}
		g.byObj[f.obj] = f
		if r := f.obj.Type().(*types.Signature).Recv(); r != nil && g.kindOf(r.Type()) == nil {
			if p, ok := r.Type().(*types.Pointer); ok {
				if k := g.kindOf(p.Elem()); k != nil && k.lean == "Sl" {
					f.inout = true
				}
			}
		}
	}
	okAll := len(bad) == 0
	for _, f := range g.fns {
		if f.err == "" {
			g.translate(f)
		}
		if f.err != "" {
			okAll = false
			bad = append(bad, f.key+": "+f.err)
		}
	}
	var sb strings.Builder
	sb.WriteString("/- TRANSLATED (harness/cmd/factgen/progast.go): the in-place primitives, statement by statement, over the run-time of\n   Generated/SlicePrelude.lean; tied to the slice machine in Props/C07P.lean -/\nnamespace PV.FactsAstProg\nopen PV.SlicePrelude\nset_option linter.unusedVariables false\n\n")
	var names []string
	if okAll {
		sb.WriteString("mutual\n")
		for _, f := range g.fns {
			sb.WriteString(strings.Join(f.text, "\n"))
			sb.WriteString("\n")
			names = append(names, strconv.Quote(f.key))
		}
		sb.WriteString("end\n\n")
	} else {
		for _, f := range g.fns {
			if f.err == "" {
				bad = append(bad, f.key+": a function of its group is not translated")
			}
		}
	}
	sb.WriteString("/-- the functions translated above -/\ndef translatedAst : List String := [" + strings.Join(names, ", ") + "]\n\n")
	for i := range bad {
		bad[i] = strconv.Quote(bad[i])
	}
	sb.WriteString("/-- what the translator was asked for and could not translate, with the reason -/\ndef untranslatedAst : List String := [" + strings.Join(bad, ", ") + "]\n\nend PV.FactsAstProg\n")
	return sb.String()
}
