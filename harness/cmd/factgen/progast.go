package main

// NODE-HEAP translator (second half of -out-ast, namespace PV.FactsAstProg): the primitives of package ast that mutate node
// structs and list arrays IN PLACE — ast.SetReaderPos, NodeList.SetReaderPos, (*TerminalNode).SetReaderPos,
// (*NonTerminalNode).SetReaderPos, parser.EndNode.SetReaderPos — translated statement by statement into Lean definitions over
// the run-time of lean/ParsleyVerif/Generated/SlicePrelude.lean (hand-written: node structs on a heap, a NodeList as a slice
// header into a heap of arrays of interface values, the closed set of dynamic node types).  The slice-level machine of C07
// (Model/Slice.lean) is PROVED to do what the translated functions do (Props/C07P.lean).
//
// The translation is syntax directed and small:
//   * every translated function takes a FUEL argument first; every call of a translated function and every round of a loop
//     passes on the predecessor (the functions are mutually recursive through the dynamic dispatch);
//   * a statement list is translated with a continuation (what follows); an `if` / type switch whose branches fall through
//     gets the continuation in every branch, so an early `return` needs no special treatment;
//   * `switch n := x.(type)` and `if v, ok := x.(T); ok` become a chain of tests in source order (default last): a test for a
//     concrete type is `match Node.asT x`, a test for an interface is `Node.hasKind ks x` with the list ks of the dynamic
//     types implementing it COMPUTED from the method sets;
//   * a method call on an interface value is an in-line match on the dynamic type calling the translated method of each type
//     that has it;
//   * `for i, v := range s` over a list evaluates the header once and reads s[i] in every round;
//   * p.readerPos / p.readerPos = e on a node pointer, s[i] / s[i] = e on a list, f(e) on the call-back, conversions between
//     the integer types, comparisons with nil.
// Anything else makes the function (and with it the whole group) "untranslated", with the reason, which the tie notices.

import (
	"fmt"
	"go/ast"
	"go/importer"
	"go/token"
	"go/types"
	"sort"
	"strconv"
	"strings"
)

type paKind struct {
	ctor string // constructor of Node and of Kind
	typ  types.Type
	lean string // Lean type of a value of this static type
	as   string // the type test
	recv string // how translated methods of this type are named
}

type paTarget struct{ pkg, recv, name string }

var astProgTargets = []paTarget{
	{"ast", "", "SetReaderPos"},
	{"ast", "NodeList", "SetReaderPos"},
	{"ast", "TerminalNode", "SetReaderPos"},
	{"ast", "NonTerminalNode", "SetReaderPos"},
	{"parser", "EndNode", "SetReaderPos"},
}

type paFn struct {
	key  string
	t    paTarget
	pkg  *concPkg
	decl *ast.FuncDecl
	obj  *types.Func
	text []string
	err  string
}

type paGen struct {
	l     *concLoader
	kinds []*paKind
	fns   []*paFn
	byObj map[*types.Func]*paFn
}

type paErr struct{ msg string }

type paCtx struct {
	g      *paGen
	fn     *paFn
	info   *types.Info
	tmp    int
	loops  int
	aux    []string
	names  map[types.Object]string
	used   map[string]bool
	ret    func(val string) []string
	inLoop bool
}

func paFail(format string, a ...interface{}) { panic(paErr{fmt.Sprintf(format, a...)}) }

func paIndent(lines []string) []string {
	out := make([]string, len(lines))
	for i, l := range lines {
		out[i] = "  " + l
	}
	return out
}

var paReserved = map[string]bool{"end": true, "at": true, "from": true, "fun": true, "open": true, "match": true, "with": true, "do": true,
	"then": true, "else": true, "if": true, "let": true, "in": true, "have": true, "show": true, "by": true, "fuel": true, "def": true,
	"instance": true, "structure": true, "where": true, "Type": true, "Prop": true, "variable": true, "namespace": true, "section": true}

func (c *paCtx) name(o types.Object) string {
	if n, ok := c.names[o]; ok {
		return n
	}
	base := o.Name()
	if base == "_" || base == "" {
		base = "blank"
	}
	n := base
	for i := 2; paReserved[n] || c.used[n]; i++ {
		n = fmt.Sprintf("%s_%d", base, i)
	}
	c.used[n] = true
	c.names[o] = n
	return n
}

func (c *paCtx) fresh() string {
	for {
		c.tmp++
		n := fmt.Sprintf("t%d", c.tmp)
		if !c.used[n] {
			c.used[n] = true
			return n
		}
	}
}

// ---- types ----

func (g *paGen) kindOf(t types.Type) *paKind {
	for _, k := range g.kinds {
		if types.Identical(k.typ, t) {
			return k
		}
	}
	return nil
}

func paIsIface(t types.Type) bool {
	i, ok := t.Underlying().(*types.Interface)
	return ok && i.NumMethods() > 0
}

func paIsInt(t types.Type) bool {
	b, ok := t.Underlying().(*types.Basic)
	return ok && b.Info()&types.IsInteger != 0
}

func (g *paGen) leanType(t types.Type) string {
	if k := g.kindOf(t); k != nil {
		return k.lean
	}
	if paIsIface(t) {
		return "Node"
	}
	if paIsInt(t) {
		return "Int"
	}
	if b, ok := t.Underlying().(*types.Basic); ok && b.Kind() == types.Bool {
		return "Bool"
	}
	if s, ok := t.Underlying().(*types.Signature); ok && s.Params().Len() == 1 && s.Results().Len() == 1 && !s.Variadic() &&
		paIsInt(s.Params().At(0).Type()) && paIsInt(s.Results().At(0).Type()) {
		return "(Int → Int)"
	}
	paFail("a value of type %s", types.TypeString(t, func(p *types.Package) string { return p.Name() }))
	return ""
}

// a value `code` of static type `from` used where `to` is expected
func (c *paCtx) inject(code string, from, to types.Type) string {
	if from == nil || to == nil {
		return code
	}
	if b, ok := from.(*types.Basic); ok && b.Kind() == types.UntypedNil {
		if paIsIface(to) {
			return "Node.nil"
		}
		paFail("nil used as %s", to.String())
	}
	if paIsIface(to) {
		if paIsIface(from) {
			return code
		}
		if k := c.g.kindOf(from); k != nil {
			return "(Node." + k.ctor + " " + code + ")"
		}
		paFail("a value of type %s stored in an interface", from.String())
	}
	if c.g.leanType(from) != c.g.leanType(to) {
		paFail("conversion from %s to %s", from.String(), to.String())
	}
	return code
}

// the dynamic types implementing interface t
func (g *paGen) implementing(t types.Type) []*paKind {
	it, _ := t.Underlying().(*types.Interface)
	var out []*paKind
	for _, k := range g.kinds {
		if it != nil && types.Implements(k.typ, it) {
			out = append(out, k)
		}
	}
	return out
}

func paKindList(ks []*paKind) string {
	s := make([]string, len(ks))
	for i, k := range ks {
		s[i] = "Kind." + k.ctor
	}
	return "[" + strings.Join(s, ", ") + "]"
}

// ---- expressions ----

func (c *paCtx) typeOf(e ast.Expr) types.Type { return c.info.TypeOf(e) }

func paParen(e ast.Expr) ast.Expr {
	for {
		p, ok := e.(*ast.ParenExpr)
		if !ok {
			return e
		}
		e = p.X
	}
}

func paAtom(s string) string {
	if strings.ContainsAny(s, " ") && !(strings.HasPrefix(s, "(") && strings.HasSuffix(s, ")")) {
		return "(" + s + ")"
	}
	return s
}

// expr translates e; monadic parts are bound in pre
func (c *paCtx) expr(e ast.Expr, pre *[]string) string {
	e = paParen(e)
	switch x := e.(type) {
	case *ast.Ident:
		if x.Name == "nil" && c.info.Uses[x] == types.Universe.Lookup("nil") {
			return "Node.nil"
		}
		if x.Name == "true" || x.Name == "false" {
			return x.Name
		}
		o := c.info.Uses[x]
		if v, ok := o.(*types.Var); ok && !v.IsField() && v.Pkg() != nil && v.Parent() != v.Pkg().Scope() {
			return c.name(v)
		}
		paFail("identifier %s", x.Name)
	case *ast.BasicLit:
		if x.Kind == token.INT {
			return x.Value
		}
		paFail("literal %s", x.Value)
	case *ast.CallExpr:
		code, unit := c.call(x, pre)
		if unit {
			paFail("a call without a result used as a value")
		}
		return code
	case *ast.SelectorExpr:
		sel := c.info.Selections[x]
		if sel != nil && sel.Kind() == types.FieldVal {
			k := c.g.kindOf(c.typeOf(x.X))
			if k != nil && k.lean == "Nat" && sel.Obj().Name() == "readerPos" {
				r := c.expr(x.X, pre)
				t := c.fresh()
				*pre = append(*pre, fmt.Sprintf("let %s ← Go.readerPos %s", t, paAtom(r)))
				return t
			}
		}
		paFail("selector %s", norm(x))
	case *ast.IndexExpr:
		if k := c.g.kindOf(c.typeOf(x.X)); k != nil && k.lean == "Sl" {
			s := c.expr(x.X, pre)
			i := c.expr(x.Index, pre)
			t := c.fresh()
			*pre = append(*pre, fmt.Sprintf("let %s ← Go.idx %s %s", t, paAtom(s), paAtom(i)))
			return t
		}
		paFail("index expression %s", norm(x))
	case *ast.BinaryExpr:
		switch x.Op {
		case token.EQL, token.NEQ:
			lt, rt := c.typeOf(x.X), c.typeOf(x.Y)
			neg := ""
			if x.Op == token.NEQ {
				neg = "!"
			}
			isNil := func(t types.Type) bool { b, ok := t.(*types.Basic); return ok && b.Kind() == types.UntypedNil }
			if isNil(rt) && paIsIface(lt) {
				return "(" + neg + "Node.isNil " + paAtom(c.expr(x.X, pre)) + ")"
			}
			if isNil(lt) && paIsIface(rt) {
				return "(" + neg + "Node.isNil " + paAtom(c.expr(x.Y, pre)) + ")"
			}
			if paIsInt(lt) && paIsInt(rt) && c.g.kindOf(lt) == nil && c.g.kindOf(rt) == nil {
				op := "="
				if x.Op == token.NEQ {
					op = "≠"
				}
				return fmt.Sprintf("decide (%s %s %s)", c.expr(x.X, pre), op, c.expr(x.Y, pre))
			}
		case token.LSS, token.LEQ, token.GTR, token.GEQ:
			if paIsInt(c.typeOf(x.X)) && paIsInt(c.typeOf(x.Y)) {
				op := map[token.Token]string{token.LSS: "<", token.LEQ: "≤", token.GTR: ">", token.GEQ: "≥"}[x.Op]
				return fmt.Sprintf("decide (%s %s %s)", c.expr(x.X, pre), op, c.expr(x.Y, pre))
			}
		case token.ADD, token.SUB, token.MUL:
			if paIsInt(c.typeOf(x.X)) && paIsInt(c.typeOf(x.Y)) {
				return fmt.Sprintf("(%s %s %s)", c.expr(x.X, pre), x.Op.String(), c.expr(x.Y, pre))
			}
		}
		paFail("operation %s", norm(x))
	case *ast.UnaryExpr:
		if x.Op == token.NOT {
			return "(!" + paAtom(c.expr(x.X, pre)) + ")"
		}
		paFail("operation %s", norm(x))
	}
	paFail("expression %s", norm(e))
	return ""
}

// call translates a call; the result is the code of its value (bound in pre when monadic), or the statement (unit = true)
func (c *paCtx) call(x *ast.CallExpr, pre *[]string) (code string, unit bool) {
	// conversion
	if tv, ok := c.info.Types[x.Fun]; ok && tv.IsType() && len(x.Args) == 1 {
		from, to := c.typeOf(x.Args[0]), tv.Type
		a := c.expr(x.Args[0], pre)
		if paIsInt(from) && paIsInt(to) {
			return a, false // EmptyNode(pos), parsley.Pos(n), …: one integer
		}
		return c.inject(a, from, to), false
	}
	fun := paParen(x.Fun)
	if id, ok := fun.(*ast.Ident); ok {
		switch o := c.info.Uses[id].(type) {
		case *types.Builtin:
			switch o.Name() {
			case "len":
				if k := c.g.kindOf(c.typeOf(x.Args[0])); k != nil && k.lean == "Sl" {
					return "Go.len " + paAtom(c.expr(x.Args[0], pre)), false
				}
			}
			paFail("builtin %s", o.Name())
		case *types.Var: // the call-back
			if c.g.leanType(o.Type()) == "(Int → Int)" {
				return "(" + c.name(o) + " " + paAtom(c.expr(x.Args[0], pre)) + ")", false
			}
		case *types.Func:
			return c.callFn(c.g.byObj[o], o, "", x.Args, pre)
		}
		paFail("call of %s", id.Name)
	}
	if se, ok := fun.(*ast.SelectorExpr); ok {
		sel := c.info.Selections[se]
		if sel == nil { // package-qualified function
			if o, ok := c.info.Uses[se.Sel].(*types.Func); ok {
				return c.callFn(c.g.byObj[o], o, "", x.Args, pre)
			}
			paFail("call of %s", norm(se))
		}
		if sel.Kind() != types.MethodVal {
			paFail("call of %s", norm(se))
		}
		m := sel.Obj().(*types.Func)
		rt := c.typeOf(se.X)
		r := c.expr(se.X, pre)
		if paIsIface(rt) { // dynamic dispatch
			var arms []string
			sig := m.Type().(*types.Signature)
			isUnit := sig.Results().Len() == 0
			for _, k := range c.g.kinds {
				ms := types.NewMethodSet(k.typ)
				s := ms.Lookup(m.Pkg(), m.Name())
				if s == nil {
					continue
				}
				cm := s.Obj().(*types.Func)
				var p []string
				cc, _ := c.callFn(c.g.byObj[cm], cm, "r'", x.Args, &p)
				if len(p) > 1 || (len(p) == 1 && isUnit) {
					paFail("argument of %s with an effect", norm(se))
				}
				if len(p) == 1 { // `let t ← CALL`: the call itself
					cc = p[0][strings.Index(p[0], "← ")+len("← "):]
					c.used[strings.Fields(p[0])[1]] = false
				}
				arms = append(arms, fmt.Sprintf("| .%s r' => %s", k.ctor, cc))
			}
			mt := "(match " + r + " with " + strings.Join(arms, " ") + " | _ => Go.noMethod)"
			if isUnit {
				return mt, true
			}
			t := c.fresh()
			*pre = append(*pre, fmt.Sprintf("let %s ← %s", t, mt))
			return t, false
		}
		if _, ptr := sel.Recv().(*types.Pointer); ptr && c.g.kindOf(sel.Recv()) == nil {
			paFail("call of %s on a pointer", norm(se))
		}
		return c.callFn(c.g.byObj[m], m, r, x.Args, pre)
	}
	paFail("call %s", norm(x))
	return "", false
}

func (c *paCtx) callFn(f *paFn, o *types.Func, recv string, args []ast.Expr, pre *[]string) (string, bool) {
	if f == nil {
		paFail("call of %s, which is not among the translated functions", o.FullName())
	}
	sig := o.Type().(*types.Signature)
	if sig.Variadic() || sig.Params().Len() != len(args) || sig.Results().Len() > 1 {
		paFail("call of %s: its signature", o.FullName())
	}
	parts := []string{f.key, "fuel"}
	if recv != "" {
		parts = append(parts, paAtom(recv))
	}
	for i, a := range args {
		parts = append(parts, paAtom(c.inject(c.expr(a, pre), c.typeOf(a), sig.Params().At(i).Type())))
	}
	callCode := strings.Join(parts, " ")
	if sig.Results().Len() == 0 {
		return callCode, true
	}
	t := c.fresh()
	*pre = append(*pre, fmt.Sprintf("let %s ← %s", t, callCode))
	return t, false
}

// ---- statements ----

func (c *paCtx) stmts(list []ast.Stmt, k func() []string) []string {
	if len(list) == 0 {
		return k()
	}
	return c.stmt(list[0], func() []string { return c.stmts(list[1:], k) })
}

func (c *paCtx) typeTest(ev string, from types.Type, t ast.Expr, bind types.Object, yes, no func() []string) []string {
	var lines []string
	if t == nil { // default
		if bind != nil {
			lines = append(lines, fmt.Sprintf("let %s : %s := %s", c.name(bind), c.g.leanType(from), ev))
		}
		return append(lines, yes()...)
	}
	if id, ok := paParen(t).(*ast.Ident); ok && id.Name == "nil" && c.info.Uses[id] == types.Universe.Lookup("nil") {
		lines = append(lines, "if Node.isNil "+ev+" then")
		if bind != nil {
			lines = append(lines, fmt.Sprintf("  let %s : Node := %s", c.name(bind), ev))
		}
		lines = append(lines, paIndent(yes())...)
		lines = append(lines, "else")
		return append(lines, paIndent(no())...)
	}
	tt := c.typeOf(t)
	if paIsIface(tt) {
		lines = append(lines, fmt.Sprintf("if Node.hasKind %s %s then", paKindList(c.g.implementing(tt)), ev))
		if bind != nil {
			lines = append(lines, fmt.Sprintf("  let %s : Node := %s", c.name(bind), ev))
		}
		lines = append(lines, paIndent(yes())...)
		lines = append(lines, "else")
		return append(lines, paIndent(no())...)
	}
	k := c.g.kindOf(tt)
	if k == nil {
		paFail("type test for %s", norm(t))
	}
	b := "_"
	if bind != nil {
		b = c.name(bind)
	}
	lines = append(lines, fmt.Sprintf("match %s %s with", k.as, ev))
	lines = append(lines, fmt.Sprintf("| some %s =>", b))
	lines = append(lines, paIndent(yes())...)
	lines = append(lines, "| none =>")
	return append(lines, paIndent(no())...)
}

func (c *paCtx) atomise(code string, ty string, lines *[]string) string {
	if !strings.ContainsAny(code, " (") {
		return code
	}
	t := c.fresh()
	*lines = append(*lines, fmt.Sprintf("let %s : %s := %s", t, ty, code))
	return t
}

func (c *paCtx) stmt(s ast.Stmt, rest func() []string) []string {
	switch x := s.(type) {
	case *ast.BlockStmt:
		return c.stmts(x.List, rest)
	case *ast.EmptyStmt:
		return rest()
	case *ast.ReturnStmt:
		sig := c.fn.obj.Type().(*types.Signature)
		if len(x.Results) == 0 {
			if sig.Results().Len() != 0 {
				paFail("a bare return of named results")
			}
			return c.ret("()")
		}
		if len(x.Results) != 1 || sig.Results().Len() != 1 {
			paFail("return of several values")
		}
		var pre []string
		v := c.inject(c.expr(x.Results[0], &pre), c.typeOf(x.Results[0]), sig.Results().At(0).Type())
		return append(pre, c.ret(v)...)
	case *ast.ExprStmt:
		call, ok := paParen(x.X).(*ast.CallExpr)
		if !ok {
			paFail("statement %s", norm(x))
		}
		if id, ok := paParen(call.Fun).(*ast.Ident); ok {
			if b, ok := c.info.Uses[id].(*types.Builtin); ok && b.Name() == "panic" {
				return []string{"Go.panic"}
			}
		}
		var pre []string
		code, unit := c.call(call, &pre)
		if unit {
			pre = append(pre, code)
		}
		return append(pre, rest()...)
	case *ast.AssignStmt:
		if len(x.Lhs) != 1 || len(x.Rhs) != 1 || (x.Tok != token.ASSIGN && x.Tok != token.DEFINE) {
			paFail("assignment %s", norm(x))
		}
		var pre []string
		switch l := paParen(x.Lhs[0]).(type) {
		case *ast.Ident:
			if l.Name == "_" {
				c.expr(x.Rhs[0], &pre)
				return append(pre, rest()...)
			}
			var o types.Object
			if x.Tok == token.DEFINE {
				o = c.info.Defs[l]
			} else {
				o = c.info.Uses[l]
				if c.inLoop {
					paFail("assignment to %s inside a loop", l.Name)
				}
			}
			v, ok := o.(*types.Var)
			if !ok || v.IsField() || v.Parent() == v.Pkg().Scope() {
				paFail("assignment to %s", l.Name)
			}
			val := c.inject(c.expr(x.Rhs[0], &pre), c.typeOf(x.Rhs[0]), v.Type())
			pre = append(pre, fmt.Sprintf("let %s : %s := %s", c.name(v), c.g.leanType(v.Type()), val))
			return append(pre, rest()...)
		case *ast.IndexExpr:
			if x.Tok == token.ASSIGN {
				if k := c.g.kindOf(c.typeOf(l.X)); k != nil && k.lean == "Sl" {
					sl := c.expr(l.X, &pre)
					i := c.expr(l.Index, &pre)
					et := c.typeOf(l.X).Underlying().(*types.Slice).Elem()
					val := c.inject(c.expr(x.Rhs[0], &pre), c.typeOf(x.Rhs[0]), et)
					pre = append(pre, fmt.Sprintf("Go.setIdx %s %s %s", paAtom(sl), paAtom(i), paAtom(val)))
					return append(pre, rest()...)
				}
			}
		case *ast.SelectorExpr:
			sel := c.info.Selections[l]
			if x.Tok == token.ASSIGN && sel != nil && sel.Kind() == types.FieldVal && sel.Obj().Name() == "readerPos" {
				if k := c.g.kindOf(c.typeOf(l.X)); k != nil && k.lean == "Nat" {
					p := c.expr(l.X, &pre)
					val := c.expr(x.Rhs[0], &pre)
					if !paIsInt(c.typeOf(x.Rhs[0])) {
						paFail("assignment %s", norm(x))
					}
					pre = append(pre, fmt.Sprintf("Go.setReaderPos %s %s", paAtom(p), paAtom(val)))
					return append(pre, rest()...)
				}
			}
		}
		paFail("assignment %s", norm(x))
	case *ast.IfStmt:
		if x.Init != nil {
			// if v, ok := e.(T); ok { … }
			as, ok := x.Init.(*ast.AssignStmt)
			if ok && as.Tok == token.DEFINE && len(as.Lhs) == 2 && len(as.Rhs) == 1 {
				if ta, ok := paParen(as.Rhs[0]).(*ast.TypeAssertExpr); ok && ta.Type != nil {
					okId, _ := as.Lhs[1].(*ast.Ident)
					vId, _ := as.Lhs[0].(*ast.Ident)
					cond := paParen(x.Cond)
					neg := false
					if u, ok := cond.(*ast.UnaryExpr); ok && u.Op == token.NOT {
						neg, cond = true, paParen(u.X)
					}
					cid, _ := cond.(*ast.Ident)
					if okId != nil && vId != nil && cid != nil && okId.Name != "_" && c.info.Uses[cid] == c.info.Defs[okId] {
						var lines []string
						ev := c.atomise(c.expr(ta.X, &lines), "Node", &lines)
						var bind types.Object
						if vId.Name != "_" {
							bind = c.info.Defs[vId]
						}
						yes := func() []string { return c.stmts(x.Body.List, rest) }
						no := rest
						if x.Else != nil {
							no = func() []string { return c.stmt(x.Else, rest) }
						}
						if neg {
							if bind != nil {
								paFail("a negated type test that binds a value")
							}
							yes, no = no, yes
						}
						return append(lines, c.typeTest(ev, c.typeOf(ta.X), ta.Type, bind, yes, no)...)
					}
				}
			}
			paFail("if statement with the initialisation %s", norm(x.Init))
		}
		var lines []string
		cond := c.expr(x.Cond, &lines)
		lines = append(lines, "if "+cond+" then")
		lines = append(lines, paIndent(c.stmts(x.Body.List, rest))...)
		lines = append(lines, "else")
		if x.Else != nil {
			lines = append(lines, paIndent(c.stmt(x.Else, rest))...)
		} else {
			lines = append(lines, paIndent(rest())...)
		}
		return lines
	case *ast.TypeSwitchStmt:
		if x.Init != nil {
			paFail("type switch with an initialisation")
		}
		var subject ast.Expr
		bound := false
		switch a := x.Assign.(type) {
		case *ast.ExprStmt:
			subject = paParen(a.X).(*ast.TypeAssertExpr).X
		case *ast.AssignStmt:
			subject = paParen(a.Rhs[0]).(*ast.TypeAssertExpr).X
			bound = true
		}
		var lines []string
		ev := c.atomise(c.expr(subject, &lines), "Node", &lines)
		from := c.typeOf(subject)
		var clauses []*ast.CaseClause
		var def *ast.CaseClause
		for _, cl := range x.Body.List {
			cc := cl.(*ast.CaseClause)
			ast.Inspect(cc, func(n ast.Node) bool {
				if b, ok := n.(*ast.BranchStmt); ok {
					paFail("%s inside a type switch", b.Tok.String())
				}
				return true
			})
			if cc.List == nil {
				def = cc
			} else if len(cc.List) != 1 {
				paFail("a case with several types")
			} else {
				clauses = append(clauses, cc)
			}
		}
		var chain func(i int) []string
		chain = func(i int) []string {
			if i == len(clauses) {
				if def == nil {
					return rest()
				}
				var bind types.Object
				if bound {
					bind = c.info.Implicits[def]
				}
				return c.typeTest(ev, from, nil, bind, func() []string { return c.stmts(def.Body, rest) }, nil)
			}
			cc := clauses[i]
			var bind types.Object
			if bound {
				bind = c.info.Implicits[cc]
			}
			return c.typeTest(ev, from, cc.List[0], bind, func() []string { return c.stmts(cc.Body, rest) }, func() []string { return chain(i + 1) })
		}
		return append(lines, chain(0)...)
	case *ast.RangeStmt:
		return c.rangeLoop(x, rest)
	}
	paFail("statement %s", norm(s))
	return nil
}

// for i, v := range s { body } over a list; the body assigns no outer variable and does not return (checked)
func (c *paCtx) rangeLoop(x *ast.RangeStmt, rest func() []string) []string {
	k := c.g.kindOf(c.typeOf(x.X))
	if k == nil || k.lean != "Sl" || (x.Tok != token.DEFINE && (x.Key != nil || x.Value != nil)) {
		paFail("range over %s", norm(x.X))
	}
	ast.Inspect(x.Body, func(n ast.Node) bool {
		switch b := n.(type) {
		case *ast.ReturnStmt:
			paFail("return inside a loop")
		case *ast.BranchStmt:
			paFail("%s inside a loop", b.Tok.String())
		case *ast.FuncLit:
			paFail("function literal")
		}
		return true
	})
	var lines []string
	// the header is evaluated once
	var hdrPre []string
	hdr := c.expr(x.X, &hdrPre)
	lines = append(lines, hdrPre...)
	// the loop function's parameters: the outer local variables the loop mentions (+ the header, unless it is one of them)
	type pv struct {
		v   *types.Var
		pos token.Pos
	}
	seen := map[*types.Var]bool{}
	var ps []pv
	ast.Inspect(x, func(n ast.Node) bool {
		if id, ok := n.(*ast.Ident); ok {
			if v, ok := c.info.Uses[id].(*types.Var); ok && !v.IsField() && v.Pkg() != nil && v.Parent() != v.Pkg().Scope() &&
				!(v.Pos() >= x.Pos() && v.Pos() < x.End()) && !seen[v] {
				seen[v] = true
				ps = append(ps, pv{v, v.Pos()})
			}
		}
		return true
	})
	sort.Slice(ps, func(i, j int) bool { return ps[i].pos < ps[j].pos })
	c.loops++
	name := fmt.Sprintf("%s_loop%d", c.fn.key, c.loops)
	var tys, pats, args []string
	hdrIsParam := false
	for _, p := range ps {
		tys = append(tys, c.g.leanType(p.v.Type()))
		pats = append(pats, c.name(p.v))
		args = append(args, c.name(p.v))
		if c.name(p.v) == hdr {
			hdrIsParam = true
		}
	}
	rng := hdr
	if !hdrIsParam {
		rng = "rng"
		for c.used[rng] {
			rng += "'"
		}
		c.used[rng] = true
		tys = append(tys, "Sl")
		pats = append(pats, rng)
		args = append(args, paAtom(hdr))
	}
	kv := "k"
	for c.used[kv] {
		kv += "'"
	}
	c.used[kv] = true
	var body []string
	if id, ok := x.Key.(*ast.Ident); ok && id.Name != "_" {
		body = append(body, fmt.Sprintf("let %s : Int := %s", c.name(c.info.Defs[id]), kv))
	}
	if id, ok := x.Value.(*ast.Ident); ok && id.Name != "_" {
		body = append(body, fmt.Sprintf("let %s ← Go.idx %s %s", c.name(c.info.Defs[id]), rng, kv))
	}
	again := name + " fuel " + strings.Join(pats, " ") + " (" + kv + " + 1)"
	saveRet, saveIn := c.ret, c.inLoop
	c.inLoop = true
	body = append(body, c.stmts(x.Body.List, func() []string { return []string{again} })...)
	c.ret, c.inLoop = saveRet, saveIn
	under := strings.Repeat(", _", len(pats)+1)
	def := []string{
		fmt.Sprintf("def %s : Nat → %s → Int → M Unit", name, strings.Join(tys, " → ")),
		"  | 0" + under + " => Go.outOfFuel",
		fmt.Sprintf("  | fuel + 1, %s, %s => do", strings.Join(pats, ", "), kv),
		fmt.Sprintf("    if decide (%s < Go.len %s) then", kv, rng),
	}
	for _, l := range body {
		def = append(def, "      "+l)
	}
	def = append(def, "    else", "      pure ()", "")
	c.aux = append(c.aux, def...)
	lines = append(lines, name+" fuel "+strings.Join(args, " ")+" 0")
	return append(lines, rest()...)
}

// ---- functions ----

func (g *paGen) translate(f *paFn) {
	defer func() {
		if r := recover(); r != nil {
			if e, ok := r.(paErr); ok {
				f.err = e.msg
				f.text = nil
				return
			}
			panic(r)
		}
	}()
	c := &paCtx{g: g, fn: f, info: f.pkg.info, names: map[types.Object]string{}, used: map[string]bool{}}
	sig := f.obj.Type().(*types.Signature)
	var tys, pats []string
	add := func(v *types.Var, t types.Type) {
		tys = append(tys, g.leanType(t))
		if v.Name() == "" || v.Name() == "_" {
			pats = append(pats, "_")
		} else {
			pats = append(pats, c.name(v))
		}
	}
	if r := sig.Recv(); r != nil {
		if g.kindOf(r.Type()) == nil {
			paFail("receiver of type %s", r.Type().String())
		}
		add(r, r.Type())
	}
	for i := 0; i < sig.Params().Len(); i++ {
		add(sig.Params().At(i), sig.Params().At(i).Type())
	}
	res := "Unit"
	if sig.Results().Len() == 1 {
		if sig.Results().At(0).Name() != "" {
			paFail("named result")
		}
		res = g.leanType(sig.Results().At(0).Type())
	} else if sig.Results().Len() > 1 {
		paFail("several results")
	}
	c.ret = func(v string) []string { return []string{"pure " + paAtom(v)} }
	end := func() []string {
		if res != "Unit" {
			paFail("the end of the body can be reached without a return")
		}
		return []string{"pure ()"}
	}
	body := c.stmts(f.decl.Body.List, end)
	def := []string{
		fmt.Sprintf("/-- %s -/", f.obj.FullName()),
		fmt.Sprintf("def %s : Nat → %s → M %s", f.key, strings.Join(tys, " → "), res),
		"  | 0" + strings.Repeat(", _", len(pats)) + " => Go.outOfFuel",
		fmt.Sprintf("  | fuel + 1, %s => do", strings.Join(pats, ", ")),
	}
	for _, l := range body {
		def = append(def, "    "+l)
	}
	def = append(def, "")
	f.text = append(c.aux, def...)
}

func paFindDecl(p *concPkg, recv, name string) *ast.FuncDecl {
	for _, file := range p.files {
		for _, d := range file.Decls {
			fd, ok := d.(*ast.FuncDecl)
			if !ok || fd.Name.Name != name || fd.Body == nil {
				continue
			}
			r := ""
			if fd.Recv != nil && len(fd.Recv.List) == 1 {
				t := fd.Recv.List[0].Type
				if s, ok := t.(*ast.StarExpr); ok {
					t = s.X
				}
				if id, ok := t.(*ast.Ident); ok {
					r = id.Name
				}
			}
			if r == recv {
				return fd
			}
		}
	}
	return nil
}

// astProgSection: the text of namespace PV.FactsAstProg
func astProgSection() string {
	g := &paGen{byObj: map[*types.Func]*paFn{}}
	l := &concLoader{fset: fset, module: readModulePath(repo), root: repo, pkgs: map[string]*concPkg{}, loading: map[string]bool{}}
	l.std = importer.ForCompiler(fset, "source", nil)
	g.l = l
	var bad []string
	lookup := func(pkg, name string) types.Type {
		p, err := l.load(l.module + "/" + pkg)
		if err != nil || p.tpkg == nil {
			return nil
		}
		o := p.tpkg.Scope().Lookup(name)
		if o == nil {
			return nil
		}
		return o.Type()
	}
	for _, k := range []struct {
		ctor, pkg, name string
		ptr             bool
		lean, as        string
	}{
		{"term", "ast", "TerminalNode", true, "Nat", "Node.asTerm"},
		{"nonterm", "ast", "NonTerminalNode", true, "Nat", "Node.asNonterm"},
		{"empty", "ast", "EmptyNode", false, "Int", "Node.asEmpty"},
		{"eof", "parser", "EndNode", false, "Int", "Node.asEof"},
		{"list", "ast", "NodeList", false, "Sl", "Node.asList"},
	} {
		t := lookup(k.pkg, k.name)
		if t == nil {
			bad = append(bad, fmt.Sprintf("type %s.%s not found", k.pkg, k.name))
			continue
		}
		ok := false
		switch k.lean {
		case "Nat":
			_, ok = t.Underlying().(*types.Struct)
		case "Int":
			ok = paIsInt(t)
		case "Sl":
			var s *types.Slice
			s, ok = t.Underlying().(*types.Slice)
			ok = ok && paIsIface(s.Elem())
		}
		if !ok {
			bad = append(bad, fmt.Sprintf("type %s.%s is not what the run-time represents it as", k.pkg, k.name))
			continue
		}
		if k.ptr {
			t = types.NewPointer(t)
		}
		g.kinds = append(g.kinds, &paKind{ctor: k.ctor, typ: t, lean: k.lean, as: k.as, recv: k.name})
	}
	for _, t := range astProgTargets {
		key := t.name
		if t.recv != "" {
			key = t.recv + "_" + t.name
		}
		f := &paFn{key: key, t: t}
		g.fns = append(g.fns, f)
		p, err := l.load(l.module + "/" + t.pkg)
		if err != nil || p.tpkg == nil {
			f.err = "package " + t.pkg + " does not load"
			continue
		}
		f.pkg = p
		f.decl = paFindDecl(p, t.recv, t.name)
		if f.decl == nil {
			f.err = "not found in the source"
			continue
		}
		f.obj, _ = p.info.Defs[f.decl.Name].(*types.Func)
		if f.obj == nil {
			f.err = "no type information"
			continue
		}
		g.byObj[f.obj] = f
	}
	okAll := len(bad) == 0
	for _, f := range g.fns {
		if f.err == "" {
			g.translate(f)
		}
		if f.err != "" {
			okAll = false
			bad = append(bad, f.key+": "+f.err)
		}
	}
	var sb strings.Builder
	sb.WriteString("/- TRANSLATED (harness/cmd/factgen/progast.go): the in-place primitives, statement by statement, over the run-time of\n   Generated/SlicePrelude.lean; tied to the slice machine in Props/C07P.lean -/\nnamespace PV.FactsAstProg\nopen PV.SlicePrelude\nset_option linter.unusedVariables false\n\n")
	var names []string
	if okAll {
		sb.WriteString("mutual\n")
		for _, f := range g.fns {
			sb.WriteString(strings.Join(f.text, "\n"))
			sb.WriteString("\n")
			names = append(names, strconv.Quote(f.key))
		}
		sb.WriteString("end\n\n")
	} else {
		for _, f := range g.fns {
			if f.err == "" {
				bad = append(bad, f.key+": a function of its group is not translated")
			}
		}
	}
	sb.WriteString("/-- the functions translated above -/\ndef translatedAst : List String := [" + strings.Join(names, ", ") + "]\n\n")
	for i := range bad {
		bad[i] = strconv.Quote(bad[i])
	}
	sb.WriteString("/-- what the translator was asked for and could not translate, with the reason -/\ndef untranslatedAst : List String := [" + strings.Join(bad, ", ") + "]\n\nend PV.FactsAstProg\n")
	return sb.String()
}
