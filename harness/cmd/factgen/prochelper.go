package main

// HELPERS (both statement-level translators).  A translated function may call an unexported function or method of its own
// package that is not among the targets (typically: a piece of the function that a refactoring extracted).  Such a call is
// not refused: the helper's body is translated IN LINE, at the call, as a block of the caller
//     (do let p₁ : T₁ := a₁; …; ⟨body, `return v` being `pure v`⟩)
// — the receiver and the arguments are evaluated by the caller, in Go's order, and bound to the helper's parameter names;
// loops of the helper become loop functions of the CALLER (<caller>_loopN); a helper that calls a member of the caller's
// recursive cycle is part of that cycle (the call graph looks through helpers).  Nothing new is trusted: it is the same
// statement translation, and a helper that does not fit the subset (it is recursive itself, writes its receiver, has named
// results, …) makes the caller untranslatable, with the reason.  The ties therefore see one definition per target
// whether or not a helper was split off.

import (
	"go/ast"
	"go/constant"
	"go/token"
	"go/types"
	"strings"
)

// helperDecl: the declaration of o when o is an unexported function/method with a body, declared in one of `files`
// (the package of the function being translated), and `isTarget` says it is not translated on its own
func helperDecl(o *types.Func, pkg *concPkg, isTarget bool) *ast.FuncDecl {
	if o == nil || isTarget || pkg == nil || o.Pkg() == nil || o.Pkg() != pkg.tpkg || o.Exported() {
		return nil
	}
	for _, f := range pkg.files {
		for _, d := range f.Decls {
			if fd, ok := d.(*ast.FuncDecl); ok && fd.Body != nil && pkg.info.Defs[fd.Name] == o {
				return fd
			}
		}
	}
	return nil
}

// calleeObj: the function object a call expression calls (nil for builtins, conversions, function values)
func calleeObj(info *types.Info, call *ast.CallExpr) *types.Func {
	var o types.Object
	switch f := call.Fun.(type) {
	case *ast.Ident:
		o = info.Uses[f]
	case *ast.SelectorExpr:
		if sel, ok := info.Selections[f]; ok {
			o = sel.Obj()
		} else {
			o = info.Uses[f.Sel]
		}
	}
	tf, _ := o.(*types.Func)
	return tf
}

// walkWithHelpers: ast.Inspect over n and, transitively, over the bodies of the helpers it calls
func walkWithHelpers(n ast.Node, pkg *concPkg, isTarget func(*types.Func) bool, visit func(ast.Node) bool) {
	seen := map[*types.Func]bool{}
	var walk func(n ast.Node)
	walk = func(n ast.Node) {
		ast.Inspect(n, func(m ast.Node) bool {
			if m == nil {
				return true
			}
			if !visit(m) {
				return false
			}
			if call, ok := m.(*ast.CallExpr); ok {
				if tf := calleeObj(pkg.info, call); tf != nil && !seen[tf] {
					if fd := helperDecl(tf, pkg, isTarget(tf)); fd != nil {
						seen[tf] = true
						walk(fd.Body)
					}
				}
			}
			return true
		})
	}
	walk(n)
}

// ---- parser-core / tree translator ----

func (c *pcCtx) helperOf(o *types.Func) *ast.FuncDecl {
	return helperDecl(o, c.fn.pkg, c.g.byObj[o] != nil)
}

// bindHelper: the receiver and the arguments of the call x of the helper o are evaluated (into pre) and bound to the
// helper's parameter names (binds)
func (c *pcCtx) bindHelper(x *ast.CallExpr, o *types.Func, recv ast.Expr, fd *ast.FuncDecl) (pre, binds []string) {
	if c.inlining[o] {
		pgFail("the helper %s is recursive", o.Name())
	}
	sig := o.Type().(*types.Signature)
	for i := 0; i < sig.Results().Len(); i++ {
		if sig.Results().At(i).Name() != "" {
			pgFail("helper %s: named results", o.Name())
		}
	}
	if r := sig.Recv(); r != nil {
		if recv == nil {
			pgFail("helper %s: method value", o.Name())
		}
		_, isPtr := r.Type().Underlying().(*types.Pointer)
		_, isMap := r.Type().Underlying().(*types.Map)
		if isPtr || isMap {
			for _, v := range pcAssigned(c.g, c.info, fd.Body) {
				if v == r {
					pgFail("the helper %s writes its receiver", o.Name())
				}
			}
		}
		switch {
		case pcIsCtx(r.Type()):
			if !c.isCtxExpr(recv) {
				pgFail("receiver %s of the helper %s is not the context", norm(recv), o.Name())
			}
			c.ctxObj[r] = true
		default:
			rv := pcP(c.atom(recv, &pre))
			if _, recvPtr := c.info.TypeOf(recv).Underlying().(*types.Pointer); recvPtr && !c.isOwned(recv) && !c.isHeapPtr(c.info.TypeOf(recv)) {
				if _, st := pgStructOf(c.info.TypeOf(recv)); st != nil {
					t := c.tmp()
					pre = append(pre, "let "+t+" ← Go.deref "+rv)
					rv = t
				}
			}
			if isPtr && !c.isHeapPtr(r.Type()) {
				if n, _ := pgStructOf(r.Type()); n != nil {
					c.owned[r] = true
				}
			}
			if r.Name() != "" && r.Name() != "_" {
				binds = append(binds, "let "+c.name(r)+" : "+c.varType(r)+" := "+rv)
			}
		}
	}
	as := c.callArgs(x, sig, &pre)
	k := 0
	for i := 0; i < sig.Params().Len(); i++ {
		p := sig.Params().At(i)
		if pcIsCtx(p.Type()) {
			c.ctxObj[p] = true
			continue
		}
		if k >= len(as) {
			pgFail("helper %s: argument count", o.Name())
		}
		if p.Name() != "" && p.Name() != "_" {
			binds = append(binds, "let "+c.name(p)+" : "+c.varType(p)+" := "+as[k])
		}
		k++
	}
	// local pointers initialised with &T{…} are owned struct values (as in translate)
	ast.Inspect(fd.Body, func(m ast.Node) bool {
		if as, ok := m.(*ast.AssignStmt); ok && as.Tok == token.DEFINE && len(as.Lhs) == 1 && len(as.Rhs) == 1 {
			if u, ok := as.Rhs[0].(*ast.UnaryExpr); ok && u.Op == token.AND {
				if _, ok := u.X.(*ast.CompositeLit); ok {
					if id, ok := as.Lhs[0].(*ast.Ident); ok && c.info.Defs[id] != nil {
						c.owned[c.info.Defs[id]] = true
					}
				}
			}
		}
		return true
	})
	return pre, binds
}

// inlineCall: the call x of the helper o (declaration fd), receiver expression recv (nil for a function), as a VALUE: a block
func (c *pcCtx) inlineCall(x *ast.CallExpr, o *types.Func, recv ast.Expr, fd *ast.FuncDecl) (pre []string, code string, mon bool) {
	sig := o.Type().(*types.Signature)
	resT, ok := c.g.resultType(sig, nil)
	if !ok {
		pgFail("helper %s: result type %s is outside the subset", o.Name(), types.TypeString(sig.Results(), qual))
	}
	pre, binds := c.bindHelper(x, o, recv, fd)
	sub := *c
	sub.loops, sub.inSwch, sub.resT, sub.resLean, sub.recvObj, sub.liftTop = nil, 0, sig.Results(), resT, nil, false
	sub.helperBody = fd.Body
	sub.helperK = nil
	sub.inlining = map[*types.Func]bool{o: true}
	for f := range c.inlining {
		sub.inlining[f] = true
	}
	sub.retTuple = func(vals []string) string {
		if len(vals) != sig.Results().Len() {
			pgFail("the end of the body of the helper %s is reachable but it has results", o.Name())
		}
		return pgTuple(vals, "")
	}
	subp := &sub
	sub.ret = func(vals []string) pgNode { return &pgTerm{"pure " + pcP(subp.retTuple(vals))} }
	sub.retRaw = func(v string) pgNode { return &pgTerm{"pure " + v} }
	if c.g.tree != nil {
		c.g.tree.markBoxed(subp, fd.Body)
	}
	body := subp.stmts(fd.Body.List, subp.ret0())
	code = "(do " + strings.Join(append(binds, pcInline(body)), "; ") + ")"
	return pre, code, true
}

// A helper that answers a bool, called as the whole condition of an `if` whose branches jump (`if h(…) { …; return … }`):
// translated in CONTINUATION style — every `return v` of the helper's body goes on with the branch that v selects, as if
// the helper's body stood in the place of the `if` — so that a loop of the helper that ends with `return true` becomes, as in
// the function the helper was extracted from, a loop of the caller that leaves through the caller's `return`.  It applies when
// every `return` of the helper that stands inside a loop has a constant result and the branch that constant selects cannot
// fall through (it ends with a return or a panic): a loop function can be left through a `return` of the enclosing
// function or normally, not "into the middle of the caller".  Otherwise the helper is a block (inlineCall).
func (c *pcCtx) inlineCond(x *ast.IfStmt, k pgNode) pgNode {
	if x.Init != nil {
		return nil
	}
	cond, neg := x.Cond, false
	for {
		switch e := cond.(type) {
		case *ast.ParenExpr:
			cond = e.X
			continue
		case *ast.UnaryExpr:
			if e.Op == token.NOT {
				cond, neg = e.X, !neg
				continue
			}
		}
		break
	}
	call, ok := cond.(*ast.CallExpr)
	if !ok || call.Ellipsis.IsValid() {
		return nil
	}
	o := calleeObj(c.info, call)
	if o == nil || c.inlining[o] {
		return nil
	}
	fd := c.helperOf(o)
	if fd == nil {
		return nil
	}
	sig := o.Type().(*types.Signature)
	if sig.Results().Len() != 1 || !pgIsBool(sig.Results().At(0).Type()) || sig.Results().At(0).Name() != "" {
		return nil
	}
	var recv ast.Expr
	if f, ok := call.Fun.(*ast.SelectorExpr); ok {
		if sel, ok := c.info.Selections[f]; ok && sel.Kind() == types.MethodVal {
			recv = f.X
		}
	}
	thenB := x.Body.List
	var elseB []ast.Stmt
	hasElse := x.Else != nil
	if hasElse {
		elseB = []ast.Stmt{x.Else}
	}
	if neg {
		thenB, elseB = elseB, thenB
		if !hasElse {
			thenB = nil
		}
	}
	thenJumps := (!neg || hasElse) && pcEndsInJump(thenB)
	elseJumps := (neg || hasElse) && pcEndsInJump(elseB)
	// the returns of the helper that stand inside one of its loops
	applicable := true
	var inLoop func(n ast.Node, depth int)
	inLoop = func(n ast.Node, depth int) {
		ast.Inspect(n, func(m ast.Node) bool {
			switch y := m.(type) {
			case *ast.FuncLit:
				return false
			case *ast.ForStmt:
				if m != n {
					inLoop(y.Body, depth+1)
					return false
				}
			case *ast.RangeStmt:
				if m != n {
					inLoop(y.Body, depth+1)
					return false
				}
			case *ast.ReturnStmt:
				if depth > 0 {
					if len(y.Results) != 1 {
						applicable = false
						return true
					}
					tv := c.info.Types[y.Results[0]]
					if tv.Value == nil {
						applicable = false
						return true
					}
					if constant.BoolVal(tv.Value) {
						applicable = applicable && thenJumps
					} else {
						applicable = applicable && elseJumps
					}
				}
			}
			return true
		})
	}
	inLoop(fd.Body, 0)
	if !applicable {
		return nil
	}
	pre, binds := c.bindHelper(call, o, recv, fd)
	sub := *c
	sub.liftTop = false
	sub.helperBody = fd.Body
	sub.inlining = map[*types.Func]bool{o: true}
	for f := range c.inlining {
		sub.inlining[f] = true
	}
	outerK := k
	nLoops := len(c.loops)
	sub.helperK = func(at *pcCtx, res ast.Expr) pgNode {
		// `return res` of the helper, reached in the context `at` (the helper's top level, or a loop of the helper)
		in := *at
		in.helperK = c.helperK
		in.helperBody = c.helperBody
		in.inlining = c.inlining
		inp := &in
		cont := outerK
		if len(at.loops) > nLoops { // inside a loop of the helper: the selected branch must leave by itself
			cont = &pgLazy{func() pgNode {
				pgFail("helper %s: a branch selected inside a loop of the helper falls through", o.Name())
				return nil
			}}
			in.loops = nil // (a break / continue of the caller's branch cannot cross the helper's loop)
		}
		tv := at.info.Types[res]
		if tv.Value != nil {
			if constant.BoolVal(tv.Value) {
				return inp.stmts(thenB, cont)
			}
			return inp.stmts(elseB, cont)
		}
		var p []string
		cv := at.atom(res, &p)
		return at.lets(p, &pgIf{cv, inp.stmts(thenB, cont), pgForce(inp.stmts(elseB, cont))})
	}
	if c.g.tree != nil {
		c.g.tree.markBoxed(&sub, fd.Body)
	}
	body := sub.stmts(fd.Body.List, &pgLazy{func() pgNode {
		pgFail("the end of the body of the helper %s is reachable but it has results", o.Name())
		return nil
	}})
	return c.lets(append(pre, binds...), body)
}

// does the statement list end with a return or a panic
func pcEndsInJump(list []ast.Stmt) bool {
	if len(list) == 0 {
		return false
	}
	switch s := list[len(list)-1].(type) {
	case *ast.ReturnStmt:
		return true
	case *ast.BlockStmt:
		return pcEndsInJump(s.List)
	case *ast.ExprStmt:
		if call, ok := s.X.(*ast.CallExpr); ok {
			if id, ok := call.Fun.(*ast.Ident); ok && id.Name == "panic" {
				return true
			}
		}
	case *ast.IfStmt:
		if s.Else == nil {
			return false
		}
		return pcEndsInJump(s.Body.List) && pcEndsInJump([]ast.Stmt{s.Else})
	}
	return false
}

// ---- data / text translator (progfacts.go) ----

func (c *pgCtx) helperOf(o *types.Func) *ast.FuncDecl {
	return helperDecl(o, c.fn.pkg, c.g.byObj[o] != nil)
}

func (c *pgCtx) inlineCall(x *ast.CallExpr, o *types.Func, recv ast.Expr, fd *ast.FuncDecl) (pre []string, code string, mon bool) {
	if c.inlining[o] {
		pgFail("the helper %s is recursive", o.Name())
	}
	sig := o.Type().(*types.Signature)
	if sig.Variadic() || x.Ellipsis.IsValid() {
		pgFail("helper %s: variadic", o.Name())
	}
	for i := 0; i < sig.Results().Len(); i++ {
		if sig.Results().At(i).Name() != "" {
			pgFail("helper %s: named results", o.Name())
		}
	}
	resT, ok := c.g.resultType(sig, false, nil)
	if !ok {
		pgFail("helper %s: result type %s is outside the subset", o.Name(), types.TypeString(sig.Results(), qual))
	}
	var binds []string
	// the helper's body is normalised like a function's
	for v := range c.g.normaliseBody(c.fn, fd.Body) {
		if c.loopLocal == nil {
			c.loopLocal = map[*types.Var]bool{}
		}
		c.loopLocal[v] = true
	}
	substituted, undo := c.substParams(fd, sig, recv, x.Args)
	defer undo()
	if r := sig.Recv(); r != nil {
		if recv == nil {
			pgFail("helper %s: method value", o.Name())
		}
		if _, isPtr := r.Type().(*types.Pointer); isPtr {
			for _, v := range pgAssignedG(c.g, c.info, fd.Body) {
				if v == r {
					pgFail("the helper %s writes its receiver", o.Name())
				}
			}
		}
		if !substituted[r] {
			rv := pgP(c.atom(recv, &pre))
			if r.Name() != "" && r.Name() != "_" {
				binds = append(binds, "let "+c.name(r)+" : "+c.typ(r.Type())+" := "+rv)
			}
		}
	}
	for i, a := range x.Args {
		p := sig.Params().At(i)
		if substituted[p] {
			continue
		}
		v := c.arg(a, p.Type(), &pre)
		if p.Name() != "" && p.Name() != "_" {
			binds = append(binds, "let "+c.name(p)+" : "+c.typ(p.Type())+" := "+v)
		}
	}
	sub := *c
	sub.bodies = append(append([]*ast.BlockStmt{}, c.bodies...), fd.Body)
	sub.loops, sub.inLit, sub.inSwch, sub.resT, sub.resTy, sub.label = nil, nil, 0, sig.Results(), resT, ""
	sub.helperK = nil
	sub.inlining = map[*types.Func]bool{o: true}
	for f := range c.inlining {
		sub.inlining[f] = true
	}
	sub.retRaw = func(term string) pgNode { return &pgTerm{"pure " + term} }
	subp := &sub
	sub.ret = func(vals []string) pgNode {
		if len(vals) != sig.Results().Len() {
			pgFail("the end of the body of the helper %s is reachable but it has results", o.Name())
		}
		return subp.retRaw(pgTuple(vals, ""))
	}
	subp.loopLocal = c.loopLocal
	body := subp.stmts(fd.Body.List, subp.ret0())
	code = "(do " + strings.Join(append(binds, pgInline(body)), "; ") + ")"
	return pre, code, true
}

// the same continuation-style translation as pcCtx.inlineCond, for the data / text translator (one mutable context: the
// loops swap c.retRaw while their bodies are translated, so the branches are translated by c itself)
func (c *pgCtx) inlineCond(x *ast.IfStmt, k pgNode) pgNode {
	if x.Init != nil {
		return nil
	}
	cond, neg := x.Cond, false
	for {
		switch e := cond.(type) {
		case *ast.ParenExpr:
			cond = e.X
			continue
		case *ast.UnaryExpr:
			if e.Op == token.NOT {
				cond, neg = e.X, !neg
				continue
			}
		}
		break
	}
	call, ok := cond.(*ast.CallExpr)
	if !ok || call.Ellipsis.IsValid() {
		return nil
	}
	o := calleeObj(c.info, call)
	if o == nil || c.inlining[o] {
		return nil
	}
	fd := c.helperOf(o)
	if fd == nil {
		return nil
	}
	sig := o.Type().(*types.Signature)
	if sig.Variadic() || sig.Results().Len() != 1 || !pgIsBool(sig.Results().At(0).Type()) || sig.Results().At(0).Name() != "" {
		return nil
	}
	var recv ast.Expr
	if f, ok := call.Fun.(*ast.SelectorExpr); ok {
		if sel, ok := c.info.Selections[f]; ok && sel.Kind() == types.MethodVal {
			recv = f.X
		}
	}
	thenB := x.Body.List
	var elseB []ast.Stmt
	hasElse := x.Else != nil
	if hasElse {
		elseB = []ast.Stmt{x.Else}
	}
	if neg {
		thenB, elseB = elseB, thenB
		if !hasElse {
			thenB = nil
		}
	}
	thenJumps := (!neg || hasElse) && pcEndsInJump(thenB)
	elseJumps := (neg || hasElse) && pcEndsInJump(elseB)
	if !thenJumps && !elseJumps { // no branch jumps: nothing is gained, the helper is a value
		return nil
	}
	applicable := true
	var inLoop func(n ast.Node, depth int)
	inLoop = func(n ast.Node, depth int) {
		ast.Inspect(n, func(m ast.Node) bool {
			switch y := m.(type) {
			case *ast.FuncLit:
				return false
			case *ast.ForStmt:
				if m != n {
					inLoop(y.Body, depth+1)
					return false
				}
			case *ast.RangeStmt:
				if m != n {
					inLoop(y.Body, depth+1)
					return false
				}
			case *ast.ReturnStmt:
				if depth > 0 {
					if len(y.Results) != 1 || c.info.Types[y.Results[0]].Value == nil {
						applicable = false
						return true
					}
					if constant.BoolVal(c.info.Types[y.Results[0]].Value) {
						applicable = applicable && thenJumps
					} else {
						applicable = applicable && elseJumps
					}
				}
			}
			return true
		})
	}
	inLoop(fd.Body, 0)
	if !applicable {
		return nil
	}
	// receiver and arguments: written for the parameters where they are stable expressions, else bound to the parameter names
	var pre []string
	if sig.Recv() != nil && recv == nil {
		return nil
	}
	for v := range c.g.normaliseBody(c.fn, fd.Body) {
		if c.loopLocal == nil {
			c.loopLocal = map[*types.Var]bool{}
		}
		c.loopLocal[v] = true
	}
	substituted, undo := c.substParams(fd, sig, recv, call.Args)
	defer undo()
	if r := sig.Recv(); r != nil {
		if _, isPtr := r.Type().(*types.Pointer); isPtr {
			for _, v := range pgAssignedG(c.g, c.info, fd.Body) {
				if v == r {
					pgFail("the helper %s writes its receiver", o.Name())
				}
			}
		}
		if !substituted[r] {
			rv := pgP(c.atom(recv, &pre))
			if r.Name() != "" && r.Name() != "_" {
				pre = append(pre, "let "+c.name(r)+" : "+c.typ(r.Type())+" := "+rv)
			}
		}
	}
	for i, a := range call.Args {
		p := sig.Params().At(i)
		if substituted[p] {
			continue
		}
		v := c.arg(a, p.Type(), &pre)
		if p.Name() != "" && p.Name() != "_" {
			pre = append(pre, "let "+c.name(p)+" : "+c.typ(p.Type())+" := "+v)
		}
	}
	saveBodies := c.bodies
	c.bodies = append(append([]*ast.BlockStmt{}, c.bodies...), fd.Body)
	defer func() { c.bodies = saveBodies }()
	if c.inlining == nil {
		c.inlining = map[*types.Func]bool{}
	}
	c.inlining[o] = true
	outerK, outerHelperK := k, c.helperK
	nLoops := len(c.loops)
	c.helperK = func(res ast.Expr) pgNode {
		mine := c.helperK
		c.helperK = outerHelperK
		saveLoops := c.loops
		cont := outerK
		if len(c.loops) > nLoops {
			cont = &pgLazy{func() pgNode {
				pgFail("helper %s: a branch selected inside a loop of the helper falls through", o.Name())
				return nil
			}}
			c.loops = nil
		}
		defer func() { c.helperK, c.loops = mine, saveLoops }()
		tv := c.info.Types[res]
		if tv.Value != nil {
			if constant.BoolVal(tv.Value) {
				return c.stmts(thenB, cont)
			}
			return c.stmts(elseB, cont)
		}
		var p []string
		cv := c.atom(res, &p)
		return c.lets(p, &pgIf{cv, c.stmts(thenB, cont), pgForce(c.stmts(elseB, cont))})
	}
	saveLabel := c.label
	c.label = ""
	body := c.stmts(fd.Body.List, &pgLazy{func() pgNode {
		pgFail("the end of the body of the helper %s is reachable but it has results", o.Name())
		return nil
	}})
	c.label = saveLabel
	c.helperK = outerHelperK
	delete(c.inlining, o)
	return c.lets(pre, body)
}

// substParams: a parameter (or the receiver) of the helper that the helper never assigns, whose argument is an expression of
// the kind of gonorm.go N3 (no side effect, cannot fail, the same value wherever it stands) of the parameter's type, is not
// bound to a new variable: the argument is written for it throughout the helper's body (in place; `undo` restores the
// body for the next call of the helper).  The loops of the helper then mention the CALLER's variables, as the loops of the
// function the helper was extracted from did.
func (c *pgCtx) substParams(fd *ast.FuncDecl, sig *types.Signature, recv ast.Expr, args []ast.Expr) (done map[*types.Var]bool, undo func()) {
	done = map[*types.Var]bool{}
	caller := &gnCtx{info: c.info, g: c.g, pkg: c.fn.pkg}
	caller.countAssigned(c.fn.decl.Body)
	for _, b := range c.bodies { // (the bodies of the helpers being translated in line around this call)
		n2 := &gnCtx{info: c.info, g: c.g, pkg: c.fn.pkg}
		n2.countAssigned(b)
		for v, k := range n2.assigned {
			caller.assigned[v] += k
		}
	}
	callee := &gnCtx{info: c.info, g: c.g, pkg: c.fn.pkg}
	callee.countAssigned(fd.Body)
	type sub struct {
		arg ast.Expr
		rep *ast.Ident
	}
	subs := map[*types.Var]*sub{}
	try := func(p *types.Var, a ast.Expr) {
		if p == nil || a == nil || p.Name() == "" || p.Name() == "_" || callee.assigned[p] != 0 {
			return
		}
		if !caller.stable(a) || c.info.TypeOf(a) == nil || !types.Identical(c.info.TypeOf(a), p.Type()) {
			return
		}
		subs[p] = &sub{arg: a}
	}
	if r := sig.Recv(); r != nil && recv != nil {
		try(r, recv)
	}
	for i, a := range args {
		if i < sig.Params().Len() {
			try(sig.Params().At(i), a)
		}
	}
	if len(subs) == 0 {
		return done, func() {}
	}
	gnRewrite(fd.Body, func(x ast.Expr) ast.Expr {
		if u, ok := x.(*ast.Ident); ok {
			if v, ok := c.info.Uses[u].(*types.Var); ok {
				if sb := subs[v]; sb != nil {
					if sb.rep == nil {
						sb.rep = u
					}
					return sb.arg
				}
			}
		}
		return x
	})
	for p := range subs {
		done[p] = true
	}
	return done, func() {
		gnRewrite(fd.Body, func(x ast.Expr) ast.Expr {
			for _, sb := range subs {
				if x == sb.arg && sb.rep != nil {
					return sb.rep
				}
			}
			return x
		})
	}
}
