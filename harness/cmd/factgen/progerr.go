package main

// progerr.go — the extensions of the statement-level translator (progfacts.go) for the ERROR-RENDERING path
// ((*parsley.FileSet).ErrorWithPosition):
//
//   - `x == C` / `x != C` for an interface value x and a constant C of a named integer type (`pos == NilPosition`):
//     `Obj.isInt x "pkg.T" v` — same dynamic type, same value (Go's interface comparison).
//   - `e.Error()` on a value of an opaque interface (one that embeds `error`), `e.Pos()` on a parsley.Error:
//     `Go.errText e` / `Go.errPos e` — the components of the record that stands for an error value (ProgPrelude: an error
//     value is observed only through these two pure methods; calling them on the nil interface is a panic).
//   - any other method call on an opaque interface (`pos.String()` on a parsley.Position) is a DYNAMIC DISPATCH: a match on
//     the record's tag with one arm per named type of the translated packages that implements the interface, each arm
//     calling that type's TRANSLATED method on the value rebuilt from the record (the inverse of toObj); the nil interface
//     and a dynamic type from outside these packages is the outcome panic (never a default value).  When an implementation's
//     method is not among the translated functions the call is refused.
//   - `fmt.Errorf(format, args…)` with a constant format of literal text, %s, %d: `Go.errorf (Go.sprintf […])`, the record of
//     an error whose Error() is the formatted text (ProgPrelude: fmt.Errorf(f, a…).Error() = fmt.Sprintf(f, a…); without %w
//     nothing else can be observed of it but its dynamic type).

import (
	"go/ast"
	"go/constant"
	"go/token"
	"go/types"
	"sort"
	"strconv"
	"strings"
)

// objEq: comparison of an opaque interface value with a constant of a named integer type
func (c *pgCtx) objEq(x *ast.BinaryExpr) (pre []string, code string, ok bool) {
	if x.Op != token.EQL && x.Op != token.NEQ {
		return
	}
	for _, p := range [][2]ast.Expr{{x.X, x.Y}, {x.Y, x.X}} {
		tv := c.info.Types[p[1]]
		nt, isNamed := tv.Type.(*types.Named)
		if tv.Value == nil || !isNamed || nt.Obj().Pkg() == nil || !pgIsInt(nt) || tv.Value.Kind() != constant.Int {
			continue
		}
		ot := c.info.TypeOf(p[0])
		if ot == nil || !types.IsInterface(ot) || c.g.implOf(ot) != nil {
			continue
		}
		v, exact := constant.Int64Val(tv.Value)
		if !exact {
			pgFail("constant %s is outside the subset", norm(p[1]))
		}
		a := c.atom(p[0], &pre)
		r := "Obj.isInt " + pgP(a) + " " + strconv.Quote(nt.Obj().Pkg().Name()+"."+nt.Obj().Name()) + " " + pgP(strconv.FormatInt(v, 10))
		if x.Op == token.NEQ {
			return pre, "(!" + r + ")", true
		}
		return pre, "(" + r + ")", true
	}
	return
}

// the packages whose named types are the candidates of a dynamic dispatch: those of the translated functions
func (g *pgGen) dynPkgs() []*concPkg {
	var out []*concPkg
	seen := map[string]bool{}
	for _, t := range progTargets {
		if seen[t.pkg] || g.ld == nil {
			continue
		}
		seen[t.pkg] = true
		if p, err := g.ld.load(g.ld.module + "/" + t.pkg); err == nil && p.tpkg != nil {
			out = append(out, p)
		}
	}
	return out
}

// objMethod: a method call on a value of an opaque interface
func (c *pgCtx) objMethod(x *ast.CallExpr) (pre []string, code string, mon, ok bool) {
	f, isSel := x.Fun.(*ast.SelectorExpr)
	if !isSel {
		return
	}
	sel, has := c.info.Selections[f]
	if !has || sel.Kind() != types.MethodVal || !types.IsInterface(sel.Recv()) || c.g.implOf(sel.Recv()) != nil {
		return
	}
	it, _ := sel.Recv().Underlying().(*types.Interface)
	if it == nil {
		return
	}
	hasMethod := func(name string) bool {
		for i := 0; i < it.NumMethods(); i++ {
			if it.Method(i).Name() == name {
				return true
			}
		}
		return false
	}
	m := sel.Obj().(*types.Func)
	sig := m.Type().(*types.Signature)
	if len(x.Args) == 0 && sig.Results().Len() == 1 {
		switch {
		case m.Name() == "Error" && pgIsString(sig.Results().At(0).Type()):
			a := c.atom(f.X, &pre)
			return pre, "Go.errText " + pgP(a), true, true
		case m.Name() == "Pos" && pgIsInt(sig.Results().At(0).Type()) && hasMethod("Error"):
			a := c.atom(f.X, &pre)
			return pre, "Go.errPos " + pgP(a), true, true
		}
	}
	// dynamic dispatch over the implementations in the translated packages
	type arm struct{ pat, call string }
	var arms []arm
	for _, p := range c.g.dynPkgs() {
		names := p.tpkg.Scope().Names()
		sort.Strings(names)
		for _, n := range names {
			tn, isT := p.tpkg.Scope().Lookup(n).(*types.TypeName)
			if !isT || tn.IsAlias() {
				continue
			}
			nt, isNamed := tn.Type().(*types.Named)
			if !isNamed || types.IsInterface(nt) || nt.TypeParams().Len() != 0 || !types.Implements(nt, it) {
				continue
			}
			ms := types.NewMethodSet(nt).Lookup(m.Pkg(), m.Name())
			if ms == nil {
				continue
			}
			mf, _ := ms.Obj().(*types.Func)
			fn := c.g.byObj[mf]
			if fn == nil {
				pgFail("call of the interface method %s: its implementation %s is not among the translated functions", norm(f), mf.FullName())
			}
			if fn.inout {
				pgFail("call of the interface method %s: %s writes its receiver", norm(f), fn.key)
			}
			tag := strconv.Quote(tn.Pkg().Name() + "." + tn.Name())
			var val string
			var ints, strs, objs []string
			if pgIsInt(nt) {
				ints, val = []string{"i1'"}, "i1'"
			} else if _, st := pgStructOf(nt); st != nil {
				tl := c.typ(nt)
				var fs []string
				for i := 0; i < st.NumFields(); i++ {
					fd := st.Field(i)
					var v string
					switch {
					case pgIsInt(fd.Type()):
						v = "i" + strconv.Itoa(len(ints)+1) + "'"
						ints = append(ints, v)
					case pgIsString(fd.Type()):
						v = "s" + strconv.Itoa(len(strs)+1) + "'"
						strs = append(strs, v)
					case types.IsInterface(fd.Type()):
						v = "o" + strconv.Itoa(len(objs)+1) + "'"
						objs = append(objs, v)
					default:
						pgFail("call of the interface method %s: field %s of the implementation %s", norm(f), fd.Name(), tl)
					}
					fs = append(fs, pgField(fd.Name())+" := "+v)
				}
				val = "({ " + strings.Join(fs, ", ") + " } : " + tl + ")"
			} else {
				pgFail("call of the interface method %s: the implementation %s is neither a struct nor an integer type", norm(f), tn.Name())
			}
			c.fn.deps = append(c.fn.deps, fn)
			as := []string{fn.key}
			if fn.ext {
				c.needExt()
				as = append(as, "X")
			}
			as = append(as, val)
			for i, a := range x.Args {
				as = append(as, c.arg(a, sig.Params().At(i).Type(), &pre))
			}
			arms = append(arms, arm{".mk " + tag + " [" + strings.Join(ints, ", ") + "] [" + strings.Join(strs, ", ") + "] [" + strings.Join(objs, ", ") + "]",
				strings.Join(as, " ")})
		}
	}
	if len(arms) == 0 {
		pgFail("call of the interface method %s: no implementation in the translated packages", norm(f))
	}
	a := c.atom(f.X, &pre)
	var sb strings.Builder
	sb.WriteString("(match " + a + " with")
	for _, ar := range arms {
		sb.WriteString(" | " + ar.pat + " => " + ar.call)
	}
	sb.WriteString(" | _ => Go.panic)")
	return pre, sb.String(), true, true
}
