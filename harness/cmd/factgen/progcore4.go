package main

import (
	"fmt"
	"go/ast"
	"go/importer"
	"go/token"
	"go/types"
	"os"
	"strconv"
	"strings"
)

func (c *pcCtx) fnResT() string { return c.resLean }

func (c *pcCtx) cycleOrder() []*pcFn {
	if !c.fn.rec {
		return nil
	}
	var out []*pcFn
	for _, f := range c.g.fns {
		if f.rec && f.scc == c.fn.scc {
			out = append(out, f)
		}
	}
	return out
}

func (fn *pcFn) defName() string {
	if fn.rec && pcFuelHint[fn.key] != "" {
		return fn.key + "_rec"
	}
	return fn.key
}

func (g *pcGen) header(fn *pcFn) {
	defer func() {
		if r := recover(); r != nil {
			e, ok := r.(pgErr)
			if !ok {
				panic(r)
			}
			fn.err, fn.text = e.msg, nil
		}
	}()
	info := fn.pkg.info
	c := &pcCtx{g: g, fn: fn, info: info, names: map[types.Object]string{}, taken: map[string]bool{"fuel": true, "rest": true, "lfuel": true}, ntmp: new(int),
		nloop: new(int), aux: new([]string), owned: map[types.Object]bool{}, ctxObj: map[types.Object]bool{}, recRef: map[*pcFn]string{},
		boxed: map[types.Object]bool{}}
	var sig *types.Signature
	var body *ast.BlockStmt
	var pnames, ptypes []string
	recvName := ""
	add := func(o types.Object) {
		if pcIsCtx(o.Type()) {
			c.ctxObj[o] = true
			return
		}
		pnames = append(pnames, c.name(o))
		ptypes = append(ptypes, c.varTypeOf(o))
	}
	if fn.lit != nil {
		sig = info.TypeOf(fn.lit).(*types.Signature)
		body = fn.lit.Body
		for _, v := range pgUsed(info, fn.lit.Body) {
			if !(fn.lit.Pos() <= v.Pos() && v.Pos() < fn.lit.End()) {
				add(v)
				if !pcIsCtx(v.Type()) {
					fn.captured = append(fn.captured, v)
				}
			}
		}
		for _, f := range fn.lit.Type.Params.List {
			if len(f.Names) == 0 {
				pgFail("unnamed parameter of the function literal")
			}
			for _, id := range f.Names {
				add(info.Defs[id])
			}
		}
	} else {
		sig = fn.obj.Type().(*types.Signature)
		body = fn.decl.Body
		if r := sig.Recv(); r != nil {
			if pcIsCtx(r.Type()) {
				c.ctxObj[r] = true
			} else {
				if _, isPtr := r.Type().Underlying().(*types.Pointer); isPtr && !c.isHeapPtr(r.Type()) {
					if n, _ := pgStructOf(r.Type()); n != nil {
						c.owned[r] = true
					}
				}
				recvName = c.name(r)
				c.recvObj = r
				add(r)
			}
		}
		for i := 0; i < sig.Params().Len(); i++ {
			p := sig.Params().At(i)
			if p.Name() == "" || p.Name() == "_" {
				if pcIsCtx(p.Type()) {
					continue
				}
			}
			add(p)
		}
	}
	for i := 0; i < sig.Results().Len(); i++ {
		if sig.Results().At(i).Name() != "" {
			pgFail("named results")
		}
	}
	var first []string
	if fn.inout {
		first = []string{ptypes[0]}
	}
	resT, ok := g.resultType(sig, first)
	if fn.ctorOf != nil {
		if fn.ctorOf.err != "" {
			pgFail("the function literal is not translated (%s)", fn.ctorOf.err)
		}
		body = &ast.BlockStmt{List: fn.ctorOf.pre}
		for _, st := range fn.ctorOf.pre {
			if pcHasReturn(st) {
				pgFail("a `return` before the function literal")
			}
		}
		var parts []string
		for _, v := range g.ctorLocals(fn) {
			parts = append(parts, c.typ(v.Type()))
		}
		switch len(parts) {
		case 0:
			resT = "Unit"
		case 1:
			resT = pgAtomT(parts[0])
		default:
			resT = "(" + strings.Join(parts, " × ") + ")"
		}
		ok = true
	}
	if !ok {
		pgFail("result type %s is outside the subset", types.TypeString(sig.Results(), qual))
	}
	c.resLean = resT
	c.resT = sig.Results()
	if fn.ctorOf != nil {
		c.resT = nil
	}
	fn.ftype = "(" + strings.Join(append(append([]string{}, ptypes...), g.mon()+" "+resT), " → ") + ")"
	fn.c, fn.pnames, fn.ptypes, fn.resT, fn.recvName, fn.body, fn.sig = c, pnames, ptypes, resT, recvName, body, sig
}

func (g *pcGen) translate(fn *pcFn) {
	if fn.err != "" {
		return
	}
	defer func() {
		if r := recover(); r != nil {
			e, ok := r.(pgErr)
			if !ok {
				panic(r)
			}
			fn.err, fn.text = e.msg, nil
		}
	}()
	c, pnames, ptypes, resT, recvName, body, sig := fn.c, fn.pnames, fn.ptypes, fn.resT, fn.recvName, fn.body, fn.sig
	// local pointers initialised with &T{…} are owned struct values
	ast.Inspect(body, func(m ast.Node) bool {
		if as, ok := m.(*ast.AssignStmt); ok && as.Tok == token.DEFINE && len(as.Lhs) == 1 && len(as.Rhs) == 1 {
			if u, ok := as.Rhs[0].(*ast.UnaryExpr); ok && u.Op == token.AND {
				if _, ok := u.X.(*ast.CompositeLit); ok {
					if id, ok := as.Lhs[0].(*ast.Ident); ok && c.info.Defs[id] != nil {
						c.owned[c.info.Defs[id]] = true
					}
				}
			}
		}
		return true
	})
	if g.tree != nil {
		g.tree.markBoxed(c, body)
	}
	c.retTuple = func(vals []string) string {
		if len(vals) != sig.Results().Len() {
			pgFail("the end of the body is reachable but the function has results")
		}
		if fn.inout {
			vals = append([]string{recvName}, vals...)
		}
		return pgTuple(vals, "")
	}
	c.ret = func(vals []string) pgNode { return &pgTerm{"pure " + pcP(c.retTuple(vals))} }
	c.retRaw = func(v string) pgNode { return &pgTerm{"pure " + v} }
	if fn.ctorOf != nil { // the end of the statements before the `return`: the captured variables they define
		c.ret = func(vals []string) pgNode {
			var ns []string
			for _, v := range g.ctorLocals(fn) {
				ns = append(ns, c.name(v))
			}
			return &pgTerm{"pure " + pcP(pgTuple(ns, ""))}
		}
	}
	if fn.rec {
		for _, f := range c.cycleOrder() {
			c.recRef[f] = f.defName() + " W fuel"
		}
	}
	c.liftTop = true
	b := c.stmts(body.List, c.ret0())
	var lines []string
	doc := fn.pkg.tpkg.Name() + "." + fn.key
	if fn.lit != nil {
		doc = fn.pkg.tpkg.Name() + "." + strings.TrimSuffix(strings.TrimSuffix(fn.key, "_parse"), "_func") + ": the function literal it returns (captured variables first)"
	}
	if fn.inout {
		doc += " (the receiver is written: returned as the first component)"
	}
	if fn.ctorOf != nil {
		doc = fn.pkg.tpkg.Name() + "." + strings.TrimSuffix(fn.key, "_new") + ": the statements before the `return` (construction time); answers the captured variables they define"
	}
	var def string
	if fn.rec {
		pcPrint(b, "    ", &lines)
		wild := make([]string, len(pnames))
		for i := range wild {
			wild[i] = "_"
		}
		def = fmt.Sprintf("/-- %s -/\ndef %s "+g.worldB()+" : %s\n  | %s => Go.outOfFuel\n  | %s => do\n%s\n", doc, fn.defName(),
			strings.Join(append(append([]string{"Nat"}, ptypes...), g.mon()+" "+resT), " → "),
			strings.Join(append([]string{"0"}, wild...), ", "), strings.Join(append([]string{"fuel + 1"}, pnames...), ", "), strings.Join(lines, "\n"))
		if h := pcFuelHint[fn.key]; h != "" {
			var ps []string
			for i := range pnames {
				ps = append(ps, "("+pnames[i]+" : "+ptypes[i]+")")
			}
			fn.wrapper = fmt.Sprintf("/-- %s with the fuel `%s` -/\ndef %s "+g.worldB()+" %s : "+g.mon()+" %s :=\n  %s W (%s) %s\n", doc, h, fn.key,
				strings.Join(ps, " "), resT, fn.defName(), h, strings.Join(pnames, " "))
		}
	} else {
		pcPrint(b, "  ", &lines)
		var ps []string
		if fn.fuel {
			ps = append(ps, "(fuel : Nat)")
		}
		for i := range pnames {
			ps = append(ps, "("+pnames[i]+" : "+ptypes[i]+")")
		}
		def = fmt.Sprintf("/-- %s -/\ndef %s "+g.worldB()+" %s : "+g.mon()+" %s := do\n%s\n", doc, fn.key, strings.Join(ps, " "), resT, strings.Join(lines, "\n"))
		def = strings.Replace(def, ")  :", ") :", 1)
	}
	fn.aux = *c.aux
	fn.text = []string{def}
}

func (c *pcCtx) varTypeOf(o types.Object) string {
	if v, ok := o.(*types.Var); ok {
		return c.varType(v)
	}
	return c.typ(o.Type())
}

// the function literal a constructor returns, and the statements before the return
func pcReturnedLit(fd *ast.FuncDecl) (*ast.FuncLit, []ast.Stmt) {
	if fd.Body == nil || len(fd.Body.List) == 0 {
		return nil, nil
	}
	n := len(fd.Body.List)
	rs, ok := fd.Body.List[n-1].(*ast.ReturnStmt)
	if !ok || len(rs.Results) != 1 {
		return nil, nil
	}
	e := rs.Results[0]
	for {
		switch x := e.(type) {
		case *ast.ParenExpr:
			e = x.X
			continue
		case *ast.CallExpr: // the conversion parser.Func(…) / Func(…)
			if len(x.Args) == 1 && strings.HasSuffix(norm(x.Fun), "Func") {
				e = x.Args[0]
				continue
			}
		}
		break
	}
	lit, _ := e.(*ast.FuncLit)
	return lit, fd.Body.List[:n-1]
}

func writeCoreFacts(path string) error { return pcWrite(path, nil, nil) }

func pcWrite(path string, tree *ptMode, term *tmMode) error {
	g := &pcGen{byObj: map[*types.Func]*pcFn{}, sdone: map[string]bool{}, tree: tree, term: term}
	l := &concLoader{fset: fset, module: readModulePath(repo), root: repo, pkgs: map[string]*concPkg{}, loading: map[string]bool{}}
	l.std = importer.ForCompiler(fset, "source", nil)
	var bad []string
	targets := coreTargets
	if tree != nil {
		targets = treeTargets
		bad = append(bad, tree.init(g, l)...)
	}
	if term != nil {
		targets = termTargets
		term.l = l
	}
	for _, t := range targets {
		key := t.name
		if t.recv != "" {
			key = t.recv + "_" + t.name
		}
		if t.closure && tree == nil {
			key += "_parse"
		}
		if t.closure && tree != nil {
			key += "_func"
		}
		p, err := l.load(l.module + "/" + t.pkg)
		if err != nil || p.tpkg == nil {
			bad = append(bad, fmt.Sprintf("%s: package %s does not load", key, t.pkg))
			continue
		}
		var found *pcFn
		for _, f := range p.files {
			for _, d := range f.Decls {
				fd, ok := d.(*ast.FuncDecl)
				if !ok || fd.Name.Name != t.name || fd.Body == nil {
					continue
				}
				obj, _ := p.info.Defs[fd.Name].(*types.Func)
				if obj == nil {
					continue
				}
				recv := ""
				if r := obj.Type().(*types.Signature).Recv(); r != nil {
					rt := r.Type()
					if pt, ok := rt.(*types.Pointer); ok {
						rt = pt.Elem()
					}
					if n, ok := rt.(*types.Named); ok {
						recv = n.Obj().Name()
					} else {
						recv = "?"
					}
				}
				if recv == t.recv {
					found = &pcFn{key: key, pkg: p, decl: fd, obj: obj}
				}
			}
		}
		if found == nil {
			bad = append(bad, key+": not found in package "+t.pkg)
			continue
		}
		if t.closure {
			found.lit, found.pre = pcReturnedLit(found.decl)
			if found.lit == nil {
				bad = append(bad, key+": the constructor does not end with `return <function literal>`")
				continue
			}
		}
		if g.byObj[found.obj] == nil {
			g.byObj[found.obj] = found
			g.fns = append(g.fns, found)
			if term != nil && t.closure {
				// the statements before the `return`: a function of the constructor's parameters that answers the captured
				// variables they define
				g.fns = append(g.fns, &pcFn{key: strings.TrimSuffix(key, "_parse") + "_new", pkg: p, decl: found.decl, obj: found.obj, ctorOf: found})
			}
		}
	}
	// the context and its cache come first (the monad is over the context)
	ctxOK := false
	if tree != nil {
		ctxOK = tree.cellStruct(g, l)
	} else if term != nil {
		ctxOK = true // the terminal closures are polymorphic in the state: no struct is generated
	} else if p, err := l.load(l.module + "/parsley"); err == nil && p.tpkg != nil {
		if o := p.tpkg.Scope().Lookup("Context"); o != nil {
			if n, ok := o.Type().(*types.Named); ok {
				if s, ok := n.Underlying().(*types.Struct); ok {
					_, ctxOK = g.structType(n, s)
				}
			}
		}
	}
	nCtxStructs := len(g.structs)
	body := func(fn *pcFn) ast.Node {
		if fn.lit != nil {
			return fn.lit.Body
		}
		return fn.decl.Body
	}
	// receivers
	for _, fn := range g.fns {
		if r := fn.obj.Type().(*types.Signature).Recv(); r != nil && fn.lit == nil && pcIsCtx(r.Type()) {
			fn.ctxRecv = true
		}
	}
	// which methods write their receiver (a pointer or a map): fixpoint
	for changed := true; changed; {
		changed = false
		for _, fn := range g.fns {
			r := fn.obj.Type().(*types.Signature).Recv()
			if r == nil || fn.inout || fn.lit != nil || fn.ctxRecv {
				continue
			}
			_, isPtr := r.Type().Underlying().(*types.Pointer)
			_, isMap := r.Type().Underlying().(*types.Map)
			if !isPtr && !isMap {
				continue
			}
			for _, v := range pcAssigned(g, fn.pkg.info, fn.decl.Body) {
				if v == r {
					fn.inout, changed = true, true
				}
			}
		}
	}
	// call graph, cycles (Tarjan), fuel
	for _, fn := range g.fns {
		seen := map[*pcFn]bool{}
		fn := fn
		walkWithHelpers(body(fn), fn.pkg, func(tf *types.Func) bool { return g.byObj[tf] != nil }, func(m ast.Node) bool {
			call, ok := m.(*ast.CallExpr)
			if !ok {
				return true
			}
			var o types.Object
			switch f := call.Fun.(type) {
			case *ast.Ident:
				o = fn.pkg.info.Uses[f]
			case *ast.SelectorExpr:
				if sel, ok := fn.pkg.info.Selections[f]; ok {
					o = sel.Obj()
				} else {
					o = fn.pkg.info.Uses[f.Sel]
				}
			}
			if tf, ok := o.(*types.Func); ok {
				if cal := g.byObj[tf]; cal != nil && cal.lit == nil && !seen[cal] {
					seen[cal] = true
					fn.calls = append(fn.calls, cal)
				}
			}
			if tree != nil {
				for _, cal := range tree.dynamicCallees(g, fn, call) {
					if !seen[cal] {
						seen[cal] = true
						fn.calls = append(fn.calls, cal)
					}
				}
			}
			return true
		})
	}
	{
		index, low, on := map[*pcFn]int{}, map[*pcFn]int{}, map[*pcFn]bool{}
		var stack []*pcFn
		n, nscc := 0, 0
		var strong func(v *pcFn)
		strong = func(v *pcFn) {
			n++
			index[v], low[v] = n, n
			stack = append(stack, v)
			on[v] = true
			for _, w := range v.calls {
				if index[w] == 0 {
					strong(w)
					if low[w] < low[v] {
						low[v] = low[w]
					}
				} else if on[w] && index[w] < low[v] {
					low[v] = index[w]
				}
			}
			if low[v] == index[v] {
				nscc++
				var comp []*pcFn
				for {
					w := stack[len(stack)-1]
					stack = stack[:len(stack)-1]
					on[w] = false
					comp = append(comp, w)
					if w == v {
						break
					}
				}
				self := false
				for _, w := range v.calls {
					if w == v {
						self = true
					}
				}
				for _, w := range comp {
					w.scc = nscc
					w.rec = len(comp) > 1 || self
				}
			}
		}
		for _, fn := range g.fns {
			if index[fn] == 0 {
				strong(fn)
			}
		}
	}
	for changed := true; changed; {
		changed = false
		for _, fn := range g.fns {
			if fn.fuel {
				continue
			}
			need := fn.rec && pcFuelHint[fn.key] == ""
			for _, cal := range fn.calls {
				if cal.fuel && !(cal.rec && cal.scc == fn.scc) {
					need = true
				}
			}
			if need && !(fn.rec && pcFuelHint[fn.key] != "") {
				fn.fuel, changed = true, true
			}
		}
	}
	if ctxOK {
		for _, fn := range g.fns {
			g.header(fn)
		}
		for _, fn := range g.fns {
			g.translate(fn)
		}
	} else {
		for _, fn := range g.fns {
			fn.err = "parsley.Context is outside the subset"
			if tree != nil {
				fn.err = "ast.NonTerminalNode is outside the subset"
			}
		}
	}
	// emission: callees first, a cycle as one unit, a failed callee fails its callers, no name twice
	emitted := map[string]bool{}
	for n := range g.sdone {
		emitted[n] = true
	}
	var out []string
	state := map[*pcFn]int{} // 1 = emitted, 2 = failed
	var visit func(fn *pcFn, stack map[*pcFn]bool) bool
	visit = func(fn *pcFn, stack map[*pcFn]bool) bool {
		if state[fn] != 0 {
			return state[fn] == 1
		}
		var unit []*pcFn
		if fn.rec {
			for _, f := range g.fns {
				if f.rec && f.scc == fn.scc {
					unit = append(unit, f)
				}
			}
		} else {
			unit = []*pcFn{fn}
		}
		for _, f := range unit {
			if stack[f] {
				return true // inside the unit being visited
			}
		}
		for _, f := range unit {
			stack[f] = true
		}
		ok := true
		why := ""
		for _, f := range unit {
			if f.err != "" {
				ok, why = false, f.key+": "+f.err
			}
		}
		for _, f := range unit {
			for _, d := range f.deps {
				inUnit := false
				for _, u := range unit {
					if u == d {
						inUnit = true
					}
				}
				if !inUnit && !visit(d, stack) && ok {
					ok, why = false, "calls "+d.key+", which is not translated"
				}
			}
		}
		for _, f := range unit {
			if ok && (emitted[f.key] || emitted[f.defName()]) {
				ok, why = false, "a declaration of the name "+f.key+" was already generated"
			}
		}
		if ok {
			for _, f := range unit {
				emitted[f.key], emitted[f.defName()] = true, true
				out = append(out, f.aux...)
			}
			if len(unit) > 1 {
				out = append(out, "mutual")
			}
			for _, f := range unit {
				out = append(out, f.text...)
			}
			if len(unit) > 1 {
				out = append(out, "end\n")
			}
			for _, f := range unit {
				if f.wrapper != "" {
					out = append(out, f.wrapper)
				}
				state[f] = 1
			}
		} else {
			for _, f := range unit {
				if f.err == "" {
					f.err = why
				}
				state[f] = 2
			}
		}
		return ok
	}
	var names []string
	for _, fn := range g.fns {
		if visit(fn, map[*pcFn]bool{}) {
			names = append(names, fn.key)
		} else {
			bad = append(bad, fn.key+": "+fn.err)
		}
	}
	for _, e := range l.errs {
		if len(bad) < 40 {
			bad = append(bad, "type check: "+e)
		}
	}
	if tree != nil {
		return tree.write(path, g, ctxOK, out, names, bad)
	}
	if term != nil {
		return term.write(path, out, names, bad)
	}
	var sb strings.Builder
	sb.WriteString("/- GENERATED by harness/cmd/factgen (-out-core): the parser core TRANSLATED statement by statement into Lean definitions\n   (monad, value-level data types and the world parameter: Generated/CorePrelude.lean), from the repository's current\n   source on every run.  Do not edit. -/\nimport ParsleyVerif.Generated.CorePrelude\nset_option linter.unusedVariables false\nnamespace PV.FactsCore\nopen PV.CorePrelude\n\n")
	if ctxOK {
		for i, s := range g.structs {
			if i == nCtxStructs {
				break
			}
			sb.WriteString(s + "\n")
		}
		sb.WriteString("/-- the monad of the translated core: state = the context -/\nabbrev M := CorePrelude.M Context\n\n")
		for _, s := range g.structs[nCtxStructs:] {
			sb.WriteString(s + "\n")
		}
		for _, s := range out {
			sb.WriteString(s + "\n")
		}
	}
	q := func(l []string) string {
		qs := make([]string, len(l))
		for i, s := range l {
			qs[i] = strconv.Quote(s)
		}
		return strings.Join(qs, ",\n  ")
	}
	fmt.Fprintf(&sb, "/-- the functions translated above -/\ndef translatedCore : List String := [\n  %s]\n\n", q(names))
	fmt.Fprintf(&sb, "/-- what the translator was asked for and could not translate, with the reason -/\ndef untranslatedCore : List String := [\n  %s]\n\nend PV.FactsCore\n", q(bad))
	return os.WriteFile(path, []byte(sb.String()), 0o644)
}
