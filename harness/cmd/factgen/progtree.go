package main

// Seventh output (-out-tree): the TREE PASSES and the EVALUATION (parsley/walk.go, static_check.go, transform.go,
// evaluate.go; the methods of ast.NonTerminalNode, NodeList, EmptyNode, TerminalNode, parser.EndNode;
// ast.InterpreterFunc.Eval; ast/interpreter/interpreter.go), translated by the statement-level translator of
// progcore*.go in a second MODE (pcGen.tree != nil).  Target run-time: lean/ParsleyVerif/Generated/TreePrelude.lean.
// What the mode changes:
//   * `*ast.NonTerminalNode` is an address into the store's heap: a field read is `Go.load`, a field write `Go.load` +
//     `Go.store` (no in-out receivers: the tree is mutated in place, as in Go); the struct is generated from the Go
//     declaration and is the cell type of the store (`St := Store NonTerminalNode`, the state of the monad);
//   * a local variable that a function literal captures and assigns is a cell of the store (Boxed.new/get/set);
//   * interface values carry their dynamic type: a type test `x.(I)` / a case of a type switch is `Node.asKinds ks` /
//     `Interp.asIface W.implements ks "I"`, with `ks` = the dynamic types that implement I, computed here from the
//     method sets (go/types); a call of an interface method is an in-line `match` on the dynamic type, each arm calling
//     the TRANSLATED method of that type (a method that is not among the translated functions fails the caller);
//     the methods of user-defined interpreter types are the world's;
//   * a value of type ast.InterpreterFunc is the name of the function (FnName); calling it is a `match` on the name
//     (the function literals of interpreter.Array / Object / Nil are translated as Array_func / Object_func / Nil_func);
//   * `for init; cond; post` loops: a generated function that is recursive on a fuel of its own, the hint is the bound
//     of the `<` in the condition (a wrong hint can only produce `outOfFuel`);
//   * package-level variables initialised with errors.New(constant) are emitted as definitions.

import (
	"fmt"
	"go/ast"
	"go/constant"
	"go/token"
	"go/types"
	"os"
	"sort"
	"strconv"
	"strings"
)

var treeTargets = []pcTarget{
	{"ast", "EmptyNode", "Token", false}, {"ast", "EmptyNode", "Schema", false}, {"ast", "EmptyNode", "Pos", false}, {"ast", "EmptyNode", "ReaderPos", false},
	{"parser", "EndNode", "Token", false}, {"parser", "EndNode", "Schema", false}, {"parser", "EndNode", "Value", false}, {"parser", "EndNode", "Pos", false}, {"parser", "EndNode", "ReaderPos", false},
	{"ast", "TerminalNode", "Token", false}, {"ast", "TerminalNode", "Schema", false}, {"ast", "TerminalNode", "Value", false}, {"ast", "TerminalNode", "Pos", false}, {"ast", "TerminalNode", "ReaderPos", false},
	{"ast", "NonTerminalNode", "Token", false}, {"ast", "NonTerminalNode", "Schema", false}, {"ast", "NonTerminalNode", "Pos", false}, {"ast", "NonTerminalNode", "ReaderPos", false},
	{"ast", "NonTerminalNode", "Children", false},
	{"ast", "NodeList", "Token", false}, {"ast", "NodeList", "Schema", false}, {"ast", "NodeList", "Pos", false}, {"ast", "NodeList", "ReaderPos", false},
	{"parsley", "", "Walk", false}, {"ast", "NodeList", "Walk", false},
	{"ast", "NonTerminalNode", "StaticCheck", false}, {"parsley", "", "StaticCheck", false},
	{"parsley", "", "Transform", false}, {"ast", "NonTerminalNode", "Transform", false},
	{"parsley", "", "EvaluateNode", false}, {"ast", "NonTerminalNode", "Value", false}, {"ast", "InterpreterFunc", "Eval", false},
	{"ast/interpreter", "selectInterpreter", "Eval", false}, {"ast/interpreter", "selectInterpreter", "StaticCheck", false},
	{"ast/interpreter", "", "Select", false},
	{"ast/interpreter", "", "Nil", true}, {"ast/interpreter", "", "Array", true}, {"ast/interpreter", "", "Object", true},
	{"parsley", "", "Evaluate", false},
}

var ptFixedType = map[string]string{
	"parsley.Node": "Node", "parsley.NonTerminalNode": "Node", "parsley.LiteralNode": "Node", "parsley.NonLiteralNode": "Node",
	"parsley.Walkable": "Node", "parsley.WalkableNode": "Node", "parsley.StaticCheckable": "Node", "parsley.StaticCheckableNode": "Node",
	"parsley.Transformable": "Node", "parsley.TransformableNode": "Node",
	"parsley.Interpreter": "Interp", "parsley.StaticChecker": "Interp", "parsley.NodeTransformer": "Interp",
	"parsley.StaticCheckerInterpreter": "Interp", "parsley.NodeTransformerInterpreter": "Interp",
	"parsley.Error": "Err", "error": "Cause", "parsley.Parser": "Parser",
	"*ast.NonTerminalNode": "Ptr", "*ast.TerminalNode": "TerminalNode", "ast.InterpreterFunc": "FnName",
	"interpreter.selectInterpreter": "selectInterpreter",
}

var ptStructOK = map[string]bool{"ast.NonTerminalNode": true}

var ptKeywords = map[string]bool{"Value": true, "Interp": true, "Kind": true, "IKind": true, "FnName": true, "Boxed": true, "Ptr": true, "St": true,
	"Store": true, "TerminalNode": true, "NonTerminalNode": true, "SMap": true, "selectInterpreter": true, "lfuel": true, "M": true}

// a dynamic type of the prelude's `Node` / `Interp`
type ptKind struct {
	ctor string // constructor: Node.<ctor> / Interp.<ctor>
	path string // package path (relative to the module), type name, pointer
	typ  types.Type
}

type ptMode struct {
	l       *concLoader
	nkinds  []*ptKind
	ikinds  []*ptKind
	globals map[*types.Var]string
	gdefs   []string
	tests   map[string]bool // the type tests used: "interface: kinds"
}

func newTreeMode() *ptMode {
	return &ptMode{globals: map[*types.Var]string{}, tests: map[string]bool{}}
}

func writeTreeFacts(path string) error { return pcWrite(path, newTreeMode(), nil) }

func (m *ptMode) init(g *pcGen, l *concLoader) []string {
	m.l = l
	var bad []string
	look := func(pkg, name string, ptr bool) types.Type {
		p, err := l.load(l.module + "/" + pkg)
		if err != nil || p.tpkg == nil {
			bad = append(bad, "package "+pkg+" does not load")
			return nil
		}
		o := p.tpkg.Scope().Lookup(name)
		if o == nil {
			bad = append(bad, "type "+pkg+"."+name+" not found")
			return nil
		}
		if ptr {
			return types.NewPointer(o.Type())
		}
		return o.Type()
	}
	m.nkinds = []*ptKind{
		{"empty", "ast.EmptyNode", look("ast", "EmptyNode", false)}, {"eof", "parser.EndNode", look("parser", "EndNode", false)},
		{"list", "ast.NodeList", look("ast", "NodeList", false)}, {"ref", "*ast.NonTerminalNode", look("ast", "NonTerminalNode", true)},
		{"term", "*ast.TerminalNode", look("ast", "TerminalNode", true)},
	}
	m.ikinds = []*ptKind{
		{"select", "interpreter.selectInterpreter", look("ast/interpreter", "selectInterpreter", false)},
		{"fn", "ast.InterpreterFunc", look("ast", "InterpreterFunc", false)},
	}
	return bad
}

// the struct the heap holds
func (m *ptMode) cellStruct(g *pcGen, l *concLoader) bool {
	p, err := l.load(l.module + "/ast")
	if err != nil || p.tpkg == nil {
		return false
	}
	o := p.tpkg.Scope().Lookup("NonTerminalNode")
	if o == nil {
		return false
	}
	n, ok := o.Type().(*types.Named)
	if !ok {
		return false
	}
	s, ok := n.Underlying().(*types.Struct)
	if !ok {
		return false
	}
	_, ok = g.structType(n, s)
	return ok
}

// ---- types ----

func (g *pcGen) treeType(t types.Type) (string, bool, bool) {
	if s, ok := ptFixedType[pcNamedPath(t)]; ok {
		return s, true, true
	}
	if pcIsCtx(t) {
		return "", false, true
	}
	if it, ok := t.Underlying().(*types.Interface); ok {
		if it.Empty() {
			return "Value", true, true
		}
		return "", false, true
	}
	if mp, ok := t.Underlying().(*types.Map); ok {
		if pgIsString(mp.Key()) {
			if e, ok := g.leanType(mp.Elem()); ok {
				return "(SMap " + e + ")", true, true
			}
		}
		return "", false, true
	}
	if p, ok := t.Underlying().(*types.Pointer); ok {
		_ = p
		return "", false, true // every pointer type of the mode is a fixed type
	}
	return "", false, false
}

func (m *ptMode) heapPtr(g *pcGen, t types.Type) bool {
	if t == nil {
		return false
	}
	s, ok := g.leanType(t)
	return ok && s == "Ptr"
}

func (c *pcCtx) isHeapPtr(t types.Type) bool { return c.g.tree != nil && c.g.tree.heapPtr(c.g, t) }

func (c *pcCtx) boxKind(o types.Object) string {
	switch lt := c.typ(o.Type()); lt {
	case "Err", "Node", "Int", "Bool", "Value":
		return lt
	}
	pgFail("the captured variable %s of type %s is assigned by a function literal", o.Name(), types.TypeString(o.Type(), qual))
	return ""
}

func (c *pcCtx) isBoxedIdent(id *ast.Ident) bool {
	o := c.info.Defs[id]
	if o == nil {
		o = c.info.Uses[id]
	}
	return o != nil && c.boxed[o]
}

// local variables that a function literal inside the body captures and assigns
func (m *ptMode) markBoxed(c *pcCtx, body *ast.BlockStmt) {
	ast.Inspect(body, func(n ast.Node) bool {
		lit, ok := n.(*ast.FuncLit)
		if !ok {
			return true
		}
		for _, o := range pgAssigned(c.info, lit.Body) {
			if lit.Pos() <= o.Pos() && o.Pos() < lit.End() {
				continue
			}
			if !(body.Pos() <= o.Pos() && o.Pos() < body.End()) {
				pgFail("a function literal assigns %s, which is not a local variable of the body", o.Name())
			}
			c.boxed[o] = true
		}
		return true
	})
}

// how a value of concrete type `have` is stored in a variable of interface type `want`
func (c *pcCtx) treeInject(v string, have, want types.Type) string {
	if have == nil || want == nil || !types.IsInterface(want) {
		return v
	}
	wl, ok := c.g.leanType(want)
	if !ok {
		pgFail("type %s is outside the subset", types.TypeString(want, qual))
	}
	if types.IsInterface(have) {
		if hl, ok := c.g.leanType(have); !ok || hl != wl {
			pgFail("conversion of %s to %s", types.TypeString(have, qual), types.TypeString(want, qual))
		}
		return v
	}
	hp := pcNamedPath(have)
	switch wl {
	case "Node":
		for _, k := range c.g.tree.nkinds {
			if k.path == hp {
				return "(Node." + k.ctor + " " + v + ")"
			}
		}
	case "Interp":
		for _, k := range c.g.tree.ikinds {
			if k.path == hp {
				return "(Interp." + k.ctor + " " + v + ")"
			}
		}
	case "Value":
		switch hl, _ := c.g.leanType(have); hl {
		case "Bytes":
			return "(Value.str " + v + ")"
		case "(List Value)":
			return "(Value.list " + v + ")"
		case "(SMap Value)":
			return "(Value.smap " + v + ")"
		}
	}
	pgFail("conversion of %s to %s", types.TypeString(have, qual), types.TypeString(want, qual))
	return ""
}

// ---- dynamic types: tests and method calls ----

func (m *ptMode) implementing(kinds []*ptKind, t types.Type) []*ptKind {
	var out []*ptKind
	for _, k := range kinds {
		if k.typ == nil {
			pgFail("the dynamic type %s was not found", k.path)
		}
		if it, ok := t.Underlying().(*types.Interface); ok {
			if types.Implements(k.typ, it) {
				out = append(out, k)
			}
		} else if types.Identical(k.typ, t) {
			out = append(out, k)
		}
	}
	return out
}

func ptKindList(prefix string, ks []*ptKind) string {
	var s []string
	for _, k := range ks {
		s = append(s, prefix+"."+k.ctor)
	}
	return "[" + strings.Join(s, ", ") + "]"
}

func (m *ptMode) note(t types.Type, ks []*ptKind) {
	var s []string
	for _, k := range ks {
		s = append(s, k.path)
	}
	m.tests[types.TypeString(t, qual)+": "+strings.Join(s, ", ")] = true
}

// `x, ok := v.(T)`: the function applied to v
func (m *ptMode) asFn(c *pcCtx, t types.Type, from types.Type) string {
	fl, _ := c.g.leanType(from)
	if !types.IsInterface(t) {
		pgFail("type test for the concrete type %s", types.TypeString(t, qual))
	}
	if tl, ok := c.g.leanType(t); !ok || tl != fl {
		pgFail("type test for %s on a value of type %s", types.TypeString(t, qual), types.TypeString(from, qual))
	}
	switch fl {
	case "Node":
		ks := m.implementing(m.nkinds, t)
		m.note(t, ks)
		return "Node.asKinds " + ptKindList("Kind", ks)
	case "Interp":
		ks := m.implementing(m.ikinds, t)
		m.note(t, ks)
		return "Interp.asIface W.implements " + ptKindList("IKind", ks) + " (Go.str " + strconv.Quote(pcNamedPath(t)) + ")"
	}
	pgFail("type test on a value of type %s", types.TypeString(from, qual))
	return ""
}

// `v.(T)` with one result
func (c *pcCtx) treeAssert1(x *ast.TypeAssertExpr, from, to string) (pre []string, code string, mon bool) {
	a := pcP(c.atom(x.X, &pre))
	t := c.info.TypeOf(x)
	switch {
	case from == "Node" && to == "Node" && types.IsInterface(t):
		ks := c.g.tree.implementing(c.g.tree.nkinds, t)
		c.g.tree.note(t, ks)
		return pre, "Node.assertKinds " + ptKindList("Kind", ks) + " " + a, true
	case from == "Value" && to == "Bytes":
		return pre, "Go.assertString " + a, true
	}
	pgFail("type assertion %s is outside the subset", norm(x))
	return
}

type ptArm struct {
	kind *ptKind
	fn   *pcFn
}

// the translated methods behind the call of method `name` on a value of the interface type `recv`
func (m *ptMode) arms(g *pcGen, kinds []*ptKind, recv types.Type, name string, strict bool) []ptArm {
	it, ok := recv.Underlying().(*types.Interface)
	if !ok {
		return nil
	}
	var out []ptArm
	for _, k := range kinds {
		if k.typ == nil || !types.Implements(k.typ, it) {
			continue
		}
		ms := types.NewMethodSet(k.typ)
		var f *types.Func
		for i := 0; i < ms.Len(); i++ {
			if ms.At(i).Obj().Name() == name {
				f, _ = ms.At(i).Obj().(*types.Func)
			}
		}
		if f == nil {
			continue
		}
		fn := g.byObj[f]
		if fn == nil {
			if strict {
				pgFail("the method %s of %s is not among the translated functions", name, k.path)
			}
			continue
		}
		out = append(out, ptArm{k, fn})
	}
	return out
}

func (m *ptMode) fnByKey(g *pcGen, key string) *pcFn {
	for _, f := range g.fns {
		if f.key == key {
			return f
		}
	}
	return nil
}

// parsley.EvaluateNode, handed to the world's Eval
func (m *ptMode) evalCallback(c *pcCtx) string {
	ev := m.fnByKey(c.g, "EvaluateNode")
	if ev == nil {
		pgFail("parsley.EvaluateNode is not among the translated functions")
	}
	c.fn.deps = append(c.fn.deps, ev)
	return pcP(c.refFn(ev))
}

var ptBound = map[string]string{"empty": "e", "eof": "e", "list": "l", "ref": "p", "term": "t", "select": "s", "fn": "f"}

// a call of an interface method: a match on the dynamic type
func (m *ptMode) dispatch(c *pcCtx, rt string, recv types.Type, name, r string, as []string) string {
	args := strings.Join(as, " ")
	var kinds []*ptKind
	switch rt {
	case "Node":
		kinds = m.nkinds
	case "Interp":
		kinds = m.ikinds
	default:
		pgFail("call of the method %s on a value of type %s", name, types.TypeString(recv, qual))
	}
	var sb strings.Builder
	sb.WriteString("(match " + r + " with")
	n := 0
	for _, a := range m.arms(c.g, kinds, recv, name, true) {
		c.fn.deps = append(c.fn.deps, a.fn)
		b := c.fresh(ptBound[a.kind.ctor])
		delete(c.taken, b)
		// (CorePrelude's Node is hidden by the `open`, but patterns do not honour that: the constructor is qualified)
		sb.WriteString(" | TreePrelude." + rt + "." + a.kind.ctor + " " + b + " => " + strings.TrimSpace(c.refFn(a.fn)+" "+b+" "+args))
		n++
	}
	if rt == "Interp" {
		b := c.fresh("id")
		delete(c.taken, b)
		switch name {
		case "StaticCheck", "TransformNode":
			sb.WriteString(" | Interp.custom " + b + " => W." + name + " " + b + " " + args)
		case "Eval":
			sb.WriteString(" | Interp.custom " + b + " => W.Eval " + m.evalCallback(c) + " (Interp.custom " + b + ") " + args)
		default:
			pgFail("call of the method %s of an interpreter", name)
		}
		n++
	}
	if n == 0 {
		pgFail("no dynamic type has the method %s of %s", name, types.TypeString(recv, qual))
	}
	if n == len(kinds)+map[string]int{"Node": 0, "Interp": 1}[rt] {
		sb.WriteString(" | _ => Go.panic)") // the nil interface
	} else {
		sb.WriteString(" | _ => Go.noMethod)")
	}
	return sb.String()
}

var ptFnNames = []string{"Array", "Object", "Nil"}

// a call of a value of type ast.InterpreterFunc: a match on the name of the function
func (m *ptMode) fnNameCall(c *pcCtx, f string, as []string) string {
	args := strings.Join(as, " ")
	var sb strings.Builder
	sb.WriteString("(match " + f + " with")
	for _, nm := range ptFnNames {
		fn := m.fnByKey(c.g, nm+"_func")
		if fn == nil || fn.lit == nil {
			pgFail("interpreter.%s is not among the translated functions", nm)
		}
		if len(fn.captured) != 0 {
			pgFail("the function literal of interpreter.%s captures variables", nm)
		}
		c.fn.deps = append(c.fn.deps, fn)
		sb.WriteString(" | FnName." + nm + " => " + strings.TrimSpace(c.refFn(fn)+" "+args))
	}
	b := c.fresh("id")
	delete(c.taken, b)
	sb.WriteString(" | FnName.user " + b + " => W.Eval " + m.evalCallback(c) + " (Interp.fn (FnName.user " + b + ")) " + args + ")")
	return sb.String()
}

// the call graph behind the dynamic calls of `call`
func (m *ptMode) dynamicCallees(g *pcGen, fn *pcFn, call *ast.CallExpr) []*pcFn {
	var out []*pcFn
	defer func() {
		if r := recover(); r != nil {
			if _, ok := r.(pgErr); !ok {
				panic(r)
			}
		}
	}()
	info := fn.pkg.info
	switch f := call.Fun.(type) {
	case *ast.SelectorExpr:
		sel, ok := info.Selections[f]
		if !ok || sel.Kind() != types.MethodVal || !types.IsInterface(sel.Recv()) {
			return nil
		}
		rt, _ := g.leanType(sel.Recv())
		kinds := m.nkinds
		if rt == "Interp" {
			kinds = m.ikinds
			if sel.Obj().Name() == "Eval" {
				if ev := m.fnByKey(g, "EvaluateNode"); ev != nil {
					out = append(out, ev)
				}
			}
		} else if rt != "Node" {
			return nil
		}
		for _, a := range m.arms(g, kinds, sel.Recv(), sel.Obj().Name(), false) {
			out = append(out, a.fn)
		}
	case *ast.Ident:
		if v, ok := info.Uses[f].(*types.Var); ok {
			if lt, _ := g.leanType(v.Type()); lt == "FnName" {
				for _, nm := range ptFnNames {
					if t := m.fnByKey(g, nm+"_func"); t != nil {
						out = append(out, t)
					}
				}
				if ev := m.fnByKey(g, "EvaluateNode"); ev != nil {
					out = append(out, ev)
				}
			}
		}
	}
	return out
}

// ---- package-level variables ----

func (m *ptMode) global(c *pcCtx, v *types.Var) string {
	if n, ok := m.globals[v]; ok {
		return n
	}
	lt := c.typ(v.Type())
	p := m.l.pkgs[v.Pkg().Path()]
	if p == nil {
		pgFail("the package of the variable %s is not loaded", v.Name())
	}
	for _, f := range p.files {
		for _, d := range f.Decls {
			gd, ok := d.(*ast.GenDecl)
			if !ok || gd.Tok != token.VAR {
				continue
			}
			for _, sp := range gd.Specs {
				vs := sp.(*ast.ValueSpec)
				for i, id := range vs.Names {
					if p.info.Defs[id] != v || len(vs.Values) != len(vs.Names) {
						continue
					}
					call, ok := vs.Values[i].(*ast.CallExpr)
					if !ok || norm(call.Fun) != "errors.New" || len(call.Args) != 1 || lt != "Cause" {
						pgFail("the package-level variable %s is not initialised with errors.New(constant)", v.Name())
					}
					tv := p.info.Types[call.Args[0]]
					if tv.Value == nil || tv.Value.Kind() != constant.String {
						pgFail("the package-level variable %s is not initialised with errors.New(constant)", v.Name())
					}
					name := v.Name()
					for _, fn := range c.g.fns {
						if fn.key == name {
							name += "'"
						}
					}
					m.globals[v] = name
					m.gdefs = append(m.gdefs, fmt.Sprintf("/-- %s.%s (a package-level variable; assumed never to be assigned) -/\ndef %s : Cause := errors_New (Go.str %s)\n",
						v.Pkg().Name(), v.Name(), name, strconv.Quote(constant.StringVal(tv.Value))))
					return name
				}
			}
		}
	}
	pgFail("the declaration of the package-level variable %s was not found", v.Name())
	return ""
}

// ---- statements ----

func (c *pcCtx) plainPattern(lhs []ast.Expr) bool {
	for _, l := range lhs {
		id, ok := l.(*ast.Ident)
		if !ok || (id.Name != "_" && c.isBoxedIdent(id)) {
			return false
		}
	}
	return true
}

// `a, b = f(…)` where a place is not an identifier
func (c *pcCtx) tupleAssign(x *ast.AssignStmt, r *ast.CallExpr, k pgNode) pgNode {
	pre, code, mon := c.call(r)
	var ts []string
	for range x.Lhs {
		ts = append(ts, c.tmp())
	}
	if mon {
		pre = append(pre, "let ("+strings.Join(ts, ", ")+") ← "+code)
	} else {
		pre = append(pre, "let ("+strings.Join(ts, ", ")+") := "+code)
	}
	for i, l := range x.Lhs {
		if id, ok := l.(*ast.Ident); ok && id.Name == "_" {
			continue
		}
		c.assignTo(l, ts[i], &pre)
	}
	return c.lets(pre, k)
}

// the bound of the `<` / `<=` atoms of a loop condition
func (c *pcCtx) loopBounds(e ast.Expr, out *[]string) {
	switch x := e.(type) {
	case *ast.ParenExpr:
		c.loopBounds(x.X, out)
	case *ast.BinaryExpr:
		var bound ast.Expr
		switch x.Op {
		case token.LAND:
			c.loopBounds(x.X, out)
			c.loopBounds(x.Y, out)
			return
		case token.LSS, token.LEQ:
			bound = x.Y
		case token.GTR, token.GEQ:
			bound = x.X
		default:
			return
		}
		if !pgIsInt(c.info.TypeOf(bound)) {
			return
		}
		func() {
			defer func() {
				if r := recover(); r != nil {
					if _, ok := r.(pgErr); !ok {
						panic(r)
					}
				}
			}()
			n := *c.ntmp
			pre, code, mon := c.parts(bound)
			if len(pre) == 0 && !mon {
				*out = append(*out, code)
			} else {
				*c.ntmp = n
			}
		}()
	}
}

// `for init; cond; post { body }`: a generated function, recursive on a fuel of its own
func (c *pcCtx) forLoop(x *ast.ForStmt, k pgNode) pgNode {
	if x.Cond == nil {
		pgFail("loop without a condition")
	}
	if x.Init != nil {
		// the loop proper runs in the scope of the init statement
		y := *x
		y.Init = nil
		return c.stmt(x.Init, &pgLazy{func() pgNode { return c.forLoop(&y, k) }})
	}
	var bounds []string
	c.loopBounds(x.Cond, &bounds)
	if len(bounds) == 0 {
		pgFail("no fuel bound for the loop condition %s", norm(x.Cond))
	}
	hint := "(Int.toNat (" + strings.Join(bounds, " + ") + ") + 1)"
	hasRet := pcHasReturn(x.Body)
	var region []ast.Node
	region = append(region, x.Cond, x.Body)
	if x.Post != nil {
		region = append(region, x.Post)
	}
	assigned := map[*types.Var]bool{}
	for _, v := range pcAssigned(c.g, c.info, region...) {
		assigned[v] = true
	}
	inside := func(p token.Pos) bool { return x.Body.Pos() <= p && p < x.Body.End() }
	var fixed, state []pgVar
	for _, v := range pgUsed(c.info, region...) {
		if inside(v.Pos()) || c.ctxObj[v] {
			continue
		}
		pv := pgVar{c.name(v), c.varType(v)}
		if assigned[v] && !c.boxed[v] {
			state = append(state, pv)
		} else {
			fixed = append(fixed, pv)
		}
	}
	if c.fn.fuel && !c.fn.rec {
		fixed = append(fixed, pgVar{"fuel", "Nat"})
	}
	*c.nloop++
	name := c.fn.key + "_loop" + strconv.Itoa(*c.nloop)
	var stn, stt, wild []string
	for _, v := range state {
		stn = append(stn, v.name)
		stt = append(stt, pgAtomT(v.typ))
		wild = append(wild, "_")
	}
	stTuple := pgTuple(stn, "")
	stType := "Unit"
	if len(stt) == 1 {
		stType = stt[0]
	} else if len(stt) > 1 {
		stType = "(" + strings.Join(stt, " × ") + ")"
	}
	resT := stType
	doneCode := "pure " + pcP(stTuple)
	if hasRet {
		resT = "(Brk " + c.fnResT() + " " + stType + ")"
		doneCode = "pure (Brk.done " + pcP(stTuple) + ")"
	}
	sub := *c
	outerRef := c.recRef
	sub.recRef = map[*pcFn]string{}
	for f := range outerRef {
		sub.recRef[f] = "rec_" + f.key
	}
	if hasRet {
		tup := c.retTuple
		sub.ret = func(vals []string) pgNode { return &pgTerm{"pure (Brk.ret " + pcP(tup(vals)) + ")"} }
		sub.retTuple = tup
		sub.retRaw = func(v string) pgNode { return &pgTerm{"pure (Brk.ret " + v + ")"} }
	}
	var fxn []string
	for _, v := range fixed {
		fxn = append(fxn, v.name)
	}
	var recNames []string
	for _, f := range c.cycleOrder() {
		recNames = append(recNames, "rec_"+f.key)
	}
	againParts := append([]string{name, "W"}, fxn...)
	againParts = append(againParts, recNames...)
	againParts = append(againParts, "lfuel")
	againParts = append(againParts, stn...)
	var again pgNode = &pgTerm{strings.Join(againParts, " ")}
	if x.Post != nil {
		again = sub.stmt(x.Post, again)
	}
	done := &pgTerm{doneCode}
	sub.loops = append(append([]pgLoopK{}, c.loops...), pgLoopK{done, again, ""})
	sub.inSwch = 0
	body := sub.stmts(x.Body.List, again)
	var cpre []string
	cond := sub.atom(x.Cond, &cpre)
	whole := sub.lets(cpre, &pgIf{cond, body, done})
	var lines []string
	pcPrint(whole, "    ", &lines)
	hdr := "def " + name + " " + c.g.worldB()
	for _, v := range fixed {
		hdr += " (" + v.name + " : " + v.typ + ")"
	}
	for _, f := range c.cycleOrder() {
		hdr += " (rec_" + f.key + " : " + f.ftype + ")"
	}
	hdr += " : Nat"
	for _, t := range stt {
		hdr += " → " + t
	}
	hdr += " → M " + resT
	base := "  | " + strings.Join(append([]string{"0"}, wild...), ", ") + " => Go.outOfFuel\n"
	step := "  | " + strings.Join(append([]string{"lfuel + 1"}, stn...), ", ") + " => do\n"
	*c.aux = append(*c.aux, hdr+"\n"+base+step+strings.Join(lines, "\n")+"\n")
	parts := []string{name, "W"}
	parts = append(parts, fxn...)
	for _, f := range c.cycleOrder() {
		parts = append(parts, pcP(outerRef[f]))
	}
	parts = append(parts, hint)
	parts = append(parts, stn...)
	run := strings.Join(parts, " ")
	var pre []string
	if !hasRet {
		if len(stn) == 0 {
			return c.lets(append(pre, run), k)
		}
		return c.lets(append(pre, "let "+stTuple+" ← "+run), k)
	}
	r := c.tmp()
	rv2 := c.tmp()
	mt := &pcMatch{r, []pcCase{{"Brk.ret " + rv2, pgForce(c.retRaw(rv2))}, {"Brk.done " + pcP(stTuple), pgForce(k)}}}
	if len(stn) == 0 {
		mt.cases[1].pat = "Brk.done _"
	}
	return c.lets(append(pre, "let "+r+" ← "+run), mt)
}

// ---- the writer ----

func (m *ptMode) write(path string, g *pcGen, ok bool, out, names, bad []string) error {
	var sb strings.Builder
	sb.WriteString("/- GENERATED by harness/cmd/factgen (-out-tree): the tree passes and the evaluation (parsley.Walk, StaticCheck, Transform,\n   EvaluateNode, Evaluate; the node methods of package ast and parser.EndNode; the interpreters of ast/interpreter) TRANSLATED\n   statement by statement into Lean definitions (store, dynamic types and the world parameter: Generated/TreePrelude.lean), from\n   the repository's current source on every run.  Do not edit. -/\nimport ParsleyVerif.Generated.TreePrelude\nset_option linter.unusedVariables false\nnamespace PV.FactsTree\nopen PV.CorePrelude hiding Node World\nopen PV.TreePrelude\n\n")
	if ok {
		for _, s := range g.structs {
			sb.WriteString(s + "\n")
		}
		sb.WriteString("/-- the store: the heap holds the *ast.NonTerminalNode cells -/\nabbrev St := Store NonTerminalNode\n\n/-- the monad of the translated tree functions: state = the store -/\nabbrev M := CorePrelude.M St\n\n")
		for _, s := range m.gdefs {
			sb.WriteString(s + "\n")
		}
		for _, s := range out {
			sb.WriteString(s + "\n")
		}
	}
	q := func(l []string) string {
		qs := make([]string, len(l))
		for i, s := range l {
			qs[i] = strconv.Quote(s)
		}
		return strings.Join(qs, ",\n  ")
	}
	var tests []string
	for t := range m.tests {
		tests = append(tests, t)
	}
	sort.Strings(tests)
	fmt.Fprintf(&sb, "/-- the functions translated above -/\ndef translatedTree : List String := [\n  %s]\n\n", q(names))
	fmt.Fprintf(&sb, "/-- the type tests of the translated functions: the interface, and the dynamic types the translator found to implement it -/\ndef typeTests : List String := [\n  %s]\n\n", q(tests))
	fmt.Fprintf(&sb, "/-- what the translator was asked for and could not translate, with the reason -/\ndef untranslatedTree : List String := [\n  %s]\n\nend PV.FactsTree\n", q(bad))
	return os.WriteFile(path, []byte(sb.String()), 0o644)
}
