package main

// NORMALISATION of a function body before the statement-level translation (progfacts.go).  Pure syntax that a
// behaviour-preserving refactoring changes and that would otherwise change the INTERFACE of a generated definition (the
// parameter list and the state of a loop function — which the tie theorems are stated over) is brought to one form first.
// Differences that only change the text INSIDE a generated definition (a mirrored comparison, a negated test with the
// branches exchanged, a temporary used in straight-line code, a switch instead of an if chain) are left alone: the tie proofs
// absorb them (they decide tests with omega and unfold `let`).  Each rewriting is local, is applied only when its side
// condition has been checked on the typed AST, and is part of the trusted base like the rest of the translator:
//
//  N0  `a, b := e1, e2` defining only new variables, no right-hand side mentioning a name that is defined: `a := e1; b := e2`.
//  N1  `for init; A; post { if c { break }; rest }` (A possibly absent, the `if` without init / else, the `break` unlabelled or
//      carrying the label of this loop) is `for init; A && !c; post { rest }`, repeatedly; `!c` is written with the negation
//      pushed inwards (De Morgan, `!(a < b)` = `a >= b` on integers, `!!a` = `a`).  Go evaluates A, then c, in both forms.
//      The condition of a `for` is re-associated to the right: `(a && b) && c` = `a && (b && c)`, same for `||`.
//  N3  a temporary `x := e` that is never assigned again, whose `e` is built from constants, integer arithmetic, comparisons,
//      len / cap of slices and strings, field selections and variables that are assigned NOWHERE in the function, and that is
//      mentioned inside a loop which does not contain its definition — or in a call of a helper (prochelper.go), whose
//      loops are the caller's —, is replaced by `e` everywhere (it would otherwise be a parameter of the loop function); `e` has no side effect, cannot fail and has the same value at every use.
//  N8  a call `h(a1, …, an)` / `x.h(a1, …, an)` of an unexported function of the package that is not translated on its own and
//      whose body is the single statement `return e`, where e and the arguments (and the receiver) are expressions of the
//      kind of N3 (over the parameters, resp. over variables that nothing assigns), is replaced by e with the arguments
//      substituted for the parameters (prochelper.go translates every other helper in line, as a block).
//  N7  a variable declared without a value before a loop and mentioned nowhere but inside that loop, where the first
//      statement of the loop body that mentions it at all is a plain assignment to it (and neither the condition nor the post
//      statement mention it), is local to each round: its declaration is dropped and it is no part of the loop's state.

import (
	"go/ast"
	"go/token"
	"go/types"
)

type gnCtx struct {
	info     *types.Info
	assigned map[*types.Var]int // how many sites OTHER than its definition write the variable (or a field path of it, or call a method that may write it, or take its address)
	g        *pgGen
	local    map[*types.Var]bool // N7: variables local to each round of the loop they are used in
	pkg      *concPkg
}

func (g *pgGen) normalise(fn *pgFn) map[*types.Var]bool { return g.normaliseBody(fn, fn.decl.Body) }

// (also applied to the body of a helper that is translated in line: prochelper.go)
func (g *pgGen) normaliseBody(fn *pgFn, body *ast.BlockStmt) map[*types.Var]bool {
	if g.normalised == nil {
		g.normalised = map[*ast.BlockStmt]map[*types.Var]bool{}
	}
	if done, ok := g.normalised[body]; ok { // (a helper called twice: its body is normalised once)
		return done
	}
	n := &gnCtx{info: fn.pkg.info, g: g, local: map[*types.Var]bool{}, pkg: fn.pkg}
	n.splitParallel(body)
	n.loopGuards(body)
	n.countAssigned(body)
	n.expressionHelpers(body)
	n.inlineStable(body)
	n.loopLocals(body)
	g.normalised[body] = n.local
	return n.local
}

// ---- generic traversal: every statement list of the body, innermost first ----

func gnBlocks(n ast.Node, f func(list *[]ast.Stmt)) {
	ast.Inspect(n, func(m ast.Node) bool {
		switch x := m.(type) {
		case *ast.BlockStmt:
			f(&x.List)
		case *ast.CaseClause:
			f(&x.Body)
		case *ast.CommClause:
			f(&x.Body)
		}
		return true
	})
}

// ---- N0 ----

func (n *gnCtx) splitParallel(body *ast.BlockStmt) {
	gnBlocks(body, func(list *[]ast.Stmt) {
		var out []ast.Stmt
		for _, s := range *list {
			as, ok := s.(*ast.AssignStmt)
			if !ok || as.Tok != token.DEFINE || len(as.Lhs) < 2 || len(as.Lhs) != len(as.Rhs) {
				out = append(out, s)
				continue
			}
			names := map[string]bool{}
			good := true
			for _, l := range as.Lhs {
				id, ok := l.(*ast.Ident)
				if !ok || (id.Name != "_" && n.info.Defs[id] == nil) { // every left-hand side is a NEW variable
					good = false
					break
				}
				names[id.Name] = true
			}
			if good {
				for _, r := range as.Rhs {
					ast.Inspect(r, func(m ast.Node) bool {
						if id, ok := m.(*ast.Ident); ok && names[id.Name] {
							good = false
						}
						return true
					})
				}
			}
			if !good {
				out = append(out, s)
				continue
			}
			for i := range as.Lhs {
				out = append(out, &ast.AssignStmt{Lhs: []ast.Expr{as.Lhs[i]}, TokPos: as.TokPos, Tok: token.DEFINE, Rhs: []ast.Expr{as.Rhs[i]}})
			}
		}
		*list = out
	})
}

// ---- N1 ----

// negation with the `!` pushed inwards; the new nodes get the type of the node they replace
func (n *gnCtx) not(e ast.Expr) ast.Expr {
	tv := n.info.Types[e]
	mk := func(x ast.Expr) ast.Expr {
		n.info.Types[x] = types.TypeAndValue{Type: tv.Type}
		return x
	}
	if tv.Value != nil { // a constant: leave it to the translator
		return mk(&ast.UnaryExpr{OpPos: e.Pos(), Op: token.NOT, X: e})
	}
	switch x := e.(type) {
	case *ast.ParenExpr:
		return n.not(x.X)
	case *ast.UnaryExpr:
		if x.Op == token.NOT {
			return x.X
		}
	case *ast.BinaryExpr:
		switch x.Op {
		case token.LAND:
			return mk(&ast.BinaryExpr{X: n.not(x.X), OpPos: x.OpPos, Op: token.LOR, Y: n.not(x.Y)})
		case token.LOR:
			return mk(&ast.BinaryExpr{X: n.not(x.X), OpPos: x.OpPos, Op: token.LAND, Y: n.not(x.Y)})
		case token.EQL:
			return mk(&ast.BinaryExpr{X: x.X, OpPos: x.OpPos, Op: token.NEQ, Y: x.Y})
		case token.NEQ:
			return mk(&ast.BinaryExpr{X: x.X, OpPos: x.OpPos, Op: token.EQL, Y: x.Y})
		case token.LSS, token.LEQ, token.GTR, token.GEQ:
			tx, ty := n.info.TypeOf(x.X), n.info.TypeOf(x.Y)
			if tx != nil && ty != nil && pgIsInt(tx) && pgIsInt(ty) { // (not for floats: NaN)
				op := map[token.Token]token.Token{token.LSS: token.GEQ, token.LEQ: token.GTR, token.GTR: token.LEQ, token.GEQ: token.LSS}[x.Op]
				return mk(&ast.BinaryExpr{X: x.X, OpPos: x.OpPos, Op: op, Y: x.Y})
			}
		}
	}
	return mk(&ast.UnaryExpr{OpPos: e.Pos(), Op: token.NOT, X: e})
}

func (n *gnCtx) loopGuards(body *ast.BlockStmt) {
	labelOf := map[*ast.ForStmt]string{}
	ast.Inspect(body, func(m ast.Node) bool {
		if ls, ok := m.(*ast.LabeledStmt); ok {
			if fs, ok := ls.Stmt.(*ast.ForStmt); ok {
				labelOf[fs] = ls.Label.Name
			}
		}
		return true
	})
	ast.Inspect(body, func(m ast.Node) bool {
		fs, ok := m.(*ast.ForStmt)
		if !ok {
			return true
		}
		for len(fs.Body.List) > 0 {
			is, ok := fs.Body.List[0].(*ast.IfStmt)
			if !ok || is.Init != nil || is.Else != nil || len(is.Body.List) != 1 {
				break
			}
			br, ok := is.Body.List[0].(*ast.BranchStmt)
			if !ok || br.Tok != token.BREAK || (br.Label != nil && br.Label.Name != labelOf[fs]) {
				break
			}
			if br.Label != nil && labelOf[fs] == "" {
				break
			}
			c := n.not(is.Cond)
			if fs.Cond == nil {
				fs.Cond = c
			} else {
				and := &ast.BinaryExpr{X: fs.Cond, OpPos: is.Pos(), Op: token.LAND, Y: c}
				n.info.Types[and] = types.TypeAndValue{Type: n.info.TypeOf(c)}
				fs.Cond = and
			}
			fs.Body.List = fs.Body.List[1:]
		}
		if fs.Cond != nil {
			fs.Cond = n.rightAssoc(fs.Cond)
		}
		return true
	})
}

// `(a && b) && c` is `a && (b && c)` (and the same for `||`): Go evaluates a, b, c in this order and stops at the same operand
func (n *gnCtx) rightAssoc(e ast.Expr) ast.Expr {
	switch x := e.(type) {
	case *ast.ParenExpr:
		return n.rightAssoc(x.X)
	case *ast.BinaryExpr:
		if x.Op != token.LAND && x.Op != token.LOR {
			return e
		}
		l, r := n.rightAssoc(x.X), n.rightAssoc(x.Y)
		tv := n.info.Types[e]
		// l = l1 op l2 (already right-nested): l1 op (l2 op r)
		var build func(l, r ast.Expr) ast.Expr
		build = func(l, r ast.Expr) ast.Expr {
			if lb, ok := l.(*ast.BinaryExpr); ok && lb.Op == x.Op {
				inner := build(lb.Y, r)
				out := &ast.BinaryExpr{X: lb.X, OpPos: lb.OpPos, Op: x.Op, Y: inner}
				n.info.Types[out] = types.TypeAndValue{Type: tv.Type}
				return out
			}
			out := &ast.BinaryExpr{X: l, OpPos: x.OpPos, Op: x.Op, Y: r}
			n.info.Types[out] = types.TypeAndValue{Type: tv.Type}
			return out
		}
		if tv.Value != nil {
			return e
		}
		return build(l, r)
	}
	return e
}

// ---- assignment sites ----

func (n *gnCtx) countAssigned(body *ast.BlockStmt) {
	n.assigned = map[*types.Var]int{}
	add := func(e ast.Expr) {
		if id := pgRootL(n.g, n.info, e); id != nil {
			if ast.Expr(id) == e && n.info.Defs[id] != nil {
				return // the definition of the variable
			}
			o := n.info.Uses[id]
			if o == nil {
				o = n.info.Defs[id]
			}
			if v, ok := pgLocal(o); ok {
				n.assigned[v]++
			}
		} else {
			// a write through an index / a call result: the heap, no variable
		}
	}
	ast.Inspect(body, func(m ast.Node) bool {
		switch s := m.(type) {
		case *ast.AssignStmt:
			for _, l := range s.Lhs {
				add(l)
			}
		case *ast.IncDecStmt:
			add(s.X)
		case *ast.RangeStmt:
			if s.Key != nil {
				add(s.Key)
			}
			if s.Value != nil {
				add(s.Value)
			}
		case *ast.UnaryExpr:
			if s.Op == token.AND { // the address is taken: anything may write it
				if _, isLit := s.X.(*ast.CompositeLit); !isLit {
					add(s.X)
					add(s.X)
				}
			}
		case *ast.CallExpr:
			if f, ok := s.Fun.(*ast.SelectorExpr); ok {
				if sel, ok := n.info.Selections[f]; ok && sel.Kind() == types.MethodVal {
					// a method with a pointer receiver may write the variable it is called on
					if sig, ok := sel.Obj().Type().(*types.Signature); ok && sig.Recv() != nil {
						if _, isPtr := sig.Recv().Type().(*types.Pointer); isPtr {
							obj := sel.Obj()
							if types.IsInterface(sel.Recv()) {
								if m := n.g.dispatch(sel); m != nil {
									obj = m
								}
							}
							if tf, ok := obj.(*types.Func); ok {
								if fn := n.g.byObj[tf]; fn != nil {
									if fn.inout {
										add(f.X)
									}
								} else if !n.readOnlyHelper(tf, map[*types.Func]bool{}) {
									add(f.X)
								}
							}
						}
					}
				}
			}
		}
		return true
	})
}

// ---- N3 ----

// e is built from constants, integer arithmetic, comparisons, len / cap of slices and strings, integer conversions, field
// selections and local variables that no statement assigns (`self` excepted: the variable being defined)
func (n *gnCtx) stable(e ast.Expr) bool {
	tv := n.info.Types[e]
	if tv.Value != nil {
		return true
	}
	switch x := e.(type) {
	case *ast.ParenExpr:
		return n.stable(x.X)
	case *ast.Ident:
		v, ok := pgLocal(n.info.Uses[x])
		// a parameter, or a local whose only write is its definition: it has one value wherever it is in scope
		return ok && n.assigned[v] == 0
	case *ast.SelectorExpr:
		sel, ok := n.info.Selections[x]
		if !ok || sel.Kind() != types.FieldVal {
			return false
		}
		return n.stable(x.X)
	case *ast.UnaryExpr:
		return (x.Op == token.NOT || x.Op == token.SUB) && n.stable(x.X)
	case *ast.BinaryExpr:
		switch x.Op {
		case token.ADD, token.SUB, token.MUL:
			tx, ty := n.info.TypeOf(x.X), n.info.TypeOf(x.Y)
			return tx != nil && ty != nil && pgIsInt(tx) && pgIsInt(ty) && n.stable(x.X) && n.stable(x.Y)
		case token.EQL, token.NEQ, token.LSS, token.LEQ, token.GTR, token.GEQ:
			tx, ty := n.info.TypeOf(x.X), n.info.TypeOf(x.Y)
			return tx != nil && ty != nil && pgIsInt(tx) && pgIsInt(ty) && n.stable(x.X) && n.stable(x.Y)
		case token.LAND, token.LOR:
			return n.stable(x.X) && n.stable(x.Y)
		}
	case *ast.CallExpr:
		if len(x.Args) != 1 || x.Ellipsis.IsValid() {
			return false
		}
		if n.info.Types[x.Fun].IsType() { // conversion between integer types
			from, to := n.info.TypeOf(x.Args[0]), n.info.TypeOf(x.Fun)
			return from != nil && to != nil && pgIsInt(from) && pgIsInt(to) && n.stable(x.Args[0])
		}
		if id, ok := x.Fun.(*ast.Ident); ok {
			if b, ok := n.info.Uses[id].(*types.Builtin); ok && (b.Name() == "len" || b.Name() == "cap") {
				t := n.info.TypeOf(x.Args[0])
				if t == nil {
					return false
				}
				switch t.Underlying().(type) {
				case *types.Slice:
					return n.stable(x.Args[0])
				case *types.Basic:
					return pgIsString(t) && b.Name() == "len" && n.stable(x.Args[0])
				}
			}
		}
	}
	return false
}

// is the variable mentioned in the node
func (n *gnCtx) mentions(node ast.Node, v *types.Var) bool {
	found := false
	if node == nil {
		return false
	}
	ast.Inspect(node, func(m ast.Node) bool {
		if id, ok := m.(*ast.Ident); ok && (n.info.Uses[id] == v || n.info.Defs[id] == v) {
			found = true
		}
		return !found
	})
	return found
}

func (n *gnCtx) inlineStable(body *ast.BlockStmt) {
	// the loops of the body, as regions
	type region struct{ pos, end token.Pos }
	var loops []ast.Node
	ast.Inspect(body, func(m ast.Node) bool {
		switch m.(type) {
		case *ast.ForStmt, *ast.RangeStmt:
			loops = append(loops, m)
		}
		return true
	})
	// the calls of helpers (prochelper.go): a helper may loop, and its body is translated in the caller's place
	var helperCalls []*ast.CallExpr
	ast.Inspect(body, func(m ast.Node) bool {
		if call, ok := m.(*ast.CallExpr); ok {
			if tf := calleeObj(n.info, call); tf != nil && helperDecl(tf, n.pkg, n.g.byObj[tf] != nil) != nil {
				helperCalls = append(helperCalls, call)
			}
		}
		return true
	})
	usedInLoopOutsideDef := func(v *types.Var, def ast.Stmt) bool {
		for _, l := range loops {
			if l.Pos() <= def.Pos() && def.End() <= l.End() {
				continue // the loop contains the definition
			}
			if n.mentions(l, v) {
				return true
			}
		}
		for _, call := range helperCalls {
			if n.mentions(call, v) {
				return true
			}
		}
		return false
	}
	for changed := true; changed; {
		changed = false
		gnBlocks(body, func(list *[]ast.Stmt) {
			if changed {
				return
			}
			for i, s := range *list {
				as, ok := s.(*ast.AssignStmt)
				if !ok || as.Tok != token.DEFINE || len(as.Lhs) != 1 || len(as.Rhs) != 1 {
					continue
				}
				id, ok := as.Lhs[0].(*ast.Ident)
				if !ok || id.Name == "_" {
					continue
				}
				v, ok := n.info.Defs[id].(*types.Var)
				if !ok || n.assigned[v] != 0 || !n.stable(as.Rhs[0]) || !usedInLoopOutsideDef(v, s) {
					continue
				}
				// the variable and the expression must have the same type (no implicit conversion at the definition)
				if !types.Identical(v.Type(), n.info.TypeOf(as.Rhs[0])) {
					continue
				}
				e := as.Rhs[0]
				gnRewrite(body, func(x ast.Expr) ast.Expr {
					if u, ok := x.(*ast.Ident); ok && n.info.Uses[u] == v {
						return e
					}
					return x
				})
				*list = append(append([]ast.Stmt{}, (*list)[:i]...), (*list)[i+1:]...)
				changed = true
				return
			}
		})
	}
}

// ---- N7 ----

func (n *gnCtx) loopLocals(body *ast.BlockStmt) {
	gnBlocks(body, func(list *[]ast.Stmt) {
		for di := 0; di < len(*list); di++ {
			ds, ok := (*list)[di].(*ast.DeclStmt)
			if !ok {
				continue
			}
			gd, ok := ds.Decl.(*ast.GenDecl)
			if !ok || gd.Tok != token.VAR {
				continue
			}
			var keepSpecs []ast.Spec
			for _, sp := range gd.Specs {
				vs := sp.(*ast.ValueSpec)
				if len(vs.Values) != 0 {
					keepSpecs = append(keepSpecs, sp)
					continue
				}
				var keep []*ast.Ident
				for _, id := range vs.Names {
					v, _ := n.info.Defs[id].(*types.Var)
					if v == nil || !n.isLoopLocal(v, id, (*list)[di+1:], body) {
						keep = append(keep, id)
						continue
					}
					n.local[v] = true
				}
				if len(keep) > 0 {
					vs.Names = keep
					keepSpecs = append(keepSpecs, vs)
				}
			}
			gd.Specs = keepSpecs
			if len(gd.Specs) == 0 {
				*list = append(append([]ast.Stmt{}, (*list)[:di]...), (*list)[di+1:]...)
				di--
			}
		}
	})
}

// v (declared by `var v T`, the statements after the declaration in its block being `after`) is mentioned in exactly one
// of those statements, a `for` loop (possibly labelled), and there the first statement of the body that mentions it is a plain
// assignment `… v … = rhs` with v not in rhs; the condition and the post statement do not mention it; no function literal does
func (n *gnCtx) isLoopLocal(v *types.Var, decl *ast.Ident, after []ast.Stmt, body *ast.BlockStmt) bool {
	// mentioned nowhere in the function but in `after` (and at its declaration)
	count := 0
	ast.Inspect(body, func(m ast.Node) bool {
		if id, ok := m.(*ast.Ident); ok && id != decl && (n.info.Uses[id] == v || n.info.Defs[id] == v) {
			count++
		}
		return true
	})
	var loop *ast.ForStmt
	inAfter := 0
	for _, s := range after {
		if !n.mentions(s, v) {
			continue
		}
		if ls, ok := s.(*ast.LabeledStmt); ok {
			s = ls.Stmt
		}
		fs, ok := s.(*ast.ForStmt)
		if !ok || loop != nil {
			return false
		}
		loop = fs
		ast.Inspect(fs, func(m ast.Node) bool {
			if id, ok := m.(*ast.Ident); ok && (n.info.Uses[id] == v || n.info.Defs[id] == v) {
				inAfter++
			}
			return true
		})
	}
	if loop == nil || inAfter != count {
		return false
	}
	if n.mentions(loop.Init, v) || n.mentions(loop.Cond, v) || n.mentions(loop.Post, v) {
		return false
	}
	lit := false
	ast.Inspect(loop.Body, func(m ast.Node) bool {
		if fl, ok := m.(*ast.FuncLit); ok && n.mentions(fl, v) {
			lit = true
		}
		return true
	})
	if lit {
		return false
	}
	for _, s := range loop.Body.List {
		if !n.mentions(s, v) {
			continue
		}
		as, ok := s.(*ast.AssignStmt)
		if !ok || as.Tok != token.ASSIGN {
			return false
		}
		isTarget := false
		for _, l := range as.Lhs {
			if id, ok := l.(*ast.Ident); ok && n.info.Uses[id] == v {
				isTarget = true
			} else if n.mentions(l, v) {
				return false
			}
		}
		for _, r := range as.Rhs {
			if n.mentions(r, v) {
				return false
			}
		}
		return isTarget
	}
	return false
}

// ---- rewriting of the expressions of a subtree (every position an expression can stand in) ----

func gnRewrite(n ast.Node, f func(ast.Expr) ast.Expr) {
	var ex func(e ast.Expr) ast.Expr
	var st func(s ast.Stmt)
	exs := func(l []ast.Expr) {
		for i := range l {
			l[i] = ex(l[i])
		}
	}
	ex = func(e ast.Expr) ast.Expr {
		if e == nil {
			return nil
		}
		switch x := e.(type) {
		case *ast.ParenExpr:
			x.X = ex(x.X)
		case *ast.UnaryExpr:
			x.X = ex(x.X)
		case *ast.StarExpr:
			x.X = ex(x.X)
		case *ast.BinaryExpr:
			x.X, x.Y = ex(x.X), ex(x.Y)
		case *ast.CallExpr:
			x.Fun = ex(x.Fun)
			exs(x.Args)
		case *ast.IndexExpr:
			x.X, x.Index = ex(x.X), ex(x.Index)
		case *ast.SliceExpr:
			x.X, x.Low, x.High, x.Max = ex(x.X), ex(x.Low), ex(x.High), ex(x.Max)
		case *ast.SelectorExpr:
			x.X = ex(x.X)
		case *ast.TypeAssertExpr:
			x.X = ex(x.X)
		case *ast.KeyValueExpr:
			x.Value = ex(x.Value)
		case *ast.CompositeLit:
			exs(x.Elts)
		case *ast.FuncLit:
			st(x.Body)
		}
		return f(e)
	}
	st = func(s ast.Stmt) {
		switch x := s.(type) {
		case nil:
		case *ast.BlockStmt:
			if x == nil {
				return
			}
			for _, y := range x.List {
				st(y)
			}
		case *ast.ExprStmt:
			x.X = ex(x.X)
		case *ast.AssignStmt:
			exs(x.Lhs)
			exs(x.Rhs)
		case *ast.IncDecStmt:
			x.X = ex(x.X)
		case *ast.ReturnStmt:
			exs(x.Results)
		case *ast.IfStmt:
			st(x.Init)
			x.Cond = ex(x.Cond)
			st(x.Body)
			st(x.Else)
		case *ast.ForStmt:
			st(x.Init)
			x.Cond = ex(x.Cond)
			st(x.Post)
			st(x.Body)
		case *ast.RangeStmt:
			x.X = ex(x.X)
			st(x.Body)
		case *ast.SwitchStmt:
			st(x.Init)
			x.Tag = ex(x.Tag)
			st(x.Body)
		case *ast.TypeSwitchStmt:
			st(x.Init)
			st(x.Assign)
			st(x.Body)
		case *ast.CaseClause:
			exs(x.List)
			for _, y := range x.Body {
				st(y)
			}
		case *ast.LabeledStmt:
			st(x.Stmt)
		case *ast.DeclStmt:
			if gd, ok := x.Decl.(*ast.GenDecl); ok {
				for _, sp := range gd.Specs {
					if vs, ok := sp.(*ast.ValueSpec); ok {
						exs(vs.Values)
					}
				}
			}
		case *ast.GoStmt:
			x.Call.Fun = ex(x.Call.Fun)
			exs(x.Call.Args)
		case *ast.DeferStmt:
			x.Call.Fun = ex(x.Call.Fun)
			exs(x.Call.Args)
		case *ast.SendStmt:
			x.Chan, x.Value = ex(x.Chan), ex(x.Value)
		}
	}
	switch x := n.(type) {
	case ast.Stmt:
		st(x)
	case ast.Expr:
		ex(x)
	}
}

// ---- N8 ----

// a copy of the stable expression e with the parameters replaced; nil when e is outside the grammar of `stable`
func (n *gnCtx) instantiate(e ast.Expr, subst map[*types.Var]ast.Expr) ast.Expr {
	tv, has := n.info.Types[e]
	reg := func(x ast.Expr) ast.Expr {
		if has {
			n.info.Types[x] = tv
		}
		return x
	}
	switch x := e.(type) {
	case *ast.BasicLit:
		return x
	case *ast.ParenExpr:
		if in := n.instantiate(x.X, subst); in != nil {
			return reg(&ast.ParenExpr{Lparen: x.Lparen, X: in, Rparen: x.Rparen})
		}
	case *ast.Ident:
		if tv.Value != nil || tv.IsType() || tv.IsBuiltin() {
			return x
		}
		if v, ok := n.info.Uses[x].(*types.Var); ok {
			if r, ok := subst[v]; ok {
				return r
			}
		}
		return nil // anything else (a local of the helper, a package-level variable)
	case *ast.SelectorExpr:
		if tv.Value != nil { // a qualified constant
			return x
		}
		sel, ok := n.info.Selections[x]
		if !ok || sel.Kind() != types.FieldVal {
			return nil
		}
		if in := n.instantiate(x.X, subst); in != nil {
			out := &ast.SelectorExpr{X: in, Sel: x.Sel}
			n.info.Selections[out] = sel
			return reg(out)
		}
	case *ast.UnaryExpr:
		if in := n.instantiate(x.X, subst); in != nil {
			return reg(&ast.UnaryExpr{OpPos: x.OpPos, Op: x.Op, X: in})
		}
	case *ast.BinaryExpr:
		a, b := n.instantiate(x.X, subst), n.instantiate(x.Y, subst)
		if a != nil && b != nil {
			return reg(&ast.BinaryExpr{X: a, OpPos: x.OpPos, Op: x.Op, Y: b})
		}
	case *ast.CallExpr:
		if len(x.Args) != 1 || x.Ellipsis.IsValid() {
			return nil
		}
		if in := n.instantiate(x.Args[0], subst); in != nil {
			return reg(&ast.CallExpr{Fun: x.Fun, Lparen: x.Lparen, Args: []ast.Expr{in}, Rparen: x.Rparen})
		}
	}
	return nil
}

func (n *gnCtx) expressionHelpers(body *ast.BlockStmt) {
	gnRewrite(body, func(e ast.Expr) ast.Expr {
		call, ok := e.(*ast.CallExpr)
		if !ok || call.Ellipsis.IsValid() {
			return e
		}
		tf := calleeObj(n.info, call)
		if tf == nil {
			return e
		}
		fd := helperDecl(tf, n.pkg, n.g.byObj[tf] != nil)
		if fd == nil || len(fd.Body.List) != 1 {
			return e
		}
		rs, ok := fd.Body.List[0].(*ast.ReturnStmt)
		if !ok || len(rs.Results) != 1 {
			return e
		}
		sig := tf.Type().(*types.Signature)
		if sig.Variadic() || sig.Params().Len() != len(call.Args) || sig.Results().Len() != 1 {
			return e
		}
		subst := map[*types.Var]ast.Expr{}
		if r := sig.Recv(); r != nil {
			f, ok := call.Fun.(*ast.SelectorExpr)
			if !ok || !n.stable(f.X) {
				return e
			}
			// (a pointer receiver called on an addressable value, or the reverse: the selection inserts & / *; only the plain case)
			if !types.Identical(n.info.TypeOf(f.X), r.Type()) {
				return e
			}
			subst[r] = f.X
		}
		for i, a := range call.Args {
			p := sig.Params().At(i)
			if !n.stable(a) || !types.Identical(n.info.TypeOf(a), p.Type()) {
				return e
			}
			subst[p] = a
		}
		// the body must be stable over its parameters: check on the instance (the parameters replaced by stable expressions)
		in := n.instantiate(rs.Results[0], subst)
		if in == nil || !n.stable(in) || !types.Identical(n.info.TypeOf(in), sig.Results().At(0).Type()) {
			return e
		}
		return in
	})
}

// tf is a helper of the package (prochelper.go) that neither assigns its receiver (or a field path of it) nor calls, on
// any variable, a pointer method that is not itself translated as read-only or such a helper
func (n *gnCtx) readOnlyHelper(tf *types.Func, seen map[*types.Func]bool) bool {
	if seen[tf] {
		return true
	}
	seen[tf] = true
	fd := helperDecl(tf, n.pkg, n.g.byObj[tf] != nil)
	if fd == nil {
		return false
	}
	recv := tf.Type().(*types.Signature).Recv()
	for _, v := range pgAssignedG(n.g, n.info, fd.Body) {
		if v == recv {
			return false
		}
	}
	ok := true
	ast.Inspect(fd.Body, func(m ast.Node) bool {
		call, isCall := m.(*ast.CallExpr)
		if !isCall {
			return true
		}
		f, isSel := call.Fun.(*ast.SelectorExpr)
		if !isSel {
			return true
		}
		sel, has := n.info.Selections[f]
		if !has || sel.Kind() != types.MethodVal {
			return true
		}
		sig, _ := sel.Obj().Type().(*types.Signature)
		if sig == nil || sig.Recv() == nil {
			return true
		}
		if _, isPtr := sig.Recv().Type().(*types.Pointer); !isPtr {
			return true
		}
		obj := sel.Obj()
		if types.IsInterface(sel.Recv()) {
			if d := n.g.dispatch(sel); d != nil {
				obj = d
			}
		}
		callee, _ := obj.(*types.Func)
		if callee == nil {
			ok = false
			return true
		}
		if fn := n.g.byObj[callee]; fn != nil {
			if fn.inout {
				ok = false
			}
		} else if !n.readOnlyHelper(callee, seen) {
			ok = false
		}
		return true
	})
	return ok
}
