package main

// C15 — IntSet and IntMap are persistent.
// Histories over a pool of previously produced values; after EVERY operation all pool values are
// re-read through the public API and compared (a) with the value computed by a plain Go reference at
// the time the value was created (oracle: persistence + functional correctness) and (b) with the
// Lean slice-heap model's snapshot.

import (
	"fmt"
	"math/rand"
	"sort"
	"strings"

	"github.com/opsidian/parsley/data"
)

func showInts(l []int) string {
	s := make([]string, len(l))
	for i, v := range l {
		s[i] = fmt.Sprint(v)
	}
	return "[" + strings.Join(s, ",") + "]"
}

func showMap(m map[int]int) string {
	keys := make([]int, 0, len(m))
	for k := range m {
		keys = append(keys, k)
	}
	sort.Ints(keys)
	s := make([]string, len(keys))
	for i, k := range keys {
		s[i] = fmt.Sprintf("%d:%d", k, m[k])
	}
	return "{" + strings.Join(s, ",") + "}"
}

func readSet(s data.IntSet) []int {
	var out []int
	s.Each(func(v int) { out = append(out, v) })
	return out
}

// readMap re-reads a map through Keys/Get and Each and cross-checks them.
func readMap(m data.IntMap) (map[int]int, string) {
	out := map[int]int{}
	for _, k := range m.Keys() {
		if _, dup := out[k]; dup {
			return out, fmt.Sprintf("Keys() returned %d twice", k)
		}
		out[k] = m.Get(k)
	}
	n := 0
	bad := ""
	m.Each(func(k, v int) {
		n++
		if w, ok := out[k]; !ok || w != v {
			bad = fmt.Sprintf("Each gives %d:%d but Keys/Get give %v", k, v, out)
		}
	})
	if bad == "" && n != len(out) {
		bad = "Each and Keys disagree on the number of entries"
	}
	return out, bad
}

func c15Exec(c *Sexp) Outcome {
	type pv struct {
		set    *data.IntSet
		m      *data.IntMap
		refSet []int       // reference value fixed at creation
		refMap map[int]int // reference value fixed at creation
	}
	var pool []pv
	var outs []string
	fail := ""
	tags := map[string]bool{}
	shared := false
	for step, op := range c.List {
		a := op.Args()
		out := "-"
		getSet := func(x *Sexp) *pv {
			i := x.Int()
			if i < len(pool) && pool[i].set != nil {
				return &pool[i]
			}
			return nil
		}
		getMap := func(x *Sexp) *pv {
			i := x.Int()
			if i < len(pool) && pool[i].m != nil {
				return &pool[i]
			}
			return nil
		}
		refInsert := func(l []int, v int) []int {
			for _, x := range l {
				if x == v {
					return append([]int{}, l...)
				}
			}
			r := append(append([]int{}, l...), v)
			sort.Ints(r)
			return r
		}
		tags["op:"+op.Head()] = true
		switch op.Head() {
		case "newSet":
			vals := make([]int, len(a))
			for i, x := range a {
				vals[i] = x.Int()
			}
			s := data.NewIntSet(vals...)
			var ref []int
			for _, v := range vals {
				ref = refInsert(ref, v)
			}
			pool = append(pool, pv{set: &s, refSet: ref})
		case "insert":
			if p := getSet(a[0]); p != nil {
				s := p.set.Insert(a[1].Int())
				pool = append(pool, pv{set: &s, refSet: refInsert(p.refSet, a[1].Int())})
				shared = true
			} else {
				out = "bad-op"
			}
		case "union":
			p, q := getSet(a[0]), getSet(a[1])
			if p != nil && q != nil {
				s := p.set.Union(*q.set)
				ref := append([]int{}, p.refSet...)
				for _, v := range q.refSet {
					ref = refInsert(ref, v)
				}
				pool = append(pool, pv{set: &s, refSet: ref})
				shared = true
			} else {
				out = "bad-op"
			}
		case "len":
			if p := getSet(a[0]); p != nil {
				out = fmt.Sprint(p.set.Len())
				if p.set.Len() != len(p.refSet) {
					fail = fmt.Sprintf("step %d: Len() = %d, reference %d", step, p.set.Len(), len(p.refSet))
				}
			} else {
				out = "bad-op"
			}
		case "each":
			if p := getSet(a[0]); p != nil {
				out = showInts(readSet(*p.set))
			} else {
				out = "bad-op"
			}
		case "newMap":
			m := map[int]int{}
			ref := map[int]int{}
			for _, kv := range a {
				m[kv.List[0].Int()] = kv.List[1].Int()
				ref[kv.List[0].Int()] = kv.List[1].Int()
			}
			im := data.NewIntMap(m)
			pool = append(pool, pv{m: &im, refMap: ref})
		case "inc":
			if p := getMap(a[0]); p != nil {
				im := p.m.Inc(a[1].Int())
				ref := map[int]int{}
				for k, v := range p.refMap {
					ref[k] = v
				}
				ref[a[1].Int()]++
				pool = append(pool, pv{m: &im, refMap: ref})
				shared = true
			} else {
				out = "bad-op"
			}
		case "filter":
			p, q := getMap(a[0]), getSet(a[1])
			if p != nil && q != nil {
				im := p.m.Filter(*q.set)
				ref := map[int]int{}
				for _, k := range q.refSet {
					if v, ok := p.refMap[k]; ok {
						ref[k] = v
					}
				}
				pool = append(pool, pv{m: &im, refMap: ref})
				shared = true
			} else {
				out = "bad-op"
			}
		case "get":
			if p := getMap(a[0]); p != nil {
				out = fmt.Sprint(p.m.Get(a[1].Int()))
				if p.m.Get(a[1].Int()) != p.refMap[a[1].Int()] {
					fail = fmt.Sprintf("step %d: Get(%d) = %d, reference %d", step, a[1].Int(), p.m.Get(a[1].Int()), p.refMap[a[1].Int()])
				}
			} else {
				out = "bad-op"
			}
		case "keys":
			if p := getMap(a[0]); p != nil {
				ks := p.m.Keys()
				sort.Ints(ks)
				out = showInts(ks)
			} else {
				out = "bad-op"
			}
		case "eachMap":
			if p := getMap(a[0]); p != nil {
				m, _ := readMap(*p.m)
				out = showMap(m)
			} else {
				out = "bad-op"
			}
		default:
			out = "bad-op"
		}
		// re-read every value produced so far
		snap := make([]string, len(pool))
		for i, p := range pool {
			if p.set != nil {
				got := readSet(*p.set)
				snap[i] = showInts(got)
				if fail == "" && snap[i] != showInts(p.refSet) {
					fail = fmt.Sprintf("after step %d (%s): set #%d reads %s, but it was created as %s", step, op, i, snap[i], showInts(p.refSet))
				}
				if fail == "" && !sort.IntsAreSorted(got) {
					fail = fmt.Sprintf("after step %d: set #%d iterates out of order: %s", step, i, snap[i])
				}
			} else {
				got, bad := readMap(*p.m)
				snap[i] = showMap(got)
				if fail == "" && bad != "" {
					fail = fmt.Sprintf("after step %d: map #%d: %s", step, i, bad)
				}
				if fail == "" && snap[i] != showMap(p.refMap) {
					fail = fmt.Sprintf("after step %d (%s): map #%d reads %s, but it was created as %s", step, op, i, snap[i], showMap(p.refMap))
				}
			}
		}
		outs = append(outs, out+"|"+strings.Join(snap, " "))
	}
	var tl []string
	for t := range tags {
		tl = append(tl, t)
	}
	sort.Strings(tl)
	tl = append(tl, fmt.Sprintf("ops:%d", bucket(len(c.List))))
	return Outcome{Real: strings.Join(outs, ";"), OracleFail: fail, Nontrivial: shared && len(pool) >= 3, Tags: tl}
}

func bucket(n int) int {
	switch {
	case n <= 4:
		return 4
	case n <= 8:
		return 8
	case n <= 16:
		return 16
	case n <= 32:
		return 32
	}
	return 64
}

func c15Gen(rng *rand.Rand, tier string, i int) *Sexp {
	maxOps := 24
	if tier == "thorough" {
		maxOps = 48
	}
	nOps := 2 + rng.Intn(maxOps)
	dom := 4 + rng.Intn(8)
	val := func() *Sexp { return N(rng.Intn(dom) - 2) }
	var kinds []byte // 's' or 'm'
	pick := func(k byte) int {
		var idx []int
		for i, x := range kinds {
			if x == k {
				idx = append(idx, i)
			}
		}
		if len(idx) == 0 {
			return -1
		}
		// bias towards recent values (shared history) but keep old ones in play
		if rng.Intn(3) == 0 {
			return idx[len(idx)-1]
		}
		return idx[rng.Intn(len(idx))]
	}
	c := L()
	if i%8 == 3 {
		// directed family: a base set with SPARE CAPACITY (built with duplicates, or by inserting a value
		// already present, or by an overlapping union) is extended several times from the same base by
		// operations that add only values above / below / inside it — every earlier result is re-read
		// after each step, so an operation that appends into the base's backing array is seen
		lo := rng.Intn(3)
		base := []*Sexp{N(lo), N(lo), N(lo + 1)}
		if rng.Intn(2) == 0 {
			base = append(base, N(lo+1), N(lo+2))
		}
		c.List = append(c.List, LA("newSet", base...))
		kinds = append(kinds, 's')
		b := 0
		if rng.Intn(3) == 0 {
			c.List = append(c.List, LA("insert", N(0), N(lo)))
			kinds = append(kinds, 's')
			b = 1
		}
		for k := 0; k < 2+rng.Intn(3); k++ {
			switch rng.Intn(3) {
			case 0:
				c.List = append(c.List, LA("newSet", N(lo+5+k), N(lo+7+k)))
				kinds = append(kinds, 's')
				c.List = append(c.List, LA("union", N(b), N(len(kinds)-1)))
				kinds = append(kinds, 's')
			case 1:
				c.List = append(c.List, LA("insert", N(b), N(lo+4+k)))
				kinds = append(kinds, 's')
			default:
				c.List = append(c.List, LA("newSet", N(lo-3-k)))
				kinds = append(kinds, 's')
				c.List = append(c.List, LA("union", N(len(kinds)-1), N(b)))
				kinds = append(kinds, 's')
			}
		}
	}
	for len(c.List) < nOps {
		r := rng.Intn(100)
		s, m := pick('s'), pick('m')
		switch {
		case r < 12 || (s < 0 && r < 50):
			k := rng.Intn(6)
			vs := make([]*Sexp, k)
			for j := range vs {
				vs[j] = val()
			}
			c.List = append(c.List, LA("newSet", vs...))
			kinds = append(kinds, 's')
		case r < 35 && s >= 0:
			c.List = append(c.List, LA("insert", N(s), val()))
			kinds = append(kinds, 's')
		case r < 50 && s >= 0:
			c.List = append(c.List, LA("union", N(s), N(pick('s'))))
			kinds = append(kinds, 's')
		case r < 54 && s >= 0:
			c.List = append(c.List, LA("len", N(s)))
		case r < 58 && s >= 0:
			c.List = append(c.List, LA("each", N(s)))
		case r < 66 || m < 0:
			k := rng.Intn(5)
			seen := map[int]bool{}
			var kvs []*Sexp
			for j := 0; j < k; j++ {
				key := rng.Intn(dom) - 2
				if seen[key] {
					continue
				}
				seen[key] = true
				kvs = append(kvs, L(N(key), N(rng.Intn(4))))
			}
			c.List = append(c.List, LA("newMap", kvs...))
			kinds = append(kinds, 'm')
		case r < 82:
			c.List = append(c.List, LA("inc", N(m), val()))
			kinds = append(kinds, 'm')
		case r < 90 && s >= 0:
			c.List = append(c.List, LA("filter", N(m), N(s)))
			kinds = append(kinds, 'm')
		case r < 94:
			c.List = append(c.List, LA("get", N(m), val()))
		case r < 97:
			c.List = append(c.List, LA("keys", N(m)))
		default:
			c.List = append(c.List, LA("eachMap", N(m)))
		}
	}
	return c
}

// c15Exhaustive enumerates all short set histories over a tiny domain (thorough tier, appended to the stream).
func c15Small(i int) *Sexp {
	// mixed-radix decoding of i into: newSet with up to 3 values from {1,2,3}, then 3 ops from a fixed menu
	vals := []int{1, 2, 3}
	c := L()
	k := i % 4
	i /= 4
	vs := make([]*Sexp, k)
	for j := 0; j < k; j++ {
		vs[j] = N(vals[i%3])
		i /= 3
	}
	c.List = append(c.List, LA("newSet", vs...))
	for step := 0; step < 3; step++ {
		n := len(c.List) // pool size so far (every op below creates a value)
		choice := i % 8
		i /= 8
		switch {
		case choice < 4:
			c.List = append(c.List, LA("insert", N(i%n), N(choice)))
		default:
			c.List = append(c.List, LA("union", N(i%n), N((i/n)%n)))
		}
		i /= n * n
	}
	return c
}

func c15Shrink(c *Sexp) []*Sexp {
	var out []*Sexp
	// drop trailing operations
	for n := len(c.List) - 1; n >= 1; n-- {
		out = append(out, &Sexp{IsL: true, List: c.Clone().List[:n]})
	}
	// drop one non-creating operation
	for i, op := range c.List {
		switch op.Head() {
		case "len", "each", "get", "keys", "eachMap":
			d := c.Clone()
			d.List = append(d.List[:i], d.List[i+1:]...)
			out = append(out, d)
		}
	}
	// drop one creating operation nobody refers to later, renumbering
	created := -1
	for i, op := range c.List {
		switch op.Head() {
		case "newSet", "insert", "union", "newMap", "inc", "filter":
			created++
			used := false
			idx := created
			for _, later := range c.List[i+1:] {
				for k, a := range later.Args() {
					if later.Head() == "newSet" || later.Head() == "newMap" {
						continue
					}
					isIdx := k == 0 || ((later.Head() == "union" || later.Head() == "filter") && k == 1)
					if isIdx && a.Int() == idx {
						used = true
					}
				}
			}
			if used {
				continue
			}
			d := c.Clone()
			d.List = append(d.List[:i], d.List[i+1:]...)
			for _, later := range d.List[i:] {
				if later.Head() == "newSet" || later.Head() == "newMap" {
					continue
				}
				for k, a := range later.Args() {
					isIdx := k == 0 || ((later.Head() == "union" || later.Head() == "filter") && k == 1)
					if isIdx && a.Int() > idx {
						a.Atom = fmt.Sprint(a.Int() - 1)
					}
				}
			}
			out = append(out, d)
		}
	}
	// shrink newSet literals
	for i, op := range c.List {
		if op.Head() == "newSet" && len(op.List) > 1 {
			for k := 1; k < len(op.List); k++ {
				d := c.Clone()
				d.List[i].List = append(d.List[i].List[:k], d.List[i].List[k+1:]...)
				out = append(out, d)
			}
		}
	}
	return out
}

func init() {
	register(&Prop{
		ID:  "C15",
		Cmd: "c15",
		Rule: "random histories of NewIntSet/Insert/Union/Len/Each and NewIntMap/Inc/Filter/Get/Keys/Each over a pool of previously produced values " +
			"(operands drawn from the whole pool, biased to recent values); thorough adds the exhaustive family of 4-operation set histories over {1,2,3}; " +
			"after every operation all pool values are re-read. Non-trivial = the history derives at least one value from another and the pool has >= 3 values; distinct = distinct history text.",
		Count: func(tier string) int {
			if tier == "thorough" {
				return 60000
			}
			return 6000
		},
		Gen: func(rng *rand.Rand, tier string, i int) *Sexp {
			if tier == "thorough" && i < 20000 {
				return c15Small(i)
			}
			return c15Gen(rng, tier, i)
		},
		Exec:   c15Exec,
		Shrink: c15Shrink,
	})
}
