package main

// Building real parsers from the case language, canonical rendering of nodes / errors, probes.

import (
	"errors"
	"fmt"
	"math"
	"sort"
	"strconv"
	"strings"
	"sync"
	"time"

	"github.com/opsidian/parsley/ast"
	"github.com/opsidian/parsley/ast/interpreter"
	"github.com/opsidian/parsley/combinator"
	"github.com/opsidian/parsley/data"
	"github.com/opsidian/parsley/parser"
	"github.com/opsidian/parsley/parsley"
	"github.com/opsidian/parsley/text"
	"github.com/opsidian/parsley/text/terminal"
)

// --- memo index mirror -------------------------------------------------------------------------
// combinator.Memoize draws its index from a process wide counter.  Every Memoize call of this
// process goes through newMemos, which mirrors the counter (its start is discovered once by running
// a throw-away memoized parser and reading the key it left in the result cache).

var memoMu sync.Mutex
var memoCounter = -1

func discoverMemoBase() {
	m := combinator.Memoize(terminal.Rune('x'))
	f := text.NewFile("probe", []byte("x"))
	fs := parsley.NewFileSet(f)
	ctx := parsley.NewContext(fs, text.NewReader(f))
	m.Parse(ctx, data.EmptyIntMap, f.Pos(0))
	for k := range ctx.ResultCache() {
		memoCounter = k
	}
	if memoCounter < 0 {
		panic("cannot discover the memoize index base")
	}
}

// newMemos creates n memoized parsers (consecutive indexes, ascending) around the given bodies.
func newMemos(bodies []*parser.Func) (ps []parser.Func, idx []int) {
	memoMu.Lock()
	defer memoMu.Unlock()
	if memoCounter < 0 {
		discoverMemoBase()
	}
	for _, b := range bodies {
		ps = append(ps, combinator.Memoize(b))
		memoCounter++
		idx = append(idx, memoCounter)
	}
	return
}

// --- recorder: what the probes observe ------------------------------------------------------------

type budgetExceeded struct{ why string }

type recorder struct {
	termFails   []int          // positions at which a terminal / End failed (error position)
	maxTermFail int            // -1 if none
	active      map[[2]int]int // (k,pos) -> live activations of the memo body
	maxDepth    int
	bodyRuns    map[[2]int]int
	memoCalls   int
	bodyTotal   int
	budget      int
	deadline    time.Time
	maxList     int
	// C07: renderings at return time
	returned []returnedResult
	trackAll bool
	// C02: global end-of-input position, and the first violation of the activation bound
	end            int
	depthViolation string
}

type returnedResult struct {
	node     parsley.Node
	rendered string
	where    string
}

func newRecorder(budget int) *recorder {
	if budget >= 1000000 {
		// the C17 workloads: long inputs on unambiguous grammars
		return &recorder{maxTermFail: -1, active: map[[2]int]int{}, bodyRuns: map[[2]int]int{}, budget: budget,
			deadline: time.Now().Add(120 * time.Second), maxList: 1000000}
	}
	return &recorder{maxTermFail: -1, active: map[[2]int]int{}, bodyRuns: map[[2]int]int{}, budget: budget,
		deadline: time.Now().Add(3 * time.Second), maxList: 200}
}

func (r *recorder) check(ctx *parsley.Context, res parsley.Node) {
	if r.budget > 0 && ctx.CallCount() > r.budget {
		panic(budgetExceeded{"calls"})
	}
	if nl, ok := res.(ast.NodeList); ok && len(nl) > r.maxList {
		panic(budgetExceeded{"list"})
	}
	if time.Now().After(r.deadline) {
		panic(budgetExceeded{"time"})
	}
}

// --- grammar builder -------------------------------------------------------------------------------

type customInterp func(id int) parsley.Interpreter

type builder struct {
	env      []*parser.Func
	memos    map[int]parser.Func
	memoBody map[int]*parser.Func
	memoReal map[int]int // k -> real index
	realK    map[int]int // real index -> k
	built    map[int]bool
	rec      *recorder
	probes   bool
	custom   customInterp
	res      []string // regexp expressions by id (for terminal.Regexp)
}

func collectMemoKs(s *Sexp, out map[int]bool) {
	if !s.IsL {
		return
	}
	if s.Head() == "memo" {
		out[s.List[1].Int()] = true
	}
	for _, x := range s.List {
		collectMemoKs(x, out)
	}
}

func wsMode(s *Sexp) text.WsMode {
	switch s.Atom {
	case "none":
		return text.WsNone
	case "spaces":
		return text.WsSpaces
	case "nl":
		return text.WsSpacesNl
	case "force":
		return text.WsSpacesForceNl
	}
	panic("bad ws mode " + s.Atom)
}

func (b *builder) interp(s *Sexp) parsley.Interpreter {
	if !s.IsL {
		switch s.Atom {
		case "none":
			return nil
		case "array":
			return interpreter.Array()
		case "object":
			return interpreter.Object()
		case "nil":
			return interpreter.Nil()
		}
		panic("bad interp " + s.Atom)
	}
	switch s.Head() {
	case "select":
		return interpreter.Select(s.List[1].Int())
	case "custom":
		if b.custom == nil {
			return nil
		}
		return b.custom(s.List[1].Int())
	}
	panic("bad interp")
}

func (b *builder) seqOpts(seq *combinator.Sequence, o *Sexp) parsley.Parser {
	// (o interp name single token)
	if in := b.interp(o.List[1]); in != nil {
		seq = seq.Bind(in)
	}
	if o.List[2].Atom != "-" {
		seq = seq.Name(string(o.List[2].Bytes()))
	}
	if o.List[3].Atom != "0" {
		seq = seq.HandleResult(combinator.ReturnSingle())
	}
	if o.List[4].Atom != "-" {
		seq = seq.Token(string(o.List[4].Bytes()))
	}
	return seq
}

func (b *builder) probeTerm(p parsley.Parser) parsley.Parser {
	if !b.probes || b.rec == nil {
		return p
	}
	rec := b.rec
	return parser.Func(func(ctx *parsley.Context, lrc data.IntMap, pos parsley.Pos) (parsley.Node, data.IntSet, parsley.Error) {
		res, cp, err := p.Parse(ctx, lrc, pos)
		if res == nil && err != nil {
			rec.termFails = append(rec.termFails, int(err.Pos()))
			if int(err.Pos()) > rec.maxTermFail {
				rec.maxTermFail = int(err.Pos())
			}
		}
		rec.check(ctx, res)
		return res, cp, err
	})
}

// build wraps every parser of the grammar, when asked to, by a probe that renders the result at the
// moment it is returned (C07: the rendering must read the same at the end of the parse).
func (b *builder) build(s *Sexp) parsley.Parser {
	p := b.buildRaw(s)
	if b.rec == nil || !b.rec.trackAll {
		return p
	}
	rec := b.rec
	where := s.Head()
	return parser.Func(func(ctx *parsley.Context, lrc data.IntMap, pos parsley.Pos) (parsley.Node, data.IntSet, parsley.Error) {
		res, cp, err := p.Parse(ctx, lrc, pos)
		if res != nil && len(rec.returned) < 4000 {
			rec.returned = append(rec.returned, returnedResult{node: res, rendered: renderNode(res), where: fmt.Sprintf("%s at %d", where, pos)})
		}
		return res, cp, err
	})
}

func (b *builder) buildRaw(s *Sexp) parsley.Parser {
	a := s.Args()
	switch s.Head() {
	case "rune":
		return b.probeTerm(terminal.Rune(rune(a[0].Int())))
	case "op":
		return b.probeTerm(terminal.Op(string(a[0].Bytes())))
	case "word":
		return b.probeTerm(terminal.Word(nil, string(a[0].Bytes()), a[1].Int()))
	case "bool":
		return b.probeTerm(terminal.Bool(nil, string(a[0].Bytes()), string(a[1].Bytes())))
	case "nilw":
		return b.probeTerm(terminal.Nil(nil, string(a[0].Bytes())))
	case "int":
		return b.probeTerm(terminal.Integer(nil))
	case "float":
		return b.probeTerm(terminal.Float(nil))
	case "string":
		return b.probeTerm(terminal.String(nil, a[0].Int() != 0))
	case "char":
		return b.probeTerm(terminal.Char(nil))
	case "dur":
		return b.probeTerm(terminal.TimeDuration(nil))
	case "regexp":
		id := a[0].Int()
		return b.probeTerm(terminal.Regexp(nil, string(a[1].Bytes()), string(a[2].Bytes()), b.res[id], a[3].Int()))
	case "empty":
		return parser.Empty()
	case "eof":
		return b.probeTerm(parser.End())
	case "ref":
		return b.env[a[0].Int()]
	case "memo":
		k := a[0].Int()
		if !b.built[k] {
			b.built[k] = true
			body := b.build(a[1])
			rec := b.rec
			probes := b.probes
			*b.memoBody[k] = func(ctx *parsley.Context, lrc data.IntMap, pos parsley.Pos) (parsley.Node, data.IntSet, parsley.Error) {
				if probes {
					key := [2]int{k, int(pos)}
					rec.active[key]++
					if rec.active[key] > rec.maxDepth {
						rec.maxDepth = rec.active[key]
					}
					if rec.end > 0 && rec.active[key] > rec.end-int(pos)+2 {
						if rec.depthViolation == "" {
							rec.depthViolation = fmt.Sprintf("memoized parser #%d is active %d times at position %d, remaining input %d: bound remaining+2 exceeded", k, rec.active[key], pos, rec.end-int(pos))
						}
						if rec.active[key] > rec.end-int(pos)+40 {
							panic(budgetExceeded{"depth"})
						}
					}
					rec.bodyRuns[key]++
					rec.bodyTotal++
					rec.check(ctx, nil)
					defer func() { rec.active[key]-- }()
				}
				return body.Parse(ctx, lrc, pos)
			}
		}
		m := b.memos[k]
		if !b.probes {
			return m
		}
		rec := b.rec
		return parser.Func(func(ctx *parsley.Context, lrc data.IntMap, pos parsley.Pos) (parsley.Node, data.IntSet, parsley.Error) {
			rec.memoCalls++
			rec.check(ctx, nil)
			res, cp, err := m.Parse(ctx, lrc, pos)
			rec.check(ctx, res)
			return res, cp, err
		})
	case "any":
		ps := make([]parsley.Parser, len(a))
		for i, x := range a {
			ps[i] = b.build(x)
		}
		return combinator.Any(ps...)
	case "choice":
		ps := make([]parsley.Parser, len(a))
		for i, x := range a {
			ps[i] = b.build(x)
		}
		return combinator.Choice(ps...)
	case "seq":
		ps := make([]parsley.Parser, len(a)-2)
		for i, x := range a[2:] {
			ps[i] = b.build(x)
		}
		var seq *combinator.Sequence
		switch a[0].Atom {
		case "of":
			seq = combinator.SeqOf(ps...)
		case "try":
			seq = combinator.SeqTry(ps...)
		case "foa":
			seq = combinator.SeqFirstOrAll(ps...)
		default:
			panic("bad seq kind")
		}
		return b.seqOpts(seq, a[1])
	case "sentence":
		// combinator.Sentence creates its own End parser, which cannot be wrapped: its failures are
		// inferred from the inner parser's alternatives (End is tried at the end of each one, in
		// order, until one of them is at the end of the input)
		inner := b.build(a[0])
		if !b.probes {
			return combinator.Sentence(inner)
		}
		rec := b.rec
		return combinator.Sentence(parser.Func(func(ctx *parsley.Context, lrc data.IntMap, pos parsley.Pos) (parsley.Node, data.IntSet, parsley.Error) {
			res, cp, err := inner.Parse(ctx, lrc, pos)
			var alts []parsley.Node
			if nl, ok := res.(ast.NodeList); ok {
				alts = nl
			} else if res != nil {
				alts = []parsley.Node{res}
			}
			for _, n := range alts {
				if ctx.Reader().IsEOF(n.ReaderPos()) {
					break
				}
				rec.termFails = append(rec.termFails, int(n.ReaderPos()))
				if int(n.ReaderPos()) > rec.maxTermFail {
					rec.maxTermFail = int(n.ReaderPos())
				}
			}
			return res, cp, err
		}))
	case "many":
		p := b.build(a[2])
		if a[0].Int() != 0 {
			return b.seqOpts(combinator.Many(p), a[1])
		}
		return b.seqOpts(combinator.Many1(p), a[1])
	case "sepby":
		v, sp := b.build(a[2]), b.build(a[3])
		if a[0].Int() != 0 {
			return b.seqOpts(combinator.SepBy(v, sp), a[1])
		}
		return b.seqOpts(combinator.SepBy1(v, sp), a[1])
	case "opt":
		return combinator.Optional(b.build(a[0]))
	case "name":
		p := b.build(a[1])
		f := parser.Func(func(ctx *parsley.Context, lrc data.IntMap, pos parsley.Pos) (parsley.Node, data.IntSet, parsley.Error) {
			return p.Parse(ctx, lrc, pos)
		})
		return f.Name(string(a[0].Bytes()))
	case "ltrim":
		return text.LeftTrim(b.build(a[1]), wsMode(a[0]))
	case "rtrim":
		return text.RightTrim(b.build(a[1]), wsMode(a[0]))
	case "single":
		return combinator.Single(b.build(a[0]))
	case "suppress":
		return combinator.SuppressError(b.build(a[0]))
	}
	panic("bad grammar term: " + s.String())
}

type grammar struct {
	b    *builder
	root parsley.Parser
}

// buildGrammar builds env and root.  All memoized parsers are created first, in ascending k, around
// placeholder bodies, so that real indexes are ordered like the case's k.
func buildGrammar(envS []*Sexp, rootS *Sexp, rec *recorder, probes bool, custom customInterp, res []string) *grammar {
	ks := map[int]bool{}
	for _, e := range envS {
		collectMemoKs(e, ks)
	}
	collectMemoKs(rootS, ks)
	var sorted []int
	for k := range ks {
		sorted = append(sorted, k)
	}
	sort.Ints(sorted)
	b := &builder{memos: map[int]parser.Func{}, memoBody: map[int]*parser.Func{}, memoReal: map[int]int{}, realK: map[int]int{},
		built: map[int]bool{}, rec: rec, probes: probes, custom: custom, res: res}
	bodies := make([]*parser.Func, len(sorted))
	for i := range sorted {
		bodies[i] = new(parser.Func)
	}
	ms, idx := newMemos(bodies)
	for i, k := range sorted {
		b.memos[k] = ms[i]
		b.memoBody[k] = bodies[i]
		b.memoReal[k] = idx[i]
		b.realK[idx[i]] = k
	}
	b.env = make([]*parser.Func, len(envS))
	for i := range envS {
		b.env[i] = new(parser.Func)
	}
	for i, e := range envS {
		p := b.build(e)
		*b.env[i] = func(ctx *parsley.Context, lrc data.IntMap, pos parsley.Pos) (parsley.Node, data.IntSet, parsley.Error) {
			if rec == nil {
				return p.Parse(ctx, lrc, pos)
			}
			rec.check(ctx, nil)
			res, cp, err := p.Parse(ctx, lrc, pos)
			rec.check(ctx, res)
			return res, cp, err
		}
	}
	return &grammar{b: b, root: b.build(rootS)}
}

// --- rendering ---------------------------------------------------------------------------------------

func hexs(s string) string { return "x" + fmt.Sprintf("%x", s) }

func renderVal(v interface{}) string {
	switch x := v.(type) {
	case nil:
		return "nil"
	case rune:
		return fmt.Sprintf("r%d", x)
	case string:
		return "s" + hexs(x)
	case int64:
		return fmt.Sprintf("i%d", x)
	case float64:
		return fmt.Sprintf("f%016x", math.Float64bits(x))
	case time.Duration:
		return fmt.Sprintf("d%d", int64(x))
	case bool:
		if x {
			return "btrue"
		}
		return "bfalse"
	case int:
		return fmt.Sprintf("o%d", x)
	}
	return fmt.Sprintf("?%T", v)
}

func renderNode(n parsley.Node) string {
	var sb strings.Builder
	writeNode(&sb, n)
	return sb.String()
}

func writeNode(sb *strings.Builder, n parsley.Node) {
	if sb.Len() > 30000 {
		// a shared forest rendered as trees can be exponentially large
		panic(budgetExceeded{"render"})
	}
	switch x := n.(type) {
	case nil:
		sb.WriteString("nil")
	case ast.NodeList:
		sb.WriteString("L[")
		for i, c := range x {
			if i > 0 {
				sb.WriteByte(' ')
			}
			writeNode(sb, c)
		}
		sb.WriteByte(']')
	case ast.EmptyNode:
		fmt.Fprintf(sb, "E(%d)", int(x))
	case parser.EndNode:
		fmt.Fprintf(sb, "F(%d)", int(x))
	case parsley.NonTerminalNode:
		fmt.Fprintf(sb, "N(%s,%d,%d)[", hexs(x.Token()), x.Pos(), x.ReaderPos())
		for i, c := range x.Children() {
			if i > 0 {
				sb.WriteByte(' ')
			}
			writeNode(sb, c)
		}
		sb.WriteByte(']')
	case parsley.LiteralNode:
		fmt.Fprintf(sb, "T(%s,%s,%d,%d)", hexs(x.Token()), renderVal(x.Value()), x.Pos(), x.ReaderPos())
	default:
		fmt.Fprintf(sb, "?%T", n)
	}
}

func renderErr(e parsley.Error) string {
	if e == nil {
		return "-"
	}
	k := "ot"
	if parsley.IsNotFoundError(e) {
		k = "nf"
	} else if parsley.IsWhitespaceError(e) {
		k = "ws"
	}
	return fmt.Sprintf("e(%d,%s,%s)", e.Pos(), k, hexs(e.Error()))
}

func (g *grammar) renderCP(cp data.IntSet) string {
	var ks []int
	cp.Each(func(v int) {
		if k, ok := g.b.realK[v]; ok {
			ks = append(ks, k)
		} else {
			ks = append(ks, -v)
		}
	})
	sort.Ints(ks)
	s := make([]string, len(ks))
	for i, k := range ks {
		s[i] = strconv.Itoa(k)
	}
	return "[" + strings.Join(s, ",") + "]"
}

// --- running a parse case on the real library ---------------------------------------------------------

type fileSpec struct {
	name string
	raw  []byte
}

func findArg(c *Sexp, name string) []*Sexp {
	for _, x := range c.List {
		if x.Head() == name {
			return x.Args()
		}
	}
	return nil
}

func caseFiles(c *Sexp) ([]fileSpec, int) {
	var fsx []fileSpec
	for _, f := range findArg(c, "files") {
		fsx = append(fsx, fileSpec{string(f.List[0].Bytes()), f.List[1].Bytes()})
	}
	t := 0
	if a := findArg(c, "target"); len(a) == 1 {
		t = a[0].Int()
	}
	return fsx, t
}

func newCtx(files []fileSpec, target int) (*parsley.Context, *text.File) {
	fset := parsley.NewFileSet()
	var tf *text.File
	offs, lens := make([]int, len(files)), make([]int, len(files))
	for i, f := range files {
		tfile := text.NewFile(f.name, f.raw)
		// every second file (by the parity of its length, so that a case replays exactly) has been LOOKED AT on its own
		// before it is placed in the set — a location asked of the file object while it still sits at its default base:
		// what a file answers after placement must not depend on what was asked of it before (lazily built tables)
		if len(f.raw)%2 == 0 {
			tfile.Position(tfile.Len())
			tfile.Position(0)
		}
		fset.AddFile(tfile)
		offs[i], lens[i] = int(tfile.Pos(0)), tfile.Len()
		if i == target {
			tf = tfile
		}
		// a file set GROWS while it is in use (a message about the file that is last so far is rendered, then the next
		// file is added): a lookup between two AddFile calls must not change what any later lookup answers
		fset.Position(parsley.Pos(offs[i] + lens[i]))
		fset.Position(parsley.Pos(offs[i]))
	}
	// the file set has been ASKED before, as it is in any multi-file use: a position in every file, the last question in
	// the file just before the target (a position cache inside the file set must not change any later answer)
	for i := range files {
		if i != target {
			fset.Position(parsley.Pos(offs[i]))
		}
	}
	if target > 0 {
		fset.Position(parsley.Pos(offs[target-1] + lens[target-1]))
		fset.Position(parsley.Pos(offs[target-1]))
	}
	return parsley.NewContext(fset, text.NewReader(tf)), tf
}

type parseObs struct {
	direct   string
	viaParse string
	node     parsley.Node
	perr     error
	viaParseFull string
	rec      *recorder
	rec2     *recorder
	calls    int
	res      parsley.Node
	cp       data.IntSet
	err      parsley.Error
	ctxErr   parsley.Error
	skip     string
}

// runParseCase executes a `parse` case: once directly (root.Parse with an empty context) and once through parsley.Parse.
func runParseCase(c *Sexp, budget int, custom customInterp, res []string) (obs parseObs) {
	defer func() {
		if r := recover(); r != nil {
			if be, ok := r.(budgetExceeded); ok {
				if be.why != "depth" {
					obs.skip = be.why
				}
				return
			}
			panic(r)
		}
	}()
	files, target := caseFiles(c)
	ghost := true
	if a := findArg(c, "ghost"); len(a) == 1 && a[0].Atom == "0" {
		ghost = false
	}
	rec := newRecorder(budget)
	g := buildGrammar(findArg(c, "env"), findArg(c, "root")[0], rec, true, custom, res)
	ctx, tf := newCtx(files, target)
	rec.end = int(tf.Pos(tf.Len()))
	r, cp, err := g.root.Parse(ctx, data.EmptyIntMap, tf.Pos(0))
	obs.res, obs.cp, obs.err, obs.ctxErr, obs.calls, obs.rec = r, cp, err, ctx.Error(), ctx.CallCount(), rec
	obs.direct = fmt.Sprintf("res=%s;cp=%s;err=%s;ctxerr=%s;calls=%d", renderNode(r), g.renderCP(cp), renderErr(err), renderErr(ctx.Error()), ctx.CallCount())
	if ghost {
		maxRuns := 0
		for _, v := range rec.bodyRuns {
			if v > maxRuns {
				maxRuns = v
			}
		}
		ff := "-"
		if rec.maxTermFail >= 0 {
			ff = strconv.Itoa(rec.maxTermFail)
		}
		obs.direct += fmt.Sprintf(";maxdepth=%d;bodyruns=%d;ffail=%s;nobody=%d", rec.maxDepth, maxRuns, ff, rec.memoCalls-rec.bodyTotal)
	}
	// through parsley.Parse, on a fresh context and a freshly built grammar (different parser indexes)
	rec2 := newRecorder(budget)
	g2 := buildGrammar(findArg(c, "env"), findArg(c, "root")[0], rec2, true, custom, res)
	ctx2, tf2 := newCtx(files, target)
	rec2.end = int(tf2.Pos(tf2.Len()))
	node, perr := parsley.Parse(ctx2, g2.root)
	obs.node, obs.perr, obs.rec2 = node, perr, rec2
	msg := "-"
	if perr != nil {
		msg = hexs(perr.Error())
	}
	obs.viaParse = fmt.Sprintf("node=%s;msg=%s;calls=%d", renderNode(node), msg, ctx2.CallCount())
	// a third time through parsley.Parse with the optional passes enabled (Transform, StaticCheck): none of the
	// harness's interpreters is a NodeTransformer, so the outcome must be the same — this exercises the glue of
	// parse.go that the model does not contain (the passes themselves are C13's subject)
	func() {
		defer func() {
			if r := recover(); r != nil {
				if _, ok := r.(budgetExceeded); ok {
					panic(r)
				}
				obs.viaParseFull = fmt.Sprintf("panic=%v", r)
			}
		}()
		rec3 := newRecorder(budget)
		g3 := buildGrammar(findArg(c, "env"), findArg(c, "root")[0], rec3, true, custom, res)
		// ... and on a parser graph that has been USED BEFORE, for another input of another length in another
		// context (a parser value is a description of a language, reusing it must not matter: a combinator that
		// keeps something of its first parse - an end position, a reader, a result - shows here)
		func() {
			defer func() {
				if r := recover(); r != nil {
					if _, ok := r.(budgetExceeded); !ok {
						panic(r)
					}
				}
			}()
			decoy := make([]fileSpec, len(files))
			copy(decoy, files)
			raw := decoy[target].raw
			switch n := len(raw); {
			case n >= 4 && n%4 == 0:
				raw = raw[:n/2] // much shorter (a remembered end position lies well inside the real input)
			case n >= 2 && n%4 == 2:
				raw = raw[:n-1]
			case n >= 3 && n%4 == 3:
				raw = raw[:1]
			default:
				raw = append(append([]byte{}, raw...), raw...)
				raw = append(raw, 'a')
			}
			decoy[target] = fileSpec{decoy[target].name, raw}
			ctxd, tfd := newCtx(decoy, target)
			rec3.end = int(tfd.Pos(tfd.Len()))
			parsley.Parse(ctxd, g3.root)
		}()
		*rec3 = *newRecorder(budget)
		ctx3, tf3 := newCtx(files, target)
		rec3.end = int(tf3.Pos(tf3.Len()))
		ctx3.EnableTransformation()
		ctx3.EnableStaticCheck()
		n3, e3 := parsley.Parse(ctx3, g3.root)
		m3 := "-"
		if e3 != nil {
			m3 = hexs(e3.Error())
		}
		obs.viaParseFull = fmt.Sprintf("node=%s;msg=%s;calls=%d", renderNode(n3), m3, ctx3.CallCount())
	}()
	return obs
}

var errSentinel = errors.New("sentinel")
