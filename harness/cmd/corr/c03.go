package main

// C03 — Memoize is transparent, deterministic, at most once per position (left-recursion-free grammars).

import (
	"fmt"
	"math/rand"
	"sort"
	"strings"

	"github.com/opsidian/parsley/data"
)

// stripMemos removes the (memo k g) wrappers whose k is in the set
func stripMemos(t *Sexp, ks map[int]bool) *Sexp {
	if !t.IsL {
		return t.Clone()
	}
	if t.Head() == "memo" && ks[t.List[1].Int()] {
		return stripMemos(t.List[2], ks)
	}
	out := &Sexp{IsL: true, List: make([]*Sexp, len(t.List))}
	for i, x := range t.List {
		out.List[i] = stripMemos(x, ks)
	}
	return out
}

func c03Exec(c *Sexp) Outcome {
	obs := runParseCase(c, parseBudget, nil, nil)
	if obs.skip != "" {
		return Outcome{Skip: obs.skip}
	}
	ks := map[int]bool{}
	for _, k := range findArg(c, "strip") {
		ks[k.Int()] = true
	}
	// the same grammar without the chosen Memoize wrappers
	var envS []*Sexp
	for _, e := range findArg(c, "env") {
		envS = append(envS, stripMemos(e, ks))
	}
	rootS := stripMemos(findArg(c, "root")[0], ks)
	files, target := caseFiles(c)
	var stripped string
	var sobs parseObs
	func() {
		defer func() {
			if r := recover(); r != nil {
				if _, ok := r.(budgetExceeded); ok {
					sobs.skip = "stripped"
					return
				}
				panic(r)
			}
		}()
		rec := newRecorder(parseBudget * 4)
		g := buildGrammar(envS, rootS, rec, true, nil, nil)
		ctx, tf := newCtx(files, target)
		r, cp, err := g.root.Parse(ctx, data.EmptyIntMap, tf.Pos(0))
		sobs.res, sobs.err, sobs.ctxErr, sobs.calls = r, err, ctx.Error(), ctx.CallCount()
		stripped = fmt.Sprintf("res=%s;cp=%s;err=%s;ctxerr=%s;calls=%d", renderNode(r), g.renderCP(cp), renderErr(err), renderErr(ctx.Error()), ctx.CallCount())
	}()
	if sobs.skip != "" {
		return Outcome{Skip: sobs.skip}
	}
	o := Outcome{Real: "R:" + obs.direct + "|P:" + obs.viaParse + "|S:" + stripped, Tags: parseTags(c, obs)}
	// oracle: on the real code alone
	fail := ""
	if renderNode(obs.res) != renderNode(sobs.res) {
		fail = fmt.Sprintf("results differ: memoized %s, un-memoized %s", renderNode(obs.res), renderNode(sobs.res))
	} else if renderErr(obs.err) != renderErr(sobs.err) {
		fail = fmt.Sprintf("returned errors differ: memoized %s, un-memoized %s", renderErr(obs.err), renderErr(sobs.err))
	} else if (obs.ctxErr == nil) != (sobs.ctxErr == nil) || (obs.ctxErr != nil && obs.ctxErr.Pos() != sobs.ctxErr.Pos()) {
		fail = fmt.Sprintf("furthest recorded error differs: memoized %s, un-memoized %s", renderErr(obs.ctxErr), renderErr(sobs.ctxErr))
	} else if obs.calls > sobs.calls {
		fail = fmt.Sprintf("memoization increased the call count: %d > %d", obs.calls, sobs.calls)
	}
	if fail == "" {
		var keys []string
		for k, v := range obs.rec.bodyRuns {
			if v > 1 {
				keys = append(keys, fmt.Sprintf("parser #%d at position %d ran %d times", k[0], k[1], v))
			}
		}
		sort.Strings(keys)
		if len(keys) > 0 {
			fail = "a memoized parser ran more than once at one position: " + strings.Join(keys, "; ")
		}
	}
	if fail == "" && obs.cp.Len() != 0 {
		fail = "a left-recursion-free grammar returned curtailing parsers " + obs.direct
	}
	// determinism: the second run (re-built grammar, fresh context, through parsley.Parse) must make the same number of calls
	if fail == "" && !strings.Contains(obs.viaParse, fmt.Sprintf("calls=%d", obs.calls)) {
		fail = fmt.Sprintf("call count not reproduced on a fresh context: %d vs %s", obs.calls, obs.viaParse)
	}
	if fail == "" {
		fail = reuseOracle(obs) // the memoized grammar on a graph that already parsed another (mostly shorter) input
	}
	o.OracleFail = fail
	o.Nontrivial = obs.rec.memoCalls-obs.rec.bodyTotal > 0 // at least one cache hit
	if obs.calls < sobs.calls {
		o.Tags = append(o.Tags, "memo:saved-calls")
	}
	return o
}

func init() {
	register(&Prop{
		ID: "C03", Cmd: "parse",
		Rule: "random left-recursion-free grammars (1-5 nonterminals whose references only go to later rules, rules and random sub-terms memoized) x inputs sampled/mutated/uniform, every sixth case from a family in which an ambiguous memoized parser (3-7 alternatives) is consumed by several list-extending combinators at one position; the same grammar is also built with a random subset (or all) of its Memoize wrappers removed; results, returned error, furthest-error position, call counts and per-position body runs are compared (real vs real, and both vs the Lean model). Non-trivial = at least one cache hit; distinct = distinct case text.",
		Count: quickN(6000, 60000),
		Gen: func(rng *rand.Rand, tier string, i int) *Sexp {
			var c *Sexp
			var g genGrammar
			if i%6 == 5 {
				// an ambiguous memoized parser (3-7 alternatives: a result LIST with spare capacity) consumed by several
				// list-extending combinators at one position, left-recursion-free
				c = c07TemplateLR(rng, false)
				g = genGrammar{findArg(c, "env"), findArg(c, "root")[0]}
			} else {
				g = genCertified(rng, genOpts{lrf: true, subMemo: 0.45, sentence: 0.5, maxRules: 5, nameAlts: rng.Intn(4) == 0})
				in := sampleInput(rng, g, alphabetOf(g), 10)
				c = parseCaseSexp(g, in)
			}
			ks := map[int]bool{}
			for _, e := range g.env {
				collectMemoKs(e, ks)
			}
			collectMemoKs(g.root, ks)
			strip := LA("strip")
			var all []int
			for k := range ks {
				all = append(all, k)
			}
			sort.Ints(all)
			for _, k := range all {
				if i%2 == 0 || rng.Intn(2) == 0 {
					strip.List = append(strip.List, N(k))
				}
			}
			c.List = append(c.List, strip)
			return c
		},
		Exec:   c03Exec,
		Shrink: shrinkParse,
	})
}
