package main

import (
	"encoding/hex"
	"fmt"
	"strconv"
	"strings"
)

// Sexp is the case language shared with the Lean driver: atoms and lists.
type Sexp struct {
	Atom string
	List []*Sexp
	IsL  bool
}

func A(s string) *Sexp            { return &Sexp{Atom: s} }
func N(n int) *Sexp               { return &Sexp{Atom: strconv.Itoa(n)} }
func L(xs ...*Sexp) *Sexp         { return &Sexp{List: xs, IsL: true} }
func H(b []byte) *Sexp            { return &Sexp{Atom: "x" + hex.EncodeToString(b)} }
func HS(s string) *Sexp           { return H([]byte(s)) }
func LA(head string, xs ...*Sexp) *Sexp {
	return &Sexp{List: append([]*Sexp{A(head)}, xs...), IsL: true}
}

func (s *Sexp) String() string {
	var sb strings.Builder
	s.write(&sb)
	return sb.String()
}

func (s *Sexp) write(sb *strings.Builder) {
	if !s.IsL {
		sb.WriteString(s.Atom)
		return
	}
	sb.WriteByte('(')
	for i, x := range s.List {
		if i > 0 {
			sb.WriteByte(' ')
		}
		x.write(sb)
	}
	sb.WriteByte(')')
}

func (s *Sexp) Head() string {
	if s.IsL && len(s.List) > 0 && !s.List[0].IsL {
		return s.List[0].Atom
	}
	return ""
}

func (s *Sexp) Args() []*Sexp {
	if s.IsL && len(s.List) > 0 {
		return s.List[1:]
	}
	return nil
}

func (s *Sexp) Int() int {
	n, err := strconv.Atoi(s.Atom)
	if err != nil {
		panic(fmt.Sprintf("not an int: %q", s.Atom))
	}
	return n
}

func (s *Sexp) Bytes() []byte {
	if !strings.HasPrefix(s.Atom, "x") {
		panic(fmt.Sprintf("not bytes: %q", s.Atom))
	}
	b, err := hex.DecodeString(s.Atom[1:])
	if err != nil {
		panic(err)
	}
	return b
}

func (s *Sexp) Clone() *Sexp {
	if !s.IsL {
		return &Sexp{Atom: s.Atom}
	}
	c := &Sexp{IsL: true, List: make([]*Sexp, len(s.List))}
	for i, x := range s.List {
		c.List[i] = x.Clone()
	}
	return c
}

// ParseSexps parses a line as a sequence of s-expressions.
func ParseSexps(line string) ([]*Sexp, error) {
	p := &sparser{s: line}
	var out []*Sexp
	for {
		p.skip()
		if p.i >= len(p.s) {
			return out, nil
		}
		x, err := p.parse()
		if err != nil {
			return nil, err
		}
		out = append(out, x)
	}
}

type sparser struct {
	s string
	i int
}

func (p *sparser) skip() {
	for p.i < len(p.s) && (p.s[p.i] == ' ' || p.s[p.i] == '\t' || p.s[p.i] == '\n' || p.s[p.i] == '\r') {
		p.i++
	}
}

func (p *sparser) parse() (*Sexp, error) {
	p.skip()
	if p.i >= len(p.s) {
		return nil, fmt.Errorf("unexpected end")
	}
	if p.s[p.i] == '(' {
		p.i++
		l := &Sexp{IsL: true}
		for {
			p.skip()
			if p.i >= len(p.s) {
				return nil, fmt.Errorf("unclosed list")
			}
			if p.s[p.i] == ')' {
				p.i++
				return l, nil
			}
			x, err := p.parse()
			if err != nil {
				return nil, err
			}
			l.List = append(l.List, x)
		}
	}
	if p.s[p.i] == ')' {
		return nil, fmt.Errorf("unexpected )")
	}
	j := p.i
	for j < len(p.s) && !strings.ContainsRune("() \t\n\r", rune(p.s[j])) {
		j++
	}
	a := &Sexp{Atom: p.s[p.i:j]}
	p.i = j
	return a, nil
}
