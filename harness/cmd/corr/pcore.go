package main

// Parse-level properties on random certified grammars: C01, C02, C03, C04, C06 (C07 and C17 have their own files).
// Every case is run on the real library (root.Parse directly, and through parsley.Parse on a re-built
// grammar) and on the Lean model; all observables are compared; each property adds its direct oracle.

import (
	"fmt"
	"math/rand"
	"regexp"
	"strconv"
	"strings"

	"github.com/opsidian/parsley/parsley"
)

const parseBudget = 20000

func parseTags(c *Sexp, obs parseObs) []string {
	var tags []string
	seen := map[string]bool{}
	var walk func(t *Sexp)
	walk = func(t *Sexp) {
		if t.IsL && t.Head() != "" {
			h := t.Head()
			if h == "seq" {
				h = "seq-" + t.List[1].Atom
			}
			if !seen[h] && h != "o" && h != "env" && h != "root" && h != "files" && h != "target" {
				seen[h] = true
				tags = append(tags, "comb:"+h)
			}
		}
		for _, x := range t.List {
			if x.IsL {
				walk(x)
			}
		}
	}
	for _, e := range findArg(c, "env") {
		walk(e)
	}
	walk(findArg(c, "root")[0])
	if obs.perr == nil {
		tags = append(tags, "parse:ok")
	} else {
		tags = append(tags, "parse:error")
	}
	if obs.rec != nil {
		if obs.rec.memoCalls-obs.rec.bodyTotal > 0 {
			tags = append(tags, "memo:hit-or-curtail")
		}
		if obs.cp.Len() > 0 {
			tags = append(tags, "cp:nonempty")
		}
		if strings.Contains(obs.direct, "L[") {
			tags = append(tags, "result:list")
		}
		if obs.rec.maxDepth > 1 {
			tags = append(tags, "leftrec:reentered")
		}
	}
	files, tgt := caseFiles(c)
	tags = append(tags, fmt.Sprintf("inputlen:%d", bucket(len(files[tgt].raw))))
	if tgt > 0 {
		tags = append(tags, "placement:not-first")
	}
	return tags
}

var atRe = regexp.MustCompile(` at ([^:]*):(\d+):(\d+)$`)

// errorOffset recovers the byte offset (within the single-line input) from the rendered message.
func errorOffset(msg string, input []byte) (int, bool) {
	m := atRe.FindStringSubmatch(msg)
	if m == nil {
		return 0, false
	}
	line, _ := strconv.Atoi(m[2])
	col, _ := strconv.Atoi(m[3])
	// own line counting (inputs of this stream contain no CR)
	off := 0
	for l := 1; l < line; l++ {
		i := strings.IndexByte(string(input[off:]), '\n')
		if i < 0 {
			return 0, false
		}
		off += i + 1
	}
	return off + col - 1, true
}

// lineColOf renders an offset as the 1-based line:column the reader documents (inputs without CR): the line is one
// more than the number of line feeds before the offset, the column counts from the byte after the last of them.
func lineColOf(input []byte, off int) (int, int) {
	line, start := 1, 0
	for i := 0; i < off && i < len(input); i++ {
		if input[i] == '\n' {
			line++
			start = i + 1
		}
	}
	return line, off - start + 1
}

func isSentenceRoot(c *Sexp) bool { return findArg(c, "root")[0].Head() == "sentence" }

// productive rules: a rule is productive when it derives some terminal string
func productiveRules(env []*Sexp) []bool {
	pr := make([]bool, len(env))
	var prod func(t *Sexp) bool
	prod = func(t *Sexp) bool {
		a := t.Args()
		switch t.Head() {
		case "ref":
			return pr[a[0].Int()]
		case "memo":
			return prod(a[1])
		case "any", "choice":
			for _, x := range a {
				if prod(x) {
					return true
				}
			}
			return false
		case "seq":
			// "definitely productive": every element derives something, so the full chain exists for some input.
			// (SeqTry / SeqFirstOrAll emit a shorter chain only where it cannot be extended — longest path — so
			// "the first element is productive" does not make them productive: P -> SeqFirstOrAll(eps, eps, P)
			// derives nothing.  An earlier version used that weaker test and so did not recognise known finding D8
			// in such grammars: a false alarm of the check in the thorough tier, corrected.)
			els := a[2:]
			for _, x := range els {
				if !prod(x) {
					return false
				}
			}
			return len(els) > 0 || a[0].Atom == "of"
		case "sentence":
			return prod(a[0])
		case "many":
			return a[0].Int() != 0 || prod(a[2])
		case "sepby":
			return a[0].Int() != 0 || prod(a[2])
		case "opt":
			return true
		case "name", "ltrim", "rtrim":
			return prod(a[1])
		case "single", "suppress":
			return prod(a[0])
		}
		return true
	}
	for changed := true; changed; {
		changed = false
		for i, e := range env {
			if !pr[i] && prod(e) {
				pr[i] = true
				changed = true
			}
		}
	}
	return pr
}

func hasUnproductiveRule(c *Sexp) bool {
	for _, p := range productiveRules(findArg(c, "env")) {
		if !p {
			return true
		}
	}
	return false
}

// allAltsNamed: every Any/Choice of the grammar sits directly under a Name
func allAltsNamed(c *Sexp) bool {
	ok := true
	var walk func(t *Sexp, parent string)
	walk = func(t *Sexp, parent string) {
		h := t.Head()
		if (h == "any" || h == "choice") && parent != "name" {
			ok = false
		}
		for _, x := range t.List {
			if x.IsL {
				walk(x, h)
			}
		}
	}
	for _, e := range findArg(c, "env") {
		walk(e, "")
	}
	walk(findArg(c, "root")[0], "")
	return ok
}

// resultWithError: can this term return a non-nil result together with an error?  (Optional does, when
// its operand fails; the pass-through combinators hand both on.)
func resultWithError(t *Sexp, env []*Sexp, seen map[int]bool) bool {
	a := t.Args()
	switch t.Head() {
	case "opt":
		return true
	case "ref":
		k := a[0].Int()
		if seen[k] {
			return false
		}
		seen[k] = true
		return resultWithError(env[k], env, seen)
	case "memo", "ltrim", "rtrim":
		return resultWithError(a[1], env, seen)
	}
	return false
}

// hasNameOrSingleOverOptional: the structural signature of known finding D9
func hasNameOrSingleOverOptional(c *Sexp) bool {
	env := findArg(c, "env")
	found := false
	var walk func(t *Sexp)
	walk = func(t *Sexp) {
		switch t.Head() {
		case "name":
			if resultWithError(t.List[2], env, map[int]bool{}) {
				found = true
			}
		case "single":
			if resultWithError(t.List[1], env, map[int]bool{}) {
				found = true
			}
		}
		for _, x := range t.List {
			if x.IsL {
				walk(x)
			}
		}
	}
	for _, e := range env {
		walk(e)
	}
	walk(findArg(c, "root")[0])
	return found
}

var knownD9 = map[string]func(c *Sexp, o Outcome) bool{
	"name-or-single-over-optional": func(c *Sexp, o Outcome) bool {
		return hasNameOrSingleOverOptional(c) && (strings.Contains(o.OracleFail, "a derivation was lost") ||
			strings.Contains(o.OracleFail, "although a derivation consumes the whole input") ||
			strings.Contains(o.OracleFail, "the grammar derives the whole input") ||
			strings.Contains(o.OracleFail, "by the operators' documented rules"))
	},
}

type parseOracle func(c *Sexp, obs parseObs) string

func parseExec(oracle parseOracle, nontrivial func(c *Sexp, obs parseObs) bool) func(c *Sexp) Outcome {
	return func(c *Sexp) Outcome {
		obs := runParseCase(c, parseBudget, nil, nil)
		if obs.skip != "" {
			return Outcome{Skip: obs.skip}
		}
		o := Outcome{Real: "R:" + obs.direct + "|P:" + obs.viaParse, Tags: parseTags(c, obs)}
		if oracle != nil {
			o.OracleFail = oracle(c, obs)
		}
		if o.OracleFail == "" {
			// every parse-level stream: the parse on a graph that has been used before must equal the parse on a fresh graph
			o.OracleFail = reuseOracle(obs)
		}
		if nontrivial != nil {
			o.Nontrivial = nontrivial(c, obs)
		}
		return o
	}
}

func genParseCase(o genOpts, maxLen int) func(rng *rand.Rand, tier string, i int) *Sexp {
	return func(rng *rand.Rand, tier string, i int) *Sexp {
		g := genCertified(rng, o)
		in := sampleInput(rng, g, alphabetOf(g), maxLen)
		return parseCaseSexp(g, in)
	}
}

// shrinkParse: smaller inputs, then structurally smaller grammars
func shrinkParse(c *Sexp) []*Sexp {
	var out []*Sexp
	files := findArg(c, "files")
	_, tgt := caseFiles(c)
	in := files[tgt].List[1].Bytes() // the PARSED file (it need not be the first of the set)
	setInput := func(b []byte) *Sexp {
		d := c.Clone()
		for _, x := range d.List {
			if x.Head() == "files" {
				x.List[1+tgt].List[1] = H(b)
			}
		}
		return d
	}
	for i := range in {
		nb := append(append([]byte{}, in[:i]...), in[i+1:]...)
		out = append(out, setInput(nb))
	}
	// replace a sub-term by one of its children, or by a terminal / empty
	var paths [][]int
	var walk func(t *Sexp, path []int)
	walk = func(t *Sexp, path []int) {
		for i, x := range t.List {
			if x.IsL {
				p := append(append([]int{}, path...), i)
				switch x.Head() {
				case "o", "files", "target":
					continue
				}
				paths = append(paths, p)
				walk(x, p)
			}
		}
	}
	walk(c, nil)
	get := func(root *Sexp, p []int) *Sexp {
		t := root
		for _, i := range p {
			t = t.List[i]
		}
		return t
	}
	isTerm := func(h string) bool {
		switch h {
		case "rune", "empty", "eof", "ref", "memo", "any", "choice", "seq", "many", "sepby", "opt", "name", "single", "suppress", "sentence", "ltrim", "rtrim":
			return true
		}
		return false
	}
	for _, p := range paths {
		t := get(c, p)
		if !isTerm(t.Head()) || len(p) < 2 {
			continue
		}
		// candidates: each grammar child
		for _, ch := range t.List[1:] {
			if ch.IsL && isTerm(ch.Head()) {
				d := c.Clone()
				parent := get(d, p[:len(p)-1])
				parent.List[p[len(p)-1]] = ch.Clone()
				out = append(out, d)
			}
		}
		// drop one alternative / element
		if (t.Head() == "any" || t.Head() == "choice") && len(t.List) > 3 {
			for k := 1; k < len(t.List); k++ {
				d := c.Clone()
				tt := get(d, p)
				tt.List = append(tt.List[:k], tt.List[k+1:]...)
				out = append(out, d)
			}
		}
		if t.Head() == "seq" && len(t.List) > 4 {
			for k := 3; k < len(t.List); k++ {
				d := c.Clone()
				tt := get(d, p)
				tt.List = append(tt.List[:k], tt.List[k+1:]...)
				out = append(out, d)
			}
		}
		if t.Head() != "rune" && t.Head() != "empty" {
			d := c.Clone()
			parent := get(d, p[:len(p)-1])
			parent.List[p[len(p)-1]] = LA("empty")
			out = append(out, d)
		}
	}
	// keep only candidates that are still certified
	var ok []*Sexp
	for _, d := range out {
		if wellFormed(findArg(d, "env"), findArg(d, "root")[0], false) {
			ok = append(ok, d)
		}
	}
	return ok
}

func quickN(q, t int) func(string) int {
	return func(tier string) int {
		if tier == "thorough" {
			return t
		}
		return q
	}
}

// ---- oracles -----------------------------------------------------------------------------------------

func reuseOracle(obs parseObs) string {
	if obs.viaParseFull != "" && obs.viaParseFull != obs.viaParse && !strings.Contains(obs.viaParseFull, "node index is out of bounds") {
		// (Select's StaticCheck panics on an index beyond the children — the documented panic of that interpreter)
		return fmt.Sprintf("parsley.Parse on a parser graph that already parsed another input, with transformation and static check enabled (no interpreter transforms or checks anything), differs: %s, on a fresh graph without them: %s", obs.viaParseFull, obs.viaParse)
	}
	return ""
}

func oracleC04(c *Sexp, obs parseObs) string {
	if m := reuseOracle(obs); m != "" {
		return m
	}
	if (obs.node == nil) == (obs.perr == nil) {
		return fmt.Sprintf("parsley.Parse returned node=%v err=%v: exactly one of them must be non-nil", obs.node, obs.perr)
	}
	if obs.node != nil && isSentenceRoot(c) {
		files, t := caseFiles(c)
		_, tf := newCtx(files, t)
		if obs.node.Pos() != tf.Pos(0) || obs.node.ReaderPos() != tf.Pos(tf.Len()) {
			return fmt.Sprintf("Sentence succeeded but the tree spans %d..%d, input is %d..%d", obs.node.Pos(), obs.node.ReaderPos(), tf.Pos(0), tf.Pos(tf.Len()))
		}
	}
	return oracleSentenceIff(c, obs)
}

func oracleC06(named bool) parseOracle {
	return func(c *Sexp, obs parseObs) string {
		// C06 speaks about failing parses only; whether the parse SHOULD have failed is C01/C04's subject
		// (an earlier version also applied C04's Sentence-iff oracle here and so reported D9, a C01/C04
		// finding, as a C06 violation: a false alarm of the check, corrected)
		if obs.perr == nil || !isSentenceRoot(c) {
			return ""
		}
		msg := obs.perr.Error()
		if !strings.HasPrefix(msg, "failed to parse the input: ") {
			return "error text does not start with 'failed to parse the input: ': " + msg
		}
		files, t := caseFiles(c)
		off, ok := errorOffset(msg, files[t].raw)
		if !ok {
			return "error text has no <file>:<line>:<column> suffix: " + msg
		}
		// the rendering is canonical: line = 1 + line feeds before the offset, column from the last of them (an offset
		// mapped back through a line table that misses a line start renders as <previous line>:<past its end>)
		if m := atRe.FindStringSubmatch(msg); m != nil {
			wl, wc := lineColOf(files[t].raw, off)
			if m[2] != strconv.Itoa(wl) || m[3] != strconv.Itoa(wc) {
				return fmt.Sprintf("error position rendered as %s:%s, offset %d of the input is line %d column %d: %s", m[2], m[3], off, wl, wc, msg)
			}
		}
		_, tf := newCtx(files, t)
		pos := int(tf.Pos(0)) + off
		ff := obs.rec2.maxTermFail
		if ff < 0 {
			return fmt.Sprintf("an error is reported at %d but no terminal or end-of-input was tried and failed: %s", pos, msg)
		}
		if pos > ff {
			return fmt.Sprintf("reported error position %d is beyond the furthest failing terminal %d: %s", pos, ff, msg)
		}
		if named && pos != ff {
			return fmt.Sprintf("every Any/Choice is named but the reported position %d is not the furthest failure %d: %s", pos, ff, msg)
		}
		return ""
	}
}

func oracleC02(c *Sexp, obs parseObs) string {
	for _, r := range []*recorder{obs.rec, obs.rec2} {
		if r != nil && r.depthViolation != "" {
			return r.depthViolation
		}
	}
	return ""
}

// ---- exhaustive small scope (thorough tier of C01) ---------------------------------------------------------

// c01AltShapes: every alternative shape of the template family instantiated over the alphabet {a, b}
func c01AltShapes() []*Sexp {
	seq := func(xs ...*Sexp) *Sexp { return LA("seq", append([]*Sexp{A("of"), noOpts}, xs...)...) }
	p := func() *Sexp { return LA("ref", N(0)) }
	var out []*Sexp
	for _, c := range []byte("ab") {
		out = append(out, runeT(c), seq(p(), runeT(c)), seq(runeT(c), p()), seq(LA("opt", p()), runeT(c)))
		for _, d := range []byte("ab") {
			out = append(out, seq(LA("opt", runeT(c)), p(), runeT(d)))
		}
	}
	return append(out, seq(p(), p()), p(), LA("empty"))
}

var c01Inputs = func() [][]byte {
	out := [][]byte{{}}
	for n, start := 1, 0; n <= 4; n++ {
		end := len(out)
		for _, w := range out[start:end] {
			for _, c := range []byte("ab") {
				out = append(out, append(append([]byte{}, w...), c))
			}
		}
		start = end
	}
	return out
}()

func c01ExhaustiveN() int {
	k := len(c01AltShapes())
	return (k + k*k + k*k*k) * len(c01Inputs)
}

// c01Exhaustive decodes the j-th (grammar, input) pair of the family
func c01Exhaustive(j int) *Sexp {
	shapes := c01AltShapes()
	k := len(shapes)
	in := c01Inputs[j%len(c01Inputs)]
	gi := j / len(c01Inputs)
	var alts []*Sexp
	switch {
	case gi < k:
		alts = []*Sexp{shapes[gi].Clone()}
	case gi < k+k*k:
		gi -= k
		alts = []*Sexp{shapes[gi/k].Clone(), shapes[gi%k].Clone()}
	default:
		gi -= k + k*k
		alts = []*Sexp{shapes[gi/(k*k)].Clone(), shapes[(gi/k)%k].Clone(), shapes[gi%k].Clone()}
	}
	g := genGrammar{[]*Sexp{LA("memo", N(0), LA("any", alts...))}, LA("ref", N(0))}
	return parseCaseSexp(g, in)
}

// withExhaustive appends the exhaustive one-rule family (optionally under a Sentence root) to a stream's thorough tier
func withExhaustive(count func(string) int, gen func(*rand.Rand, string, int) *Sexp, sentence bool) (func(string) int, func(*rand.Rand, string, int) *Sexp) {
	c := func(tier string) int {
		if tier == "thorough" {
			return count(tier) + c01ExhaustiveN()
		}
		return count(tier)
	}
	g := func(rng *rand.Rand, tier string, i int) *Sexp {
		if tier == "thorough" && i >= count(tier) {
			x := c01Exhaustive(i - count(tier))
			if sentence {
				for _, y := range x.List {
					if y.Head() == "root" {
						y.List[1] = LA("sentence", y.List[1])
					}
				}
			}
			return x
		}
		return gen(rng, tier, i)
	}
	return c, g
}

func init() {
	core := genOpts{subMemo: 0.1, sentence: 0.6, maxRules: 3, noSuppress: true, noNameSingle: true}
	nontrivialLR := func(c *Sexp, obs parseObs) bool {
		return obs.rec != nil && obs.rec.memoCalls-obs.rec.bodyTotal > 0 && obs.rec.maxDepth > 1
	}
	register(&Prop{
		ID: "C01", Cmd: "parse",
		Rule:   "random certified grammars (1-3 nonterminals, memoized with probability 0.85, bodies over the property's combinator set biased to direct/indirect/hidden left recursion, nullable and cyclic rules) x inputs sampled from the grammar, mutated, or uniform; every second case comes from a template family of 2-3 memoized rules whose alternatives are t | N t | t N | t? N t | N? t | N N | N | eps with uniform inputs up to 5 bytes; both root.Parse and parsley.Parse observables are compared with the Lean model. Non-trivial = a memoized parser was re-entered at the same position and at least one call was answered by curtailment or the cache; distinct = distinct case text.",
		Count: func(tier string) int {
			if tier == "thorough" {
				return 80000 + c01ExhaustiveN()
			}
			return 8000
		},
		Gen: func(rng *rand.Rand, tier string, i int) *Sexp {
			if tier == "thorough" && i >= 80000 {
				return c01Exhaustive(i - 80000)
			}
			if i%2 == 1 {
				g, in := genTemplate(rng)
				return parseCaseSexp(g, in)
			}
			return genParseCase(core, 10)(rng, tier, i)
		},
		Extra: func() map[string]interface{} {
			return map[string]interface{}{"exhaustive_family": "thorough tier only: ALL one-rule memoized grammars P -> alt1 | alt2 [| alt3] with alternatives from {t, P t, t P, t? P t, P? t, P P, P, eps} over {a,b} (ordered, 1-3 alternatives) x ALL inputs over {a,b} up to length 4", "exhaustive_family_cases": c01ExhaustiveN()}
		},
		Exec:   parseExec(oracleC01, nontrivialLR),
		Shrink: shrinkParse,
		Known:  knownD9,
	})
	register(&Prop{
		ID: "C02", Cmd: "parse",
		Rule:   "random certified grammars as for C01 with longer inputs, every third case with the parsed file preceded by 1-3 other files (non-default base offset); probes inside every Memoize record the number of live activations per (parser, position) and abort when it exceeds remaining+2; activation maxima are compared with the model's ghost counter. Non-trivial = some memoized parser active more than once at one position.",
		Count:  quickN(5000, 50000),
		Gen: func(rng *rand.Rand, tier string, i int) *Sexp {
			c := genParseCase(genOpts{subMemo: 0.15, sentence: 0.5, maxRules: 3}, 14)(rng, tier, i)
			if i%3 == 2 {
				// the parsed file at a non-default base offset: the curtailment bound is "remaining input", which must
				// not depend on where the file sits in the file set
				nBefore := 1 + rng.Intn(3)
				for _, x := range c.List {
					switch x.Head() {
					case "files":
						target := x.List[1]
						files := []*Sexp{x.List[0]}
						for b := 0; b < nBefore; b++ {
							files = append(files, L(HS(fmt.Sprintf("p%d", b)), H(genBytes(rng, 12))))
						}
						x.List = append(files, target)
					case "target":
						x.List[1] = N(nBefore)
					}
				}
			}
			return c
		},
		Exec:   parseExec(oracleC02, func(c *Sexp, obs parseObs) bool { return obs.rec != nil && obs.rec.maxDepth > 1 }),
		Shrink: shrinkParse,
	})
	register(&Prop{
		ID: "C04", Cmd: "parse",
		Rule:  "random certified grammars, named and unnamed alternatives, memoized or not, SuppressError included; inputs mostly non-matching. Oracle: exactly one of node/error is non-nil; a Sentence result spans the whole input. Non-trivial = the parse failed, or succeeded with a Sentence root.",
		Count: quickN(6000, 60000),
		Gen: func(rng *rand.Rand, tier string, i int) *Sexp {
			if i%6 == 1 {
				// repetition / optional-tail templates: a variable-length sequence of multi-token items followed by a
				// prefix of an item, so the full parse needs the shorter match
				al := []byte("ab")
				t := func() *Sexp { return runeT(al[rng.Intn(2)]) }
				item := LA("seq", A("of"), noOpts, t(), t())
				var rep *Sexp
				switch rng.Intn(5) {
				case 0:
					rep = LA("many", N(1), noOpts, item)
				case 1:
					rep = LA("many", N(0), noOpts, item)
				case 2:
					rep = LA("sepby", N(rng.Intn(2)), noOpts, item, t())
				case 3:
					rep = LA("seq", A("try"), noOpts, item, item, t())
				default:
					rep = LA("seq", A("foa"), noOpts, item, item, t())
				}
				g := genGrammar{[]*Sexp{LA("seq", A("of"), noOpts, rep, t())}, LA("sentence", LA("ref", N(0)))}
				if rng.Intn(2) == 0 {
					g.env[0] = LA("memo", N(0), g.env[0])
				}
				return parseCaseSexp(g, sampleInput(rng, g, al, 9))
			}
			if i%6 == 4 {
				// "silent failure after a recorded error": a part that fails without saying why (SuppressError, or a
				// left recursion curtailed on every branch) after a nested combinator that succeeded while recording
				// an error in the context (Many/SepBy stopping, Any/Choice succeeding through a later alternative)
				al := []byte("abc")
				t := func() *Sexp { return runeT(al[rng.Intn(3)]) }
				var rec *Sexp
				switch rng.Intn(4) {
				case 0:
					rec = LA("many", N(rng.Intn(2)), noOpts, t())
				case 1:
					rec = LA("sepby", N(rng.Intn(2)), noOpts, t(), t())
				case 2:
					rec = LA("choice", LA("seq", A("of"), noOpts, t(), t()), t())
				default:
					rec = LA("any", LA("seq", A("of"), noOpts, t(), t()), t())
				}
				var g genGrammar
				if rng.Intn(3) == 0 {
					// P -> P t | rec P   (no base case: every branch ends in a curtailed call)
					g = genGrammar{[]*Sexp{LA("memo", N(0), LA("any", LA("seq", A("of"), noOpts, LA("ref", N(0)), t()),
						LA("seq", A("of"), noOpts, rec, LA("ref", N(0)))))}, LA("ref", N(0))}
				} else {
					body := LA("seq", A("of"), noOpts, rec, LA("suppress", t()))
					g = genGrammar{[]*Sexp{body}, LA("ref", N(0))}
				}
				if rng.Intn(2) == 0 {
					g.root = LA("sentence", g.root)
				}
				in := make([]byte, rng.Intn(5))
				for k := range in {
					in[k] = al[rng.Intn(3)]
				}
				return parseCaseSexp(g, in)
			}
			o := genOpts{subMemo: 0.1, sentence: 0.75, maxRules: 3, nameAlts: rng.Intn(3) == 0}
			if i%3 == 0 {
				o.lrf = true // no recursion at all: the exact reference semantics of every operator applies
				o.subMemo = 0.3
			}
			g := genCertified(rng, o)
			var in []byte
			if rng.Intn(2) == 0 {
				al := alphabetOf(g)
				for k := rng.Intn(8); k > 0; k-- {
					in = append(in, al[rng.Intn(len(al))])
				}
			} else {
				in = sampleInput(rng, g, alphabetOf(g), 10)
			}
			return parseCaseSexp(g, in)
		},
		Exec:   parseExec(oracleC04, func(c *Sexp, obs parseObs) bool { return obs.perr != nil || isSentenceRoot(c) }),
		Shrink: shrinkParse,
		Known:  knownD9,
	})
	register(&Prop{
		ID: "C06", Cmd: "parse",
		Rule:  "random certified Sentence-rooted grammars over single-byte terminals without trims; half of the cases have every Any/Choice named; inputs mostly non-matching. Probes around every terminal and End record failing positions. Oracle: reported position <= furthest failing terminal, equal when every alternative is named; message form. Non-trivial = the parse failed at a position after the first byte.",
		Count: quickN(6000, 60000),
		Gen: func(rng *rand.Rand, tier string, i int) *Sexp {
			if i%5 == 4 {
				// a Choice/Any whose MATCHING alternative returns a node together with an error (Optional over a
				// sequence that consumed input before it failed): that error may be the furthest failure of the parse
				al := []byte("abc")
				t := func() *Sexp { return runeT(al[rng.Intn(3)]) }
				inner := LA("seq", A("of"), noOpts, t(), t())
				if rng.Intn(3) == 0 {
					inner = LA("seq", A("of"), noOpts, t(), t(), t())
				}
				kind := []string{"choice", "any"}[rng.Intn(2)]
				head := LA(kind, t(), LA("opt", inner))
				if rng.Intn(2) == 0 {
					head = LA(kind, LA("opt", inner), t())
				}
				if rng.Intn(2) == 0 {
					head = LA("name", HS("head"), head)
				}
				body := LA("seq", A("of"), noOpts, head, t())
				g := genGrammar{[]*Sexp{body}, LA("sentence", LA("ref", N(0)))}
				if rng.Intn(3) == 0 {
					g.env[0] = LA("memo", N(0), body)
				}
				in := make([]byte, 1+rng.Intn(4))
				for k := range in {
					in[k] = al[rng.Intn(3)]
				}
				return parseCaseSexp(g, in)
			}
			if i%10 == 3 {
				// multi-line inputs: sequences over {a, b, LF} on a proper prefix of their own sentence, so the furthest
				// failure is at end of input, often directly after a line feed (the line:column rendering of C06's
				// position goes through the file's line table)
				al := []byte("ab\n\n")
				mk := func() (*Sexp, []byte) {
					var ts []*Sexp
					var w []byte
					for k := 2 + rng.Intn(4); k > 0; k-- {
						ch := al[rng.Intn(len(al))]
						ts = append(ts, runeT(ch))
						w = append(w, ch)
					}
					return LA("seq", append([]*Sexp{A("of"), noOpts}, ts...)...), w
				}
				body, w := mk()
				if rng.Intn(3) == 0 {
					other, _ := mk()
					body = LA("name", HS("alt"), LA([]string{"choice", "any"}[rng.Intn(2)], body, other))
				}
				g := genGrammar{[]*Sexp{body}, LA("sentence", LA("ref", N(0)))}
				if rng.Intn(3) == 0 {
					g.env[0] = LA("memo", N(0), body)
				}
				in := append([]byte{}, w[:rng.Intn(len(w))]...)
				if rng.Intn(4) == 0 {
					in = append(in, al[rng.Intn(len(al))])
				}
				return parseCaseSexp(g, in)
			}
			o := genOpts{subMemo: 0.1, sentence: 1, maxRules: 3, nameAlts: i%2 == 0, noSuppress: true, productive: 0.9}
			g := genCertified(rng, o)
			in := sampleInput(rng, g, alphabetOf(g), 10)
			if rng.Intn(2) == 0 && len(in) > 0 {
				al := alphabetOf(g)
				in[rng.Intn(len(in))] = al[rng.Intn(len(al))]
			}
			return parseCaseSexp(g, in)
		},
		Exec: func(c *Sexp) Outcome {
			named := allAltsNamed(c)
			return parseExec(oracleC06(named), func(c *Sexp, obs parseObs) bool {
				return obs.perr != nil && obs.rec2 != nil && obs.rec2.maxTermFail > 1
			})(c)
		},
		Shrink: shrinkParse,
		Known: map[string]func(c *Sexp, o Outcome) bool{
			"unproductive-named-nonterminal": func(c *Sexp, o Outcome) bool {
				return hasUnproductiveRule(c) && (strings.Contains(o.OracleFail, "no terminal or end-of-input was tried") ||
					strings.Contains(o.OracleFail, "beyond the furthest failing terminal") ||
					strings.Contains(o.OracleFail, "is not the furthest failure"))
			},
			// D12 = D9 seen from C06: Single/Name over an Optional whose operand is a curtailed recursion fails the
			// parse with no terminal tried at all (found by the seed sweep at seed 23 and, independently, by the proof
			// of c06_upper_productive: Props/C06P.lean c06_d12_cfg_productive_not_enough)
			"name-or-single-over-optional": func(c *Sexp, o Outcome) bool {
				return hasNameOrSingleOverOptional(c) && strings.Contains(o.OracleFail, "no terminal or end-of-input was tried")
			},
		},
	})
	for id, sentence := range map[string]bool{"C02": false, "C04": true, "C06": true} {
		pr := props[id]
		pr.Count, pr.Gen = withExhaustive(pr.Count, pr.Gen, sentence)
		pr.Rule += " The thorough tier appends an EXHAUSTIVE family: all one-rule memoized grammars P -> alt1 | alt2 [| alt3] with alternatives from {t, P t, t P, t? P t, P? t, P P, P, eps} over {a,b} x all inputs over {a,b} up to length 4."
	}
	_ = parsley.NilPos
}
