package main

// C13 — tree passes reach every node once, in the documented order.
// Random trees built with the real constructors; Walk / StaticCheck / Transform are run on them; the
// callback sequence, the schemas left on the nodes and the returned trees / errors are compared with the
// Lean model and with an independent recursive reference.

import (
	"fmt"
	"math/rand"
	"strconv"
	"strings"

	"github.com/opsidian/parsley/ast"
	"github.com/opsidian/parsley/parsley"
)

type treeI struct {
	k            int
	failc, failt int
}

func nodeID(n parsley.Node) int {
	switch x := n.(type) {
	case *ast.TerminalNode:
		return x.Value().(int)
	case ast.EmptyNode:
		return int(x)
	case *ast.NonTerminalNode:
		id, _ := strconv.Atoi(x.Token()[1:])
		return id
	}
	return -1
}

func schemaOf(n parsley.Node) int {
	if s, ok := n.Schema().(int); ok {
		return s
	}
	return 0
}

func childSchemasGo(cs []parsley.Node) int {
	if len(cs) == 0 {
		return 0
	}
	return schemaOf(cs[0]) + 3*childSchemasGo(cs[1:])
}

func (t treeI) Eval(userCtx interface{}, node parsley.NonTerminalNode) (interface{}, parsley.Error) {
	return nil, nil
}

type checkerI struct{ treeI }

// pass2 is the user context of a SECOND StaticCheck pass over a tree that has been checked before: the checkers record
// that they ran, add bump to their schema and fail at another node (or nowhere) - a pass must reach every node again
type pass2 struct {
	bump, failc int
	trace       []int
}

func (t checkerI) StaticCheck(userCtx interface{}, node parsley.NonTerminalNode) (interface{}, parsley.Error) {
	id := nodeID(node)
	if p2, ok := userCtx.(*pass2); ok {
		p2.trace = append(p2.trace, id)
		if id == p2.failc {
			return nil, parsley.NewErrorf(node.Pos(), "err%d", id)
		}
		return 1000 + 10*id + childSchemasGo(node.Children())%1000 + p2.bump, nil
	}
	if id == t.failc {
		return nil, parsley.NewErrorf(node.Pos(), "err%d", id)
	}
	return 1000 + 10*id + childSchemasGo(node.Children())%1000, nil
}

type transformerI struct{ treeI }

func (t transformerI) TransformNode(userCtx interface{}, node parsley.Node) (parsley.Node, parsley.Error) {
	id := nodeID(node)
	if id == t.failt {
		return nil, parsley.NewErrorf(node.Pos(), "err%d", id)
	}
	return ast.NewTerminalNode(nil, "l", 100000+id, node.Pos(), node.ReaderPos()), nil
}

type bothI struct{ treeI }

func (t bothI) StaticCheck(userCtx interface{}, node parsley.NonTerminalNode) (interface{}, parsley.Error) {
	return checkerI{t.treeI}.StaticCheck(userCtx, node)
}
func (t bothI) TransformNode(userCtx interface{}, node parsley.Node) (parsley.Node, parsley.Error) {
	return transformerI{t.treeI}.TransformNode(userCtx, node)
}

func optID(c *Sexp, name string) int {
	if a := findArg(c, name); len(a) == 1 && a[0].Atom != "-" {
		return a[0].Int()
	}
	return -1
}

func buildTree(t *Sexp, failc, failt int, listIDs map[int]int) parsley.Node {
	a := t.Args()
	switch t.Head() {
	case "leaf":
		id := a[0].Int()
		if id%5 == 0 {
			return ast.EmptyNode(id)
		}
		return ast.NewTerminalNode(nil, "l", id, parsley.Pos(id), parsley.Pos(id))
	case "nt":
		id := a[0].Int()
		var in parsley.Interpreter
		if a[1].Atom != "-" {
			base := treeI{a[1].Int(), failc, failt}
			switch a[1].Int() % 4 {
			case 0:
				in = base
			case 1:
				in = checkerI{base}
			case 2:
				in = transformerI{base}
			case 3:
				in = bothI{base}
			}
		}
		var cs []parsley.Node
		for _, x := range a[2:] {
			cs = append(cs, buildTree(x, failc, failt, listIDs))
		}
		if len(cs) == 0 {
			return ast.NewEmptyNonTerminalNode("n"+strconv.Itoa(id), parsley.Pos(id), in)
		}
		return ast.NewNonTerminalNode("n"+strconv.Itoa(id), cs, in)
	case "list":
		var items ast.NodeList
		for _, x := range a[1:] {
			items = append(items, buildTree(x, failc, failt, listIDs))
		}
		listIDs[nodeID(items[0])] = a[0].Int()
		return items
	}
	panic("bad tree")
}

func showTree(n parsley.Node, listIDs map[int]int) string {
	switch x := n.(type) {
	case ast.NodeList:
		s := make([]string, len(x))
		for i, c := range x {
			s[i] = showTree(c, listIDs)
		}
		return fmt.Sprintf("L%d[%s]", listIDs[nodeID(x[0])], strings.Join(s, " "))
	case *ast.NonTerminalNode:
		s := make([]string, len(x.Children()))
		for i, c := range x.Children() {
			s[i] = showTree(c, listIDs)
		}
		sc := "-"
		if v, ok := x.Schema().(int); ok {
			sc = strconv.Itoa(v)
		}
		return fmt.Sprintf("n%d:%s[%s]", nodeID(x), sc, strings.Join(s, " "))
	}
	return fmt.Sprintf("l%d", nodeID(n))
}

// ---- independent reference on the case text ----
type refT struct {
	kind     string
	id, k    int // k = interpreter (-1 none)
	schema   int // -1 none
	children []*refT
}

func refTree(t *Sexp) *refT {
	a := t.Args()
	switch t.Head() {
	case "leaf":
		return &refT{kind: "leaf", id: a[0].Int(), k: -1, schema: -1}
	case "nt":
		r := &refT{kind: "nt", id: a[0].Int(), k: -1, schema: -1}
		if a[1].Atom != "-" {
			r.k = a[1].Int()
		}
		for _, x := range a[2:] {
			r.children = append(r.children, refTree(x))
		}
		return r
	default:
		r := &refT{kind: "list", id: a[0].Int(), k: -1, schema: -1}
		for _, x := range a[1:] {
			r.children = append(r.children, refTree(x))
		}
		return r
	}
}

func (r *refT) postorder(out *[]*refT) {
	switch r.kind {
	case "nt":
		for _, c := range r.children {
			c.postorder(out)
		}
	case "list":
		r.children[0].postorder(out)
	}
	*out = append(*out, r)
}

func (r *refT) show() string {
	switch r.kind {
	case "leaf":
		return fmt.Sprintf("l%d", r.id)
	case "list":
		s := make([]string, len(r.children))
		for i, c := range r.children {
			s[i] = c.show()
		}
		return fmt.Sprintf("L%d[%s]", r.id, strings.Join(s, " "))
	}
	s := make([]string, len(r.children))
	for i, c := range r.children {
		s[i] = c.show()
	}
	sc := "-"
	if r.schema >= 0 {
		sc = strconv.Itoa(r.schema)
	}
	return fmt.Sprintf("n%d:%s[%s]", r.id, sc, strings.Join(s, " "))
}

func refChildSchemas(cs []*refT) int {
	if len(cs) == 0 {
		return 0
	}
	s := cs[0].schema
	if s < 0 {
		s = 0
	}
	return s + 3*refChildSchemas(cs[1:])
}

func (r *refT) transform(failt int) (*refT, int) {
	if r.kind != "nt" {
		return r, -1
	}
	if r.k >= 0 && (r.k%4 == 2 || r.k%4 == 3) {
		if r.id == failt {
			return nil, r.id
		}
		return &refT{kind: "leaf", id: 100000 + r.id, k: -1, schema: -1}, -1
	}
	out := &refT{kind: "nt", id: r.id, k: r.k, schema: r.schema}
	for _, c := range r.children {
		c2, e := c.transform(failt)
		if e >= 0 {
			return nil, e
		}
		out.children = append(out.children, c2)
	}
	return out, -1
}

func c13Exec(c *Sexp) Outcome {
	tree := findArg(c, "tree")[0]
	stop, failc, failt := optID(c, "stop"), optID(c, "failc"), optID(c, "failt")
	// Walk
	lids := map[int]int{}
	root := buildTree(tree, failc, failt, lids)
	idOf := func(n parsley.Node) int {
		if nl, ok := n.(ast.NodeList); ok {
			return lids[nodeID(nl[0])]
		}
		return nodeID(n)
	}
	var trace []string
	res := parsley.Walk(root, func(n parsley.Node) bool {
		trace = append(trace, strconv.Itoa(idOf(n)))
		return idOf(n) == stop
	})
	// StaticCheck on a fresh tree
	lids2 := map[int]int{}
	root2 := buildTree(tree, failc, failt, lids2)
	cerr := parsley.StaticCheck(nil, root2)
	check := "ok"
	if cerr != nil {
		check = cerr.Error()
	}
	after := showTree(root2, lids2)
	// a second StaticCheck pass over the SAME tree objects, with another user context (other schemas, no failing node)
	p2 := &pass2{bump: 5, failc: -1}
	cerr2 := parsley.StaticCheck(p2, root2)
	after2 := showTree(root2, lids2)
	// Transform on a fresh tree
	lids3 := map[int]int{}
	root3 := buildTree(tree, failc, failt, lids3)
	tr, terr := parsley.Transform(nil, root3)
	trs := ""
	if terr != nil {
		trs = terr.Error()
	} else {
		trs = showTree(tr, lids3)
	}
	real := fmt.Sprintf("walk=[%s];res=%v;check=%s;after=%s;transform=%s", strings.Join(trace, ","), res, check, after, trs)

	// reference
	fail := ""
	rt := refTree(tree)
	var po []*refT
	rt.postorder(&po)
	var wantTrace []string
	wantRes := false
	for _, n := range po {
		wantTrace = append(wantTrace, strconv.Itoa(n.id))
		if n.id == stop {
			wantRes = true
			break
		}
	}
	if strings.Join(wantTrace, ",") != strings.Join(trace, ",") || res != wantRes {
		fail = fmt.Sprintf("Walk visited [%s] and returned %v; post-order up to the stop is [%s], %v", strings.Join(trace, ","), res, strings.Join(wantTrace, ","), wantRes)
	}
	wantCheck := "ok"
	for _, n := range po {
		if n.kind == "nt" && n.k >= 0 && (n.k%4 == 1 || n.k%4 == 3) {
			if n.id == failc {
				wantCheck = fmt.Sprintf("err%d", n.id)
				break
			}
			n.schema = 1000 + 10*n.id + refChildSchemas(n.children)%1000
		}
	}
	if fail == "" && (wantCheck != check || rt.show() != after) {
		fail = fmt.Sprintf("StaticCheck gave %s / %s; bottom-up reference gives %s / %s", check, after, wantCheck, rt.show())
	}
	if fail == "" {
		var want2 []int
		for _, n := range po {
			if n.kind == "nt" && n.k >= 0 && (n.k%4 == 1 || n.k%4 == 3) {
				want2 = append(want2, n.id)
				n.schema = 1000 + 10*n.id + refChildSchemas(n.children)%1000 + 5
			}
		}
		if cerr2 != nil || fmt.Sprint(want2) != fmt.Sprint(p2.trace) || rt.show() != after2 {
			fail = fmt.Sprintf("a SECOND StaticCheck pass over the checked tree (another user context, no failing node) returned %v, ran the checkers of %v and left %s; every checker in post-order is %v, leaving %s", cerr2, p2.trace, after2, want2, rt.show())
		}
	}
	rt2 := refTree(tree)
	wt, we := rt2.transform(failt)
	wantTr := ""
	if we >= 0 {
		wantTr = fmt.Sprintf("err%d", we)
	} else {
		wantTr = wt.show()
	}
	if fail == "" && wantTr != trs {
		fail = fmt.Sprintf("Transform gave %s; reference gives %s", trs, wantTr)
	}
	return Outcome{Real: real, OracleFail: fail, Nontrivial: len(po) >= 4,
		Tags: []string{fmt.Sprintf("nodes:%d", bucket(len(po))), "root:" + tree.Head()}}
}

func c13GenTree(rng *rand.Rand, depth int, next *int, allowList bool) *Sexp {
	id := *next
	*next++
	if allowList && rng.Intn(5) == 0 {
		n := 1 + rng.Intn(3)
		items := []*Sexp{N(id)}
		for i := 0; i < n; i++ {
			items = append(items, c13GenTree(rng, depth-1, next, false))
		}
		return LA("list", items...)
	}
	if depth <= 0 || rng.Intn(4) == 0 {
		return LA("leaf", N(id))
	}
	interp := A("-")
	if rng.Intn(5) != 0 {
		interp = N(rng.Intn(8))
	}
	n := rng.Intn(5)
	xs := []*Sexp{N(id), interp}
	for i := 0; i < n; i++ {
		xs = append(xs, c13GenTree(rng, depth-1, next, false))
	}
	return LA("nt", xs...)
}

func init() {
	register(&Prop{
		ID: "C13", Cmd: "c13",
		Rule: "random trees built with the real constructors (arity 0-4, depth up to 4, terminal and EMPTY leaves, non-terminals without children, alternative lists at the root, interpreters that are plain / StaticChecker / NodeTransformer / both / absent), a stop node for Walk and a failing node for StaticCheck and for Transform chosen at random among all nodes (or none). Non-trivial = at least 4 nodes visited in post-order.",
		Count: quickN(6000, 240000),
		Gen: func(rng *rand.Rand, tier string, i int) *Sexp {
			next := 1
			tree := c13GenTree(rng, 2+rng.Intn(3), &next, true)
			pick := func() *Sexp {
				if rng.Intn(3) == 0 {
					return A("-")
				}
				return N(1 + rng.Intn(next))
			}
			return L(LA("tree", tree), LA("stop", pick()), LA("failc", pick()), LA("failt", pick()))
		},
		Exec: c13Exec,
	})
}
