package main

// C17 — work stays polynomial on unambiguous grammars.
// The six named families (plus two with several left-recursive alternatives per rule) at doubling lengths: the call count of the real library must equal the Lean
// model's exactly (same count on every run, and on a re-built grammar), and calls(2n)/calls(n) <= 16.

import (
	"fmt"
	"math/rand"
	"strings"
)

type family struct {
	name  string
	env   []*Sexp
	root  *Sexp
	input func(n int) string
}

func seqOf(xs ...*Sexp) *Sexp { return LA("seq", append([]*Sexp{A("of"), noOpts}, xs...)...) }
func refN(k int) *Sexp        { return LA("ref", N(k)) }

func families() []family {
	var fs []family
	// 1. P -> P b | a
	fs = append(fs, family{"PbA", []*Sexp{LA("memo", N(0), LA("any", seqOf(refN(0), runeT('b')), runeT('a')))}, LA("sentence", refN(0)),
		func(n int) string { return "a" + strings.Repeat("b", n-1) }})
	// 2. expr -> expr + term | term ; term -> term * factor | factor ; factor -> d | ( expr )
	fs = append(fs, family{"arith", []*Sexp{
		LA("memo", N(0), LA("any", seqOf(refN(0), runeT('+'), refN(1)), refN(1))),
		LA("memo", N(1), LA("any", seqOf(refN(1), runeT('*'), refN(2)), refN(2))),
		LA("any", runeT('1'), seqOf(runeT('('), refN(0), runeT(')')))}, LA("sentence", refN(0)),
		func(n int) string {
			var sb strings.Builder
			for sb.Len() < n-1 {
				switch sb.Len() % 7 {
				case 2:
					sb.WriteString("1*")
				default:
					sb.WriteString("1+")
				}
			}
			return sb.String() + "1"
		}})
	// 3. mutually left-recursive pair: A -> B a | x ; B -> A b | y
	fs = append(fs, family{"mutual", []*Sexp{
		LA("memo", N(0), LA("any", seqOf(refN(1), runeT('a')), runeT('x'))),
		LA("memo", N(1), LA("any", seqOf(refN(0), runeT('b')), runeT('y')))}, LA("sentence", refN(0)),
		func(n int) string { return "x" + strings.Repeat("ba", (n-1)/2) }})
	// 4. hidden left recursion: P -> x? P b | a
	fs = append(fs, family{"hidden", []*Sexp{LA("memo", N(0), LA("any", seqOf(LA("opt", runeT('x')), refN(0), runeT('b')), runeT('a')))}, LA("sentence", refN(0)),
		func(n int) string { return "a" + strings.Repeat("b", n-1) }})
	// 5. nested brackets: S -> ( S ) | a
	fs = append(fs, family{"brackets", []*Sexp{LA("memo", N(0), LA("any", seqOf(runeT('('), refN(0), runeT(')')), runeT('a')))}, LA("sentence", refN(0)),
		func(n int) string { k := (n - 1) / 2; return strings.Repeat("(", k) + "a" + strings.Repeat(")", k) }})
	// 6. separated list: L -> a (, a)*
	fs = append(fs, family{"seplist", []*Sexp{LA("sepby", N(0), noOpts, runeT('a'), runeT(','))}, LA("sentence", refN(0)),
		func(n int) string { return "a" + strings.Repeat(",a", (n-1)/2) }})
	// 7. two left-recursive alternatives in one rule: P -> P b | P c | a   (still unambiguous)
	fs = append(fs, family{"PbPcA", []*Sexp{LA("memo", N(0), LA("any", seqOf(refN(0), runeT('b')), seqOf(refN(0), runeT('c')), runeT('a')))}, LA("sentence", refN(0)),
		func(n int) string {
			var sb strings.Builder
			sb.WriteByte('a')
			for i := 1; i < n; i++ {
				sb.WriteByte("bc"[i%2])
			}
			return sb.String()
		}})
	// 9. nested brackets with two closers: S -> ( S ) | ( S ] | a   (not left-recursive: its memoized results are UN-curtailed;
	//    the second alternative asks S again at the position where the first one asked — a cache hit, or the work doubles per level)
	fs = append(fs, family{"brackets2", []*Sexp{LA("memo", N(0), LA("any", seqOf(runeT('('), refN(0), runeT(')')), seqOf(runeT('('), refN(0), runeT(']')), runeT('a')))}, LA("sentence", refN(0)),
		func(n int) string {
			k := (n - 1) / 2
			var sb strings.Builder
			sb.WriteString(strings.Repeat("(", k) + "a")
			for i := 0; i < k; i++ {
				sb.WriteByte(")]"[i%2])
			}
			return sb.String()
		}})
	// 10. a memoized right-recursive list behind a shared prefix: L -> I ; L | I , L | I    I -> a   (L and I memoized; every alternative of L
	//     asks I, and the first two ask L, at the same positions)
	fs = append(fs, family{"rlist2", []*Sexp{
		LA("memo", N(0), LA("any", seqOf(refN(1), runeT(';'), refN(0)), seqOf(refN(1), runeT(','), refN(0)), refN(1))),
		LA("memo", N(1), runeT('a'))}, LA("sentence", refN(0)),
		func(n int) string {
			var sb strings.Builder
			sb.WriteByte('a')
			for i := 0; i < (n-1)/2; i++ {
				sb.WriteByte(";,"[i%2])
				sb.WriteByte('a')
			}
			return sb.String()
		}})
	// 8. arithmetic with two operators per level: E -> E + T | E - T | T ; T -> T * F | T / F | F ; F -> 1 | ( E )
	fs = append(fs, family{"arith2", []*Sexp{
		LA("memo", N(0), LA("any", seqOf(refN(0), runeT('+'), refN(1)), seqOf(refN(0), runeT('-'), refN(1)), refN(1))),
		LA("memo", N(1), LA("any", seqOf(refN(1), runeT('*'), refN(2)), seqOf(refN(1), runeT('/'), refN(2)), refN(2))),
		LA("any", runeT('1'), seqOf(runeT('('), refN(0), runeT(')')))}, LA("sentence", refN(0)),
		func(n int) string {
			var sb strings.Builder
			ops := "+-*/"
			for sb.Len() < n-1 {
				sb.WriteByte('1')
				sb.WriteByte(ops[(sb.Len()/2)%4])
			}
			return sb.String() + "1"
		}})
	return fs
}

var c17Lengths = []int{5, 8, 12, 16, 24, 32, 48, 64, 96, 128}

func c17Case(f family, n int) *Sexp {
	return L(LA("env", f.env...), LA("root", f.root), LA("files", L(HS("f"), HS(f.input(n)))), LA("target", N(0)),
		LA("ghost", N(0)), LA("budget", N(0)), LA("family", A(f.name)), LA("n", N(n)))
}

func c17Exec(c *Sexp) Outcome {
	const budget = 30000000
	obs := runParseCase(c, budget, nil, nil)
	if obs.skip != "" {
		return Outcome{Skip: obs.skip}
	}
	name := findArg(c, "family")[0].Atom
	n := findArg(c, "n")[0].Int()
	fail := ""
	if obs.perr != nil {
		fail = fmt.Sprintf("family %s, n=%d: the input should parse: %v", name, n, obs.perr)
	}
	// the second run (re-built grammar, fresh context) must make the same number of calls
	if fail == "" && !strings.Contains(obs.viaParse, fmt.Sprintf("calls=%d", obs.calls)) {
		fail = fmt.Sprintf("family %s, n=%d: call count differs between two runs: %d vs %s", name, n, obs.calls, obs.viaParse)
	}
	// ... and so must a parse on a graph that has parsed another input before (same tree, same call count)
	if fail == "" {
		fail = reuseOracle(obs)
	}
	ratio := 0.0
	if fail == "" && n >= 8 {
		for _, f := range families() {
			if f.name == name {
				o2 := runParseCase(c17Case(f, 2*n), budget, nil, nil)
				if o2.skip != "" {
					return Outcome{Skip: o2.skip}
				}
				ratio = float64(o2.calls) / float64(obs.calls)
				if ratio > 16 {
					fail = fmt.Sprintf("family %s: calls(%d) = %d, calls(%d) = %d: doubling the input multiplied the call count by %.1f > 16", name, n, obs.calls, 2*n, o2.calls, ratio)
				}
			}
		}
	}
	return Outcome{Real: "R:" + obs.direct + "|P:" + obs.viaParse, OracleFail: fail, Nontrivial: n >= 16,
		Tags: []string{"family:" + name, fmt.Sprintf("n:%d", n), fmt.Sprintf("calls:%s=%d", name, obs.calls), fmt.Sprintf("ratio:%s@%d=%.2f", name, n, ratio)}}
}

func init() {
	register(&Prop{
		ID: "C17", Cmd: "parse",
		Rule: "the six named families (P -> P b | a; expr/term/factor arithmetic; mutually left-recursive pair; hidden left recursion P -> x? P b | a; nested brackets; separated list), two more with several left-recursive alternatives per rule (P -> P b | P c | a; arithmetic with + - * /) and two whose memoized results are un-curtailed and asked for again at the same position (nested brackets with two closers S -> ( S ) | ( S ] | a; right-recursive list L -> I ; L | I , L | I) at lengths 5..128 (thorough: ..384): exact call counts of the implementation vs the Lean model, equal on a second run with a re-built grammar, and calls(2n)/calls(n) <= 16 for n >= 8 (each case also runs length 2n on the implementation). Non-trivial = n >= 16; distinct = (family, n).",
		Count: func(tier string) int {
			if tier == "thorough" {
				return len(families()) * (len(c17Lengths) + 3)
			}
			return len(families()) * len(c17Lengths)
		},
		Gen: func(rng *rand.Rand, tier string, i int) *Sexp {
			fs := families()
			lens := append(append([]int{}, c17Lengths...), 192, 256, 384)
			return c17Case(fs[i%len(fs)], lens[i/len(fs)])
		},
		Exec: c17Exec,
	})
}
