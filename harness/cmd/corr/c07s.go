package main

// C07S — a returned result is never modified afterwards (slice level; additional stream of property C07).
//
// Random operation histories over a pool of previously returned values are executed on the REAL packages:
// ast.NewTerminalNode / ast.EmptyNode / parser.EndNode, ast.AppendNode through the real combinator.Any and
// combinator.Optional around stub parsers, ast.NodeList.Append, the real combinator.Memoize around a stub
// parser (so that the real clip `nl[:len(nl):len(nl)]` runs on the store path and the real ResultCache on
// the hit path), the real combinator.SeqOf / SeqTry / SeqFirstOrAll around stub parsers (so that the real
// `s.nodes` buffer, `s.nodes[0:depth]`, the result handler's copy and `s.result = AppendNode(…)` run), and
// ast.SetReaderPos (what text.RightTrim calls).  After EVERY operation ALL pool values (live and dead) are
// rendered again and compared
//   (a) with the rendering recorded when the value was returned (the oracle: this IS the property), and
//   (b) with the Lean slice-level machine (Model/Slice.lean, driver command c07ops), line by line.
// The ownership discipline of the library is mirrored: a list that the memo table does not hold is linear
// (the operation that extends / stores / trims it consumes the pool entry), operations on dead entries are
// rejected on both sides.
//
// Known finding D5 (signature rtrim-over-shared-node): ast.SetReaderPos on a value that is visible through
// another live pool entry or through the memo table changes what those holders read.  Sharing is decided
// here by pointer identity on the real objects (and independently by the machine's `unshared`, compared as
// part of the model line); a deviation is attributed to D5 only if it is in a value that can see the trimmed
// objects, in the very step of the shared trim.  Every other deviation is a violation.

import (
	"fmt"
	"math/rand"
	"sort"
	"strconv"
	"strings"

	"github.com/opsidian/parsley/ast"
	"github.com/opsidian/parsley/combinator"
	"github.com/opsidian/parsley/data"
	"github.com/opsidian/parsley/parser"
	"github.com/opsidian/parsley/parsley"
	"github.com/opsidian/parsley/text"
)

func c07sWrite(sb *strings.Builder, n parsley.Node, top bool) {
	if sb.Len() > 0 {
		sb.WriteByte(' ')
	}
	switch x := n.(type) {
	case nil:
		sb.WriteString("nil")
	case ast.NodeList:
		if !top {
			sb.WriteString("??")
			return
		}
		sb.WriteString("L[")
		for _, c := range x {
			c07sWrite(sb, c, false)
		}
		sb.WriteString(" ]")
	case ast.EmptyNode:
		fmt.Fprintf(sb, "E%d", int(x))
	case parser.EndNode:
		fmt.Fprintf(sb, "F%d", int(x))
	case *ast.TerminalNode:
		fmt.Fprintf(sb, "%s:%v:%d:%d", x.Token(), x.Value(), int(x.Pos()), int(x.ReaderPos()))
	case *ast.NonTerminalNode:
		fmt.Fprintf(sb, "N%s:%d:%d[", strings.TrimPrefix(x.Token(), "T"), int(x.Pos()), int(x.ReaderPos()))
		for _, c := range x.Children() {
			c07sWrite(sb, c, false)
		}
		sb.WriteString(" ]")
	default:
		fmt.Fprintf(sb, "?%T", n)
	}
}

func c07sRender(n parsley.Node) string {
	var sb strings.Builder
	c07sWrite(&sb, n, true)
	return sb.String()
}

type c07sEntry struct {
	node     parsley.Node
	live     bool
	recorded string // what it read when it was returned (re-based only by an attributed D5 change)
}

type c07sMemo struct {
	p     parsley.Parser
	calls *int
	entry int // pool index of the value returned by the store
}

type c07sMachine struct {
	ctx      *parsley.Context
	pool     []c07sEntry
	memo     map[int]*c07sMemo
	memoVals []parsley.Node
	fail     string // a violation (first one)
	d5       string // a change attributed to known finding D5 (first one)
	tags     map[string]bool
	nHitUse  int
	nListOp  int
}

func newC07sMachine() *c07sMachine {
	f := text.NewFile("f", []byte("0123456789"))
	fs := parsley.NewFileSet(f)
	return &c07sMachine{ctx: parsley.NewContext(fs, text.NewReader(f)), memo: map[int]*c07sMemo{}, tags: map[string]bool{}}
}

func c07sStub(n parsley.Node, calls *int) parsley.Parser {
	return parser.Func(func(ctx *parsley.Context, leftRecCtx data.IntMap, pos parsley.Pos) (parsley.Node, data.IntSet, parsley.Error) {
		if calls != nil {
			*calls++
		}
		return n, data.EmptyIntSet, nil
	})
}

func c07sBase(nl []parsley.Node) *parsley.Node {
	if cap(nl) == 0 {
		return nil
	}
	return &nl[:1][0]
}

func c07sSameHeader(a, b ast.NodeList) bool {
	return len(a) == len(b) && cap(a) == cap(b) && c07sBase(a) == c07sBase(b)
}

// consumable: a list that the memo table does not hold
func (m *c07sMachine) consumable(n parsley.Node) bool {
	nl, ok := n.(ast.NodeList)
	if !ok {
		return false
	}
	for _, v := range m.memoVals {
		if vl, ok := v.(ast.NodeList); ok && c07sSameHeader(nl, vl) {
			return false
		}
	}
	return true
}

func (m *c07sMachine) get(i int) (parsley.Node, bool) {
	if i < 0 || i >= len(m.pool) || !m.pool[i].live {
		return nil, false
	}
	return m.pool[i].node, true
}

func (m *c07sMachine) push(n parsley.Node) {
	m.pool = append(m.pool, c07sEntry{node: n, live: true, recorded: c07sRender(n)})
}

func (m *c07sMachine) consume(i int) {
	if m.consumable(m.pool[i].node) {
		m.pool[i].live = false
	}
}

// sharing by pointer identity ------------------------------------------------------------------------

type c07sWrites struct {
	nodes map[parsley.Node]bool
	arr   *parsley.Node
}

func c07sTrimWrites(n parsley.Node) c07sWrites {
	w := c07sWrites{nodes: map[parsley.Node]bool{}}
	switch x := n.(type) {
	case *ast.TerminalNode, *ast.NonTerminalNode:
		w.nodes[n] = true
	case ast.NodeList:
		w.arr = c07sBase(x)
		for _, c := range x {
			switch c.(type) {
			case *ast.TerminalNode, *ast.NonTerminalNode:
				w.nodes[c] = true
			}
		}
	}
	return w
}

func (w c07sWrites) dirty(n parsley.Node, seen map[parsley.Node]bool) bool {
	switch x := n.(type) {
	case *ast.TerminalNode:
		return w.nodes[n]
	case *ast.NonTerminalNode:
		if v, ok := seen[n]; ok {
			return v
		}
		r := w.nodes[n]
		if !r && w.arr != nil && c07sBase(x.Children()) == w.arr {
			r = true
		}
		if !r {
			for _, c := range x.Children() {
				if w.dirty(c, seen) {
					r = true
					break
				}
			}
		}
		seen[n] = r
		return r
	}
	return false
}

func (w c07sWrites) affected(n parsley.Node, seen map[parsley.Node]bool) bool {
	if nl, ok := n.(ast.NodeList); ok {
		if w.arr != nil && c07sBase(nl) == w.arr {
			return true
		}
		for _, c := range nl {
			if w.dirty(c, seen) {
				return true
			}
		}
		return false
	}
	return w.dirty(n, seen)
}

// one operation --------------------------------------------------------------------------------------

func (m *c07sMachine) apply(step int, op *Sexp) string {
	a := op.Args()
	m.tags["op:"+op.Head()] = true
	var trimW *c07sWrites
	trimShared := false
	trimIdx := -1
	out := "-"
	idx := func(k int) (parsley.Node, int, bool) {
		if k >= len(a) || a[k].IsL {
			return nil, 0, false
		}
		i := a[k].Int()
		n, ok := m.get(i)
		return n, i, ok
	}
	parse := func(p parsley.Parser, pos int) parsley.Node {
		res, _, _ := p.Parse(m.ctx, data.EmptyIntMap, parsley.Pos(pos))
		return res
	}
	switch op.Head() {
	case "nil":
		m.push(nil)
	case "term":
		m.push(ast.NewTerminalNode(nil, "T"+a[0].Atom, a[1].Int(), parsley.Pos(a[2].Int()), parsley.Pos(a[3].Int())))
	case "empty":
		m.push(ast.EmptyNode(a[0].Int()))
	case "eof":
		m.push(parser.EndNode(a[0].Int()))
	case "append":
		n1, i, ok1 := idx(0)
		n2, j, ok2 := idx(1)
		if !ok1 || !ok2 {
			out = "bad-op"
			break
		}
		if _, isList := n1.(ast.NodeList); isList {
			m.nListOp++
		}
		// Any: res = AppendNode(nil, res1); res = AppendNode(res, res2)
		res := parse(combinator.Any(c07sStub(n1, nil), c07sStub(n2, nil)), 0)
		if n1 == nil {
			m.consume(j)
		} else {
			m.consume(i)
		}
		m.push(res)
	case "nlappend":
		n1, i, ok1 := idx(0)
		n2, _, ok2 := idx(1)
		nl, isList := n1.(ast.NodeList)
		if !ok1 || !ok2 || !isList || n2 == nil {
			out = "bad-op"
			break
		}
		m.nListOp++
		m.consume(i) // decided on the header before the call, like the machine
		nl.Append(n2)
		m.push(nl)
	case "opt":
		n1, i, ok1 := idx(0)
		if !ok1 {
			out = "bad-op"
			break
		}
		if _, isList := n1.(ast.NodeList); isList {
			m.nListOp++
		}
		res := parse(combinator.Optional(c07sStub(n1, nil)), a[1].Int())
		if n1 != nil {
			m.consume(i)
		}
		m.push(res)
	case "elem":
		n1, _, ok1 := idx(0)
		nl, isList := n1.(ast.NodeList)
		if !ok1 || !isList || a[1].Int() >= len(nl) {
			out = "bad-op"
			break
		}
		m.push(nl[a[1].Int()])
	case "store":
		key := a[0].Int()
		n, i, ok := idx(1)
		if _, dup := m.memo[key]; !ok || dup {
			out = "bad-op"
			break
		}
		calls := new(int)
		p := combinator.Memoize(c07sStub(n, calls))
		m.consume(i)
		res := parse(p, 0)
		m.memo[key] = &c07sMemo{p: p, calls: calls, entry: len(m.pool)}
		m.memoVals = append(m.memoVals, res)
		m.push(res)
	case "hit":
		mm := m.memo[a[0].Int()]
		if mm == nil {
			out = "bad-op"
			break
		}
		res := parse(mm.p, 0)
		if *mm.calls != 1 && m.fail == "" {
			m.fail = fmt.Sprintf("step %d (%s): the memoized parser was called again instead of answering from the cache", step, op)
		}
		m.push(res)
		m.nHitUse++
		if got, want := c07sRender(res), m.pool[mm.entry].recorded; got != want && m.fail == "" {
			m.fail = fmt.Sprintf("step %d (%s): asking the memoized parser again gave a different answer: %s when it was stored (changed since), %s now", step, op, want, got)
		}
	case "trim":
		n, i, ok := idx(0)
		if !ok || n == nil {
			out = "bad-op"
			break
		}
		w := c07sTrimWrites(n)
		seen := map[parsley.Node]bool{}
		for k, e := range m.pool {
			if k != i && e.live && w.affected(e.node, seen) {
				trimShared = true
			}
		}
		for _, v := range m.memoVals {
			if w.affected(v, seen) {
				trimShared = true
			}
		}
		trimW, trimIdx = &w, i
		d := a[1].Int()
		res := ast.SetReaderPos(n, func(p parsley.Pos) parsley.Pos { return p + parsley.Pos(d) })
		m.pool[i].live = false
		m.push(res)
		if trimShared {
			out = "-s"
			m.tags["shared-trim"] = true
		} else {
			out = "-u"
			m.tags["unshared-trim"] = true
		}
	case "drop":
		_, i, ok := idx(0)
		if !ok {
			out = "bad-op"
			break
		}
		m.pool[i].live = false
	case "render":
		n, _, ok := idx(0)
		if !ok {
			out = "bad-op"
			break
		}
		out = "r:" + c07sRender(n)
	case "seq":
		// (seq kind tok single pos i...)
		var stubs []parsley.Parser
		bad := false
		for k := 4; k < len(a); k++ {
			n, _, ok := idx(k)
			if !ok {
				bad = true
				break
			}
			if nl, isList := n.(ast.NodeList); isList && len(nl) > 1 {
				m.tags["seq-over-list"] = true
			}
			stubs = append(stubs, c07sStub(n, nil))
		}
		if bad {
			out = "bad-op"
			break
		}
		var s *combinator.Sequence
		switch a[0].Atom {
		case "of":
			s = combinator.SeqOf(stubs...)
		case "try":
			s = combinator.SeqTry(stubs...)
		default:
			s = combinator.SeqFirstOrAll(stubs...)
		}
		s = s.Token("T" + a[1].Atom)
		if a[2].Int() != 0 {
			s = s.HandleResult(combinator.ReturnSingle())
		}
		m.push(parse(s, a[3].Int()))
	default:
		out = "bad-op"
	}

	// re-read every value returned so far
	snap := make([]string, len(m.pool))
	seen := map[parsley.Node]bool{}
	for k := range m.pool {
		e := &m.pool[k]
		now := c07sRender(e.node)
		mark := "-"
		if e.live {
			mark = "+"
		}
		snap[k] = mark + now
		if now == e.recorded {
			continue
		}
		what := fmt.Sprintf("after step %d (%s): value #%d read %s when it was returned and has changed: it reads %s now", step, op, k, e.recorded, now)
		memoHeld := false
		for _, mm := range m.memo {
			if mm.entry == k {
				memoHeld = true
			}
		}
		switch {
		case trimW != nil && k != trimIdx && trimW.affected(e.node, seen) && trimShared && (e.live || memoHeld):
			if m.d5 == "" {
				m.d5 = "D5 rtrim-over-shared-node: " + what
			}
		case trimW != nil && (k == trimIdx || (trimW.affected(e.node, seen) && !e.live && !memoHeld)):
			// the trimmed variable itself, or a value nobody holds any more
		default:
			if m.fail == "" {
				m.fail = what
			}
		}
		e.recorded = now
	}
	return out + "|" + strings.Join(snap, " , ")
}

func c07sExec(c *Sexp) Outcome {
	m := newC07sMachine()
	var outs []string
	for step, op := range c.List {
		outs = append(outs, m.apply(step, op))
	}
	var tl []string
	for t := range m.tags {
		tl = append(tl, t)
	}
	sort.Strings(tl)
	tl = append(tl, fmt.Sprintf("ops:%d", bucket(len(c.List))))
	fail := m.fail
	if fail == "" {
		fail = m.d5
	}
	return Outcome{Real: strings.Join(outs, ";"), OracleFail: fail, Tags: tl,
		Nontrivial: m.nHitUse > 0 && m.nListOp > 0 && len(m.pool) >= 4}
}

// generator: the history is built while it is executed, so that operands are live values of the right kind

func c07sGen(rng *rand.Rand, tier string, i int) *Sexp {
	maxOps := 28
	if tier == "thorough" {
		maxOps = 48
	}
	nOps := 3 + rng.Intn(maxOps)
	trimP := 6 // per cent; half of the histories have no trim at all (pure append family)
	if i%2 == 0 {
		trimP = 0
	}
	m := newC07sMachine()
	c := L()
	nextKey := 0
	emit := func(op *Sexp) {
		m.apply(len(c.List), op)
		c.List = append(c.List, op)
	}
	small := func(k int) bool { return len(m.pool[k].recorded) < 160 }
	pick := func(pred func(n parsley.Node) bool) int {
		var idx []int
		for k, e := range m.pool {
			if e.live && small(k) && pred(e.node) {
				idx = append(idx, k)
			}
		}
		if len(idx) == 0 {
			return -1
		}
		if rng.Intn(3) == 0 {
			return idx[len(idx)-1]
		}
		return idx[rng.Intn(len(idx))]
	}
	isList := func(n parsley.Node) bool { _, ok := n.(ast.NodeList); return ok }
	any := func(n parsley.Node) bool { return true }
	nonNil := func(n parsley.Node) bool { return n != nil }
	leaf := func() *Sexp {
		p := rng.Intn(6)
		switch r := rng.Intn(10); {
		case r < 7:
			return LA("term", N(rng.Intn(4)), N(rng.Intn(5)-1), N(p), N(p+rng.Intn(3)))
		case r < 9:
			return LA("empty", N(rng.Intn(3)))
		default:
			return LA("eof", N(p))
		}
	}
	for len(c.List) < nOps {
		r := rng.Intn(100)
		switch {
		case r < 16 || len(m.pool) < 2:
			emit(leaf())
		case r < 18:
			emit(LA("nil"))
		case r < 38:
			x, y := pick(any), pick(any)
			if rng.Intn(2) == 0 {
				if l := pick(isList); l >= 0 {
					x = l
				}
			}
			if x >= 0 && y >= 0 {
				emit(LA("append", N(x), N(y)))
			}
		case r < 42:
			x, y := pick(isList), pick(nonNil)
			if x >= 0 && y >= 0 {
				emit(LA("nlappend", N(x), N(y)))
			}
		case r < 50:
			if x := pick(any); x >= 0 {
				emit(LA("opt", N(x), N(rng.Intn(3))))
			}
		case r < 55:
			if x := pick(isList); x >= 0 {
				emit(LA("elem", N(x), N(rng.Intn(len(m.pool[x].node.(ast.NodeList))))))
			}
		case r < 65:
			if x := pick(any); x >= 0 {
				emit(LA("store", N(nextKey), N(x)))
				nextKey++
			}
		case r < 80:
			if nextKey > 0 {
				emit(LA("hit", N(rng.Intn(nextKey))))
			}
		case r < 80+trimP:
			if x := pick(nonNil); x >= 0 {
				emit(LA("trim", N(x), N(1+rng.Intn(3))))
			}
		case r < 90:
			if x := pick(any); x >= 0 && rng.Intn(2) == 0 {
				emit(LA("drop", N(x)))
			}
		case r < 92:
			if x := pick(any); x >= 0 {
				emit(LA("render", N(x)))
			}
		default:
			n := rng.Intn(4)
			kind := []string{"of", "of", "try", "foa"}[rng.Intn(4)]
			args := []*Sexp{A(kind), N(4 + rng.Intn(3)), N(rng.Intn(4) / 3), N(rng.Intn(4))}
			ok := true
			combos := 1 // the sequence returns one node per combination of alternatives
			for k := 0; k < n; k++ {
				x := pick(any)
				if x < 0 {
					ok = false
					break
				}
				if nl, isL := m.pool[x].node.(ast.NodeList); isL {
					combos *= len(nl)
				}
				args = append(args, N(x))
			}
			if combos > 8 {
				ok = false
			}
			if ok {
				emit(LA("seq", args...))
			}
		}
	}
	return c
}

// c07sTemplate: the D1 shape: a memoized list with spare capacity handed to several list-extending consumers
func c07sTemplate(rng *rand.Rand) *Sexp {
	c := L()
	n := 2 + rng.Intn(5)
	for k := 0; k < n+3; k++ {
		c.List = append(c.List, LA("term", N(k%4), N(k), N(0), N(1+k%2)))
	}
	acc := 0
	next := n + 3
	for k := 1; k < n; k++ {
		c.List = append(c.List, LA("append", N(acc), N(k)))
		acc = next
		next++
	}
	c.List = append(c.List, LA("store", N(0), N(acc)))
	next++
	for k := 0; k < 2+rng.Intn(3); k++ {
		c.List = append(c.List, LA("hit", N(0)))
		h := next
		next++
		switch rng.Intn(3) {
		case 0:
			c.List = append(c.List, LA("opt", N(h), N(rng.Intn(2))))
		case 1:
			c.List = append(c.List, LA("append", N(h), N(n+rng.Intn(3))))
		default:
			c.List = append(c.List, LA("nlappend", N(h), N(n+rng.Intn(3))))
		}
		next++
	}
	return c
}

var c07sIdxArgs = map[string][]int{
	"append": {0, 1}, "nlappend": {0, 1}, "opt": {0}, "elem": {0}, "store": {1}, "trim": {0}, "drop": {0}, "render": {0},
}

func c07sIsIdx(op *Sexp, k int) bool {
	if op.Head() == "seq" {
		return k >= 4
	}
	for _, x := range c07sIdxArgs[op.Head()] {
		if x == k {
			return true
		}
	}
	return false
}

func c07sShrink(c *Sexp) []*Sexp {
	var out []*Sexp
	for n := len(c.List) - 1; n >= 1; n-- {
		out = append(out, &Sexp{IsL: true, List: c.Clone().List[:n]})
	}
	// which operations created a pool value (replayed on the real code)
	m := newC07sMachine()
	created := make([]int, len(c.List)) // pool index created by op i, or -1
	for i, op := range c.List {
		before := len(m.pool)
		m.apply(i, op)
		created[i] = -1
		if len(m.pool) > before {
			created[i] = before
		}
	}
	for i := range c.List {
		idx := created[i]
		used := false
		if idx >= 0 {
			for _, later := range c.List[i+1:] {
				for k, a := range later.Args() {
					if c07sIsIdx(later, k) && !a.IsL && a.Int() == idx {
						used = true
					}
				}
			}
		}
		if used {
			continue
		}
		d := c.Clone()
		d.List = append(d.List[:i], d.List[i+1:]...)
		if idx >= 0 {
			for _, later := range d.List[i:] {
				for k, a := range later.Args() {
					if c07sIsIdx(later, k) && !a.IsL && a.Int() > idx {
						a.Atom = strconv.Itoa(a.Int() - 1)
					}
				}
			}
		}
		out = append(out, d)
	}
	return out
}

func init() {
	register(&Prop{
		ID: "C07S", Cmd: "c07ops", ReportAs: "C07",
		Rule: "random histories of the library's node/list primitives over a pool of previously returned values, executed on the real packages " +
			"(AppendNode through combinator.Any/Optional over stub parsers, NodeList.Append, combinator.Memoize over a stub parser for store and hit, " +
			"combinator.SeqOf/SeqTry/SeqFirstOrAll over stub parsers incl. list results and ReturnSingle, ast.SetReaderPos, element access, drop); operands drawn from live values, " +
			"half of the histories without any SetReaderPos, one in eight from the D1 template (a memoized list handed to several list-extending consumers); " +
			"after every operation all values returned so far are re-rendered and compared with their rendering at return time and with the Lean machine. " +
			"Non-trivial = at least one cache hit, at least one operation extending a list, and >= 4 values; distinct = distinct history text.",
		Count: quickN(6000, 60000),
		Gen: func(rng *rand.Rand, tier string, i int) *Sexp {
			if i%8 == 7 {
				return c07sTemplate(rng)
			}
			return c07sGen(rng, tier, i)
		},
		Exec:   c07sExec,
		Shrink: c07sShrink,
		Known: map[string]func(c *Sexp, o Outcome) bool{
			"rtrim-over-shared-node": func(c *Sexp, o Outcome) bool {
				if !strings.HasPrefix(o.OracleFail, "D5 rtrim-over-shared-node: ") {
					return false
				}
				for _, t := range o.Tags {
					if t == "shared-trim" {
						return true
					}
				}
				return false
			},
		},
	})
}
