package main

// Random grammars over single-byte terminals, the well-formedness certificate (C02's hypothesis),
// and grammar-directed input sampling.

import (
	"strings"
	"math/rand"
	"strconv"
)

var noOpts = LA("o", A("none"), A("-"), A("0"), A("-"))

func runeT(ch byte) *Sexp {
	return LA("rune", N(int(ch)), HS(strconv.Quote(string(rune(ch)))))
}

type gramGen struct {
	rng          *rand.Rand
	nRules       int
	alphabet     []byte
	nextMemo     int
	subMemo      float64 // probability of memoizing a sub-term
	nameAlts     bool    // every Any/Choice carries a Name
	noRefs       bool
	forbidRef    map[int]bool
	upwardRef    int // if >= 0: only refs to rules with a larger index than this (left-recursion-free by construction)
	nameCount    int
	noSuppress   bool
	noNameSingle bool
}

func (g *gramGen) ch() byte { return g.alphabet[g.rng.Intn(len(g.alphabet))] }

func (g *gramGen) ref() *Sexp {
	if g.upwardRef >= 0 {
		if g.upwardRef+1 >= g.nRules {
			return runeT(g.ch())
		}
		return LA("ref", N(g.upwardRef+1+g.rng.Intn(g.nRules-g.upwardRef-1)))
	}
	return LA("ref", N(g.rng.Intn(g.nRules)))
}

func (g *gramGen) maybeMemo(t *Sexp) *Sexp {
	if g.subMemo > 0 && g.rng.Float64() < g.subMemo {
		k := g.nextMemo
		g.nextMemo++
		return LA("memo", N(k), t)
	}
	return t
}

func (g *gramGen) named(t *Sexp) *Sexp {
	if g.nameAlts {
		g.nameCount++
		return LA("name", HS("n"+strconv.Itoa(g.nameCount)), t)
	}
	return t
}

func (g *gramGen) term(depth int) *Sexp {
	r := g.rng.Intn(100)
	if depth <= 0 {
		switch {
		case r < 60:
			return runeT(g.ch())
		case r < 88:
			return g.ref()
		default:
			return LA("empty")
		}
	}
	switch {
	case r < 14:
		return runeT(g.ch())
	case r < 28:
		return g.ref()
	case r < 32:
		return LA("empty")
	case r < 47:
		n := 2 + g.rng.Intn(2)
		xs := make([]*Sexp, n)
		for i := range xs {
			xs[i] = g.term(depth - 1)
		}
		return g.maybeMemo(g.named(LA("any", xs...)))
	case r < 55:
		n := 2 + g.rng.Intn(2)
		xs := make([]*Sexp, n)
		for i := range xs {
			xs[i] = g.term(depth - 1)
		}
		return g.maybeMemo(g.named(LA("choice", xs...)))
	case r < 74:
		n := 1 + g.rng.Intn(3)
		xs := []*Sexp{A("of"), g.sopts()}
		for i := 0; i < n; i++ {
			xs = append(xs, g.term(depth-1))
		}
		return g.maybeMemo(LA("seq", xs...))
	case r < 78:
		n := 2 + g.rng.Intn(2)
		xs := []*Sexp{A("try"), g.sopts()}
		for i := 0; i < n; i++ {
			xs = append(xs, g.term(depth-1))
		}
		return g.maybeMemo(LA("seq", xs...))
	case r < 81:
		n := 2 + g.rng.Intn(2)
		xs := []*Sexp{A("foa"), g.sopts()}
		for i := 0; i < n; i++ {
			xs = append(xs, g.term(depth-1))
		}
		return g.maybeMemo(LA("seq", xs...))
	case r < 86:
		return g.maybeMemo(LA("many", N(g.rng.Intn(2)), g.sopts(), g.term(depth-1)))
	case r < 89:
		return g.maybeMemo(LA("sepby", N(g.rng.Intn(2)), g.sopts(), g.term(depth-1), g.term(depth-1)))
	case r < 96:
		return LA("opt", g.term(depth-1))
	case r < 98:
		if g.noNameSingle {
			return g.ref()
		}
		g.nameCount++
		return LA("name", HS("m"+strconv.Itoa(g.nameCount)), g.term(depth-1))
	case r < 99:
		if g.noSuppress {
			return runeT(g.ch())
		}
		return LA("suppress", g.term(depth-1))
	default:
		if g.noNameSingle {
			return LA("empty")
		}
		return LA("single", g.term(depth-1))
	}
}

// sopts: the options of a generated Sequence - mostly none; in the streams that name alternatives (C04, C06) one sequence in
// four carries a Name of its own (Sequence.Name: the not-found error at the sequence's own start is replaced, seq.go Parse)
func (g *gramGen) sopts() *Sexp {
	if g.nameAlts && !g.noNameSingle {
		switch g.rng.Intn(8) {
		case 0, 1:
			g.nameCount++
			return LA("o", A("none"), HS("s"+strconv.Itoa(g.nameCount)), A("0"), A("-"))
		case 2:
			// HandleResult(ReturnSingle()): a sequence with exactly one child returns that child
			return LA("o", A("none"), A("-"), A("1"), A("-"))
		}
	}
	return noOpts
}

// rule builds the body of rule i with a bias towards the shapes the properties talk about.
func (g *gramGen) rule(i int, depth int) *Sexp {
	if g.upwardRef >= 0 {
		g.upwardRef = i
	}
	nAlt := 1 + g.rng.Intn(3)
	var alts []*Sexp
	for a := 0; a < nAlt; a++ {
		r := g.rng.Intn(100)
		switch {
		case r < 30 && g.upwardRef < 0: // direct/indirect left recursion: N x
			xs := []*Sexp{A("of"), g.sopts(), g.ref()}
			for k := g.rng.Intn(2) + 1; k > 0; k-- {
				xs = append(xs, g.term(depth-1))
			}
			alts = append(alts, LA("seq", xs...))
		case r < 45 && g.upwardRef < 0: // hidden left recursion: x? N y
			xs := []*Sexp{A("of"), g.sopts(), LA("opt", runeT(g.ch())), g.ref(), runeT(g.ch())}
			alts = append(alts, LA("seq", xs...))
		case r < 40 && g.upwardRef >= 0:
			// two alternatives sharing a prefix: the shared (memoized) parser is asked twice at one position
			pre := g.maybeMemo(g.term(depth - 1))
			if pre.Head() != "memo" && g.subMemo > 0 {
				k := g.nextMemo
				g.nextMemo++
				pre = LA("memo", N(k), pre)
			}
			alts = append(alts, LA("seq", A("of"), g.sopts(), pre, runeT(g.ch())), LA("seq", A("of"), g.sopts(), pre.Clone(), runeT(g.ch())))
		case r < 60:
			alts = append(alts, runeT(g.ch()))
		default:
			alts = append(alts, g.term(depth))
		}
	}
	var body *Sexp
	if len(alts) == 1 {
		body = alts[0]
	} else if g.rng.Intn(5) == 0 {
		body = g.named(LA("choice", alts...))
	} else {
		body = g.named(LA("any", alts...))
	}
	return body
}

type genGrammar struct {
	env  []*Sexp
	root *Sexp
}

// --- certificate ----------------------------------------------------------------------------------------

func nullableTerm(t *Sexp, nr []bool) bool {
	a := t.Args()
	switch t.Head() {
	case "rune", "op", "word", "bool", "nilw", "int", "float", "string", "char", "dur", "regexp":
		return false
	case "empty", "eof":
		return true
	case "ref":
		return nr[a[0].Int()]
	case "memo":
		return nullableTerm(a[1], nr)
	case "any", "choice":
		for _, x := range a {
			if nullableTerm(x, nr) {
				return true
			}
		}
		return false
	case "seq":
		els := a[2:]
		switch a[0].Atom {
		case "of":
			for _, x := range els {
				if !nullableTerm(x, nr) {
					return false
				}
			}
			return true
		default:
			return len(els) > 0 && nullableTerm(els[0], nr)
		}
	case "sentence":
		return nullableTerm(a[0], nr)
	case "many":
		return a[0].Int() != 0 || nullableTerm(a[2], nr)
	case "sepby":
		return a[0].Int() != 0 || nullableTerm(a[2], nr)
	case "opt":
		return true
	case "name", "ltrim", "rtrim":
		return nullableTerm(a[1], nr)
	case "single", "suppress":
		return nullableTerm(a[0], nr)
	}
	return true
}

func nullableRules(env []*Sexp) []bool {
	nr := make([]bool, len(env))
	for changed := true; changed; {
		changed = false
		for i, e := range env {
			if !nr[i] && nullableTerm(e, nr) {
				nr[i] = true
				changed = true
			}
		}
	}
	return nr
}

type leftRef struct {
	k      int
	tagged bool
}

func leftRefs(t *Sexp, nr []bool, tagged bool, out *[]leftRef) {
	a := t.Args()
	switch t.Head() {
	case "ref":
		*out = append(*out, leftRef{a[0].Int(), tagged})
	case "memo":
		leftRefs(a[1], nr, true, out)
	case "any", "choice":
		for _, x := range a {
			leftRefs(x, nr, tagged, out)
		}
	case "seq":
		for _, x := range a[2:] {
			leftRefs(x, nr, tagged, out)
			if !nullableTerm(x, nr) {
				break
			}
		}
	case "sentence":
		leftRefs(a[0], nr, tagged, out)
	case "many":
		leftRefs(a[2], nr, tagged, out)
	case "sepby":
		leftRefs(a[2], nr, tagged, out)
		if nullableTerm(a[2], nr) {
			leftRefs(a[3], nr, tagged, out)
		}
	case "opt", "single", "suppress":
		leftRefs(a[0], nr, tagged, out)
	case "name", "ltrim", "rtrim":
		leftRefs(a[1], nr, tagged, out)
	}
}

func repetitionsOK(t *Sexp, nr []bool) bool {
	if !t.IsL {
		return true
	}
	a := t.Args()
	switch t.Head() {
	case "many":
		if nullableTerm(a[2], nr) {
			return false
		}
	case "sepby":
		if nullableTerm(a[2], nr) && nullableTerm(a[3], nr) {
			return false
		}
	}
	for _, x := range a {
		if x.IsL && !repetitionsOK(x, nr) {
			return false
		}
	}
	return true
}

// wellFormed: every cycle of the left-call graph passes a Memoize (all=false), or there is no left
// recursion at all (all=true); repetition operands consume input.
func wellFormed(env []*Sexp, root *Sexp, all bool) bool {
	nr := nullableRules(env)
	for _, e := range env {
		if !repetitionsOK(e, nr) {
			return false
		}
	}
	if !repetitionsOK(root, nr) {
		return false
	}
	n := len(env)
	adj := make([][]int, n)
	for i, e := range env {
		var lr []leftRef
		leftRefs(e, nr, false, &lr)
		for _, r := range lr {
			if all || !r.tagged {
				adj[i] = append(adj[i], r.k)
			}
		}
	}
	color := make([]int, n)
	var dfs func(int) bool
	dfs = func(u int) bool {
		color[u] = 1
		for _, v := range adj[u] {
			if color[v] == 1 {
				return false
			}
			if color[v] == 0 && !dfs(v) {
				return false
			}
		}
		color[u] = 2
		return true
	}
	for i := 0; i < n; i++ {
		if color[i] == 0 && !dfs(i) {
			return false
		}
	}
	return true
}

type genOpts struct {
	nameAlts     bool
	lrf          bool // left-recursion-free (C03)
	subMemo      float64
	sentence     float64
	maxRules     int
	noSuppress   bool
	noNameSingle bool
	productive   float64 // probability of insisting on a grammar without unproductive nonterminals
}

func genCertified(rng *rand.Rand, o genOpts) genGrammar {
	for try := 0; try < 200; try++ {
		nRules := 1 + rng.Intn(o.maxRules)
		g := &gramGen{rng: rng, nRules: nRules, alphabet: []byte("ab"), nextMemo: nRules, subMemo: o.subMemo, nameAlts: o.nameAlts, upwardRef: -1, noSuppress: o.noSuppress, noNameSingle: o.noNameSingle}
		if rng.Intn(3) == 0 {
			g.alphabet = []byte("abc")
		}
		if o.lrf {
			g.upwardRef = 0
		}
		env := make([]*Sexp, nRules)
		for i := range env {
			body := g.rule(i, 1+rng.Intn(2))
			if rng.Intn(100) < 85 {
				body = LA("memo", N(i), body)
			}
			env[i] = body
		}
		var root *Sexp
		if rng.Float64() < o.sentence {
			root = LA("sentence", LA("ref", N(0)))
		} else {
			root = LA("ref", N(0))
		}
		if wellFormed(env, root, o.lrf) {
			if o.productive > 0 && rng.Float64() < o.productive {
				allProd := true
				for _, p := range productiveRules(env) {
					allProd = allProd && p
				}
				if !allProd {
					continue
				}
			}
			return genGrammar{env, root}
		}
	}
	return genGrammar{[]*Sexp{LA("memo", N(0), runeT('a'))}, LA("sentence", LA("ref", N(0)))}
}

// --- input sampling --------------------------------------------------------------------------------------

func sampleTerm(rng *rand.Rand, env []*Sexp, t *Sexp, depth int, out *[]byte) {
	a := t.Args()
	switch t.Head() {
	case "rune":
		*out = append(*out, byte(a[0].Int()))
	case "ref":
		if depth > 0 {
			sampleTerm(rng, env, env[a[0].Int()], depth-1, out)
		}
	case "memo":
		sampleTerm(rng, env, a[1], depth, out)
	case "any", "choice":
		sampleTerm(rng, env, a[rng.Intn(len(a))], depth, out)
	case "seq":
		els := a[2:]
		n := len(els)
		if a[0].Atom != "of" && rng.Intn(2) == 0 && n > 0 {
			n = 1 + rng.Intn(n)
		}
		for _, x := range els[:n] {
			sampleTerm(rng, env, x, depth, out)
		}
	case "sentence":
		sampleTerm(rng, env, a[0], depth, out)
	case "many":
		for k := rng.Intn(3) + (1 - a[0].Int()); k > 0; k-- {
			sampleTerm(rng, env, a[2], depth, out)
		}
	case "sepby":
		k := rng.Intn(3) + (1 - a[0].Int())
		for i := 0; i < k; i++ {
			if i > 0 {
				sampleTerm(rng, env, a[3], depth, out)
			}
			sampleTerm(rng, env, a[2], depth, out)
		}
	case "opt":
		if rng.Intn(2) == 0 {
			sampleTerm(rng, env, a[0], depth, out)
		}
	case "single", "suppress":
		sampleTerm(rng, env, a[0], depth, out)
	case "name", "ltrim", "rtrim":
		sampleTerm(rng, env, a[1], depth, out)
	}
}

func sampleInput(rng *rand.Rand, g genGrammar, alphabet []byte, maxLen int) []byte {
	var out []byte
	switch rng.Intn(10) {
	case 0, 1: // uniform
		n := rng.Intn(maxLen + 1)
		for i := 0; i < n; i++ {
			out = append(out, alphabet[rng.Intn(len(alphabet))])
		}
		return out
	default:
		sampleTerm(rng, g.env, g.root, 2+rng.Intn(4), &out)
	}
	if len(out) > maxLen {
		out = out[:maxLen]
	}
	if rng.Intn(10) < 3 && len(out) > 0 { // mutate
		switch rng.Intn(4) {
		case 0:
			i := rng.Intn(len(out))
			out = append(out[:i], out[i+1:]...)
		case 1:
			i := rng.Intn(len(out) + 1)
			out = append(out[:i], append([]byte{alphabet[rng.Intn(len(alphabet))]}, out[i:]...)...)
		case 2:
			out[rng.Intn(len(out))] = alphabet[rng.Intn(len(alphabet))]
		case 3:
			out = out[:rng.Intn(len(out))]
		}
	}
	return out
}

func alphabetOf(g genGrammar) []byte {
	seen := map[byte]bool{}
	var walk func(t *Sexp)
	walk = func(t *Sexp) {
		if t.Head() == "rune" {
			seen[byte(t.List[1].Int())] = true
		}
		for _, x := range t.List {
			if x.IsL {
				walk(x)
			}
		}
	}
	for _, e := range g.env {
		walk(e)
	}
	walk(g.root)
	var out []byte
	for _, c := range []byte("abcxyz") {
		if seen[c] {
			out = append(out, c)
		}
	}
	if len(out) == 0 {
		out = []byte("a")
	}
	if len(out) == 1 {
		out = append(out, 'z')
	}
	return out
}

func parseCaseSexp(g genGrammar, input []byte, extra ...*Sexp) *Sexp {
	// one case in four (chosen by the input's bytes, so that a case replays exactly): the parsed file is NOT the first of
	// its file set — a file of another length stands before it and one after it.  Nothing a parser answers may depend on
	// the file's base offset except the absolute positions themselves (the model places the files the same way).
	h := uint32(2166136261)
	for _, b := range input {
		h = (h ^ uint32(b)) * 16777619
	}
	h ^= uint32(len(input)) * 2654435761
	files := []*Sexp{L(HS("f"), H(input))}
	target := 0
	if (h>>7)%4 == 0 {
		before := []byte(strings.Repeat("ab\n", int((h>>11)%9)) + "a")
		files = []*Sexp{L(HS("g"), H(before)), L(HS("f"), H(input)), L(HS("h"), HS("b"))}
		target = 1
	}
	c := L(LA("env", g.env...), LA("root", g.root), LA("files", files...), LA("target", N(target)))
	c.List = append(c.List, extra...)
	return c
}

// genTemplate: the template family of small monotone grammars: 2-3 memoized rules, each an Any of 2-3
// alternatives drawn from the shapes  t | N t | t N | t? N t | N? t | N N | N | eps  — every combination of
// direct, indirect and hidden left recursion appears within a few thousand cases, and the reference
// derivation table is exact for all of them.
func genTemplate(rng *rand.Rand) (genGrammar, []byte) {
	alphabet := []byte("abc")[:2+rng.Intn(2)]
	nRules := 2 + rng.Intn(2)
	t := func() *Sexp { return runeT(alphabet[rng.Intn(len(alphabet))]) }
	n := func() *Sexp { return LA("ref", N(rng.Intn(nRules))) }
	seq := func(xs ...*Sexp) *Sexp { return LA("seq", append([]*Sexp{A("of"), noOpts}, xs...)...) }
	for try := 0; try < 100; try++ {
		env := make([]*Sexp, nRules)
		for i := range env {
			k := 2 + rng.Intn(2)
			alts := make([]*Sexp, k)
			for j := range alts {
				switch rng.Intn(9) {
				case 0:
					alts[j] = t()
				case 8:
					// hidden left recursion whose only route to the recursive rule is an Optional (N? t)
					alts[j] = seq(LA("opt", n()), t())
				case 1, 2:
					alts[j] = seq(n(), t())
				case 3:
					alts[j] = seq(t(), n())
				case 4, 5:
					alts[j] = seq(LA("opt", t()), n(), t())
				case 6:
					alts[j] = n()
				default:
					if rng.Intn(2) == 0 {
						alts[j] = seq(n(), n())
					} else {
						alts[j] = LA("empty")
					}
				}
			}
			env[i] = LA("memo", N(i), LA("any", alts...))
		}
		root := LA("ref", N(0))
		if rng.Intn(2) == 0 {
			root = LA("sentence", root)
		}
		if wellFormed(env, root, false) {
			ln := rng.Intn(6)
			in := make([]byte, ln)
			for i := range in {
				in[i] = alphabet[rng.Intn(len(alphabet))]
			}
			return genGrammar{env, root}, in
		}
	}
	return genGrammar{[]*Sexp{LA("memo", N(0), runeT('a'))}, LA("ref", N(0))}, []byte("a")
}
