// corr: correspondence check (Lean model driver vs the real library, in-process) and direct
// property oracles on the real code.  One binary, one sub-stream per property.
//
//	corr run -prop C15 -tier quick -seed 1 -driver <path> -out <json> -replays <dir> -known <json> -corpus <dir>
//	corr replay -driver <path> <replay-file>
//	corr exec1 <prop> <case line>          (child process mode for crash isolation)
package main

import (
	"strconv"
	"bufio"
	"encoding/json"
	"flag"
	"fmt"
	"math/rand"
	"os"
	"os/exec"
	"path/filepath"
	"runtime"
	"runtime/debug"
	"sort"
	"strings"
	"sync"
	"time"
)

// Outcome is what running the real library on one case produced.
type Outcome struct {
	Real       string   // canonical observables, compared verbatim with the model's output line ("" = not compared)
	OracleFail string   // non-empty: the property's direct oracle failed on the real code
	Nontrivial bool     // by the property's stated rule
	Tags       []string // distribution buckets
	Skip       string   // non-empty: skipped (over budget), never counted as a pass
}

type Prop struct {
	ID     string
	Cmd    string // driver command word
	Rule   string
	Count  func(tier string) int
	Gen    func(rng *rand.Rand, tier string, i int) *Sexp
	Exec   func(c *Sexp) Outcome
	Shrink func(c *Sexp) []*Sexp
	// Known-finding signatures: name -> predicate on a failing case
	Known map[string]func(c *Sexp, o Outcome) bool
	// ModelOK optionally post-processes/compares model output; default is string equality with Outcome.Real
	Compare func(c *Sexp, real string, model string) string
	// Extra adds property specific keys to the evidence
	Extra func() map[string]interface{}
	// ReportAs: the property id printed in VIOLATION / KNOWN-FINDING lines and matched against the known
	// findings, when the stream is an additional stream of another property ("" = ID)
	ReportAs string
}

func (p *Prop) reportID() string {
	if p.ReportAs != "" {
		return p.ReportAs
	}
	return p.ID
}

var props = map[string]*Prop{}

func register(p *Prop) { props[p.ID] = p }

func caseLine(p *Prop, c *Sexp) string {
	var sb strings.Builder
	sb.WriteString(p.Cmd)
	for _, x := range c.List {
		sb.WriteByte(' ')
		x.write(&sb)
	}
	return sb.String()
}

func parseCaseLine(line string) (cmd string, c *Sexp, err error) {
	xs, err := ParseSexps(line)
	if err != nil {
		return "", nil, err
	}
	if len(xs) == 0 || xs[0].IsL {
		return "", nil, fmt.Errorf("no command")
	}
	return xs[0].Atom, &Sexp{IsL: true, List: xs[1:]}, nil
}

// safeExec runs the real code with panics turned into oracle failures.
func safeExec(p *Prop, c *Sexp) (o Outcome) {
	defer func() {
		if r := recover(); r != nil {
			st := string(debug.Stack())
			if len(st) > 1500 {
				st = st[:1500]
			}
			o = Outcome{OracleFail: fmt.Sprintf("panic in real code: %v\n%s", r, st)}
		}
	}()
	return p.Exec(c)
}

// driverProc is one persistent model driver process, fed one case at a time so that a case whose
// model evaluation explodes (cyclic ambiguous grammars) can be cut off: it is then killed, the case is
// reported as "over-budget" (skipped, never a pass) and a fresh process continues.
type driverProc struct {
	cmd   *exec.Cmd
	in    *bufio.Writer
	lines chan string
}

func startDriver(driver string) (*driverProc, error) {
	cmd := exec.Command(driver)
	stdin, err := cmd.StdinPipe()
	if err != nil {
		return nil, err
	}
	stdout, err := cmd.StdoutPipe()
	if err != nil {
		return nil, err
	}
	if err := cmd.Start(); err != nil {
		return nil, err
	}
	d := &driverProc{cmd: cmd, in: bufio.NewWriterSize(stdin, 1<<16), lines: make(chan string, 16)}
	go func() {
		sc := bufio.NewScanner(stdout)
		sc.Buffer(make([]byte, 1<<20), 1<<28)
		for sc.Scan() {
			d.lines <- sc.Text()
		}
		close(d.lines)
	}()
	return d, nil
}

func (d *driverProc) kill() {
	d.cmd.Process.Kill()
	d.cmd.Wait()
}

var driverCaseTimeout = 6 * time.Second

func runDriver(driver string, lines []string) ([]string, error) {
	if len(lines) == 0 {
		return nil, nil
	}
	if driver == "" {
		return nil, fmt.Errorf("no model driver")
	}
	par := runtime.NumCPU()
	if par > len(lines) {
		par = len(lines)
	}
	out := make([]string, len(lines))
	errs := make([]error, par)
	var wg sync.WaitGroup
	next := make(chan int, len(lines))
	for i := range lines {
		next <- i
	}
	close(next)
	for w := 0; w < par; w++ {
		wg.Add(1)
		go func(w int) {
			defer wg.Done()
			var d *driverProc
			defer func() {
				if d != nil {
					d.kill()
				}
			}()
			for i := range next {
				if d == nil {
					var err error
					if d, err = startDriver(driver); err != nil {
						errs[w] = err
						return
					}
				}
				d.in.WriteString(lines[i])
				d.in.WriteByte('\n')
				d.in.Flush()
				select {
				case l, ok := <-d.lines:
					if !ok {
						// the driver died on this case (e.g. stack exhaustion): cut it off the same way
						out[i] = "over-budget"
						d.kill()
						d = nil
					} else {
						out[i] = l
					}
				case <-time.After(driverCaseTimeout):
					out[i] = "over-budget"
					d.kill()
					d = nil
				}
			}
		}(w)
	}
	wg.Wait()
	for _, e := range errs {
		if e != nil {
			return nil, e
		}
	}
	return out, nil
}

type knownFinding struct {
	Property  string `json:"property"`
	ID        string `json:"id"`
	Status    string `json:"status"` // "open" or "fixed"
	Signature string `json:"signature"`
	What      string `json:"what"`
}

type failure struct {
	Kind   string `json:"kind"` // "oracle" | "correspondence"
	Line   string `json:"case"`
	Real   string `json:"real,omitempty"`
	Model  string `json:"model,omitempty"`
	Detail string `json:"detail,omitempty"`
}

func compare(p *Prop, c *Sexp, real, model string) string {
	if p.Compare != nil {
		return p.Compare(c, real, model)
	}
	if real != model {
		return "model and implementation differ"
	}
	return ""
}

// shrink minimises a case while `bad` stays true.
func shrink(p *Prop, c *Sexp, bad func(c *Sexp) bool) *Sexp {
	if p.Shrink == nil {
		return c
	}
	deadline := time.Now().Add(20 * time.Second)
	for round := 0; round < 200 && time.Now().Before(deadline); round++ {
		improved := false
		for _, cand := range p.Shrink(c) {
			if time.Now().After(deadline) {
				break
			}
			if bad(cand) {
				c = cand
				improved = true
				break
			}
		}
		if !improved {
			break
		}
	}
	return c
}

func cmdRun(args []string) int {
	fs := flag.NewFlagSet("run", flag.ExitOnError)
	propID := fs.String("prop", "", "property id")
	tier := fs.String("tier", "quick", "quick|thorough")
	seed := fs.Int64("seed", 1, "seed")
	driver := fs.String("driver", "", "path of the Lean driver")
	outPath := fs.String("out", "", "coverage json to write")
	replays := fs.String("replays", "replays", "replay directory")
	knownPath := fs.String("known", "", "known findings json")
	corpus := fs.String("corpus", "", "corpus directory")
	count := fs.Int("n", 0, "override the number of generated cases")
	fs.Parse(args)

	p := props[*propID]
	if p == nil {
		fmt.Fprintf(os.Stderr, "unknown property %q\n", *propID)
		return 2
	}
	start := time.Now()

	var known []knownFinding
	if *knownPath != "" {
		if b, err := os.ReadFile(*knownPath); err == nil {
			if err := json.Unmarshal(b, &known); err != nil {
				fmt.Fprintf(os.Stderr, "known findings: %v\n", err)
				return 2
			}
		}
	}

	// 1. corpus first, then generated cases
	var cases []*Sexp
	nCorpus := 0
	if *corpus != "" {
		files, _ := filepath.Glob(filepath.Join(*corpus, "*.case"))
		sort.Strings(files)
		for _, f := range files {
			b, err := os.ReadFile(f)
			if err != nil {
				continue
			}
			for _, line := range strings.Split(string(b), "\n") {
				line = strings.TrimSpace(line)
				if line == "" || strings.HasPrefix(line, "#") {
					continue
				}
				cmd, c, err := parseCaseLine(line)
				if err != nil || cmd != p.Cmd {
					fmt.Fprintf(os.Stderr, "corpus %s: bad line %q (%v)\n", f, line, err)
					return 2
				}
				cases = append(cases, c)
				nCorpus++
			}
		}
	}
	n := p.Count(*tier)
	if *count > 0 {
		n = *count
	}
	gen := make([]*Sexp, n)
	parallelFor(n, func(i int) {
		rng := rand.New(rand.NewSource(*seed*1000003 + int64(i)))
		gen[i] = p.Gen(rng, *tier, i)
	})
	cases = append(cases, gen...)

	// 2. real code
	outs := make([]Outcome, len(cases))
	if dbg := os.Getenv("VERIF_DEBUG"); dbg != "" {
		// sequential, logging each case before it runs (to find a case that kills the process)
		f, _ := os.Create(dbg)
		for i := range cases {
			fmt.Fprintf(f, "%d %s\n", i, caseLine(p, cases[i]))
			f.Sync()
			outs[i] = safeExec(p, cases[i])
		}
		f.Close()
	} else {
		parallelFor(len(cases), func(i int) { outs[i] = safeExec(p, cases[i]) })
	}

	// 3. model
	var lines []string
	var idx []int
	for i, c := range cases {
		if outs[i].Skip == "" && outs[i].Real != "" {
			lines = append(lines, caseLine(p, c))
			idx = append(idx, i)
		}
	}
	if dump := os.Getenv("VERIF_DUMP_LINES"); dump != "" {
		os.WriteFile(dump, []byte(strings.Join(lines, "\n")+"\n"), 0o644)
	}
	if *driver == "" {
		// the model driver does not build against the regenerated facts (the check reports that as a broken proof
		// obligation): the oracles on the implementation still run, so a failing input is still searched for
		fmt.Printf("corr %s: no model driver, oracle-only run\n", p.ID)
		lines, idx = nil, nil
	}
	models, err := runDriver(*driver, lines)
	if err != nil {
		fmt.Fprintf(os.Stderr, "%v\n", err)
		return 2
	}

	// 4. classify
	var oracleFails, disagreements []int
	modelOf := map[int]string{}
	for k, i := range idx {
		modelOf[i] = models[k]
	}
	tags := map[string]int{}
	distinct := map[string]bool{}
	skipped := 0
	for i, c := range cases {
		o := outs[i]
		if o.Skip != "" {
			skipped++
			tags["skipped:"+o.Skip]++
			continue
		}
		for _, t := range o.Tags {
			tags[t]++
		}
		if o.Nontrivial {
			distinct[c.String()] = true
		}
		if o.OracleFail != "" {
			oracleFails = append(oracleFails, i)
		}
		if m, ok := modelOf[i]; ok {
			if m == "over-budget" || strings.Contains(m, ":over-budget") {
				// (a segment of the model's answer may be over its work budget on its own — e.g. the un-memoized run of
				// C03 —: the case is skipped, never compared; an earlier version compared it: a false alarm, corrected)
				skipped++
				tags["skipped:model-budget"]++
				continue
			}
			if d := compare(p, c, o.Real, m); d != "" {
				disagreements = append(disagreements, i)
			}
		}
	}

	// 5. report
	os.MkdirAll(*replays, 0o755)
	violations := 0
	knownSeen := map[string]bool{}
	nReplay := 0
	writeReplay := func(f failure) string {
		nReplay++
		path := filepath.Join(*replays, fmt.Sprintf("%s-%d-%d.json", p.ID, *seed, nReplay))
		b, _ := json.MarshalIndent(map[string]interface{}{"property": p.ID, "seed": *seed, "tier": *tier, "failure": f}, "", " ")
		os.WriteFile(path, b, 0o644)
		return path
	}
	reportedSig := map[string]bool{}
	for _, i := range oracleFails {
		c, o := cases[i], outs[i]
		matched := ""
		for _, kf := range known {
			if kf.Property == p.reportID() && kf.Status == "open" {
				if pred := p.Known[kf.Signature]; pred != nil && pred(c, o) {
					matched = kf.ID
					if !knownSeen[kf.ID] {
						knownSeen[kf.ID] = true
						fmt.Printf("KNOWN-FINDING: property=%s %s (%s): %s\n", p.reportID(), kf.ID, kf.Signature, kf.What)
					}
					break
				}
			}
		}
		if matched != "" {
			continue
		}
		violations++
		if violations > 5 {
			continue
		}
		small := shrink(p, c, func(x *Sexp) bool {
			ox := safeExec(p, x)
			if ox.OracleFail == "" {
				return false
			}
			for _, kf := range known {
				if kf.Property == p.reportID() && kf.Status == "open" {
					if pred := p.Known[kf.Signature]; pred != nil && pred(x, ox) {
						return false
					}
				}
			}
			return true
		})
		so := safeExec(p, small)
		key := firstLine(so.OracleFail)
		if reportedSig[key] && violations > 1 {
			continue
		}
		reportedSig[key] = true
		path := writeReplay(failure{Kind: "oracle", Line: caseLine(p, small), Real: so.Real, Detail: so.OracleFail})
		fmt.Printf("VIOLATION property=%s replay=%s\n", p.reportID(), path)
	}
	if len(disagreements) > 0 {
		// correspondence broken: shrink the first few, then decide whether a failing input exists
		shown := 0
		for _, i := range disagreements {
			if shown >= 3 {
				break
			}
			shown++
			c := cases[i]
			small := shrink(p, c, func(x *Sexp) bool {
				ox := safeExec(p, x)
				if ox.Skip != "" || ox.Real == "" {
					return false
				}
				m, err := runDriver(*driver, []string{caseLine(p, x)})
				if err != nil || len(m) != 1 || m[0] == "over-budget" || strings.Contains(m[0], ":over-budget") {
					return false
				}
				return compare(p, x, ox.Real, m[0]) != ""
			})
			so := safeExec(p, small)
			m, _ := runDriver(*driver, []string{caseLine(p, small)})
			mm := ""
			if len(m) == 1 {
				mm = m[0]
			}
			f := failure{Kind: "correspondence", Line: caseLine(p, small), Real: so.Real, Model: mm,
				Detail: "the Lean model (about which the theorems of " + p.ID + " are proved) and the implementation disagree on this case: " + compare(p, small, so.Real, mm)}
			path := writeReplay(f)
			if so.OracleFail != "" || violations > 0 {
				if so.OracleFail != "" {
					f.Detail += "\noracle on the shrunk case: " + so.OracleFail
					path = writeReplay(f)
				}
				fmt.Printf("VIOLATION property=%s replay=%s\n", p.reportID(), path)
			} else {
				fmt.Printf("VIOLATION property=%s replay=%s no-failing-input-found\n", p.reportID(), path)
			}
			violations++
		}
	}

	// 6. coverage
	var samples []string
	for i := 0; i < len(cases) && len(samples) < 5; i += 1 + len(cases)/5 {
		s := caseLine(p, cases[i])
		if len(s) > 600 {
			s = s[:600] + "..."
		}
		samples = append(samples, s)
	}
	cov := map[string]interface{}{
		"evaluations":            len(cases) - skipped,
		"distinct_nontrivial":    len(distinct),
		"rule":                   p.Rule,
		"samples":                samples,
		"corpus_cases":           nCorpus,
		"generated_cases":        n,
		"skipped_over_budget":    skipped,
		"compared_with_model":    len(idx),
		"disagreements":          len(disagreements),
		"oracle_failures":        len(oracleFails),
		"known_findings_matched": len(knownSeen),
		"distribution":           tags,
		"violations":             violations,
		"wall_s":                 time.Since(start).Seconds(),
	}
	if p.Extra != nil {
		for k, v := range p.Extra() {
			cov[k] = v
		}
	}
	if *outPath != "" {
		b, _ := json.MarshalIndent(cov, "", " ")
		if err := os.WriteFile(*outPath, b, 0o644); err != nil {
			fmt.Fprintf(os.Stderr, "%v\n", err)
			return 2
		}
	}
	fmt.Printf("corr %s tier=%s seed=%d: %d cases (%d corpus), %d compared with the model, %d non-trivial distinct, %d skipped, %d disagreements, %d oracle failures, %d known findings, %.1fs\n",
		p.ID, *tier, *seed, len(cases), nCorpus, len(idx), len(distinct), skipped, len(disagreements), len(oracleFails), len(knownSeen), time.Since(start).Seconds())
	if violations > 0 {
		return 1
	}
	return 0
}

func firstLine(s string) string {
	if i := strings.IndexByte(s, '\n'); i >= 0 {
		return s[:i]
	}
	return s
}

func parallelFor(n int, f func(i int)) {
	par := runtime.NumCPU()
	// VERIF_PAR=1: the check re-runs a stream sequentially when the parallel run died with a Go runtime fatal error
	// (e.g. "concurrent map read and map write": the cases of a stream are independent, so that can only come
	// from state shared inside the library under test)
	if v, err := strconv.Atoi(os.Getenv("VERIF_PAR")); err == nil && v > 0 {
		par = v
	}
	var wg sync.WaitGroup
	ch := make(chan int, 256)
	for w := 0; w < par; w++ {
		wg.Add(1)
		go func() {
			defer wg.Done()
			for i := range ch {
				f(i)
			}
		}()
	}
	for i := 0; i < n; i++ {
		ch <- i
	}
	close(ch)
	wg.Wait()
}

func cmdReplay(args []string) int {
	fs := flag.NewFlagSet("replay", flag.ExitOnError)
	driver := fs.String("driver", "", "path of the Lean driver")
	knownPath := fs.String("known", "", "known findings json")
	fs.Parse(args)
	var known []knownFinding
	if *knownPath != "" {
		if b, err := os.ReadFile(*knownPath); err == nil {
			json.Unmarshal(b, &known)
		}
	}
	if fs.NArg() != 1 {
		fmt.Fprintln(os.Stderr, "usage: corr replay -driver <path> <file>")
		return 2
	}
	b, err := os.ReadFile(fs.Arg(0))
	if err != nil {
		fmt.Fprintln(os.Stderr, err)
		return 2
	}
	var r struct {
		Property string  `json:"property"`
		Failure  failure `json:"failure"`
	}
	if err := json.Unmarshal(b, &r); err != nil {
		fmt.Fprintln(os.Stderr, err)
		return 2
	}
	p := props[r.Property]
	if p == nil || r.Failure.Line == "" {
		fmt.Printf("replay %s: names a proof obligation, nothing to execute: %s\n", fs.Arg(0), r.Failure.Detail)
		return 1
	}
	_, c, err := parseCaseLine(r.Failure.Line)
	if err != nil {
		fmt.Fprintln(os.Stderr, err)
		return 2
	}
	o := safeExec(p, c)
	fmt.Printf("case:  %s\nreal:  %s\n", r.Failure.Line, o.Real)
	bad := false
	if o.OracleFail != "" {
		fmt.Printf("oracle: FAIL %s\n", o.OracleFail)
		isKnown := false
		for _, kf := range known {
			if kf.Property == p.reportID() && kf.Status == "open" {
				if pred := p.Known[kf.Signature]; pred != nil && pred(c, o) {
					fmt.Printf("KNOWN-FINDING: property=%s %s (%s): %s\n", p.reportID(), kf.ID, kf.Signature, kf.What)
					isKnown = true
				}
			}
		}
		if !isKnown {
			bad = true
		}
	} else {
		fmt.Printf("oracle: ok\n")
	}
	if *driver != "" && o.Real != "" {
		m, err := runDriver(*driver, []string{r.Failure.Line})
		if err == nil && len(m) == 1 {
			fmt.Printf("model: %s\n", m[0])
			if d := compare(p, c, o.Real, m[0]); d != "" {
				fmt.Printf("correspondence: FAIL %s\n", d)
				bad = true
			} else {
				fmt.Printf("correspondence: ok\n")
			}
		}
	}
	if bad {
		fmt.Printf("VIOLATION property=%s replay=%s\n", p.reportID(), fs.Arg(0))
		return 1
	}
	return 0
}

func main() {
	if len(os.Args) < 2 {
		fmt.Fprintln(os.Stderr, "usage: corr run|replay|exec1 ...")
		os.Exit(2)
	}
	switch os.Args[1] {
	case "run":
		os.Exit(cmdRun(os.Args[2:]))
	case "replay":
		os.Exit(cmdReplay(os.Args[2:]))
	case "exec1":
		os.Exit(cmdExec1(os.Args[2:]))
	default:
		fmt.Fprintln(os.Stderr, "unknown command")
		os.Exit(2)
	}
}

// cmdExec1 runs one case in this (child) process and prints the outcome as JSON; used for crash isolation.
func cmdExec1(args []string) int {
	if len(args) < 2 {
		return 2
	}
	p := props[args[0]]
	if p == nil {
		return 2
	}
	_, c, err := parseCaseLine(args[1])
	if err != nil {
		return 2
	}
	o := safeExec(p, c)
	b, _ := json.Marshal(o)
	fmt.Println(string(b))
	return 0
}
