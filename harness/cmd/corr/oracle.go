package main

// Independent reference for C01 / C04: the set of end positions a grammar term derives from a start
// position, as a least fixpoint over (rule, position) computed by Kleene iteration on bit sets.
//
//   upper(term, i): the MONOTONE READING (Choice as Any, Many/SepBy as any number of items, SeqTry /
//   SeqFirstOrAll as any permitted prefix).  Every end position the library returns must be in it
//   (soundness, all grammars).  For grammars of the monotone fragment (no Choice, Many, SepBy, SeqTry,
//   SeqFirstOrAll) it is exactly the derivable set, so the library must return all of it (completeness).

import (
	"fmt"
	"sort"

	"github.com/opsidian/parsley/ast"
	"github.com/opsidian/parsley/parser"
	"github.com/opsidian/parsley/parsley"
)

type endsTable struct {
	env   []*Sexp
	input []byte
	t     [][]uint64 // rule -> start -> bit set of ends
}

func newEndsTable(env []*Sexp, input []byte) *endsTable {
	n := len(input)
	et := &endsTable{env: env, input: input, t: make([][]uint64, len(env))}
	for k := range env {
		et.t[k] = make([]uint64, n+1)
	}
	for changed := true; changed; {
		changed = false
		for k, body := range env {
			for i := 0; i <= n; i++ {
				v := et.eval(body, i)
				if v|et.t[k][i] != et.t[k][i] {
					et.t[k][i] |= v
					changed = true
				}
			}
		}
	}
	return et
}

// seqFrom: ends of the concatenation of terms starting from the set `from`
func (et *endsTable) step(from uint64, term *Sexp) uint64 {
	var out uint64
	for i := 0; i <= len(et.input); i++ {
		if from&(1<<uint(i)) != 0 {
			out |= et.eval(term, i)
		}
	}
	return out
}

func (et *endsTable) eval(t *Sexp, i int) uint64 {
	a := t.Args()
	n := len(et.input)
	switch t.Head() {
	case "rune":
		if i < n && int(et.input[i]) == a[0].Int() {
			return 1 << uint(i+1)
		}
		return 0
	case "empty":
		return 1 << uint(i)
	case "eof":
		if i == n {
			return 1 << uint(i)
		}
		return 0
	case "ref":
		return et.t[a[0].Int()][i]
	case "memo":
		return et.eval(a[1], i)
	case "any", "choice":
		var out uint64
		for _, x := range a {
			out |= et.eval(x, i)
		}
		return out
	case "seq":
		els := a[2:]
		cur := uint64(1) << uint(i)
		var out uint64
		for k, x := range els {
			cur = et.step(cur, x)
			switch a[0].Atom {
			case "try":
				out |= cur
			case "foa":
				if k == 0 || k == len(els)-1 {
					out |= cur
				}
			}
		}
		if a[0].Atom == "of" {
			return cur
		}
		return out
	case "sentence":
		return et.step(et.eval(a[0], i), LA("eof"))
	case "many":
		var visited uint64
		frontier := et.eval(a[2], i)
		for frontier != 0 {
			visited |= frontier
			frontier = et.step(frontier, a[2]) &^ visited
		}
		if a[0].Int() != 0 {
			visited |= 1 << uint(i)
		}
		return visited
	case "sepby":
		var visited uint64
		frontier := et.eval(a[2], i)
		for frontier != 0 {
			visited |= frontier
			frontier = et.step(et.step(frontier, a[3]), a[2]) &^ visited
		}
		if a[0].Int() != 0 {
			visited |= 1 << uint(i)
		}
		return visited
	case "opt":
		return et.eval(a[0], i) | 1<<uint(i)
	case "name", "ltrim", "rtrim":
		return et.eval(a[1], i)
	case "single", "suppress":
		return et.eval(a[0], i)
	}
	return 0
}

func isMonotoneTerm(t *Sexp) bool {
	if !t.IsL {
		return true
	}
	switch t.Head() {
	case "choice", "many", "sepby":
		return false
	case "seq":
		if t.List[1].Atom != "of" {
			return false
		}
	}
	for _, x := range t.List {
		if x.IsL && !isMonotoneTerm(x) {
			return false
		}
	}
	return true
}

func isMonotoneCase(c *Sexp) bool {
	for _, e := range findArg(c, "env") {
		if !isMonotoneTerm(e) {
			return false
		}
	}
	return isMonotoneTerm(findArg(c, "root")[0])
}

func bitsToList(v uint64, base int) []int {
	var out []int
	for i := 0; i < 64; i++ {
		if v&(1<<uint(i)) != 0 {
			out = append(out, base+i)
		}
	}
	return out
}

func resultAlts(res parsley.Node) []parsley.Node {
	if res == nil {
		return nil
	}
	if nl, ok := res.(ast.NodeList); ok {
		return nl
	}
	return []parsley.Node{res}
}

// checkSpans: the tree's leaves spell the consumed input with contiguous spans (no trims in this stream)
func checkSpans(n parsley.Node, input []byte, off int) string {
	switch x := n.(type) {
	case ast.EmptyNode, parser.EndNode:
		if n.Pos() != n.ReaderPos() {
			return fmt.Sprintf("zero-width node %v spans %d..%d", n, n.Pos(), n.ReaderPos())
		}
		return ""
	case parsley.NonTerminalNode:
		cs := x.Children()
		if len(cs) == 0 {
			if x.Pos() != x.ReaderPos() {
				return fmt.Sprintf("empty non-terminal spans %d..%d", x.Pos(), x.ReaderPos())
			}
			return ""
		}
		if cs[0].Pos() != x.Pos() || cs[len(cs)-1].ReaderPos() != x.ReaderPos() {
			return fmt.Sprintf("non-terminal %d..%d does not span its children %d..%d", x.Pos(), x.ReaderPos(), cs[0].Pos(), cs[len(cs)-1].ReaderPos())
		}
		for i, c := range cs {
			if i > 0 && c.Pos() != cs[i-1].ReaderPos() {
				return fmt.Sprintf("child %d starts at %d but its predecessor ended at %d", i, c.Pos(), cs[i-1].ReaderPos())
			}
			if s := checkSpans(c, input, off); s != "" {
				return s
			}
		}
		return ""
	case parsley.LiteralNode:
		p, r := int(x.Pos())-off, int(x.ReaderPos())-off
		if p < 0 || r > len(input) || r != p+1 {
			return fmt.Sprintf("terminal %v spans %d..%d", x, x.Pos(), x.ReaderPos())
		}
		if string(input[p:r]) != x.Token() {
			return fmt.Sprintf("terminal %q at %d does not spell the input byte %q", x.Token(), x.Pos(), input[p:r])
		}
		return ""
	}
	return ""
}

// oracleC01: soundness + spans for every grammar, completeness of end positions for monotone grammars
func oracleC01(c *Sexp, obs parseObs) string {
	files, t := caseFiles(c)
	input := files[t].raw
	if len(input) > 60 {
		return ""
	}
	_, tf := newCtx(files, t)
	off := int(tf.Pos(0))
	env := findArg(c, "env")
	root := findArg(c, "root")[0]
	et := newEndsTable(env, input)
	upper := et.eval(root, 0)
	got := uint64(0)
	for _, x := range resultAlts(obs.res) {
		if int(x.Pos()) != off {
			return fmt.Sprintf("a result starts at %d, the parse started at %d", x.Pos(), off)
		}
		e := int(x.ReaderPos()) - off
		if e < 0 || e > len(input) {
			return fmt.Sprintf("a result ends at %d, outside the input", x.ReaderPos())
		}
		got |= 1 << uint(e)
		if upper&(1<<uint(e)) == 0 {
			return fmt.Sprintf("a result ends at %d, but the grammar derives nothing from %d to %d (derivable ends: %v)", x.ReaderPos(), off, x.ReaderPos(), bitsToList(upper, off))
		}
		if s := checkSpans(x, input, off); s != "" {
			return s
		}
	}
	exact, acyclic := exactEndsAcyclic(c, input)
	if isMonotoneCase(c) || acyclic {
		want := upper
		if acyclic && !hasNameOrSingleOverOptional(c) {
			want = exact
		}
		if root.Head() == "sentence" {
			// the Sentence wrapper stops at the first alternative that reaches the end of input
			if (want != 0) != (got != 0) {
				return fmt.Sprintf("the grammar derives the whole input: %v, but the parser returned results: %v", want != 0, got != 0)
			}
			return ""
		}
		if got != want {
			return fmt.Sprintf("end positions returned %v, the grammar derives %v (a derivation was lost)", bitsToList(got, off), bitsToList(want, off))
		}
	}
	return ""
}

// oracleC04complete: with a Sentence root the parse succeeds precisely when some derivation consumes the entire input
func oracleSentenceIff(c *Sexp, obs parseObs) string {
	root := findArg(c, "root")[0]
	if root.Head() != "sentence" {
		return ""
	}
	files, t := caseFiles(c)
	input := files[t].raw
	if len(input) > 60 {
		return ""
	}
	et := newEndsTable(findArg(c, "env"), input)
	derivable := et.eval(root, 0) != 0
	ok := obs.perr == nil
	if ok && !derivable {
		return "Sentence succeeded although no derivation consumes the whole input"
	}
	if exact, acyclic := exactEndsAcyclic(c, input); acyclic {
		if ok != (exact != 0) {
			return fmt.Sprintf("Sentence succeeded: %v, but by the operators' documented rules a derivation consuming the whole input exists: %v", ok, exact != 0)
		}
		return ""
	}
	if !ok && derivable && isMonotoneCase(c) {
		return fmt.Sprintf("Sentence failed (%v) although a derivation consumes the whole input", obs.perr)
	}
	return ""
}

var _ = sort.Ints

// ---- exact end positions for ACYCLIC grammars (no recursion at all), including the non-monotone
// operators with their documented first-match / longest-path rules ------------------------------------

func envAcyclic(env []*Sexp) bool {
	n := len(env)
	adj := make([][]int, n)
	var refs func(t *Sexp, out *[]int)
	refs = func(t *Sexp, out *[]int) {
		if t.Head() == "ref" {
			*out = append(*out, t.List[1].Int())
		}
		for _, x := range t.List {
			if x.IsL {
				refs(x, out)
			}
		}
	}
	for i, e := range env {
		refs(e, &adj[i])
	}
	color := make([]int, n)
	var dfs func(int) bool
	dfs = func(u int) bool {
		color[u] = 1
		for _, v := range adj[u] {
			if color[v] == 1 || (color[v] == 0 && !dfs(v)) {
				return false
			}
		}
		color[u] = 2
		return true
	}
	for i := 0; i < n; i++ {
		if color[i] == 0 && !dfs(i) {
			return false
		}
	}
	return true
}

type exactEval struct {
	env   []*Sexp
	input []byte
	memo  map[*Sexp]map[int]uint64
	steps int
}

func (ev *exactEval) stepSet(from uint64, term *Sexp) uint64 {
	var out uint64
	for i := 0; i <= len(ev.input); i++ {
		if from&(1<<uint(i)) != 0 {
			out |= ev.ends(term, i)
		}
	}
	return out
}

func (ev *exactEval) ends(t *Sexp, i int) uint64 {
	if m, ok := ev.memo[t]; ok {
		if v, ok := m[i]; ok {
			return v
		}
	} else {
		ev.memo[t] = map[int]uint64{}
	}
	v := ev.compute(t, i)
	ev.memo[t][i] = v
	return v
}

func (ev *exactEval) compute(t *Sexp, i int) uint64 {
	a := t.Args()
	n := len(ev.input)
	bit := func(p int) uint64 { return 1 << uint(p) }
	switch t.Head() {
	case "rune":
		if i < n && int(ev.input[i]) == a[0].Int() {
			return bit(i + 1)
		}
		return 0
	case "empty":
		return bit(i)
	case "eof":
		if i == n {
			return bit(i)
		}
		return 0
	case "ref":
		return ev.ends(ev.env[a[0].Int()], i)
	case "memo":
		return ev.ends(a[1], i)
	case "any":
		var out uint64
		for _, x := range a {
			out |= ev.ends(x, i)
		}
		return out
	case "choice":
		for _, x := range a {
			if v := ev.ends(x, i); v != 0 {
				return v
			}
		}
		return 0
	case "seq":
		els := a[2:]
		l := len(els)
		cur := bit(i)
		var out uint64
		for k := 0; k <= l; k++ {
			// cur = positions after k elements
			lenOK := false
			switch a[0].Atom {
			case "of":
				lenOK = k == l
			case "try":
				lenOK = k > 0 && k <= l
			case "foa":
				lenOK = k == 1 || k == l
			}
			if lenOK {
				for p := 0; p <= n; p++ {
					if cur&bit(p) != 0 && (k == l || ev.ends(els[k], p) == 0) {
						out |= bit(p)
					}
				}
			}
			if k < l {
				cur = ev.stepSet(cur, els[k])
			}
		}
		return out
	case "sentence":
		return ev.stepSet(ev.ends(a[0], i), LA("eof"))
	case "many":
		var out uint64
		visited := uint64(0)
		frontier := bit(i)
		depth := 0
		for frontier != 0 && depth <= n+2 {
			for p := 0; p <= n; p++ {
				if frontier&bit(p) != 0 && (depth > 0 || a[0].Int() != 0) && ev.ends(a[2], p) == 0 {
					out |= bit(p)
				}
			}
			visited |= frontier
			frontier = ev.stepSet(frontier, a[2]) &^ visited
			depth++
		}
		return out
	case "sepby":
		var out uint64
		// state: (position, parity of the number of elements parsed so far)
		var seen [2]uint64
		frontier := [2]uint64{bit(i), 0}
		first := true
		for (frontier[0] != 0 || frontier[1] != 0) && ev.steps < 1000000 {
			ev.steps++
			var next [2]uint64
			for p := 0; p <= n; p++ {
				if frontier[0]&bit(p) != 0 { // even count: next is the value parser
					if first && a[0].Int() != 0 && ev.ends(a[2], p) == 0 {
						out |= bit(p)
					}
					next[1] |= ev.ends(a[2], p)
				}
				if frontier[1]&bit(p) != 0 { // odd count: next is the separator
					if ev.ends(a[3], p) == 0 {
						out |= bit(p)
					}
					next[0] |= ev.ends(a[3], p)
				}
			}
			first = false
			seen[0] |= frontier[0]
			seen[1] |= frontier[1]
			frontier = [2]uint64{next[0] &^ seen[0], next[1] &^ seen[1]}
		}
		return out
	case "opt":
		return ev.ends(a[0], i) | bit(i)
	case "name", "ltrim", "rtrim":
		return ev.ends(a[1], i)
	case "single", "suppress":
		return ev.ends(a[0], i)
	}
	return 0
}

// exactEndsAcyclic returns (set, true) when the grammar has no recursion
func exactEndsAcyclic(c *Sexp, input []byte) (uint64, bool) {
	env := findArg(c, "env")
	if !envAcyclic(env) {
		return 0, false
	}
	ev := &exactEval{env: env, input: input, memo: map[*Sexp]map[int]uint64{}}
	return ev.ends(findArg(c, "root")[0], 0), true
}
