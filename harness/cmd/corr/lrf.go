package main

// C03L — the hypothesis "left-recursion-free" of C03 is decided on both sides (additional stream of
// property C03).
//
// The theorems c03_lrf_no_reentry / c03_transparent_lrf / c03_once_lrf (lean/ParsleyVerif/Props/C03L.lean)
// are stated for grammars accepted by the Lean certificate check `lrf` (lean/ParsleyVerif/Spec/LRF.lean:
// the C02 check `wf`, plus "no Memoize operand reaches its own Memoize index at its start position").  The
// C03 stream generates its grammars with genCertified{lrf: true}: references only go to later rules and the
// result passes wellFormed(…, all=true) — the FULL left-call graph (references under a Memoize included)
// is acyclic and repetition operands consume.  This stream ties the two: half of the cases are drawn from
// exactly the C03 generator (they MUST be accepted by the Lean check), the others are left-recursive
// certified grammars, the template family and unfiltered random grammars; every case is judged by
// wellFormed(all=true) / wellFormed(all=false) here and by the driver command `lrfcheck`, which computes the
// least certificate and runs the Lean checks `lrf` and `wf` on it.  Both verdicts are compared verbatim.

import (
	"fmt"
	"math/rand"
)

func lrfHasMemoAndLeftRef(env []*Sexp, root *Sexp) bool {
	ks := map[int]bool{}
	for _, e := range env {
		collectMemoKs(e, ks)
	}
	collectMemoKs(root, ks)
	if len(ks) == 0 {
		return false
	}
	nr := nullableRules(env)
	for _, e := range env {
		var lr []leftRef
		leftRefs(e, nr, false, &lr)
		if len(lr) > 0 {
			return true
		}
	}
	return false
}

func lrfExec(c *Sexp) Outcome {
	env := findArg(c, "env")
	root := findArg(c, "root")[0]
	isLRF := wellFormed(env, root, true)
	isWF := wellFormed(env, root, false)
	o := Outcome{Real: fmt.Sprintf("lrf=%v;wf=%v", isLRF, isWF)}
	src := "corpus"
	if s := findArg(c, "gen"); len(s) == 1 {
		src = s[0].Atom
	}
	if src == "c03" && !isLRF {
		o.OracleFail = "the C03 generator emitted a grammar that is not left-recursion-free"
	}
	if isLRF && !isWF {
		o.OracleFail = "left-recursion-free but not well formed"
	}
	o.Nontrivial = lrfHasMemoAndLeftRef(env, root)
	o.Tags = append(o.Tags, "gen:"+src, fmt.Sprintf("lrf:%v", isLRF), fmt.Sprintf("wf:%v", isWF))
	return o
}

func lrfShrink(c *Sexp) []*Sexp {
	// the provenance tag is dropped: a shrunk case is no longer "what the C03 generator emitted"
	return wfShrink(c)
}

func init() {
	register(&Prop{
		ID: "C03L", Cmd: "lrfcheck", ReportAs: "C03",
		Rule: "random grammars — 1/2 drawn exactly as the C03 stream draws them (genCertified{lrf: true, subMemo: 0.45, sentence: 0.5, maxRules: 5}), 1/8 certified left-recursive ones, 1/8 from the template family, 1/4 from the term generator without any filter — judged by the generator's own notion of left-recursion-free (gen.go wellFormed with all=true: the full left-call graph is acyclic) and of well-formed (all=false), and by the Lean checks `lrf` and `wf` on the least certificate computed by the driver; both verdicts compared verbatim, and a grammar of the C03 generator that is not left-recursion-free is an oracle failure. Non-trivial = the grammar has a Memoize and some rule has a left reference; distinct = distinct case text.",
		Count: quickN(6000, 240000),
		Gen: func(rng *rand.Rand, tier string, i int) *Sexp {
			var g genGrammar
			src := ""
			switch i % 8 {
			case 0, 1, 2, 3:
				g = genCertified(rng, genOpts{lrf: true, subMemo: 0.45, sentence: 0.5, maxRules: 5, nameAlts: rng.Intn(4) == 0})
				src = "c03"
			case 4:
				g = genCertified(rng, genOpts{subMemo: 0.3, sentence: 0.5, maxRules: 4, nameAlts: rng.Intn(4) == 0})
				src = "certified"
			case 5:
				g, _ = genTemplate(rng)
				src = "template"
			default:
				g = wfRandomGrammar(rng)
				src = "random"
			}
			return L(LA("env", g.env...), LA("root", g.root), LA("gen", A(src)))
		},
		Exec:   lrfExec,
		Shrink: lrfShrink,
	})
}
