package main

// C11 — global positions <-> (file, line, column).  Random file sets; EVERY global position from 0 to next+2.

import (
	"fmt"
	"math/rand"
	"strings"

	"github.com/opsidian/parsley/parsley"
	"github.com/opsidian/parsley/text"
)

func genContent(rng *rand.Rand, maxLen int) []byte {
	n := rng.Intn(maxLen + 1)
	b := make([]byte, 0, n+2)
	for len(b) < n {
		switch rng.Intn(10) {
		case 0, 1:
			b = append(b, '\n')
		case 2:
			b = append(b, '\r')
		case 3:
			b = append(b, '\r', '\n')
		case 4:
			b = append(b, ' ')
		default:
			b = append(b, byte('a'+rng.Intn(3)))
		}
	}
	return b
}

func c11Gen(rng *rand.Rand, tier string, i int) *Sexp {
	n := rng.Intn(6)
	files := LA("files")
	for k := 0; k < n; k++ {
		name := fmt.Sprintf("f%d", k)
		if rng.Intn(8) == 0 {
			name = ""
		}
		maxLen := 12
		if rng.Intn(4) == 0 {
			maxLen = 0
		}
		files.List = append(files.List, L(HS(name), H(genContent(rng, maxLen))))
	}
	return L(files)
}

func c11Exec(c *Sexp) Outcome {
	files, _ := caseFiles(c)
	fset := parsley.NewFileSet()
	var tfs []*text.File
	for _, f := range files {
		tf := text.NewFile(f.name, f.raw)
		fset.AddFile(tf)
		tfs = append(tfs, tf)
	}
	next := 1
	var offs, lens []string
	for _, tf := range tfs {
		offs = append(offs, fmt.Sprint(int(tf.Pos(0))))
		lens = append(lens, fmt.Sprint(tf.Len()))
		next = int(tf.Pos(0)) + tf.Len() + 1
	}
	var ps []string
	got := map[int]string{}
	for p := 0; p < next+3; p++ {
		s := fset.Position(parsley.Pos(p)).String()
		ps = append(ps, s)
		got[p] = s
	}
	real := fmt.Sprintf("offs=[%s];lens=[%s];next=%d;pos=%s", strings.Join(offs, ","), strings.Join(lens, ","), next, strings.Join(ps, ","))

	// oracle: count line feeds in the CRLF-normalised content
	fail := ""
	seen := map[int]string{}
	nontrivial := false
	prevEnd := 0
	for i, tf := range tfs {
		norm := strings.ReplaceAll(string(files[i].raw), "\r\n", "\n")
		if tf.Len() != len(norm) && fail == "" {
			fail = fmt.Sprintf("file %d: Len() = %d, normalised content has %d bytes", i, tf.Len(), len(norm))
		}
		base := int(tf.Pos(0))
		if base <= prevEnd && fail == "" {
			fail = fmt.Sprintf("file %d starts at %d but the previous file's end-of-file position is %d: files overlap", i, base, prevEnd)
		}
		prevEnd = base + len(norm)
		line, col := 1, 1
		for off := 0; off <= len(norm); off++ {
			want := fmt.Sprintf("%d:%d", line, col)
			if files[i].name != "" {
				want = files[i].name + ":" + want
			}
			p := base + off
			if other, dup := seen[p]; dup && fail == "" {
				fail = fmt.Sprintf("global position %d denotes both %s and file %d offset %d", p, other, i, off)
			}
			seen[p] = fmt.Sprintf("file %d offset %d", i, off)
			if got[p] != want && fail == "" {
				fail = fmt.Sprintf("Position(%d) = %q, but it is file %d (%q) offset %d = %q", p, got[p], i, files[i].name, off, want)
			}
			if off < len(norm) {
				if norm[off] == '\n' {
					line++
					col = 1
					nontrivial = true
				} else {
					col++
				}
			}
		}
	}
	for p := 0; p < next+3; p++ {
		if _, ok := seen[p]; !ok && got[p] != "unknown" && fail == "" {
			fail = fmt.Sprintf("Position(%d) = %q but no file contains that position", p, got[p])
		}
	}
	return Outcome{Real: real, OracleFail: fail, Nontrivial: nontrivial && len(tfs) >= 2,
		Tags: []string{fmt.Sprintf("files:%d", len(tfs))}}
}

func init() {
	register(&Prop{
		ID: "C11", Cmd: "c11",
		Rule: "random file sets (0-5 files, empty files, empty names, contents mixing LF, lone CR, CRLF, no trailing newline); every global position from 0 to two past the end is translated. Non-trivial = at least two files and a line feed; distinct = distinct case text.",
		Count: quickN(4000, 300000),
		Gen:   c11Gen,
		Exec:  c11Exec,
		Shrink: func(c *Sexp) []*Sexp {
			var out []*Sexp
			fl := c.List[0]
			for i := 1; i < len(fl.List); i++ {
				d := c.Clone()
				d.List[0].List = append(d.List[0].List[:i], d.List[0].List[i+1:]...)
				out = append(out, d)
			}
			for i := 1; i < len(fl.List); i++ {
				b := fl.List[i].List[1].Bytes()
				for k := range b {
					d := c.Clone()
					nb := append(append([]byte{}, b[:k]...), b[k+1:]...)
					d.List[0].List[i].List[1] = H(nb)
					out = append(out, d)
				}
			}
			return out
		},
	})
}
