package main

// C05 — left-recursive arithmetic evaluates like a reference evaluator.
// C16 — the example JSON parser agrees with encoding/json on the supported subset.

import (
	"bytes"
	encjson "encoding/json"
	"fmt"
	"math"
	"math/rand"
	"regexp"
	"sort"
	"strconv"
	"strings"

	"github.com/opsidian/parsley/ast"
	"github.com/opsidian/parsley/combinator"
	exjson "github.com/opsidian/parsley/examples/json/json"
	"github.com/opsidian/parsley/parsley"
	"github.com/opsidian/parsley/text"
)

// ---- rendering of evaluated values (same as the driver's showV) ----------------------------------------
func renderValue(v interface{}) string {
	switch x := v.(type) {
	case []interface{}:
		s := make([]string, len(x))
		for i, e := range x {
			s[i] = renderValue(e)
		}
		return "[" + strings.Join(s, ",") + "]"
	case map[string]interface{}:
		keys := make([]string, 0, len(x))
		for k := range x {
			keys = append(keys, hexs(k))
		}
		sort.Strings(keys)
		s := make([]string, len(keys))
		for i, hk := range keys {
			var orig string
			for k := range x {
				if hexs(k) == hk {
					orig = k
				}
			}
			s[i] = hk + ":" + renderValue(x[orig])
		}
		return "{" + strings.Join(s, ",") + "}"
	}
	return renderVal(v)
}

// the harness' custom interpreter 0: left-associative binary int64 arithmetic on [lhs, op, rhs]
func arithInterp(id int) parsley.Interpreter {
	return ast.InterpreterFunc(func(userCtx interface{}, node parsley.NonTerminalNode) (interface{}, parsley.Error) {
		cs := node.Children()
		l, err := parsley.EvaluateNode(userCtx, cs[0])
		if err != nil {
			return nil, err
		}
		r, err := parsley.EvaluateNode(userCtx, cs[2])
		if err != nil {
			return nil, err
		}
		a, b := l.(int64), r.(int64)
		switch cs[1].Token() {
		case "+":
			return a + b, nil
		case "-":
			return a - b, nil
		case "*":
			return a * b, nil
		case "/":
			if b == 0 {
				return nil, parsley.NewErrorf(cs[1].Pos(), "division by zero")
			}
			return a / b, nil
		}
		panic("bad operator")
	})
}

// evalCase runs parsley.Evaluate for an `eval` case on the real library
// evalCase evaluates the case's input with the given parser value AFTER that same value has been used for other inputs
// (decoys: each in a context of its own, outcome ignored): a parser value describes a language, so what it was used for
// before must not matter — a combinator, terminal or interpreter that keeps something of an earlier parse shows here.
func evalCase(c *Sexp, root parsley.Parser, decoys [][]byte, afterDecoys func()) (real string, val interface{}, err error, panicked interface{}) {
	files, target := caseFiles(c)
	for _, d := range decoys {
		func() {
			defer func() { recover() }()
			df := make([]fileSpec, len(files))
			copy(df, files)
			df[target] = fileSpec{files[target].name, d}
			dctx, _ := newCtx(df, target)
			parsley.Evaluate(dctx, root)
		}()
	}
	if afterDecoys != nil {
		afterDecoys()
	}
	ctx, _ := newCtx(files, target)
	func() {
		defer func() { panicked = recover() }()
		val, err = parsley.Evaluate(ctx, root)
	}()
	switch {
	case panicked != nil:
		return fmt.Sprintf("panic=%v", panicked), nil, nil, panicked
	case err != nil:
		return "error=" + hexs(err.Error()), nil, err, nil
	}
	return "value=" + renderValue(val), val, nil, nil
}

// ---- C05 ---------------------------------------------------------------------------------------------------

func arithGrammar() ([]*Sexp, *Sexp) {
	trim := func(t *Sexp) *Sexp { return LA("rtrim", A("nl"), LA("ltrim", A("nl"), t)) }
	bin := LA("o", LA("custom", N(0)), A("-"), A("0"), A("-"))
	sel1 := LA("o", LA("select", N(1)), A("-"), A("0"), A("-"))
	addop := LA("any", trim(runeT('+')), trim(runeT('-')))
	mulop := LA("any", trim(runeT('*')), trim(runeT('/')))
	expr := LA("memo", N(0), LA("any", LA("seq", A("of"), bin, LA("ref", N(0)), addop, LA("ref", N(1))), LA("ref", N(1))))
	term := LA("memo", N(1), LA("any", LA("seq", A("of"), bin, LA("ref", N(1)), mulop, LA("ref", N(2))), LA("ref", N(2))))
	factor := LA("any", trim(LA("int")), LA("seq", A("of"), sel1, trim(runeT('(')), LA("ref", N(0)), trim(runeT(')'))))
	return []*Sexp{expr, term, factor}, LA("sentence", LA("ref", N(0)))
}

type expr struct {
	op   byte // 0 = literal, 'p' = parenthesised
	lit  string
	l, r *expr
	opAt int // byte offset of the operator in the rendering
}

func genExpr(rng *rand.Rand, depth int) *expr {
	if depth <= 0 || rng.Intn(4) == 0 {
		lits := []string{"0", "1", "2", "7", "10", "-3", "+4", "0x10", "017", "999", "9223372036854775807", "-9223372036854775808", "3037000500"}
		switch rng.Intn(4) {
		case 0:
			return &expr{lit: lits[rng.Intn(len(lits))]}
		case 1:
			// a literal in a random base: hexadecimal with digits of either case and either prefix, octal, decimal;
			// optionally signed (every one of them is in Integer's documented language and in strconv.ParseInt(s, 0, 64)'s)
			sign := []string{"", "", "-", "+"}[rng.Intn(4)]
			digits := func(al string, n int) string {
				b := make([]byte, n)
				for k := range b {
					b[k] = al[rng.Intn(len(al))]
				}
				return string(b)
			}
			switch rng.Intn(3) {
			case 0:
				return &expr{lit: sign + []string{"0x", "0X"}[rng.Intn(2)] + digits("0123456789abcdefABCDEF", 1+rng.Intn(5))}
			case 1:
				return &expr{lit: sign + "0" + digits("01234567", 1+rng.Intn(5))}
			default:
				return &expr{lit: sign + digits("123456789", 1) + digits("0123456789", rng.Intn(6))}
			}
		}
		return &expr{lit: strconv.Itoa(rng.Intn(50) - 5)}
	}
	if rng.Intn(6) == 0 {
		return &expr{op: 'p', l: genExpr(rng, depth-1)}
	}
	return &expr{op: "+-*/"[rng.Intn(4)], l: genExpr(rng, depth-1), r: genExpr(rng, depth-1)}
}

func prec(e *expr) int {
	switch e.op {
	case '+', '-':
		return 1
	case '*', '/':
		return 2
	}
	return 3
}

func gap(rng *rand.Rand) string {
	switch rng.Intn(8) {
	case 0:
		return " "
	case 1:
		return "\n"
	case 2:
		return " \t"
	case 3:
		return "\n  "
	case 4:
		return "\r\n"
	}
	return ""
}

// render writes the expression with the parentheses the tree needs (left-associative) and random gaps
func (e *expr) render(rng *rand.Rand, sb *strings.Builder) {
	switch e.op {
	case 0:
		sb.WriteString(e.lit)
	case 'p':
		sb.WriteString("(" + gap(rng))
		e.l.render(rng, sb)
		sb.WriteString(gap(rng) + ")")
	default:
		paren := func(x *expr, need bool) {
			if need {
				sb.WriteString("(")
				x.render(rng, sb)
				sb.WriteString(")")
			} else {
				x.render(rng, sb)
			}
		}
		paren(e.l, prec(e.l) < prec(e))
		sb.WriteString(gap(rng))
		e.opAt = sb.Len()
		sb.WriteByte(e.op)
		// a sign directly after an operator would still parse ("1--2"), keep it; only avoid gluing "+ +4" ambiguity: none
		sb.WriteString(gap(rng))
		paren(e.r, prec(e.r) <= prec(e))
	}
}

type divZero struct{ at int }

func (e *expr) eval() (int64, *divZero) {
	switch e.op {
	case 0:
		v, err := strconv.ParseInt(e.lit, 0, 64)
		if err != nil {
			panic(err)
		}
		return v, nil
	case 'p':
		return e.l.eval()
	}
	a, dz := e.l.eval()
	if dz != nil {
		return 0, dz
	}
	b, dz := e.r.eval()
	if dz != nil {
		return 0, dz
	}
	switch e.op {
	case '+':
		return a + b, nil
	case '-':
		return a - b, nil
	case '*':
		return a * b, nil
	}
	if b == 0 {
		return 0, &divZero{e.opAt}
	}
	return a / b, nil
}

func lineCol(norm []byte, off int) (int, int) {
	line, col := 1, 1
	for i := 0; i < off; i++ {
		if norm[i] == '\n' {
			line++
			col = 1
		} else {
			col++
		}
	}
	return line, col
}

// reference recursive-descent recogniser/evaluator over the text (used for mutated inputs)
type rdParser struct {
	s   []byte
	i   int
	err bool
}

var intRe = regexp.MustCompile(`^[-+]?(?:[1-9][0-9]*|0[xX][0-9a-fA-F]+|0[0-7]*)`)

func (p *rdParser) ws() {
	for p.i < len(p.s) && strings.IndexByte(" \t\n\f", p.s[p.i]) >= 0 {
		p.i++
	}
}
func (p *rdParser) expr() (int64, *divZero) {
	a, dz := p.term()
	for !p.err {
		p.ws()
		if p.i < len(p.s) && (p.s[p.i] == '+' || p.s[p.i] == '-') {
			op, at := p.s[p.i], p.i
			save := p.i
			p.i++
			b, dz2 := p.term()
			if p.err {
				p.err = false
				p.i = save
				return a, dz
			}
			_ = at
			if dz == nil {
				dz = dz2
			}
			if op == '+' {
				a += b
			} else {
				a -= b
			}
			continue
		}
		break
	}
	return a, dz
}
func (p *rdParser) term() (int64, *divZero) {
	a, dz := p.factor()
	for !p.err {
		p.ws()
		if p.i < len(p.s) && (p.s[p.i] == '*' || p.s[p.i] == '/') {
			op, at := p.s[p.i], p.i
			save := p.i
			p.i++
			b, dz2 := p.factor()
			if p.err {
				p.err = false
				p.i = save
				return a, dz
			}
			if dz == nil {
				dz = dz2
			}
			if op == '*' {
				a *= b
			} else if b == 0 {
				if dz == nil {
					dz = &divZero{at}
				}
			} else if dz == nil {
				a /= b
			}
			continue
		}
		break
	}
	return a, dz
}
func (p *rdParser) factor() (int64, *divZero) {
	p.ws()
	if p.i < len(p.s) && p.s[p.i] == '(' {
		p.i++
		v, dz := p.expr()
		p.ws()
		if p.err || p.i >= len(p.s) || p.s[p.i] != ')' {
			p.err = true
			return 0, nil
		}
		p.i++
		return v, dz
	}
	m := intRe.Find(p.s[p.i:])
	if m == nil || (p.i+len(m) < len(p.s) && p.s[p.i+len(m)] == '.') {
		p.err = true
		return 0, nil
	}
	v, err := strconv.ParseInt(string(m), 0, 64)
	if err != nil {
		p.err = true
		return 0, nil
	}
	p.i += len(m)
	return v, nil
}

func c05Gen(rng *rand.Rand, tier string, i int) *Sexp {
	depth := 1 + rng.Intn(5)
	if tier == "thorough" && rng.Intn(4) == 0 {
		depth = 6 + rng.Intn(3)
	}
	e := genExpr(rng, depth)
	var sb strings.Builder
	sb.WriteString(gap(rng))
	e.render(rng, &sb)
	sb.WriteString(gap(rng))
	in := []byte(sb.String())
	if rng.Intn(4) == 0 && len(in) > 0 { // ill-formed mutation
		switch rng.Intn(4) {
		case 0:
			k := rng.Intn(len(in))
			in = append(in[:k], in[k+1:]...)
		case 1:
			k := rng.Intn(len(in) + 1)
			in = append(in[:k], append([]byte{"+-*/()1x ."[rng.Intn(10)]}, in[k:]...)...)
		case 2:
			in = in[:rng.Intn(len(in))]
		case 3:
			in[rng.Intn(len(in))] = "+-*/()1x ."[rng.Intn(10)]
		}
	}
	env, root := arithGrammar()
	// the expression's file is, in half of the cases, NOT the first file of its file set (files of any length before it, one
	// after it): the end of input, the curtailment bound and the error's line:column must not depend on the file's base offset
	if rng.Intn(2) == 0 {
		before := []*Sexp{}
		for k := 1 + rng.Intn(2); k > 0; k-- {
			before = append(before, L(HS(fmt.Sprintf("g%d", k)), H([]byte(strings.Repeat("1+\n", rng.Intn(40))))))
		}
		files := append(before, L(HS("f"), H(in)), L(HS("h"), HS("2*3")))
		return L(LA("env", env...), LA("root", root), LA("files", files...), LA("target", N(len(before))))
	}
	return L(LA("env", env...), LA("root", root), LA("files", L(HS("f"), H(in))), LA("target", N(0)))
}

func c05Exec(c *Sexp) Outcome {
	rec := newRecorder(400000)
	g := buildGrammar(findArg(c, "env"), findArg(c, "root")[0], rec, false, arithInterp, nil)
	raw0, tgt := caseFiles(c)
	real, val, err, pan := evalCase(c, g.root, [][]byte{[]byte("(1 + 2) * 3"), raw0[tgt].raw[:len(raw0[tgt].raw)/2], []byte("7")}, func() { *rec = *newRecorder(400000) })
	if be, ok := pan.(budgetExceeded); ok {
		// the harness's own work budget (long expressions of the thorough tier): skipped, never counted as a pass —
		// an earlier version reported it as "Evaluate panicked": a false alarm of the check, corrected
		return Outcome{Skip: be.why}
	}
	files, _ := caseFiles(c)
	norm := bytes.ReplaceAll(files[tgt].raw, []byte("\r\n"), []byte("\n"))
	// reference: recursive descent over the text
	p := &rdParser{s: norm}
	want, dz := p.expr()
	p.ws()
	wellFormed := !p.err && p.i == len(norm)
	fail := ""
	switch {
	case pan != nil:
		fail = fmt.Sprintf("Evaluate panicked: %v", pan)
	case !wellFormed:
		if err == nil {
			fail = fmt.Sprintf("ill-formed expression %q was accepted with value %v", norm, val)
		}
	case dz != nil:
		line, col := lineCol(norm, dz.at)
		wantMsg := fmt.Sprintf("division by zero at f:%d:%d", line, col)
		if err == nil || err.Error() != wantMsg {
			fail = fmt.Sprintf("expected error %q, got value %v error %v", wantMsg, val, err)
		}
	default:
		if err != nil {
			fail = fmt.Sprintf("well-formed expression %q rejected: %v (reference value %d)", norm, err, want)
		} else if v, ok := val.(int64); !ok || v != want {
			fail = fmt.Sprintf("expression %q evaluates to %v, the reference evaluator gives %d", norm, val, want)
		}
	}
	tags := []string{fmt.Sprintf("len:%d", bucket(len(norm)))}
	if !wellFormed {
		tags = append(tags, "ill-formed")
	} else if dz != nil {
		tags = append(tags, "division-by-zero")
	} else {
		tags = append(tags, "value")
	}
	return Outcome{Real: real, OracleFail: fail, Nontrivial: wellFormed && len(norm) > 6, Tags: tags}
}

// ---- C16 ---------------------------------------------------------------------------------------------------

func jsonGrammar() ([]*Sexp, *Sexp) {
	lt := func(m string, t *Sexp) *Sexp { return LA("ltrim", A(m), t) }
	o := func(in *Sexp) *Sexp { return LA("o", in, A("-"), A("0"), A("-")) }
	value := LA("ref", N(0))
	array := LA("seq", A("of"), o(LA("select", N(1))),
		runeT('['),
		LA("sepby", N(1), o(A("array")), lt("nl", value), lt("spaces", runeT(','))),
		lt("nl", runeT(']')))
	keyValue := LA("seq", A("of"), noOpts, LA("string", N(0)), lt("spaces", runeT(':')), lt("nl", value))
	object := LA("seq", A("of"), o(LA("select", N(1))),
		runeT('{'),
		LA("sepby", N(1), o(A("object")), lt("nl", keyValue), lt("spaces", runeT(','))),
		lt("nl", runeT('}')))
	val := LA("name", HS("value"), LA("choice", LA("string", N(0)), LA("float"), LA("int"), array, object,
		LA("bool", HS("true"), HS("false")), LA("nilw", HS("null"))))
	root := LA("sentence", LA("rtrim", A("nl"), LA("ltrim", A("nl"), LA("ref", N(0)))))
	return []*Sexp{val}, root
}

func jsonWs(rng *rand.Rand, nl bool) string {
	switch rng.Intn(6) {
	case 0:
		return " "
	case 1:
		return "\t"
	case 2:
		if nl {
			return "\n"
		}
		return " "
	case 3:
		if nl {
			return "\n  "
		}
		return "  "
	}
	return ""
}

func genJSONString(rng *rand.Rand) string {
	var sb strings.Builder
	sb.WriteByte('"')
	for n := rng.Intn(6); n > 0; n-- {
		switch rng.Intn(12) {
		case 0:
			sb.WriteString(`\"`)
		case 1:
			sb.WriteString(`\\`)
		case 2:
			sb.WriteString([]string{`\b`, `\f`, `\n`, `\r`, `\t`}[rng.Intn(5)])
		case 3:
			sb.WriteString(fmt.Sprintf(`\u%04x`, []int{0x41, 0xe9, 0x20ac, 0x7f, 0x80, 0xff, 0x100, 0xfffd}[rng.Intn(8)]))
		case 4:
			sb.WriteString([]string{"é", "€", "😀", "ÿ", "\u0080"}[rng.Intn(5)])
		case 5:
			sb.WriteByte(' ')
		default:
			sb.WriteByte(byte('a' + rng.Intn(4)))
		}
	}
	sb.WriteByte('"')
	return sb.String()
}

func genJSON(rng *rand.Rand, depth int, sb *strings.Builder) {
	k := rng.Intn(11)
	if k >= 9 {
		k -= 2 // containers twice as likely
	}
	if depth <= 0 && k >= 7 {
		k = rng.Intn(7)
	}
	switch k {
	case 0:
		sb.WriteString(genJSONString(rng))
	case 1, 2:
		sb.WriteString([]string{"0", "1", "-1", "42", "-0", "9223372036854775807", "-9223372036854775808", strconv.Itoa(rng.Intn(2000) - 1000)}[rng.Intn(8)])
	case 3:
		sb.WriteString([]string{"1.5", "-0.25", "0.0", "3.14e2", "1.0E-3", "-2.5e+3", "123.456", "-0.5e+3", "1.0e308"}[rng.Intn(9)])
	case 4:
		sb.WriteString("true")
	case 5:
		sb.WriteString("false")
	case 6:
		sb.WriteString("null")
	case 7:
		sb.WriteString("[")
		n := rng.Intn(4)
		for i := 0; i < n; i++ {
			if i > 0 {
				sb.WriteString(jsonWs(rng, false) + ",")
			}
			sb.WriteString(jsonWs(rng, true))
			genJSON(rng, depth-1, sb)
		}
		sb.WriteString(jsonWs(rng, true) + "]")
	default:
		sb.WriteString("{")
		n := rng.Intn(4)
		keys := []string{`"a"`, `"b"`, `""`, `"a"`, `"kéy"`, `"é"`}
		for i := 0; i < n; i++ {
			if i > 0 {
				sb.WriteString(jsonWs(rng, false) + ",")
			}
			sb.WriteString(jsonWs(rng, true))
			if rng.Intn(2) == 0 {
				sb.WriteString(keys[rng.Intn(len(keys))])
			} else {
				sb.WriteString(genJSONString(rng))
			}
			sb.WriteString(jsonWs(rng, false) + ":" + jsonWs(rng, true))
			genJSON(rng, depth-1, sb)
		}
		sb.WriteString(jsonWs(rng, true) + "}")
	}
}

func c16Gen(rng *rand.Rand, tier string, i int) *Sexp {
	var sb strings.Builder
	sb.WriteString(jsonWs(rng, true))
	if rng.Intn(5) == 0 {
		genJSON(rng, 0, &sb) // a bare scalar document
	} else {
		sb.WriteString("[" + jsonWs(rng, true))
		genJSON(rng, 1+rng.Intn(4), &sb)
		sb.WriteString(jsonWs(rng, false) + "," + jsonWs(rng, true))
		genJSON(rng, 1+rng.Intn(3), &sb)
		sb.WriteString(jsonWs(rng, true) + "]")
	}
	sb.WriteString(jsonWs(rng, true))
	doc := []byte(sb.String())
	kind := "valid"
	if rng.Intn(4) == 0 && len(doc) > 1 {
		switch rng.Intn(3) {
		case 0:
			doc = doc[:1+rng.Intn(len(doc)-1)]
			kind = "truncated"
		case 1:
			// only separators whose removal cannot MERGE two number tokens: "[0,413]" without its comma is "[0413]", an
			// octal literal the example grammar accepts (leading zeros / octal are outside the supported subset, where
			// no agreement with encoding/json is claimed) — an earlier version deleted those too and so demanded the
			// rejection of documents the property does not speak about: a false alarm of the check, corrected
			numberish := func(b byte) bool { return b >= '0' && b <= '9' || strings.IndexByte(".eE+-", b) >= 0 }
			var seps []int
			for k, b := range doc {
				if b == ',' || b == ':' {
					if k > 0 && k+1 < len(doc) && numberish(doc[k-1]) && numberish(doc[k+1]) {
						continue
					}
					seps = append(seps, k)
				}
			}
			if len(seps) > 0 {
				k := seps[rng.Intn(len(seps))]
				doc = append(doc[:k], doc[k+1:]...)
				kind = "missing-separator"
			}
		case 2:
			doc = append(doc, []string{"x", "]", ",", "}", "{"}[rng.Intn(5)]...)
			kind = "trailing-input"
		}
	}
	env, root := jsonGrammar()
	norm := bytes.ReplaceAll(doc, []byte("\r\n"), []byte("\n"))
	tmp := L(LA("env", env...), LA("root", root))
	return L(LA("env", env...), LA("root", root), LA("files", L(HS("f"), H(doc))), LA("target", N(0)),
		paramsFor(tmp, norm, allCursors(len(norm))), LA("kind", A(kind)))
}

func fromStdJSON(v interface{}) (interface{}, bool) {
	switch x := v.(type) {
	case encjson.Number:
		s := string(x)
		if strings.ContainsAny(s, ".eE") {
			f, err := strconv.ParseFloat(s, 64)
			return f, err == nil
		}
		n, err := strconv.ParseInt(s, 10, 64)
		return n, err == nil
	case []interface{}:
		out := make([]interface{}, len(x))
		for i, e := range x {
			c, ok := fromStdJSON(e)
			if !ok {
				return nil, false
			}
			out[i] = c
		}
		return out, true
	case map[string]interface{}:
		out := map[string]interface{}{}
		for k, e := range x {
			c, ok := fromStdJSON(e)
			if !ok {
				return nil, false
			}
			out[k] = c
		}
		return out, true
	}
	return v, true
}

func valuesEqual(a, b interface{}) bool {
	switch x := a.(type) {
	case float64:
		y, ok := b.(float64)
		return ok && math.Float64bits(x) == math.Float64bits(y)
	case []interface{}:
		y, ok := b.([]interface{})
		if !ok || len(x) != len(y) {
			return false
		}
		for i := range x {
			if !valuesEqual(x[i], y[i]) {
				return false
			}
		}
		return true
	case map[string]interface{}:
		y, ok := b.(map[string]interface{})
		if !ok || len(x) != len(y) {
			return false
		}
		for k, v := range x {
			w, ok := y[k]
			if !ok || !valuesEqual(v, w) {
				return false
			}
		}
		return true
	}
	return a == b
}

func c16Exec(c *Sexp) Outcome {
	root := combinator.Sentence(text.Trim(exjson.NewParser()))
	files, _ := caseFiles(c)
	doc := files[0].raw
	real, val, err, pan := evalCase(c, root, [][]byte{[]byte(`{"a": [1, 2.5, "x\n"], "b": null}`), doc[:len(doc)/2], []byte("1")}, nil)
	kind := findArg(c, "kind")[0].Atom
	dec := encjson.NewDecoder(bytes.NewReader(doc))
	dec.UseNumber()
	var std interface{}
	stdErr := dec.Decode(&std)
	if stdErr == nil {
		var extra interface{}
		if dec.Decode(&extra) == nil || dec.More() {
			stdErr = fmt.Errorf("trailing data")
		} else if rest := bytes.TrimSpace(doc[dec.InputOffset():]); len(rest) > 0 {
			stdErr = fmt.Errorf("trailing data")
		}
	}
	fail := ""
	switch {
	case pan != nil:
		fail = fmt.Sprintf("the example parser panicked on %q: %v", doc, pan)
	case kind == "valid":
		want, ok := fromStdJSON(std)
		if stdErr != nil || !ok {
			// the generator left the subset (should not happen)
			fail = ""
		} else if err != nil {
			fail = fmt.Sprintf("document %q of the supported subset rejected: %v", doc, err)
		} else if !valuesEqual(val, want) {
			fail = fmt.Sprintf("document %q: example parser gives %s, encoding/json gives %s", doc, renderValue(val), renderValue(want))
		}
	default:
		if stdErr != nil && err == nil {
			fail = fmt.Sprintf("%s document %q accepted with value %s", kind, doc, renderValue(val))
		}
	}
	return Outcome{Real: real, OracleFail: fail, Nontrivial: kind == "valid" && len(doc) > 8,
		Tags: []string{"kind:" + kind, fmt.Sprintf("len:%d", bucket(len(doc)))}}
}

func init() {
	register(&Prop{
		ID: "C05", Cmd: "eval",
		Rule: "random arithmetic expressions, in half of the cases in a file that is not the first of its file set (depth up to 5, thorough up to 8; + - * / with parentheses where the tree needs them; decimal, hex, octal, signed and extreme literals; spaces, tabs, LF, CRLF in any gap), one in four mutated into a possibly ill-formed string; grammar expr/term/factor built from Memoize, Any, SeqOf, Trim, Integer, Rune, Sentence; oracle = independent recursive-descent evaluator with int64 wrap-around and the position of the offending operator. Non-trivial = well-formed and longer than 6 bytes.",
		Count: quickN(5000, 50000),
		Gen:   c05Gen,
		Exec:  c05Exec,
	})
	register(&Prop{
		ID: "C16", Cmd: "eval",
		Rule: "random JSON documents of the supported subset (nesting up to 4, objects with duplicate / empty / escaped keys, strings with the standard escapes and raw UTF-8, int64 and decimal numbers, whitespace where the grammar's modes allow it), one in four truncated, with a separator deleted, or with trailing input; the real json.NewParser() under Sentence(Trim(...)) vs encoding/json (UseNumber) vs the Lean model of the transcribed grammar. Non-trivial = valid document longer than 8 bytes.",
		Count: quickN(5000, 50000),
		Gen:   c16Gen,
		Exec:  c16Exec,
	})
}
