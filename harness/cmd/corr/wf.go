package main

// C02W — the well-formedness certificate (C02's hypothesis) is decided identically on both sides
// (additional stream of property C02).
//
// The termination theorem c02_terminates is stated for grammars accepted by the Lean certificate check
// `wf` (lean/ParsleyVerif/Spec/WF.lean).  Every other stream generates its "certified" grammars with the Go
// function wellFormed (gen.go).  This stream ties the two: random grammars — certified ones, the same
// generator WITHOUT the certificate filter, variants with Memoize wrappers removed, and the template
// family — are judged by wellFormed here and by the driver command `wfcheck`, which computes the least
// certificate (nullable rules by least fixpoint, ranks by longest un-memoized left-reference path) and runs
// the Lean check on it.  Verdict and the set of nullable rules are compared verbatim.

import (
	"fmt"
	"math/rand"
	"strconv"
	"strings"
)

func wfRandomGrammar(rng *rand.Rand) genGrammar {
	nRules := 1 + rng.Intn(4)
	g := &gramGen{rng: rng, nRules: nRules, alphabet: []byte("ab"), nextMemo: nRules, subMemo: []float64{0, 0.2, 0.5}[rng.Intn(3)], upwardRef: -1, nameAlts: rng.Intn(4) == 0}
	memoPct := []int{0, 40, 85, 100}[rng.Intn(4)]
	env := make([]*Sexp, nRules)
	for i := range env {
		body := g.rule(i, 1+rng.Intn(2))
		if rng.Intn(100) < memoPct {
			body = LA("memo", N(i), body)
		}
		env[i] = body
	}
	var root *Sexp
	switch rng.Intn(4) {
	case 0:
		root = LA("sentence", LA("ref", N(0)))
	case 1:
		root = g.term(2)
	default:
		root = LA("ref", N(0))
	}
	return genGrammar{env, root}
}

// wfStripSome removes some Memoize wrappers (a certified grammar usually loses its certificate).
func wfStripSome(rng *rand.Rand, t *Sexp) *Sexp {
	if !t.IsL {
		return t
	}
	if t.Head() == "memo" && rng.Intn(2) == 0 {
		return wfStripSome(rng, t.List[2])
	}
	d := &Sexp{IsL: true, List: make([]*Sexp, len(t.List))}
	for i, x := range t.List {
		d.List[i] = wfStripSome(rng, x)
	}
	return d
}

func wfHasLeftRef(env []*Sexp) bool {
	nr := nullableRules(env)
	for _, e := range env {
		var lr []leftRef
		leftRefs(e, nr, false, &lr)
		if len(lr) > 0 {
			return true
		}
	}
	return false
}

func wfExec(c *Sexp) Outcome {
	env := findArg(c, "env")
	root := findArg(c, "root")[0]
	nr := nullableRules(env)
	var nulls []string
	for i, b := range nr {
		if b {
			nulls = append(nulls, strconv.Itoa(i))
		}
	}
	ok := wellFormed(env, root, false)
	o := Outcome{Real: fmt.Sprintf("wf=%v;null=[%s]", ok, strings.Join(nulls, ","))}
	if wellFormed(env, root, true) && !ok {
		o.OracleFail = "left-recursion-free but not well formed"
	}
	o.Nontrivial = wfHasLeftRef(env)
	if ok {
		o.Tags = append(o.Tags, "wf:true")
	} else {
		o.Tags = append(o.Tags, "wf:false")
	}
	return o
}

func wfShrink(c *Sexp) []*Sexp {
	var out []*Sexp
	env := findArg(c, "env")
	root := findArg(c, "root")[0]
	mk := func(env []*Sexp, root *Sexp) *Sexp { return L(LA("env", env...), LA("root", root)) }
	// replace one rule body / the root by a terminal, or by one of its list children
	for i, e := range env {
		if e.Head() != "rune" {
			ne := append([]*Sexp{}, env...)
			ne[i] = runeT('a')
			out = append(out, mk(ne, root))
		}
		for _, x := range e.Args() {
			if x.IsL && x.Head() != "o" {
				ne := append([]*Sexp{}, env...)
				ne[i] = x
				out = append(out, mk(ne, root))
			}
		}
	}
	for _, x := range root.Args() {
		if x.IsL && x.Head() != "o" {
			out = append(out, mk(env, x))
		}
	}
	return out
}

func init() {
	register(&Prop{
		ID: "C02W", Cmd: "wfcheck", ReportAs: "C02",
		Rule: "random grammars — 1/4 from the certified generator, 1/4 certified ones with a random subset of Memoize wrappers removed, 3/8 from the same term generator without the certificate filter (rules memoized with probability 0/40/85/100 %, root a reference, a Sentence or a random term), 1/8 from the template family — judged by the Go certificate (gen.go wellFormed, the filter every other stream generates its certified grammars with) and by the Lean check `wf` on the least certificate computed by the driver; verdict and nullable rules compared verbatim. Non-trivial = some rule has a left reference; distinct = distinct case text.",
		Count: quickN(6000, 240000),
		Gen: func(rng *rand.Rand, tier string, i int) *Sexp {
			var g genGrammar
			switch i % 8 {
			case 0, 1:
				g = genCertified(rng, genOpts{subMemo: 0.3, sentence: 0.5, maxRules: 4, nameAlts: rng.Intn(4) == 0})
			case 2, 3:
				g = genCertified(rng, genOpts{subMemo: 0.3, sentence: 0.5, maxRules: 4})
				for k := range g.env {
					g.env[k] = wfStripSome(rng, g.env[k])
				}
			case 4:
				g, _ = genTemplate(rng)
				if rng.Intn(2) == 0 {
					for k := range g.env {
						g.env[k] = wfStripSome(rng, g.env[k])
					}
				}
			default:
				g = wfRandomGrammar(rng)
			}
			return L(LA("env", g.env...), LA("root", g.root))
		},
		Exec:   wfExec,
		Shrink: wfShrink,
	})
}
