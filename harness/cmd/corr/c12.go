package main

// C12 — parsing is invariant under the file's placement in a file set.
// Each case is run twice on the real library: with the parsed file alone, and preceded by other files.
// Oracle (real vs real): trees, error positions and furthest-error positions shifted by exactly the
// difference of base offsets; values, call counts and rendered messages (line:column) identical.
// The placed run is also compared with the Lean model.

import (
	"bytes"
	"fmt"
	"math/rand"
	"strings"

	"github.com/opsidian/parsley/ast"
	"github.com/opsidian/parsley/parser"
	"github.com/opsidian/parsley/parsley"
)

func writeNodeShift(sb *strings.Builder, n parsley.Node, d int) {
	if sb.Len() > 30000 {
		panic(budgetExceeded{"render"})
	}
	switch x := n.(type) {
	case nil:
		sb.WriteString("nil")
	case ast.NodeList:
		sb.WriteString("L[")
		for i, c := range x {
			if i > 0 {
				sb.WriteByte(' ')
			}
			writeNodeShift(sb, c, d)
		}
		sb.WriteByte(']')
	case ast.EmptyNode:
		fmt.Fprintf(sb, "E(%d)", int(x)+d)
	case parser.EndNode:
		fmt.Fprintf(sb, "F(%d)", int(x)+d)
	case parsley.NonTerminalNode:
		fmt.Fprintf(sb, "N(%s,%d,%d)[", hexs(x.Token()), int(x.Pos())+d, int(x.ReaderPos())+d)
		for i, c := range x.Children() {
			if i > 0 {
				sb.WriteByte(' ')
			}
			writeNodeShift(sb, c, d)
		}
		sb.WriteByte(']')
	case parsley.LiteralNode:
		fmt.Fprintf(sb, "T(%s,%s,%d,%d)", hexs(x.Token()), renderVal(x.Value()), int(x.Pos())+d, int(x.ReaderPos())+d)
	}
}

func renderShift(n parsley.Node, d int) string {
	var sb strings.Builder
	writeNodeShift(&sb, n, d)
	return sb.String()
}

func renderErrShift(e parsley.Error, d int) string {
	if e == nil {
		return "-"
	}
	return fmt.Sprintf("e(%d,%s)", int(e.Pos())+d, hexs(e.Error()))
}

func allCursors(n int) []int {
	c := make([]int, n+1)
	for i := range c {
		c[i] = i
	}
	return c
}

func c12Gen(rng *rand.Rand, tier string, i int) *Sexp {
	var env []*Sexp
	var root *Sexp
	var content []byte
	var extra []*Sexp
	switch i % 4 {
	case 0: // random certified grammars
		g := genCertified(rng, genOpts{subMemo: 0.1, sentence: 0.6, maxRules: 3})
		env, root = g.env, g.root
		content = sampleInput(rng, g, alphabetOf(g), 10)
	case 1: // trimmed token sequences
		c := c10Gen(rng, tier, i)
		root = findArg(c, "root")[0]
		fl := findArg(c, "files")
		content = fl[len(fl)-1].List[1].Bytes()
	case 2: // every literal parser, under Trim, at the start of the file
		kind := c08Kinds[rng.Intn(len(c08Kinds))]
		term := c08TermFor(rng, kind)
		root = LA("rtrim", A("nl"), LA("ltrim", A("nl"), term))
		content = []byte(genWs(rng) + litSamples(rng, kind) + genWs(rng))
	default: // left-recursive sum of integers with free whitespace
		content = []byte(genSumExpr(rng))
		env, root = sumGrammar()
	}
	norm := bytes.ReplaceAll(content, []byte("\r\n"), []byte("\n"))
	tmp := L(LA("env", env...), LA("root", root))
	extra = append(extra, paramsFor(tmp, norm, allCursors(len(norm))))
	nBefore := 1 + rng.Intn(3)
	files := LA("files")
	for b := 0; b < nBefore; b++ {
		files.List = append(files.List, L(HS(fmt.Sprintf("p%d", b)), H(genBytes(rng, 9))))
	}
	files.List = append(files.List, L(HS("f"), H(content)))
	c := L(LA("env", env...), LA("root", root), files, LA("target", N(nBefore)))
	c.List = append(c.List, extra...)
	return c
}

// sumGrammar: S -> S '+' I | I with Trim around the tokens (no interpreters needed for parsing)
func sumGrammar() ([]*Sexp, *Sexp) {
	trim := func(t *Sexp) *Sexp { return LA("rtrim", A("nl"), LA("ltrim", A("nl"), t)) }
	plus := trim(runeT('+'))
	num := trim(LA("int"))
	s := LA("memo", N(0), LA("any", LA("seq", A("of"), noOpts, LA("ref", N(0)), plus, num), num))
	return []*Sexp{s}, LA("sentence", LA("ref", N(0)))
}

func genSumExpr(rng *rand.Rand) string {
	n := 1 + rng.Intn(5)
	var sb strings.Builder
	sb.WriteString(genWs(rng))
	for i := 0; i < n; i++ {
		if i > 0 {
			sb.WriteString("+")
			sb.WriteString(genWs(rng))
		}
		sb.WriteString(fmt.Sprint(rng.Intn(300) - 20))
		sb.WriteString(genWs(rng))
	}
	if rng.Intn(5) == 0 {
		sb.WriteString("+")
	}
	return sb.String()
}

func c12Exec(c *Sexp) Outcome {
	placed := runParseCase(c, parseBudget, nil, c08UserRegexps)
	if placed.skip != "" {
		return Outcome{Skip: placed.skip}
	}
	// the same file added alone
	files, target := caseFiles(c)
	alone := c.Clone()
	for _, x := range alone.List {
		switch x.Head() {
		case "files":
			x.List = []*Sexp{x.List[0], L(HS(files[target].name), H(files[target].raw))}
		case "target":
			x.List[1] = N(0)
		}
	}
	al := runParseCase(alone, parseBudget, nil, c08UserRegexps)
	if al.skip != "" {
		return Outcome{Skip: al.skip}
	}
	_, tfP := newCtx(files, target)
	d := 1 - int(tfP.Pos(0)) // shift that maps the placed run back onto the alone run
	fail := ""
	switch {
	case renderShift(placed.res, d) != renderShift(al.res, 0):
		fail = fmt.Sprintf("trees differ beyond the offset shift %d: placed %s, alone %s", -d, renderShift(placed.res, d), renderShift(al.res, 0))
	case renderErrShift(placed.err, d) != renderErrShift(al.err, 0):
		fail = fmt.Sprintf("returned errors differ beyond the shift: placed %s, alone %s", renderErrShift(placed.err, d), renderErrShift(al.err, 0))
	case renderErrShift(placed.ctxErr, d) != renderErrShift(al.ctxErr, 0):
		fail = fmt.Sprintf("furthest errors differ beyond the shift: placed %s, alone %s", renderErrShift(placed.ctxErr, d), renderErrShift(al.ctxErr, 0))
	case placed.calls != al.calls:
		fail = fmt.Sprintf("call counts differ: placed %d, alone %d", placed.calls, al.calls)
	case (placed.perr == nil) != (al.perr == nil) || (placed.perr != nil && placed.perr.Error() != al.perr.Error()):
		fail = fmt.Sprintf("messages differ: placed %v, alone %v", placed.perr, al.perr)
	case renderShift(placed.node, d) != renderShift(al.node, 0):
		fail = "Parse results differ beyond the shift"
	}
	if fail == "" {
		fail = reuseOracle(placed)
	}
	return Outcome{Real: "R:" + placed.direct + "|P:" + placed.viaParse, OracleFail: fail,
		Nontrivial: placed.res != nil || placed.err != nil, Tags: []string{fmt.Sprintf("workload:%d", workloadOf(c)), fmt.Sprintf("base-offset:%d", bucket(-d + 1))}}
}

func workloadOf(c *Sexp) int {
	r := findArg(c, "root")[0]
	switch {
	case len(findArg(c, "env")) == 1 && strings.Contains(r.String(), "sentence") && strings.Contains(findArg(c, "env")[0].String(), "(int)"):
		return 3
	case r.Head() == "rtrim":
		return 2
	case len(findArg(c, "env")) == 0:
		return 1
	}
	return 0
}

func init() {
	register(&Prop{
		ID: "C12", Cmd: "parse",
		Rule: "four workloads in turn (random certified grammars; trimmed token sequences; every literal parser under Trim; a left-recursive sum of integers with free whitespace) with the parsed file preceded by 1-3 random other files; the same content is also parsed alone and everything observable is compared modulo the offset shift. Non-trivial = the parse produced a result or an error positioned in the file (always); distinct = distinct case text.",
		Count: quickN(6000, 240000),
		Gen:   c12Gen,
		Exec:  c12Exec,
	})
}
