package main

// C07 — a returned result is never modified afterwards (parse level).
// Every parser of the grammar is wrapped by a probe that renders its result when it is returned; at the
// end of the parse every recorded result is rendered again.  This IS the property on the real code; the
// Lean model is compared on the usual observables (its value-level semantics is what C07 justifies).

import (
	"fmt"
	"math/rand"
	"strings"

	"github.com/opsidian/parsley/data"
)

func c07Exec(c *Sexp) (out Outcome) {
	defer func() {
		if r := recover(); r != nil {
			if be, ok := r.(budgetExceeded); ok {
				out = Outcome{Skip: be.why}
				return
			}
			panic(r)
		}
	}()
	obs := runParseCase(c, parseBudget, nil, nil)
	if obs.skip != "" {
		return Outcome{Skip: obs.skip}
	}
	files, target := caseFiles(c)
	rec := newRecorder(parseBudget)
	rec.trackAll = true
	g := buildGrammar(findArg(c, "env"), findArg(c, "root")[0], rec, true, nil, nil)
	ctx, tf := newCtx(files, target)
	g.root.Parse(ctx, data.EmptyIntMap, tf.Pos(0))
	fail := ""
	lists := 0
	for _, r := range rec.returned {
		now := renderNode(r.node)
		if strings.HasPrefix(r.rendered, "L[") {
			lists++
		}
		if now != r.rendered {
			fail = fmt.Sprintf("a result returned by %s changed after it was returned: it read %s then, and reads %s at the end of the parse", r.where, r.rendered, now)
			break
		}
	}
	// asking again gives the same answer: the whole parse repeated on the same context (cache hits everywhere)
	if fail == "" {
		r2, _, _ := g.root.Parse(ctx, data.EmptyIntMap, tf.Pos(0))
		_ = r2
		for _, r := range rec.returned {
			if now := renderNode(r.node); now != r.rendered {
				fail = fmt.Sprintf("a result returned by %s changed when the parser was asked again: %s became %s", r.where, r.rendered, now)
				break
			}
		}
	}
	if fail == "" {
		fail = reuseOracle(obs)
	}
	tags := parseTags(c, obs)
	return Outcome{Real: "R:" + obs.direct + "|P:" + obs.viaParse, OracleFail: fail, Tags: tags,
		Nontrivial: lists > 0 && rec.memoCalls-rec.bodyTotal > 0}
}

// c07Template: a memoized parser with 3-7 alternatives (spare capacity in its list) consumed by several
// list-extending consumers (Optional, Any) at one position, with or without left recursion
func c07Template(rng *rand.Rand) *Sexp { return c07TemplateLR(rng, true) }

// c07TemplateLR: the same family; with leftRec = false it is left-recursion-free (used by C03: the list handed out
// on a cache hit must be the list the un-memoized grammar computes, whoever extended an earlier copy of it)
func c07TemplateLR(rng *rand.Rand, leftRec bool) *Sexp {
	al := []byte("ab")
	t := func() *Sexp { return runeT(al[rng.Intn(2)]) }
	nAlt := 3 + rng.Intn(5)
	alts := make([]*Sexp, 0, nAlt+1)
	for i := 0; i < nAlt; i++ {
		switch rng.Intn(4) {
		case 0:
			alts = append(alts, LA("empty"))
		default:
			alts = append(alts, t())
		}
	}
	if leftRec && rng.Intn(2) == 0 {
		alts = append(alts, LA("seq", A("of"), noOpts, LA("ref", N(1)), t())) // left recursion through S
	}
	m := LA("memo", N(0), LA("any", alts...))
	ref := func() *Sexp { return LA("ref", N(0)) }
	consumer := func() *Sexp {
		switch rng.Intn(4) {
		case 0:
			return LA("opt", ref())
		case 1:
			return LA("any", ref(), t())
		case 2:
			return LA("any", LA("opt", ref()), LA("any", ref(), t()))
		default:
			return LA("seq", A("of"), noOpts, ref(), LA("opt", t()))
		}
	}
	tbody := LA("any", consumer(), consumer())
	if rng.Intn(3) == 0 {
		tbody = LA("any", consumer(), consumer(), consumer())
	}
	s := LA("seq", A("of"), noOpts, tbody, t())
	if rng.Intn(2) == 0 {
		s = LA("memo", N(1), s)
	}
	g := genGrammar{[]*Sexp{m, s}, LA("ref", N(1))}
	if rng.Intn(2) == 0 {
		g.root = LA("sentence", g.root)
	}
	in := sampleInput(rng, g, al, 6)
	return parseCaseSexp(g, in)
}

// rtrimOverShared: structural signature of known finding D5: a RightTrim whose operand can hand on a
// node that is also held elsewhere (a memoized result)
func rtrimOverShared(c *Sexp) bool {
	env := findArg(c, "env")
	var shared func(t *Sexp, seen map[int]bool) bool
	shared = func(t *Sexp, seen map[int]bool) bool {
		a := t.Args()
		switch t.Head() {
		case "memo":
			return true
		case "ref":
			if seen[a[0].Int()] {
				return false
			}
			seen[a[0].Int()] = true
			return shared(env[a[0].Int()], seen)
		case "any", "choice":
			for _, x := range a {
				if shared(x, seen) {
					return true
				}
			}
		case "opt", "single", "suppress":
			return shared(a[0], seen)
		case "name", "ltrim", "rtrim":
			return shared(a[1], seen)
		case "seq", "many", "sepby":
			// ReturnSingle hands a child on unchanged
			if o := a[1]; o.IsL && len(o.List) > 3 && o.List[3].Atom != "0" {
				for _, x := range a[2:] {
					if x.IsL && shared(x, seen) {
						return true
					}
				}
			}
		}
		return false
	}
	found := false
	var walk func(t *Sexp)
	walk = func(t *Sexp) {
		if t.Head() == "rtrim" && shared(t.List[2], map[int]bool{}) {
			found = true
		}
		for _, x := range t.List {
			if x.IsL {
				walk(x)
			}
		}
	}
	for _, e := range env {
		walk(e)
	}
	walk(findArg(c, "root")[0])
	return found
}

func init() {
	register(&Prop{
		ID: "C07", Cmd: "parse",
		Rule: "random certified grammars with many memoized sub-terms, plus a template family in which a memoized parser with 3-7 alternatives is consumed by several list-extending combinators (Optional, Any) at one position, with and without left recursion; every parser is wrapped by a probe rendering its result at return time, all renderings are recomputed after the parse and after asking the root again on the same context. Non-trivial = a list result was returned and at least one call was answered from the cache or by curtailment.",
		Count: quickN(6000, 60000),
		Gen: func(rng *rand.Rand, tier string, i int) *Sexp {
			if i%2 == 0 {
				return c07Template(rng)
			}
			g := genCertified(rng, genOpts{subMemo: 0.35, sentence: 0.5, maxRules: 3})
			return parseCaseSexp(g, sampleInput(rng, g, alphabetOf(g), 8))
		},
		Exec:   c07Exec,
		Shrink: shrinkParse,
		Known: map[string]func(c *Sexp, o Outcome) bool{
			"rtrim-over-shared-node": func(c *Sexp, o Outcome) bool {
				return rtrimOverShared(c) && strings.Contains(o.OracleFail, "changed")
			},
		},
	})
}
