package main

// C09 — text reader primitives vs a byte-level specification, all positions, several base offsets.

import (
	"bytes"
	"fmt"
	"math/rand"
	"regexp"
	"strings"
	"unicode/utf8"

	"github.com/opsidian/parsley/parsley"
	"github.com/opsidian/parsley/text"
)

var c09Regexps = []string{`a+`, `[ab]*b`, `é|a`, `[^x]`, `(?:ab)+|a`, `\pL+`}

func c09ReadfMenu(id int) func(b []byte) ([]byte, int) {
	switch id {
	case 0:
		return func(b []byte) ([]byte, int) { return b[:1], 1 }
	case 1:
		return func(b []byte) ([]byte, int) { return nil, 0 }
	case 2:
		return func(b []byte) ([]byte, int) { return b, len(b) }
	case 3:
		return func(b []byte) ([]byte, int) {
			if len(b) >= 2 && b[0] == 'a' {
				return b[:2], 2
			}
			return nil, 0
		}
	case 4:
		return func(b []byte) ([]byte, int) { return []byte{}, 0 }
	case 5:
		return func(b []byte) ([]byte, int) { return b[:1], len(b) + 1 }
	case 6:
		return func(b []byte) ([]byte, int) {
			if len(b) >= 2 {
				return b[:2], 1
			}
			return b[:1], 1
		}
	default:
		return func(b []byte) ([]byte, int) { return append(append([]byte{}, b[:1]...), b[:1]...), 3 }
	}
}

func genBytes(rng *rand.Rand, maxLen int) []byte {
	n := rng.Intn(maxLen + 1)
	var b []byte
	for len(b) < n {
		switch rng.Intn(14) {
		case 0:
			b = append(b, ' ')
		case 1:
			b = append(b, '\t')
		case 2:
			b = append(b, '\n')
		case 3:
			b = append(b, '\f')
		case 4:
			b = append(b, '\r', '\n')
		case 5:
			b = append(b, []byte("é")...)
		case 6:
			b = append(b, []byte("€")...)
		case 7:
			b = append(b, []byte("😀")...)
		case 8:
			b = append(b, 0xE2, 0x82) // truncated rune
		case 9:
			if rng.Intn(3) == 0 {
				b = append(b, 0x80) // the first non-ASCII byte value (utf8.RuneSelf)
			} else {
				b = append(b, byte(0x80+rng.Intn(0x80)))
			}
		case 10:
			b = append(b, '_')
		case 12:
			// any byte at all (control characters included: a byte test written with bit tricks goes wrong on values no
			// hand-picked alphabet contains)
			if rng.Intn(2) == 0 {
				b = append(b, byte(rng.Intn(0x20)))
			} else {
				b = append(b, byte(rng.Intn(256)))
			}
		case 11:
			// the edges of the three word-character ranges and their outer neighbours
			b = append(b, "azAZ09`{@[/:"[rng.Intn(12)])
		default:
			b = append(b, byte('a'+rng.Intn(2)))
		}
	}
	return b
}

func c09Gen(rng *rand.Rand, tier string, i int) *Sexp {
	nBefore := rng.Intn(3)
	files := LA("files")
	for k := 0; k < nBefore; k++ {
		files.List = append(files.List, L(HS(fmt.Sprintf("p%d", k)), H(genBytes(rng, 9))))
	}
	content := genBytes(rng, 14)
	// one case in three: a word of the menu planted in the content, followed by ANY byte value (the word-boundary test of
	// MatchWord / MatchString on every possible next byte), and queried at that very position
	plantAt, plantWord := -1, ""
	if rng.Intn(3) == 0 {
		head := genBytes(rng, 6)
		for len(head) > 0 && head[len(head)-1] == '\r' {
			head = head[:len(head)-1]
		}
		plantWord = []string{"a", "ab", "b", "aba", "ba"}[rng.Intn(5)]
		next := byte(rng.Intn(256))
		for next == '\r' {
			next = byte(rng.Intn(256))
		}
		plantAt = len(bytes.ReplaceAll(head, []byte("\r\n"), []byte("\n")))
		content = append(append(append([]byte{}, head...), plantWord...), next)
		content = append(content, genBytes(rng, 4)...)
	}
	files.List = append(files.List, L(HS("t"), H(content)))
	// compute the target's offset and length the way the library will (CRLF normalisation)
	off := 1
	for _, f := range files.List[1 : len(files.List)-1] {
		off += len(bytes.ReplaceAll(f.List[1].Bytes(), []byte("\r\n"), []byte("\n"))) + 1
	}
	norm := bytes.ReplaceAll(content, []byte("\r\n"), []byte("\n"))
	ops := LA("ops")
	runes := []rune{'a', 'b', '\n', ' ', 'é', '€', '😀', utf8.RuneError, '_', 0x80, 0x7f}
	strs := []string{"a", "ab", "b", "aba", "é", "a\n", " ", "_a"}
	words := []string{"a", "ab", "b", "aba", "a_", "ba", "a", "b"}
	modes := []string{"none", "spaces", "nl", "force"}
	if plantAt >= 0 {
		ops.List = append(ops.List, LA("matchWord", N(off+plantAt), HS(plantWord)), LA("matchString", N(off+plantAt), HS(plantWord)))
	}
	for cur := 0; cur <= len(norm); cur++ {
		pos := off + cur
		for k := 0; k < 3; k++ {
			switch rng.Intn(8) {
			case 0:
				ops.List = append(ops.List, LA("readRune", N(pos), N(int(runes[rng.Intn(len(runes))]))))
			case 1:
				ops.List = append(ops.List, LA("matchString", N(pos), HS(strs[rng.Intn(len(strs))])))
			case 2:
				ops.List = append(ops.List, LA("matchWord", N(pos), HS(words[rng.Intn(len(words))])))
			case 3:
				ops.List = append(ops.List, LA("readRegexp", N(pos), N(rng.Intn(len(c09Regexps)))))
			case 4:
				ops.List = append(ops.List, LA("readf", N(pos), N(rng.Intn(8))))
			case 5:
				ops.List = append(ops.List, LA("skipWs", N(pos), A(modes[rng.Intn(4)])))
			case 6:
				ops.List = append(ops.List, LA("remaining", N(pos)))
			case 7:
				ops.List = append(ops.List, LA("isEOF", N(pos)))
			}
		}
	}
	// the regexp engine's answers (a parameter of the model) for the queried rests
	params := LA("params")
	seen := map[string]bool{}
	for _, op := range ops.List[1:] {
		if op.Head() == "readRegexp" {
			cur := op.List[1].Int() - off
			id := op.List[2].Int()
			if cur >= len(norm) {
				continue
			}
			rest := norm[cur:]
			key := fmt.Sprintf("%d/%x", id, rest)
			if seen[key] {
				continue
			}
			seen[key] = true
			re := regexp.MustCompile("^(?:" + c09Regexps[id] + ")")
			if idx := re.FindIndex(rest); idx != nil {
				params.List = append(params.List, LA("re", N(id), H(rest), N(idx[1]), A("-")))
			}
		}
	}
	return L(files, LA("target", N(nBefore)), ops, params)
}

func isWordByteRef(b byte) bool {
	return b == '_' || (b >= '0' && b <= '9') || (b >= 'a' && b <= 'z') || (b >= 'A' && b <= 'Z')
}

func c09Exec(c *Sexp) Outcome {
	files, target := caseFiles(c)
	ctx, tf := newCtx(files, target)
	r := ctx.Reader().(*text.Reader)
	off := int(tf.Pos(0))
	norm := bytes.ReplaceAll(files[target].raw, []byte("\r\n"), []byte("\n"))
	end := off + len(norm)
	var outs []string
	fail := ""
	setFail := func(f string, a ...interface{}) {
		if fail == "" {
			fail = fmt.Sprintf(f, a...)
		}
	}
	tags := map[string]bool{}
	multibyte := false
	for _, op := range findArg(c, "ops") {
		a := op.Args()
		pos := a[0].Int()
		cur := pos - off
		rest := norm[cur:]
		out := func() (out string) {
			defer func() {
				if rec := recover(); rec != nil {
					out = "panic"
				}
			}()
			switch op.Head() {
			case "readRune":
				ch := rune(a[1].Int())
				np, ok := r.ReadRune(parsley.Pos(pos), ch)
				// spec
				wantOK, w := false, 0
				if len(rest) > 0 {
					dr, dw := utf8.DecodeRune(rest)
					if dr == ch {
						wantOK, w = true, dw
					}
					if dw > 1 {
						multibyte = true
					}
				}
				if ok != wantOK || (ok && int(np) != pos+w) || (!ok && int(np) != pos) {
					setFail("ReadRune(%d, %q) = (%d, %v), specification: (%d, %v)", pos, ch, np, ok, pos+w, wantOK)
				}
				return fmt.Sprintf("%d,%v", np, ok)
			case "matchString":
				s := string(a[1].Bytes())
				np, ok := r.MatchString(parsley.Pos(pos), s)
				want := bytes.HasPrefix(rest, []byte(s))
				if ok != want || (ok && int(np) != pos+len(s)) || (!ok && int(np) != pos) {
					setFail("MatchString(%d, %q) = (%d, %v), specification says %v", pos, s, np, ok, want)
				}
				return fmt.Sprintf("%d,%v", np, ok)
			case "matchWord":
				s := string(a[1].Bytes())
				np, ok := r.MatchWord(parsley.Pos(pos), s)
				want := bytes.HasPrefix(rest, []byte(s)) && (len(rest) == len(s) || !isWordByteRef(rest[len(s)]))
				if ok != want || (ok && int(np) != pos+len(s)) || (!ok && int(np) != pos) {
					setFail("MatchWord(%d, %q) = (%d, %v), specification says %v", pos, s, np, ok, want)
				}
				return fmt.Sprintf("%d,%v", np, ok)
			case "readRegexp":
				np, v := r.ReadRegexp(parsley.Pos(pos), c09Regexps[a[1].Int()])
				if v == nil {
					if int(np) != pos {
						setFail("ReadRegexp(%d) did not match but moved to %d", pos, np)
					}
					return fmt.Sprintf("%d,nil", np)
				}
				if int(np) != pos+len(v) || int(np) > end || !bytes.HasPrefix(rest, v) {
					setFail("ReadRegexp(%d) = (%d, %q): not the matched prefix of the rest", pos, np, v)
				}
				return fmt.Sprintf("%d,x%x", np, v)
			case "readf":
				np, v := r.Readf(parsley.Pos(pos), c09ReadfMenu(a[1].Int()))
				if int(np) < pos || int(np) > end {
					setFail("Readf(%d) moved to %d, outside [%d,%d]", pos, np, pos, end)
				}
				if v == nil {
					return fmt.Sprintf("%d,nil", np)
				}
				return fmt.Sprintf("%d,x%x", np, v)
			case "skipWs":
				mode := wsMode(a[1])
				np, err := r.SkipWhitespaces(parsley.Pos(pos), mode)
				k, firstBreak := 0, -1
				for k < len(rest) && strings.IndexByte(" \t\n\f", rest[k]) >= 0 {
					if (rest[k] == '\n' || rest[k] == '\f') && firstBreak < 0 {
						firstBreak = k
					}
					k++
				}
				if int(np) != pos+k {
					setFail("SkipWhitespaces(%d) moved to %d, the run of whitespace ends at %d", pos, np, pos+k)
				}
				wantErr := -1
				switch {
				case mode == text.WsNone && k > 0:
					wantErr = pos
				case mode == text.WsSpacesForceNl && firstBreak < 0:
					wantErr = pos + k
				case mode == text.WsSpaces && firstBreak >= 0:
					wantErr = pos + firstBreak
				}
				if (err == nil) != (wantErr < 0) || (err != nil && int(err.Pos()) != wantErr) {
					setFail("SkipWhitespaces(%d, %s): error %v, specification: error position %d (-1 = none)", pos, a[1].Atom, err, wantErr)
				}
				if k > 0 {
					tags["ws-run"] = true
				}
				return fmt.Sprintf("%d,%s", np, renderErr(err))
			case "remaining":
				n := r.Remaining(parsley.Pos(pos))
				if n != len(rest) {
					setFail("Remaining(%d) = %d, specification %d", pos, n, len(rest))
				}
				return fmt.Sprint(n)
			case "isEOF":
				e := r.IsEOF(parsley.Pos(pos))
				if e != (len(rest) == 0) {
					setFail("IsEOF(%d) = %v", pos, e)
				}
				return fmt.Sprint(e)
			}
			return "bad-op"
		}()
		tags["op:"+op.Head()] = true
		outs = append(outs, out)
	}
	var tl []string
	for t := range tags {
		tl = append(tl, t)
	}
	tl = append(tl, fmt.Sprintf("base-offset:%d", bucket(off)))
	return Outcome{Real: fmt.Sprintf("off=%d;len=%d;", off, len(norm)) + strings.Join(outs, ";"), OracleFail: fail,
		Nontrivial: off > 1 && multibyte, Tags: tl}
}

func init() {
	register(&Prop{
		ID: "C09", Cmd: "c09",
		Rule: "random contents (ASCII, whitespace, CRLF, multi-byte, truncated and invalid UTF-8) placed after 0-2 other files; at EVERY position from the first byte to end of file three random primitives with random arguments from their documented domains (plus contract-breaking Readf functions). Non-trivial = base offset > 1 and a multi-byte rune decoded; distinct = distinct case text.",
		Count: quickN(4000, 300000),
		Gen:   c09Gen,
		Exec:  c09Exec,
		Shrink: func(c *Sexp) []*Sexp {
			var out []*Sexp
			for i, x := range c.List {
				if x.Head() == "ops" {
					for k := 1; k < len(x.List); k++ {
						d := c.Clone()
						d.List[i].List = append(d.List[i].List[:k], d.List[i].List[k+1:]...)
						out = append(out, d)
					}
				}
			}
			return out
		},
	})
}
