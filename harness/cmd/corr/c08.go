package main

// C08 — built-in literal parsers: totality, span, error position, value vs Go's conversions.

import (
	"bytes"
	"fmt"
	"math"
	"math/rand"
	"regexp"
	"strconv"
	"strings"
	"time"
	"unicode/utf8"

	"github.com/opsidian/parsley/data"
	"github.com/opsidian/parsley/parsley"
)

// the literal expressions as they are in text/terminal (factgen re-reads them; theorem c08_facts compares)
const (
	reFloat    = `[-+]?[0-9]*\.[0-9]+(?:[eE][-+]?[0-9]+)?`
	reDuration = `[-+]?(?:[0-9]+(?:\.[0-9]+)?(?:ns|us|µs|μs|ms|s|m|h))+`
)

var c08UserRegexps = []string{`[a-z]+`, `([0-9]+)px`, `é+|x`, `a(b)?c`}

func litSamples(rng *rand.Rand, kind string) string {
	digits := func(n int) string {
		s := ""
		for i := 0; i < n; i++ {
			s += string(rune('0' + rng.Intn(10)))
		}
		return s
	}
	pick := func(xs ...string) string { return xs[rng.Intn(len(xs))] }
	switch kind {
	case "int":
		return pick("0", "7", "-12", "+5", "0x1F", "0X", "0x", "017", "08", "9223372036854775807", "9223372036854775808",
			"-9223372036854775808", "-9223372036854775809", "0xFFFFFFFFFFFFFFFF", "0777777777777777777777", "1.5", "12.", "00", "-", "+0x10",
			digits(1+rng.Intn(20)), "-"+digits(1+rng.Intn(20)), "0x"+digits(1+rng.Intn(17)), "0"+digits(rng.Intn(23)))
	case "float":
		return pick("1.5", ".5", "-0.25", "+3.0e10", "1.e5", "1.5e", "1.5e+", "1.5E-3", "1e5", "1.0e400", "-1.0e400", "0.0", "1..2", "1.2.3",
			"4.9e-324", "1.0e-400", ".e5", digits(rng.Intn(4))+"."+digits(1+rng.Intn(5)), digits(2)+"."+digits(2)+"e"+pick("", "+", "-")+digits(1+rng.Intn(3)))
	case "dur":
		return pick("1s", "1.5h", "10ms", "1h30m", "5µs", "5μs", "5us", "3ns", "-2m", "+2m3", "1.s", "1m5", "9999999h", "100000000000h", "1.5", "h", "1ss", "0s", "1ms2",
			digits(1+rng.Intn(4))+pick("ns", "us", "µs", "μs", "ms", "s", "m", "h")+digits(rng.Intn(3))+pick("", "s", "m", "x"))
	case "string":
		if rng.Intn(3) == 0 {
			// a generated literal: plain segments of several lengths around escapes and non-ASCII characters (the decoder's
			// slow path starts after a plain prefix of any length)
			plain := func(n int) string {
				b := make([]byte, n)
				for k := range b {
					b[k] = "abcxyz 0189_-+.,;:!?()[]{}"[rng.Intn(26)]
				}
				return string(b)
			}
			esc := func() string {
				return pick(`\t`, `\n`, `\\`, `\"`, `\u00e9`, `\x41`, `\101`, "é", "€", "😀", `\U0001F600`, `\a`, `\v`, "\uFFFD", `\ufffd`, "\u0080", "\u07ff")
			}
			lit := `"` + plain(rng.Intn(14))
			for k := rng.Intn(4); k >= 0; k-- {
				lit += esc() + plain(rng.Intn(6))
			}
			return lit + `"`
		}
		return pick(`"abc"`, `""`, `"a\tb"`, `"\u00e9"`, `"é"`, `"\x41\x80"`, `"\101"`, `"\400"`, `"\q"`, `"\/"`, "\"a\xffb\"", "\"a\x80b\"", "\"\uFFFD\"", "\"a\uFFFDb\"", "\"\x80\"", `"unterminated`, "\"a\nb\"", "\"\n\"", `"\"`, `"a\"b"`, "`raw\n`", "``", "`unterminated",
			`"\ud800"`, `"\U0001F600"`, `"\U00110000"`, "\"é\nx\"", "\"\\t\nx\"", `"\'"`, `"'"`, "\"\r\"", `"a\`, "\"\xe2\x82\"", `"😀"`)
	case "char":
		return pick(`'a'`, `'\n'`, `'\''`, `'\\'`, `'\x41'`, `'\xff'`, `'\u00e9'`, `'\ud800'`, `'\U0001F600'`, `'\U00110000'`, `'é'`, `'ab'`, `''`, `'`, `'a`, "'\xff'", "'\n'", `'\q'`, `'"'`, `'\"'`, `'\x4'`, `'😀'`, `'\101'`)
	case "bool":
		return pick("true", "false", "truex", "true_", "true ", "tru", "falsey", "false.", "TRUE")
	case "nilw":
		return pick("null", "nullx", "null ", "nul", "null9", "null-")
	case "word":
		return pick("foo", "foox", "foo bar", "fo", "foo_", "foo.")
	case "op":
		return pick("==", "=", "===", "=>", "")
	case "rune":
		return pick("a", "b", "é", "€", "\xe2\x82", "")
	case "regexp":
		return pick("abc1", "12px", "12p", "éé", "x", "ac", "abc", "ab", "")
	}
	return ""
}

func c08TermFor(rng *rand.Rand, kind string) *Sexp {
	switch kind {
	case "int":
		return LA("int")
	case "float":
		return LA("float")
	case "dur":
		return LA("dur")
	case "string":
		return LA("string", N(rng.Intn(2)))
	case "char":
		return LA("char")
	case "bool":
		return LA("bool", HS("true"), HS("false"))
	case "nilw":
		return LA("nilw", HS("null"))
	case "word":
		return LA("word", HS("foo"), N(7), HS(strconv.Quote("foo")))
	case "op":
		op := []string{"==", "=", "=>"}[rng.Intn(3)]
		return LA("op", HS(op), HS(strconv.Quote(op)))
	case "rune":
		ch := []rune{'a', 'é', '€', utf8.RuneError}[rng.Intn(4)]
		return LA("rune", N(int(ch)), HS(strconv.Quote(string(ch))))
	case "regexp":
		id := rng.Intn(len(c08UserRegexps))
		grp := 0
		if id == 1 || id == 3 {
			grp = rng.Intn(2)
		}
		return LA("regexp", N(id), HS("RE"), HS("regexp value"), N(grp))
	}
	panic(kind)
}

var c08Kinds = []string{"int", "float", "dur", "string", "char", "bool", "nilw", "word", "op", "rune", "regexp"}

func c08Gen(rng *rand.Rand, tier string, i int) *Sexp {
	kind := c08Kinds[i%len(c08Kinds)]
	var content []byte
	prefix := genBytes(rng, 3)
	if rng.Intn(3) == 0 {
		prefix = nil
	}
	lit := litSamples(rng, kind)
	switch rng.Intn(10) {
	case 0: // malformed uniform stream
		content = append(prefix, genBytes(rng, 10)...)
	case 1: // mutate the literal
		b := []byte(lit)
		if len(b) > 0 {
			switch rng.Intn(3) {
			case 0:
				b = b[:rng.Intn(len(b))]
			case 1:
				b[rng.Intn(len(b))] = byte(rng.Intn(256))
			case 2:
				k := rng.Intn(len(b))
				b = append(b[:k], b[k+1:]...)
			}
		}
		content = append(append(prefix, b...), genBytes(rng, 3)...)
	default:
		content = append(append(prefix, lit...), genBytes(rng, 4)...)
	}
	nBefore := rng.Intn(3)
	files := LA("files")
	for k := 0; k < nBefore; k++ {
		files.List = append(files.List, L(HS(fmt.Sprintf("p%d", k)), H(genBytes(rng, 6))))
	}
	files.List = append(files.List, L(HS("t"), H(content)))
	off := 1
	for _, f := range files.List[1 : len(files.List)-1] {
		off += len(bytes.ReplaceAll(f.List[1].Bytes(), []byte("\r\n"), []byte("\n"))) + 1
	}
	norm := bytes.ReplaceAll(content, []byte("\r\n"), []byte("\n"))
	normPrefix := bytes.ReplaceAll(prefix, []byte("\r\n"), []byte("\n"))
	cur := len(normPrefix)
	if rng.Intn(6) == 0 {
		cur = rng.Intn(len(norm) + 1) // any offset including end of file
	}
	if cur > len(norm) {
		cur = len(norm)
	}
	term := c08TermFor(rng, kind)
	c := L(files, LA("target", N(nBefore)), LA("term", term), LA("pos", N(off+cur)))
	c.List = append(c.List, paramsFor(term, norm, []int{cur}))
	return c
}

// paramsFor asks the real strconv / time / regexp functions what the model's parameters answer on
// the lexemes found at the given cursors.
func paramsFor(term *Sexp, norm []byte, curs []int) *Sexp {
	params := LA("params")
	seen := map[string]bool{}
	add := func(key string, e *Sexp) {
		if !seen[key] {
			seen[key] = true
			params.List = append(params.List, e)
		}
	}
	var walk func(t *Sexp)
	walk = func(t *Sexp) {
		switch t.Head() {
		case "float":
			re := regexp.MustCompile("^(?:" + reFloat + ")")
			for _, cur := range curs {
				if cur < len(norm) {
					if idx := re.FindIndex(norm[cur:]); idx != nil {
						lex := norm[cur : cur+idx[1]]
						v, err := strconv.ParseFloat(string(lex), 64)
						if err != nil {
							add("f"+string(lex), LA("float", H(lex), A("err")))
						} else {
							add("f"+string(lex), LA("float", H(lex), A(fmt.Sprintf("%016x", math.Float64bits(v)))))
						}
					}
				}
			}
		case "dur":
			re := regexp.MustCompile("^(?:" + reDuration + ")")
			for _, cur := range curs {
				if cur < len(norm) {
					if idx := re.FindIndex(norm[cur:]); idx != nil {
						lex := norm[cur : cur+idx[1]]
						v, err := time.ParseDuration(string(lex))
						if err != nil {
							add("d"+string(lex), LA("dur", H(lex), A("err"), HS(err.Error())))
						} else {
							add("d"+string(lex), LA("dur", H(lex), A("ok"), A(strconv.FormatInt(int64(v), 10))))
						}
					}
				}
			}
		case "regexp":
			id := t.List[1].Int()
			grp := t.List[4].Int()
			re := regexp.MustCompile("^(?:" + c08UserRegexps[id] + ")")
			for _, cur := range curs {
				if cur < len(norm) {
					rest := norm[cur:]
					if m := re.FindSubmatch(rest); m != nil {
						g := A("-")
						if grp < len(m) {
							g = H(m[grp])
						}
						add(fmt.Sprintf("r%d/%x", id, rest), LA("re", N(id), H(rest), N(len(m[0])), g))
					}
				}
			}
		}
		for _, x := range t.List {
			if x.IsL {
				walk(x)
			}
		}
	}
	walk(term)
	return params
}

var c08Decoy = []byte("\"\\tq\" \"a long plain prefix then \\n an escape\" \"\u00e9\" `raw` 12 -0x1F 017 1.5e3 .5 'x' '\\n' true false nil 1h2m3s foo + abc \"unterminated")

func c08Exec(c *Sexp) Outcome {
	files, target := caseFiles(c)
	ctx, tf := newCtx(files, target)
	term := findArg(c, "term")[0]
	pos := findArg(c, "pos")[0].Int()
	g := buildGrammar(nil, term, newRecorder(0), false, nil, c08UserRegexps)
	// the parser VALUE has been used before, on another reader, for other literals of several lengths (a terminal that
	// keeps a buffer, a compiled pattern or a position of an earlier call in its value shows on the real application)
	func() {
		dctx, dtf := newCtx([]fileSpec{{"decoy", c08Decoy}}, 0)
		for i := 0; i < len(c08Decoy); i++ {
			if i == 0 || c08Decoy[i-1] == ' ' {
				func() {
					defer func() { recover() }()
					g.root.Parse(dctx, data.EmptyIntMap, dtf.Pos(i))
				}()
			}
		}
	}()
	off := int(tf.Pos(0))
	norm := bytes.ReplaceAll(files[target].raw, []byte("\r\n"), []byte("\n"))
	end := off + len(norm)
	kind := term.Head()
	fail := ""
	real := ""
	var node parsley.Node
	var perr parsley.Error
	func() {
		defer func() {
			if r := recover(); r != nil {
				real = fmt.Sprintf("panic=%v", r)
				fail = fmt.Sprintf("%s parser panicked at offset %d of %q: %v", kind, pos-off, norm, r)
			}
		}()
		node, _, perr = g.root.Parse(ctx, data.EmptyIntMap, parsley.Pos(pos))
	}()
	tags := []string{"kind:" + kind}
	if real == "" {
		switch {
		case node != nil && perr != nil:
			fail = "both a node and an error were returned"
			real = "node=" + renderNode(node)
		case node == nil && perr == nil:
			fail = "neither a node nor an error was returned"
			real = "nil"
		case node != nil:
			real = "node=" + renderNode(node)
			tags = append(tags, "outcome:node")
			np, rp := int(node.Pos()), int(node.ReaderPos())
			if np != pos || rp < pos || rp > end {
				fail = fmt.Sprintf("%s node spans %d..%d, parsed at %d, file ends at %d", kind, np, rp, pos, end)
			} else {
				lex := string(norm[np-off : rp-off])
				val := node.(parsley.LiteralNode).Value()
				switch kind {
				case "int":
					if v, err := strconv.ParseInt(lex, 0, 64); err != nil || v != val.(int64) {
						fail = fmt.Sprintf("Integer value %v, strconv.ParseInt(%q, 0, 64) = %v, %v", val, lex, v, err)
					}
				case "float":
					if v, err := strconv.ParseFloat(lex, 64); err != nil || math.Float64bits(v) != math.Float64bits(val.(float64)) {
						fail = fmt.Sprintf("Float value %v, strconv.ParseFloat(%q) = %v, %v", val, lex, v, err)
					}
				case "dur":
					if v, err := time.ParseDuration(lex); err != nil || v != val.(time.Duration) {
						fail = fmt.Sprintf("TimeDuration value %v, time.ParseDuration(%q) = %v, %v", val, lex, v, err)
					}
				case "string":
					// the documented syntax: a double-quoted literal never contains a raw line break (D11)
					if strings.HasPrefix(lex, "\"") && strings.ContainsAny(lex, "\r\n") {
						fail = fmt.Sprintf("String accepted the double-quoted literal %q which contains a raw line break", lex)
					}
					// where Go's own Unquote accepts the literal and no escape denotes a byte >= 0x80, the values must agree
					if u, err := strconv.Unquote(lex); err == nil && !strings.Contains(lex, `\x`) && !regexp.MustCompile(`\\[0-7]`).MatchString(lex) && utf8.ValidString(lex) {
						if u != val.(string) {
							fail = fmt.Sprintf("String value %q, strconv.Unquote(%q) = %q", val, lex, u)
						}
					}
				case "char":
					if u, err := strconv.Unquote(lex); err == nil && !strings.Contains(lex, `\x`) {
						if r, _ := utf8.DecodeRuneInString(u); r != val.(rune) {
							fail = fmt.Sprintf("Char value %q, strconv.Unquote(%q) = %q", val, lex, u)
						}
					}
				case "bool":
					if (lex == "true") != val.(bool) || (lex != "true" && lex != "false") {
						fail = fmt.Sprintf("Bool value %v for lexeme %q", val, lex)
					}
				}
				if fail == "" && (kind == "bool" || kind == "nilw" || kind == "word") && rp < end && isWordByteRef(norm[rp-off]) {
					fail = fmt.Sprintf("%s matched %q but the next byte %q is a word character", kind, lex, norm[rp-off])
				}
			}
		default:
			real = "err=" + renderErr(perr)
			tags = append(tags, "outcome:error")
			if int(perr.Pos()) < pos || int(perr.Pos()) > end {
				fail = fmt.Sprintf("%s error position %d outside [%d,%d]", kind, perr.Pos(), pos, end)
			}
		}
	}
	// the parser is a function of the bytes at the offset: applying it again on the same reader at the same
	// offset must give the same answer (a parser that writes into the reader's buffer fails here), and so
	// must a sweep over every other offset followed by a third application
	if fail == "" && !strings.HasPrefix(real, "panic=") {
		again := func() string {
			defer func() { recover() }()
			n2, _, e2 := g.root.Parse(ctx, data.EmptyIntMap, parsley.Pos(pos))
			switch {
			case n2 != nil:
				return "node=" + renderNode(n2)
			case e2 != nil:
				return "err=" + renderErr(e2)
			}
			return "nil"
		}
		if r2 := again(); r2 != real {
			fail = fmt.Sprintf("%s applied a second time at the same offset %d of %q answered %s, the first time %s", kind, pos-off, norm, r2, real)
		} else {
			func() {
				defer func() { recover() }()
				for p := off; p <= end; p++ {
					g.root.Parse(ctx, data.EmptyIntMap, parsley.Pos(p))
				}
			}()
			if r3 := again(); r3 != real {
				fail = fmt.Sprintf("%s at offset %d of %q answered %s after the parser had been applied at every offset of the file, %s before", kind, pos-off, norm, r3, real)
			}
		}
	}
	return Outcome{Real: real, OracleFail: fail, Nontrivial: pos > 1, Tags: tags}
}

func init() {
	register(&Prop{
		ID: "C08", Cmd: "term",
		Rule: "for each of the 11 literal parsers in turn: literal-shaped strings from its syntax with boundary values (±2^63, 1e400, surrogates, overlong/invalid UTF-8, unterminated and ill-escaped literals), their mutations, and a uniform malformed stream, after a random prefix and 0-2 other files, at the literal's start or at any offset including end of file. Non-trivial = parsed at a global position > 1; distinct = distinct case text.",
		Count: quickN(11000, 600000),
		Gen:   c08Gen,
		Exec:  c08Exec,
	})
}
