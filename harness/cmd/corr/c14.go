package main

// C14 — a parser graph can be shared by concurrent parses.
// Runtime support for the partial proof: one shared grammar, N goroutines each with its own context,
// reader and input (success and failure inputs); every concurrent result must equal the sequential one.
// Parsers are also constructed concurrently (distinct Memoize indexes).  The check runs this stream a
// second time from a binary built with the race detector; a reported race is the replay.

import (
	"bytes"
	"fmt"
	"math/rand"
	"strings"
	"sync"

	"github.com/opsidian/parsley/combinator"
	"github.com/opsidian/parsley/data"
	"github.com/opsidian/parsley/parser"
	"github.com/opsidian/parsley/parsley"
	"github.com/opsidian/parsley/text"
	"github.com/opsidian/parsley/text/terminal"
)

func c14Gen(rng *rand.Rand, tier string, i int) *Sexp {
	var g genGrammar
	if i%4 == 1 {
		// literal workload: one built-in terminal (String with escapes, Char, Integer, Float, Duration, Bool, …)
		// under Trim, repeated: Sentence(Many(Trim(term))) on four different literal lists, so that any state a
		// terminal keeps between calls is shared by the concurrent runs
		kind := c08Kinds[rng.Intn(len(c08Kinds))]
		if rng.Intn(2) == 0 || kind == "regexp" { // (user regexps need the C08 builder's expression table)
			kind = "string"
		}
		term := c08TermFor(rng, kind)
		root := LA("sentence", LA("many", N(1), noOpts, LA("rtrim", A("nl"), LA("ltrim", A("nl"), term))))
		inputs := LA("inputs")
		var all []byte
		for k := 0; k < 4; k++ {
			var sb strings.Builder
			for n := 1 + rng.Intn(4); n > 0; n-- {
				sb.WriteString(litSamples(rng, kind))
				sb.WriteString([]string{" ", "\n", "  "}[rng.Intn(3)])
			}
			inputs.List = append(inputs.List, H([]byte(sb.String())))
			all = append(all, []byte(sb.String())...)
		}
		first := inputs.List[1].Bytes()
		c := L(LA("env"), LA("root", root), LA("files", L(HS("f"), H(first))), LA("target", N(0)))
		norm := bytes.ReplaceAll(first, []byte("\r\n"), []byte("\n"))
		c.List = append(c.List, paramsFor(L(LA("env"), LA("root", root)), norm, allCursors(len(norm))), inputs)
		return c
	}
	if i%3 == 0 {
		env, root := sumGrammar()
		g = genGrammar{env, root}
	} else {
		g = genCertified(rng, genOpts{subMemo: 0.2, sentence: 1, maxRules: 3, nameAlts: rng.Intn(2) == 0})
	}
	inputs := LA("inputs")
	for k := 0; k < 4; k++ {
		var in []byte
		if i%3 == 0 {
			in = []byte(genSumExpr(rng))
		} else {
			in = sampleInput(rng, g, alphabetOf(g), 8)
		}
		inputs.List = append(inputs.List, H(in))
	}
	first := inputs.List[1].Bytes()
	c := parseCaseSexp(g, first)
	c.List = append(c.List, inputs)
	return c
}

func parseOnce(root parsley.Parser, input []byte) string {
	f := text.NewFile("f", input)
	fs := parsley.NewFileSet(f)
	ctx := parsley.NewContext(fs, text.NewReader(f))
	node, err := parsley.Parse(ctx, root)
	msg := "-"
	if err != nil {
		msg = err.Error()
	}
	return fmt.Sprintf("node=%s;msg=%s;calls=%d", renderNode(node), msg, ctx.CallCount())
}

func c14Exec(c *Sexp) (out Outcome) {
	defer func() {
		if r := recover(); r != nil {
			if be, ok := r.(budgetExceeded); ok {
				out = Outcome{Skip: be.why}
				return
			}
			panic(r)
		}
	}()
	obs := runParseCase(c, 3000, nil, nil) // sequential reference run (with probes) and the model comparison
	if obs.skip != "" {
		return Outcome{Skip: obs.skip}
	}
	var inputs [][]byte
	for _, x := range findArg(c, "inputs") {
		inputs = append(inputs, x.Bytes())
		// every input must stay within the work budget when parsed alone (probed run), the concurrent
		// runs below have no probes and therefore no budget
		ci := c.Clone()
		_, tgt := caseFiles(c)
		for _, y := range ci.List {
			if y.Head() == "files" {
				y.List[1+tgt].List[1] = H(x.Bytes()) // the PARSED file (it need not be the first of the set)
			}
		}
		if o := runParseCase(ci, 3000, nil, nil); o.skip != "" {
			return Outcome{Skip: o.skip}
		}
	}
	// the shared grammar: no probes (a probe recorder would itself be shared state)
	g := buildGrammar(findArg(c, "env"), findArg(c, "root")[0], nil, false, nil, nil)
	want := make([]string, len(inputs))
	for k, in := range inputs {
		func() {
			defer func() {
				if r := recover(); r != nil {
					want[k] = fmt.Sprintf("panic: %v", r)
				}
			}()
			want[k] = parseOnce(g.root, in)
		}()
	}
	const goroutines, iterations = 8, 12
	var wg sync.WaitGroup
	fails := make([]string, goroutines)
	for w := 0; w < goroutines; w++ {
		wg.Add(1)
		go func(w int) {
			defer wg.Done()
			defer func() {
				if r := recover(); r != nil && fails[w] == "" {
					fails[w] = fmt.Sprintf("a concurrent parse panicked: %v", r)
				}
			}()
			for it := 0; it < iterations; it++ {
				k := (w + it) % len(inputs)
				if got := parseOnce(g.root, inputs[k]); got != want[k] && fails[w] == "" {
					fails[w] = fmt.Sprintf("input %q: alone %s, concurrently %s", inputs[k], want[k], got)
				}
			}
		}(w)
	}
	wg.Wait()
	fail := ""
	for _, f := range fails {
		if f != "" && fail == "" {
			fail = f
		}
	}
	return Outcome{Real: "R:" + obs.direct + "|P:" + obs.viaParse, OracleFail: fail, Nontrivial: true, Tags: parseTags(c, obs)}
}

// concurrentConstruction: parsers constructed concurrently get pairwise distinct indexes
func concurrentConstruction() string {
	memoMu.Lock()
	defer func() { memoCounter = -1; memoMu.Unlock() }()
	const n = 64
	ps := make([]parser.Func, n)
	var wg sync.WaitGroup
	for i := 0; i < n; i++ {
		wg.Add(1)
		go func(i int) {
			defer wg.Done()
			ps[i] = combinator.Memoize(terminal.Rune('x'))
		}(i)
	}
	wg.Wait()
	seen := map[int]int{}
	for i, p := range ps {
		f := text.NewFile("f", []byte("x"))
		ctx := parsley.NewContext(parsley.NewFileSet(f), text.NewReader(f))
		p.Parse(ctx, data.EmptyIntMap, f.Pos(0))
		for k := range ctx.ResultCache() {
			if j, dup := seen[k]; dup {
				return fmt.Sprintf("parsers %d and %d constructed concurrently share the index %d", j, i, k)
			}
			seen[k] = i
		}
	}
	return ""
}

func init() {
	var once sync.Once
	constructionFail := ""
	register(&Prop{
		ID: "C14", Cmd: "parse",
		Rule: "one shared grammar (random certified Sentence-rooted grammars, or the left-recursive trimmed integer sum) parsed by 8 goroutines x 12 iterations, each with its own file, file set, reader and context, rotating over 4 inputs (matching and failing); every concurrent outcome (tree, message, call count) must equal the sequential one; 64 Memoize constructions run concurrently once per run. The same stream is repeated from a binary built with -race. Non-trivial = every case.",
		Count: quickN(1500, 15000),
		Gen:   c14Gen,
		Exec: func(c *Sexp) Outcome {
			once.Do(func() { constructionFail = concurrentConstruction() })
			o := c14Exec(c)
			if constructionFail != "" && o.OracleFail == "" {
				o.OracleFail = constructionFail
			}
			return o
		},
	})
}
