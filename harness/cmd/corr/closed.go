package main

// C05G / C16G — the closed grammar terms of the Lean theorems are the grammars of the differential streams.
//
// The theorems of C05 and C16 are proved about closed Lean terms (PV.Garith, PV.Gjson in
// lean/ParsleyVerif/Spec/Arith.lean and Spec/Json.lean).  The differential streams C05 and C16 send
// arithGrammar() / jsonGrammar() as S-expressions to the model driver (and C05 builds the REAL parsers from the very
// same S-expressions).  This stream sends those S-expressions to the driver command `gclosed`, which parses them with
// the parser of the `eval` command and answers `same` iff the result is structurally the closed term (compared through
// the canonical printer PV.G.show), else `differ:<first difference>`.  One case per stream; any answer other than
// `same` is a correspondence failure.

import "math/rand"

func closedProp(id, reportAs, which string, grammar func() ([]*Sexp, *Sexp)) *Prop {
	return &Prop{
		ID: id, Cmd: "gclosed", ReportAs: reportAs,
		Rule: "a single case: the grammar S-expressions of stream " + reportAs + " (" + which + ") are sent to the driver command gclosed, which must answer `same`: " +
			"the grammar the model runs (and, for C05, the one the real parsers are built from) is the closed Lean term the theorems of " + reportAs + " are about.",
		Count: func(string) int { return 1 },
		Gen: func(rng *rand.Rand, tier string, i int) *Sexp {
			env, root := grammar()
			return L(LA("which", A(which)), LA("env", env...), LA("root", root))
		},
		Exec: func(c *Sexp) Outcome {
			return Outcome{Real: "same", Nontrivial: true, Tags: []string{"grammar:" + which}}
		},
	}
}

func init() {
	register(closedProp("C05G", "C05", "arith", arithGrammar))
	register(closedProp("C16G", "C16", "json", jsonGrammar))
}
