package main

// C10 — whitespace modes are enforced exactly; permitted whitespace is transparent.
// Token sequences (single-byte tokens), whitespace strings in every gap, all assignments of the four
// modes to left / right trimming of each token.  Oracle: an independent simulation of the property
// statement (run of ' ', '\t', '\n', '\f'; accept iff the run satisfies the mode; error position by mode).

import (
	"fmt"
	"math/rand"
	"strings"
)

var wsModes = []string{"none", "spaces", "nl", "force"}

func genWs(rng *rand.Rand) string {
	n := rng.Intn(4)
	if rng.Intn(3) == 0 {
		n = 0
	}
	var sb strings.Builder
	for i := 0; i < n; i++ {
		switch rng.Intn(7) {
		case 0, 1, 2:
			sb.WriteByte(' ')
		case 3:
			sb.WriteByte('\t')
		case 4:
			sb.WriteByte('\n')
		case 5:
			sb.WriteByte('\f')
		case 6:
			sb.WriteString("\r\n")
		}
	}
	return sb.String()
}

// case layout: (toks (tok <byte> <lmode|-> <rmode|-> <nest>) ...) where nest = lr (LeftTrim outermost) | rl (RightTrim outermost) | trim (text.Trim)
func c10Gen(rng *rand.Rand, tier string, i int) *Sexp {
	k := 1 + rng.Intn(4)
	if i%3 == 0 {
		k = 1
	}
	toks := LA("toks")
	var in strings.Builder
	var els []*Sexp
	in.WriteString(genWs(rng))
	for j := 0; j < k; j++ {
		ch := byte('a' + rng.Intn(3))
		lm, rm := "-", "-"
		if rng.Intn(4) != 0 {
			lm = wsModes[rng.Intn(4)]
		}
		if rng.Intn(4) != 0 {
			rm = wsModes[rng.Intn(4)]
		}
		nest := "lr"
		switch rng.Intn(6) {
		case 0:
			nest = "rl"
		case 1:
			nest, lm, rm = "trim", "nl", "nl"
		}
		var t *Sexp = runeT(ch)
		switch nest {
		case "lr":
			if rm != "-" {
				t = LA("rtrim", A(rm), t)
			}
			if lm != "-" {
				t = LA("ltrim", A(lm), t)
			}
		default:
			if lm != "-" {
				t = LA("ltrim", A(lm), t)
			}
			if rm != "-" {
				t = LA("rtrim", A(rm), t)
			}
		}
		els = append(els, t)
		toks.List = append(toks.List, LA("tok", N(int(ch)), A(lm), A(rm), A(nest)))
		in.WriteByte(ch)
		in.WriteString(genWs(rng))
	}
	seq := LA("seq", append([]*Sexp{A("of"), noOpts}, els...)...)
	root := seq
	if rng.Intn(2) == 0 {
		root = LA("sentence", seq)
	}
	g := genGrammar{nil, root}
	nBefore := 0
	if rng.Intn(4) == 0 {
		nBefore = 1 + rng.Intn(2)
	}
	files := LA("files")
	for b := 0; b < nBefore; b++ {
		files.List = append(files.List, L(HS(fmt.Sprintf("p%d", b)), H(genBytes(rng, 7))))
	}
	files.List = append(files.List, L(HS("f"), HS(in.String())))
	return L(LA("env"), LA("root", g.root), files, LA("target", N(nBefore)), toks)
}

func isWsByte(b byte) bool    { return b == ' ' || b == '\t' || b == '\n' || b == '\f' }
func isBreakByte(b byte) bool { return b == '\n' || b == '\f' }

// wsCheck: the property's rule for one whitespace run starting at cur: (length, errorOffset or -1)
func wsCheck(data []byte, cur int, mode string) (int, int) {
	k, first := 0, -1
	for cur+k < len(data) && isWsByte(data[cur+k]) {
		if isBreakByte(data[cur+k]) && first < 0 {
			first = k
		}
		k++
	}
	switch mode {
	case "none":
		if k > 0 {
			return k, cur
		}
	case "spaces":
		if first >= 0 {
			return k, cur + first
		}
	case "force":
		if first < 0 {
			return k, cur + k
		}
	}
	return k, -1
}

func c10Exec(c *Sexp) Outcome {
	obs := runParseCase(c, parseBudget, nil, nil)
	if obs.skip != "" {
		return Outcome{Skip: obs.skip}
	}
	o := Outcome{Real: "R:" + obs.direct + "|P:" + obs.viaParse}
	files, target := caseFiles(c)
	data := []byte(strings.ReplaceAll(string(files[target].raw), "\r\n", "\n"))
	_, tf := newCtx(files, target)
	off := int(tf.Pos(0))
	toks := findArg(c, "toks")
	sentence := findArg(c, "root")[0].Head() == "sentence"
	// simulate the property statement for every nesting (LeftTrim outermost, RightTrim outermost, text.Trim)
	assertable := true
	cur := 0
	wantErr := -1
	type span struct{ pos, rpos int }
	var spans []span
	sawWs := false
	for _, t := range toks {
		lm, rm, nest := t.List[2].Atom, t.List[3].Atom, t.List[4].Atom
		_ = nest // since fix D10 (RightTrim keeps whitespace errors in place) the RightTrim-outermost nesting is asserted too
		if lm != "-" {
			k, e := wsCheck(data, cur, lm)
			if k > 0 {
				sawWs = true
			}
			if e >= 0 {
				wantErr = e
				break
			}
			cur += k
		}
		if cur >= len(data) || int(data[cur]) != t.List[1].Int() {
			assertable = false // a token mismatch: outside the simulated domain
			break
		}
		start := cur
		cur++
		end := cur
		if rm != "-" {
			k, e := wsCheck(data, cur, rm)
			if k > 0 {
				sawWs = true
			}
			if e >= 0 {
				wantErr = e
				break
			}
			cur += k
			end = cur
		}
		spans = append(spans, span{start, end})
	}
	if assertable {
		switch {
		case wantErr >= 0:
			if obs.err == nil {
				o.OracleFail = fmt.Sprintf("the whitespace at offset %d violates its mode but the parse was accepted: %s", wantErr, obs.direct)
			} else if int(obs.err.Pos()) != off+wantErr || !strings.Contains(obs.direct, ",ws,") {
				o.OracleFail = fmt.Sprintf("expected a whitespace error at position %d, got %s", off+wantErr, renderErr(obs.err))
			}
		case sentence && cur != len(data):
			// trailing input: a (non whitespace) error is expected, nothing more is asserted
		default:
			if obs.err != nil || obs.res == nil {
				o.OracleFail = fmt.Sprintf("every whitespace run satisfies its mode but the parse failed: %s", renderErr(obs.err))
			} else {
				// token nodes keep their own start; only a right-trimmed end moves
				root := resultAlts(obs.res)[0]
				var kids []string
				if nt, ok := root.(interface{ Children() []interface{} }); ok {
					_ = nt
				}
				_ = kids
				got := renderNode(root)
				for _, sp := range spans {
					want := fmt.Sprintf(",%d,%d)", off+sp.pos, off+sp.rpos)
					if !strings.Contains(got, want) {
						o.OracleFail = fmt.Sprintf("a token should span %d..%d (own start, end after the permitted run): %s", off+sp.pos, off+sp.rpos, got)
						break
					}
				}
			}
		}
	}
	if o.OracleFail == "" {
		o.OracleFail = reuseOracle(obs)
	}
	o.Nontrivial = sawWs
	o.Tags = []string{fmt.Sprintf("tokens:%d", len(toks)), fmt.Sprintf("assertable:%v", assertable)}
	if wantErr >= 0 {
		o.Tags = append(o.Tags, "expect:ws-error")
	}
	return o
}

func init() {
	register(&Prop{
		ID: "C10", Cmd: "parse",
		Rule: "sequences of 1-4 single-byte tokens, each with a random left and/or right trimming mode (LeftTrim outermost, RightTrim outermost, or text.Trim), whitespace strings of 0-3 of {space, tab, LF, FF, CRLF} before, between and after the tokens, with or without a Sentence root, sometimes after other files; oracle = independent simulation of the property's accept/reject rule and error positions. Non-trivial = some trimming looked at a non-empty run.",
		Count: quickN(8000, 400000),
		Gen:   c10Gen,
		Exec:  c10Exec,
	})
}
