#!/bin/bash
# seed_run.sh <patch.diff> <property> [tier]   apply a seeded change to /repo, run the check, undo it straight afterwards
set -u
patch=$1; prop=$2; tier=${3:-quick}
cd /verif
git -C /repo diff --quiet || { echo "/repo is dirty"; exit 2; }
git -C /repo apply "$patch" || exit 2
./check "$prop" "$tier" 2>&1 | grep -E '^(VIOLATION|KNOWN|check |corr )' | head -12
rc=${PIPESTATUS[0]}
git -C /repo checkout -- . 
git -C /repo status --short | head -3
exit $rc
