#!/bin/bash
# seed_intake.sh <n> <seed-id> <property> <demo-rel-path> <needs>   verify (fresh worktree), store, drop the seeder's worktree, run the check in isolation
n=$1; id=$2; prop=$3; rel=$4; needs=$5
/verif/tools/seed_verify.sh "$id" /tmp/wt/out-$n "$rel" TestSeeded 2>&1 | tail -2 | tee /tmp/intake.$n
grep -q "^CONFIRMED" /tmp/intake.$n || { echo "not confirmed"; exit 1; }
/verif/tools/seed_store2.sh "$id" /tmp/wt/out-$n "$prop" "$rel" "$needs"
git -C /repo worktree remove --force /tmp/wt/w$n 2>/dev/null; git -C /repo worktree prune
/verif/tools/seed_iso.sh "$id" "$prop" 2>/dev/null | tail -4
