#!/usr/bin/env python3
"""Runs every stored seeded change against the check of its property (in scratch copies: tools/seed_iso.sh) and
writes a Markdown table (stdout) + JSON (argument 1).  Nothing in /repo or /verif is modified."""
import json, os, re, subprocess, sys
V = os.path.dirname(os.path.dirname(os.path.abspath(__file__)))
rows = []
only = [x for x in os.environ.get("SEED_ONLY", "").split(",") if x]   # optional: run a subset
for sid in sorted(os.listdir(os.path.join(V, "seeded"))):
    if only and sid not in only:
        continue
    meta = json.load(open(os.path.join(V, "seeded", sid, "meta.json")))
    prop = meta["breaks_property"]
    p = subprocess.run([os.path.join(V, "tools", "seed_iso.sh"), sid, prop], capture_output=True, text=True)
    out = p.stdout
    dis = sum(int(x) for x in re.findall(r"(\d+) disagreements", out))
    ora = sum(int(x) for x in re.findall(r"(\d+) oracle failures", out))
    m = re.search(r"check \S+ quick: (\d+)/(\d+) theorems discharged, (\d+) violation", out)
    d, t, v = (int(m.group(1)), int(m.group(2)), int(m.group(3))) if m else (0, 0, 0)
    v = max(v, len(re.findall(r'^VIOLATION ', out, flags=re.M)))
    by = []
    if m and d < t:
        by.append("fact/theorem")
    if dis:
        by.append("corr")
    if ora:
        by.append("oracle")
    if "-race.json" in out:
        by.append("race")
    nofail = "no-failing-input-found" in out and not (dis or ora or "-race.json" in out)
    rows.append({"seed": sid, "property": prop, "violations": v, "caught_by": by, "disagreements": dis, "oracle_failures": ora,
                 "no_failing_input": nofail, "needs": meta["needs_to_manifest"], "source": meta.get("source", "")})
    print(sid, v, by, file=sys.stderr, flush=True)
if len(sys.argv) > 1:
    json.dump(rows, open(sys.argv[1], "w"), indent=1)
print("| seeded change | property | caught | by | what it needs to manifest |")
print("|---|---|---|---|---|")
for r in rows:
    caught = "yes (%d)" % r["violations"] if r["violations"] else "**NO**"
    by = ", ".join(r["caught_by"]) + (" — no failing input found" if r["no_failing_input"] else "")
    print("| %s | %s | %s | %s | %s |" % (r["seed"], r["property"], caught, by, r["needs"][:230].replace("|", "/")))
