#!/usr/bin/env python3
"""mutsweep.py <mutant-dir> <result.jsonl> [--stage1-par N] [--stage2-par M] [--only m0001,m0002]
A measuring instrument for the checks (not a registered check).  For every first-order mutant written by
harness/bin/mutgen: stage 1 builds it and runs the repository's own suite in a scratch copy (stillborn /
killed-by-suite / survives-suite); stage 2 runs /verif's quick checks against each suite-survivor in scratch copies
of /repo and of the COMMITTED /verif (the properties most related to the mutated file first) until one reports a
VIOLATION.  Nothing in /repo or /verif is modified; every scratch directory is removed.  Results are appended to the
JSON-lines file (resumable)."""
import concurrent.futures, json, os, re, shutil, subprocess, sys, tempfile, time

V = os.path.dirname(os.path.dirname(os.path.abspath(__file__)))
ENV = dict(os.environ, GOFLAGS="-mod=mod", GOPROXY="off", GOSUMDB="off", GOTOOLCHAIN="local")
ALL = ["C%02d" % i for i in range(1, 18)]
REL = [
    (r"^ast/(helpers|node_list)\.go", ["C07", "C01"]),
    (r"^ast/interpreter/", ["C16", "C13"]),
    (r"^ast/|^parsley/(walk|static_check|transform)\.go", ["C13", "C04"]),
    (r"^combinator/", ["C01", "C02", "C03", "C04", "C06", "C17", "C07"]),
    (r"^data/", ["C15", "C01", "C02"]),
    (r"^parser/", ["C04", "C06", "C01"]),
    (r"^parsley/result_cache\.go", ["C03", "C01", "C17"]),
    (r"^parsley/evaluate\.go", ["C05", "C16", "C04"]),
    (r"^parsley/file_set\.go|^text/(file|position)\.go|^parsley/position\.go", ["C11", "C12", "C06"]),
    (r"^parsley/", ["C04", "C06", "C03", "C14"]),
    (r"^text/reader\.go", ["C09", "C10", "C12", "C08"]),
    (r"^text/trim\.go", ["C10", "C05", "C16"]),
    (r"^text/terminal/", ["C08", "C05", "C16"]),
]


def sh(cmd, cwd=None, timeout=None, env=None):
    try:
        p = subprocess.run(cmd, cwd=cwd, env=env or ENV, stdout=subprocess.PIPE, stderr=subprocess.STDOUT, text=True, timeout=timeout)
        return p.returncode, p.stdout
    except subprocess.TimeoutExpired as e:
        return 124, (e.stdout or b"").decode("utf8", "replace") if isinstance(e.stdout, bytes) else (e.stdout or "")


def scratch_repo(w, patch):
    os.makedirs(w + "/repo")
    subprocess.run("cd /repo && git archive HEAD | tar -x -C %s/repo" % w, shell=True, check=True)
    rc, out = sh(["git", "init", "-q"], cwd=w + "/repo")
    rc, out = sh(["git", "apply", patch], cwd=w + "/repo")
    return rc == 0


def stage1(mdir, mid):
    w = tempfile.mkdtemp(prefix="mut1.", dir="/tmp")
    try:
        if not scratch_repo(w, os.path.join(mdir, mid + ".diff")):
            return "patch-failed"
        rc, out = sh(["go", "build", "./..."], cwd=w + "/repo", timeout=300)
        if rc != 0:
            return "stillborn"
        rc, out = sh(["go", "test", "-vet=off", "-count=1", "-timeout", "120s", "./..."], cwd=w + "/repo", timeout=400)
        return "survives-suite" if rc == 0 else "killed-by-suite"
    finally:
        shutil.rmtree(w, ignore_errors=True)


def stage2(mdir, mid, what):
    rel = what.split(":")[0]
    order = []
    for pat, props in REL:
        if re.search(pat, rel):
            order += [p for p in props if p not in order]
    order += [p for p in ALL if p not in order and p != "C14"] + (["C14"] if "C14" not in order else [])
    w = tempfile.mkdtemp(prefix="mut2.", dir="/tmp")
    tried = []
    try:
        if not scratch_repo(w, os.path.join(mdir, mid + ".diff")):
            return {"verdict": "patch-failed"}
        # (exit code 24 = files vanished while copying: build outputs of a concurrently running lake; harmless)
        rc = subprocess.run(["rsync", "-a", "--exclude", ".git", "--exclude", "replays", "--exclude", "evidence/*.json", V + "/", w + "/verif/"]).returncode
        if rc not in (0, 24):
            return {"verdict": "copy-failed"}
        subprocess.run("cd %s && git archive HEAD | tar -x -C %s/verif" % (V, w), shell=True, check=True)
        others = subprocess.run("cd %s && git ls-files --others --exclude-standard -- harness lean/ParsleyVerif" % V, shell=True, capture_output=True, text=True).stdout.split("\n")
        for f in others:
            if f.endswith(".go") or f.endswith(".lean"):
                try:
                    os.remove(os.path.join(w, "verif", f))
                except OSError:
                    pass
        subprocess.run(["sed", "-i", "s#=> /repo#=> %s/repo#" % w, w + "/verif/harness/go.mod"], check=True)
        env = dict(ENV, VERIF_REPO=w + "/repo")
        # pass 1: correspondence and oracles only (fast: no proof module is rebuilt) - a kill here comes with a failing input;
        # pass 2 (only for what pass 1 lets through): the full checks, where a broken proof obligation kills too
        for skip in ("1", ""):
            env2 = dict(env, VERIF_SKIP_PROOF="1") if skip else env
            for p in order:
                t0 = time.time()
                rc, out = sh(["./check", p, "quick"], cwd=w + "/verif", timeout=1500, env=env2)
                tried.append(p + ("" if not skip else "-corr"))
                vio = re.findall(r"^VIOLATION .*$", out, flags=re.M)
                if vio or rc != 0:
                    with_input = any("no-failing-input-found" not in v for v in vio)
                    return {"verdict": "killed", "by": p, "with_failing_input": with_input, "tried": tried, "rc": rc,
                            "line": (vio[0] if vio else out[-300:]).replace(w, ""), "secs": round(time.time() - t0, 1)}
        return {"verdict": "SURVIVED", "tried": tried}
    finally:
        shutil.rmtree(w, ignore_errors=True)


def main():
    mdir, res = sys.argv[1], sys.argv[2]
    par1 = int(sys.argv[sys.argv.index("--stage1-par") + 1]) if "--stage1-par" in sys.argv else 6
    par2 = int(sys.argv[sys.argv.index("--stage2-par") + 1]) if "--stage2-par" in sys.argv else 2
    only = sys.argv[sys.argv.index("--only") + 1].split(",") if "--only" in sys.argv else None
    done = {}
    if os.path.exists(res):
        for l in open(res):
            r = json.loads(l)
            done[(r["id"], r["stage"])] = r
    ids = sorted(f[:-5] for f in os.listdir(mdir) if f.endswith(".diff"))
    if only:
        ids = [i for i in ids if i in only]
    what = {i: open(os.path.join(mdir, i + ".txt")).read().strip() for i in ids}
    out = open(res, "a")

    def rec(r):
        out.write(json.dumps(r) + "\n")
        out.flush()
        done[(r["id"], r["stage"])] = r

    with concurrent.futures.ThreadPoolExecutor(par1) as ex:
        futs = {ex.submit(stage1, mdir, i): i for i in ids if (i, 1) not in done}
        for f in concurrent.futures.as_completed(futs):
            i = futs[f]
            rec({"id": i, "stage": 1, "what": what[i], "verdict": f.result()})
    surv = [i for i in ids if done[(i, 1)]["verdict"] == "survives-suite"]
    print("stage 1: %d mutants, %d survive the repository's suite" % (len(ids), len(surv)), flush=True)
    with concurrent.futures.ThreadPoolExecutor(par2) as ex:
        futs = {ex.submit(stage2, mdir, i, what[i]): i for i in surv if (i, 2) not in done}
        for f in concurrent.futures.as_completed(futs):
            i = futs[f]
            try:
                r = f.result()
            except Exception as e:  # a scratch-copy problem must not end the sweep
                print(i, "stage 2 raised", e, flush=True)
                continue
            r.update({"id": i, "stage": 2, "what": what[i]})
            rec(r)
            print(i, what[i], "->", r["verdict"], r.get("by", ""), flush=True)
    s2 = [done[(i, 2)] for i in surv]
    print("stage 2: %d killed (%d with a failing input), %d SURVIVED" % (
        sum(1 for r in s2 if r["verdict"] == "killed"), sum(1 for r in s2 if r.get("with_failing_input")),
        sum(1 for r in s2 if r["verdict"] == "SURVIVED")))
    for r in s2:
        if r["verdict"] == "SURVIVED":
            print("SURVIVED", r["id"], r["what"])


if __name__ == "__main__":
    main()
