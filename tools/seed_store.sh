#!/bin/bash
# seed_store.sh <seed-id> <out-dir-name> <property> <demo-rel-path> <needs>
id=$1; n=$2; prop=$3; rel=$4; needs=$5; d=/verif/seeded/$id; mkdir -p $d; cp /tmp/wt/out-$n/patch.diff $d/; cp /tmp/wt/out-$n/*_test.go $d/; cp /tmp/wt/out-$n/notes.md $d/ 2>/dev/null
python3 - "$d" "$prop" "$rel" "$needs" <<'PY'
import json,sys
d,prop,rel,needs=sys.argv[1:5]
json.dump({"breaks_property":prop,"demo_file":rel,"needs_to_manifest":needs,
 "confirmed_by":"tools/seed_verify.sh in a fresh scratch worktree: demo passes on the unchanged tree; with the patch the unedited suite passes and the demo fails",
 "source":"independent sub-agent given only the property text"},open(d+"/meta.json","w"),indent=1)
PY
