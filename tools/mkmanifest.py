#!/usr/bin/env python3
"""Regenerates /verif/MANIFEST.json from the table below (one entry per claimed property).
A property is claimed only when lean/ParsleyVerif/Props/<id>.lean and Audit/<id>.lean exist."""
import json
import os

VERIF = os.path.dirname(os.path.dirname(os.path.abspath(__file__)))

NOTE_COMMON = ("Trusted: Lean 4.33 kernel (axioms propext, Classical.choice, Quot.sound only; audited by #print axioms on every run); "
               "the hand-written model's fidelity is checked on every run by the correspondence harness (sampled inputs) and by "
               "facts regenerated from the source, not proved. ")

CLAIMS = {
    "C01": dict(
        text="Machine-checked proof (Lean 4). SOUNDNESS for EVERY grammar over the whole combinator set (no well-formedness hypothesis; "
             "direct/indirect/hidden left recursion, cyclic and nullable rules, ambiguity), every input, context, fuel and reachable "
             "cache: every returned tree is a derivation in the declarative semantics Spec/Derives (c01_sound; c01_cache_sound: the "
             "cache only ever holds derivations), starts at the call position, has nested contiguous children within the file, and "
             "its leaves spell exactly the consumed input (c01_spans). COMPLETENESS for the monotone fragment {terminals, Empty, "
             "nonterminal references, Memoize, Any, SeqOf, Optional} - the Frost-Hafiz-Callaghan setting: every end position the "
             "grammar derives is returned, and every tree when no derivation nests the same (rule, start, end) twice, as iffs "
             "(c01_complete_ends, c01_complete_trees, c01_ends_exact, c01_trees_exact), proved in two halves: cache reuse with pruned "
             "stored contexts and curtailing sets never loses a curtailed derivation (c01_reuse_complete: for EVERY context that "
             "dominates the stored one on the curtailing set), and curtailed derivations from the empty context cover all end "
             "positions by a cut argument on minimal derivations (c01_curtailed_covers). EXACT SEMANTICS of the non-monotone operators "
             "(Props/C01B.lean): a cache-free, context-free, fuel-free big-step relation Big written from the operators' "
             "documentation (Choice = first non-nil alternative; the Sequence family emits a chain only where it cannot be extended "
             "and lenCheck holds - longest path; result order included) is deterministic (big_functional) and is EXACTLY what every "
             "uncurtailed run computes, from any context and any cache of exact results (c01_bigstep, c01_bigstep_exact; every run "
             "of a Memoize-free grammar: c01_bigstep_memofree), with the documented rules as corollaries (c01_choice_first_match, "
             "c01_many_longest, c01_seqtry_rule, c01_seqfirstorall_rule, c01_sepby_odd). STRATIFIED grammars - the property's own "
             "proviso - (Props/C01S.lean): under the decidable certificate stratOK (a left-recursive monotone upper stratum over a "
             "left-recursion-free lower stratum that may use Choice / Many / SepBy / SeqTry / SeqFirstOrAll / Name / Single / "
             "SuppressError freely) the meaning DerivesS (Derives with the low leaves read by Big) is returned EXACTLY: "
             "c01_sound_strat, c01_complete_strat_ends (every end position), c01_complete_strat_trees (every tree when no "
             "upper (index, start, end) nests in itself), the iffs c01_strat_ends_exact / c01_strat_trees_exact, and the Sentence "
             "forms; ingredients: the lower stratum never curtails and is exact from any upper context and any cache "
             "(c01_strat_low_exact), the joint cache-reuse invariant (c01_strat_reuse_complete), the cut on sized derivations with "
             "low leaves as leaves (c01_strat_curtailed_covers). WITH TRIMS (Props/C01W.lean): the exact trim meaning DerivesW "
             "(LeftTrim skips the maximal run and accepts per mode, RightTrim moves the result's end over the maximal run) is returned "
             "exactly for the monotone fragment plus LeftTrim (any mode) / RightTrim / Trim: c01w_sound, c01w_reuse_complete, "
             "c01w_curtailed_covers (counters carried across skipped whitespace NEVER lose a derivation - this is what the '+1' in "
             "memoize.go's bound pays for; with '+0' the real library rejects ' b' for P -> P b | LeftTrim(P) | eps), "
             "c01w_complete_ends / _trees, c01w_ends_exact / _trees_exact, Sentence forms. Its scope excludes two deviations of "
             "text/trim.go found by these proofs and replayed on the Go library (observations O5/O6 in DESIGN.md, outside every listed "
             "property's quantifier): RightTrim with a REJECTING mode over several alternatives applies the last alternative's "
             "whitespace verdict to all (c01w_F1_loses / _accepts); LeftTrim with a rejecting mode over an Optional accepts the "
             "violating run (c01w_F2_accepts). PARTIAL: a non-monotone operator ABOVE a left-recursive rule "
             "(e.g. Many(E ';')) or a lower stratum that refers back to the upper one has no least-fixpoint meaning in general, and "
             "Name/Single over Optional is known finding D9; there completeness is decided per case by the harness's independent "
             "least-fixpoint derivation table and the model/implementation differential - bounded exploration.",
        note="THE MODEL'S PARSER CORE IS TIED TO THE SOURCE BY TRANSLATION (Props/C01P.lean; also built by the checks of C02 C03 C04 C06 C10 "
             "C17): on every run factgen -out-core translates 48 functions of /repo statement by statement into Lean "
             "(Generated/FactsCore.lean: Context.RegisterCall / SetError / Error, ResultCache.Get / Save, AppendNode, NodeList.Append, "
             "the closures of Optional, Single, SuppressError, ReturnError, Empty, End, Any, Choice, Memoize, LeftTrim, RightTrim, "
             "parsley.Parse, the whole Sequence machinery - sequence.parse / parseNext as a fuelled mutual block, the result handler, "
             "Seq / SeqOf / SeqTry / SeqFirstOrAll / Many / SepBy constructors and the Name / Token / Bind / HandleResult setters) "
             "and c01_translated_core, c01p_sequence_machinery, c01p_sequence_family, c01p_parse, c01p_context_cache_append prove, "
             "combinator by combinator, that IF the sub-parsers' translated calls agree with run cfg fuel THEN the translated body "
             "agrees with run cfg (fuel+1) on the combinator node, under an explicit relation between the model state and the "
             "translated Context (call count, error, cache). 53 semantic edits tried in scratch copies each break a tie theorem, 29 "
             "equivalent rewrites do not. THE CLOSED WORLD (Props/C01Q.lean): gWorld cfg root, a world built by recursion on fuel in "
             "which every parser handle runs the TRANSLATED closure of its combinator over the previous level (terminals and the "
             "reader are the only leaves taken from the model - their ties are C08 / C10P), agrees with run on EVERY closed grammar "
             "at every fuel (c01q_closed_world: all constructors of G; closedness - no ref past the environment - is necessary: "
             "c01q_dangling_ref) and the translated Parse agrees with parse (c01q_parse). Model theorems thereby become theorems "
             "about the mechanically translated program, stated over the translated Parse only: never a Go panic (c01q_no_panic), "
             "node xor error (c01q_xor), termination for certified grammars (c01q_terminates), fuel monotonicity, soundness "
             "(c01q_sound: every returned tree is a derivation); instance: the arithmetic grammar on every input (c01q_arith). "
             "Props/C01R.lean repeats the closed world with the TRANSLATED terminal closures as leaves (c01r_closed_world and the "
             "same corollaries): the only things then taken from the model are the reader's functions (tied separately by C09P / "
             "C10P) and the library parameters (regexp engine, strconv, time). "
             "Derives is the monotone reading (Choice as Any, repetitions may stop wherever lenCheck allows): soundness is claimed against "
             "it. TermGood (terminals return well-positioned leaves) is proved of the built-in terminals by C08 (c08_termGood). A "
             "sequence stops enumerating after an alternative whose last node has token EOF: completeness is stated below the Sentence wrapper.",
        technique="Lean 4 invariant proofs by induction on fuel over the executable parser model (soundness, reuse-completeness with a cache invariant) + cut argument on sized derivations + derivation oracle + differential correspondence + regenerated facts"),
    "C02": dict(
        text="Machine-checked proof (Lean 4) of BOTH halves. TERMINATION: for every grammar accepted by the decidable certificate wf "
             "(nullable table closed under the syntactic may-be-empty analysis; every left reference that does not pass under a "
             "Memoize goes to a rule of strictly smaller rank - i.e. every cycle of the left-call graph passes a Memoize; operands of "
             "Many do not match empty, value and separator of SepBy not both) and every input, position, left-recursion context and "
             "reachable state there is a fuel beyond which the parser core always answers (c02_terminates, c02_terminates_parse, "
             "c02_terminates_auto for the certificate the driver computes): four nested well-founded inductions on remaining input, "
             "curtailment budget, rank and term size, with total loop principles for Any / Choice / the Sequence family and the "
             "semantic soundness of may-be-empty (c02_mayBeEmpty_sound). Direct, indirect and hidden left recursion included; the "
             "un-memoized left-recursive grammar and Many(Optional a) have NO certificate (wf_bad_fails, wf_manyOpt_fails) and the "
             "model returns no answer on them for the fuels tried. RE-ENTRY: whenever the core answers, no memoized parser was active "
             "more than (remaining input + 2) times at one position - attained on P -> P b | a - and every call restores the "
             "activation stack (c02_reentry, c02_balanced); fuel bounds recursion depth only (c02_fuel_mono). The certificate the "
             "theorem speaks about is tied to the generator's: a second stream compares Go's wellFormed verdict and nullable rules "
             "with Lean's wf on certified, stripped and uncertified grammars. Every generated certified grammar is also executed on "
             "the real library under a stack limit, a timeout and activation probes inside every Memoize whose maxima are compared "
             "with the model's ghost counters.",
        note="Props/C02U.lean lifts the earlier limits: the certificate wfT = wf with one change (a Regexp terminal may match empty iff the "
             "table rx says so; every other built-in terminal provably consumes: c02u_termCons for Rune, Op, Word, Bool, Nil, Integer, "
             "Float, String, Char, TimeDuration) covers LeftTrim / RightTrim / Trim (text/trim.go passes the left-recursion context "
             "through unchanged; when whitespace is skipped the position grows, otherwise the call is a left call at the same "
             "position), c02u_terminates / _parse / _auto / _any_engine, and the re-entry bound and stack balance for EVERY grammar "
             "with no certificate at all (c02u_reentry, c02u_balanced). Instances: the JSON example grammar and the arithmetic "
             "grammar terminate on EVERY input (c02u_json_terminates, c02u_arith_terminates). The fuel bound is per call, not a "
             "uniform explicit polynomial. What stack depth is fatal is runtime.",
        technique="Lean 4 well-founded termination proof (lexicographic measure, total loop principles) + invariant proof of the activation bound + certificate-agreement stream + activation probes in the differential run"),
    "C03": dict(
        text="Machine-checked proof (Lean 4) over the parser-core model, whole combinator set (trims included): memoization is "
             "transparent whenever nothing was curtailed - for any grammar in which each Memoize index wraps one parser, the memoized "
             "run and the run of the fully un-memoized grammar return the same ordered results, the same error, no curtailing set, "
             "the same POSITION of the furthest recorded error, and the memoized run makes no more calls (c03_transparent, "
             "c03_transparent_parse, c03_memo_placement_irrelevant: any two placements of Memoize agree; proved by a two-run "
             "simulation with the cache invariant 'every entry is the reference answer and the context error is already at least as "
             "far'); an un-memoized grammar's answer does not depend on context or state (c03_state_independent); a cache hit "
             "returns the stored answer verbatim and registers no call (c03_hit_is_free); with no curtailment and no re-entry the "
             "wrapped parser's body runs at most once per position and every completed run is answered from the cache afterwards "
             "(c03_once, c03_completed_is_cached, c03_no_curtail); repeating a parse reproduces results, errors, call count and log "
             "for any fuel (c03_deterministic) and under any order-preserving renumbering of parser indexes (c03_index_renaming: a "
             "re-built grammar). The semantic hypotheses are DISCHARGED syntactically in Props/C03L.lean: for every grammar accepted by "
             "the decidable left-recursion-freeness certificate lrf (= wf plus: no Memoize operand can reach its own index at its "
             "start position) nothing is ever curtailed and no body re-entered (c03_lrf_no_reentry), hence c03_transparent_lrf, "
             "c03_once_lrf with no hypothesis on the run; the certificate is tied to the generator's by the stream C03L (Go's "
             "wellFormed(all) vs Lean's lrf, both directions). c03_parse_message_not_transparent documents that the TEXT of Parse's message may differ (same position), "
             "which the property does not claim.",
        note="rtrim over a memoized parser is outside the harness's C03 domain (known finding D5: in-place mutation, invisible in the value-level model).",
        technique="Lean 4 two-run simulation proof (induction on fuel with a cache invariant) + unary invariants on the ghost log + differential correspondence (memoized vs stripped vs model, probe counters under each Memoize)"),
    "C04": dict(
        text="Machine-checked (Lean 4): parsley.Parse returns exactly one of node / error for EVERY grammar, input, fuel and initial "
             "state (c04_xor); a Sentence-rooted success starts at the first byte, ends at end of input and wraps a derivation of the "
             "wrapped parser that consumes the whole input (c04_sentence_sound, c04_sentence_only_if: Sentence succeeds ONLY IF such a "
             "derivation exists); Evaluate never panics on a tree whose non-terminals carry applicable interpreters - Select in range, "
             "Object over key/value nodes with string keys, Array, Nil, any custom interpreter that does not panic itself (c04_eval, "
             "c04_eval_root), and does panic without an interpreter (c04_eval_needs_interpreter). The full Sentence IFF is proved end "
             "to end for certified grammars of the monotone fragment (Props/C04I.lean, c04_sentence_iff: termination + soundness + "
             "completeness: beyond some fuel Parse(Sentence(g)) answers, and succeeds exactly when a derivation of g consumes the "
             "whole input - direct, indirect and hidden left recursion included). Props/C04S.lean widens it: c04_sentence_iff_strat "
             "(STRATIFIED grammars - Choice / Many / SepBy / SeqTry / SeqFirstOrAll / Name / Single below a left-recursive monotone "
             "upper stratum - with meaning DerivesS, termination certificate wfT; both directions also for EVERY answering fuel "
             "without a certificate: c04_sentence_iff_strat_answered), c04_sentence_iff_memofree (Memoize-free grammars over ALL "
             "operators incl. trims, meaning = the exact big-step relation Big), c04_sentence_iff_trim_partial (every certified "
             "grammar, trims and left recursion: termination, xor, success ONLY IF a derivation spans the input). The IF half with "
             "trims is false under the loose reading of RightTrim (c04s_trim_iff_false: RightTrim does not move a result that "
             "comes with an error, e.g. over an Optional that did not match - the library's computed parses simply do not include "
             "it; no property quantifies over RightTrim of a non-token); with the EXACT trim meaning DerivesW the full iff holds "
             "(Props/C04W.lean: c04_sentence_sound_w through the Sentence wrapper with the returned trees, c04_sentence_iff_trim, "
             "_answered, _any_engine; instance c04w_arith_iff: the arithmetic grammar on EVERY input, any offset, any engine); "
             "outside these fragments the harness's derivation oracle "
             "decides the IF direction per case (known finding D9: Name/Single over Optional).",
        note="Evaluate / EvaluateNode and the interpreters Select / Array / Object / Nil are translated from /repo on every run and proved to agree with the model (Props/C04P.lean: c04_translated_evaluate; c04_translated_no_panic restates c04_eval about the translated code). "
             "c04_sentence_sound needs Scope (no trims, TermGood terminals); c04_xor needs nothing.",
        technique="Lean 4 theorems over the parse/evaluate model (case analysis of Parse, derivation inversion for Sentence, induction for the evaluator) + oracle on the real Parse/Evaluate under recover + differential correspondence"),
    "C05": dict(
        text="Machine-checked proof (Lean 4) of the FULL value theorem on the model: for the closed term Garith - the arithmetic grammar "
             "exactly as the harness builds it from library combinators (Memoize, Any, SeqOf, Trim, Integer, Rune, Sentence; a "
             "driver command compares the harness's grammar with Garith on every run, and the custom interpreter the driver binds is "
             "proved equal to the one in the theorems) - and EVERY well-formed expression (any nesting, operator mix, parentheses, "
             "signed / hex / octal int64 literals) rendered with ANY whitespace of spaces, tabs, line feeds and form feeds in every "
             "gap, there is a fuel beyond which Parse returns exactly the one tree of the expression and Evaluate returns the "
             "reference evaluator's answer - left-associative, usual precedence, int64 wrap-around, truncated division - or the "
             "division-by-zero error positioned at the offending '/' (c05_value_full, c05_value_text, c05_parse_full, "
             "c05_div_zero_at). Ingredients, each a theorem: the expected derivation exists, also as a CURTAILED derivation from the "
             "empty context (c05_derivation_curtailed: the left-spine counters never exceed the remaining input); cache reuse never "
             "loses it (completeness re-proved for the fragment with Trim); the grammar is UNAMBIGUOUS on every input (c05_unambiguous, "
             "c05_returned_exact: exactly one tree); the parser TERMINATES on every input of this grammar, trims included "
             "(c05_terminates). Also: every derivation is sentence[expression tree, EOF], evaluation of an expression tree is exactly "
             "the reference evaluation of the expression it denotes, never a panic (c05_tree_shape, c05_value, c05_no_panic). "
             "THE CONVERSE (Props/C05A.lean): the parser accepts NOTHING ELSE - a returned node implies the file's data IS the "
             "rendering of a well-formed expression with admissible whitespace and the node is its tree "
             "(c05_accepts_only_expressions), hence c05_accept_iff (accepted <-> rendering), c05_rejects_ill_formed (an error with "
             "Parse's message text) and the bundled DECISION theorem c05_decides: for every input there is a fuel beyond which Parse "
             "answers; it answers a node iff the input is a rendering, then Evaluate gives the reference value, otherwise the error. "
             "The accepted class is exactly WF + Admissible (literals: Integer's language within int64; whitespace: space, tab, LF, "
             "FF; CRLF is normalised by text.NewFile before parsing, a lone CR is rejected - replayed on the Go library). Concrete "
             "ill-formed texts ('1 +', '(1', '1 2', ')', '', '1 + * 2') are rejected as corollaries. The differential run against an "
             "independent recursive-descent reference evaluator on generated expressions and their mutations ties all of this to the code.",
        note="Derives (the monotone reading with rtrimKeep) is deliberately not unique on this grammar (c05_derives_not_unique); uniqueness "
             "is proved for the exact trees the parser returns. The model's evaluate on this grammar is not kernel-reducible "
             "(well-founded cpUnion): the concrete end-to-end examples are proved THROUGH the theorems, the #guard lines are labelled tests.",
        technique="Lean 4 theorems on a closed grammar term (constructed curtailed derivation, reuse-completeness with Trim, unambiguity by a cut relation on trees, termination by descent, evaluation homomorphism) + grammar-identity stream + differential run against a reference evaluator"),
    "C06": dict(
        text="Machine-checked proof (Lean 4) over the parser-core model with its ghost log of failed terminals: PROVENANCE - every "
             "error value that lives anywhere (returned, sequence / alternative accumulators, context error, cached) is a logged "
             "terminal or end-of-input failure at exactly that position with exactly that expectation, or a Name's not-found at a "
             "position where a terminal failed or where the named parser failed without producing any error of its own (c06_provenance, "
             "c06_upper_named); hence for grammars without Names the error Parse reports is never beyond the furthest failing "
             "terminal and its expectation really failed there (c06_upper_unnamed_sentence); Parse reports the further of returned "
             "and context error, ties to the returned one (c06_parse_prefers_further); the text is exactly 'failed to parse the "
             "input: <expectation> at <file>:<line>:<column>' with line/column of that position by C11 (c06_text); EXACTNESS - every "
             "logged terminal failure is at or before the reported position unless a curtailment lies beyond it, so without "
             "curtailment beyond the furthest failure the reported position EQUALS it (run_low, c06_exact_partial). UNDER THE "
             "DECIDABLE CERTIFICATE Prod.productive (Spec/Productive.lean: every nonterminal derives a string, witnessed by ranks, "
             "and every position where an error is kept next to a result - Optional, Many/SepBy allowing empty, a sequence element "
             "reached without consumption - is productive below every memoized parser still active there) BOTH halves hold for named "
             "and unnamed grammars with left recursion and NO curtailment side condition: c06_upper_productive, c06_lower_productive, "
             "c06_exact_productive (reported position = furthest failing terminal, and a terminal failed exactly there), also for the "
             "certificate computed by Prod.productiveAuto (c06_*_auto) - Props/C06P.lean, 3 inductions over all cases of run. The "
             "RENDERING IS TIED BY TRANSLATION (Props/C06Q.lean): FileSet.ErrorWithPosition and the Error() methods of parsley/error.go are translated from /repo on every run and proved equal to errorWithPosition / ErrKind.msg (c06q_translated_functions, c06q_error_values, c06q_notFound_rendered). The "
             "certificate is NECESSARY: plain CFG-productivity is not enough (c06_d12_cfg_productive_not_enough, finding D12 = the "
             "C06 face of D9) and every certificate rejects the D8 and D12 shapes (c06_d8_not_productive, c06_d12_not_productive). "
             "PARTIAL only in that the certificate's hypotheses (C02's wf, single-byte terminals scope) bound the grammars covered; "
             "outside them the probe-based oracle decides per case (furthest failing terminal from wrappers around every terminal "
             "of the real grammar; line:column re-rendered canonically from the offset).",
        note="Known finding D8 (an unproductive named nonterminal reports its own start). SuppressError breaks exactness by design "
             "(c06_exact_needs_no_suppress). A Sequence whose last node has token \"EOF\" (e.g. Word(\"eof\")) stops enumerating: excluded (LocLow).",
        technique="Lean 4 invariant proofs over the parser model with a ghost failure log (provenance and lower-bound inductions on fuel) + probe-based oracle on the real code + differential correspondence"),
    "C07": dict(
        text="Machine-checked proof (Lean 4) on a slice-level state machine (heap of node objects and arrays, slice headers with len/cap, "
             "append that writes in place when len < cap and reallocates otherwise under ANY growth policy) onto which AppendNode, "
             "NodeList.Append, the sequence buffer and the copying result handler, Optional's append, Memoize's store (with the "
             "capacity clip of fix D1) and hit, and SetReaderPos are transcribed: for every operation history without in-place "
             "SetReaderPos on shared handles, every handle ever returned renders at the end exactly as when it was returned "
             "(c07_frame, c07_returned), a memoized result asked again is the same handle with the same rendering (c07_memo_stable); "
             "PARTIAL around known finding D5: with trimming restricted to unshared handles all other handles are unaffected "
             "(c07_trim_partial, c07_trim_local), and c07_trim_shared_mutates exhibits the D5 mutation; c07_pinned_corrupts shows the "
             "pre-fix machine (no clip) does corrupt a held list, so the theorems are not artefacts of a model without aliasing. "
             "Tied to the code by two streams: random operation histories on the REAL ast package / Memoize / Any / Optional / SeqOf "
             "with every pool value re-rendered after every operation and compared with the machine, and parse-level probes that "
             "render every parser's result at return time and again at the end of the parse.",
        note="TIED BY TRANSLATION at heap level (Props/C07P.lean): ast.SetReaderPos, NodeList.SetReaderPos and the SetReaderPos methods of the node types are translated from /repo on every run (node cells and slice headers on a heap) and the slice machine is proved to agree with them, in place, including the frame (c07_translated_setReaderPos, _op, _frame - the D5 witness history runs on the translated code); ast.AppendNode and (*NodeList).Append are translated at heap level too (append in place when len < cap, else a fresh array) and tied to the machine's appendNode / optionalAppend / nlAppend operations on every reachable state, frame included (c07_translated_append, _frame); the two facts the property is about are proved about the TRANSLATED code: a clipped header (len = cap) never writes into an existing array (c07p_clipped_append_fresh, for every store, argument and fuel) and an unclipped shared header is overwritten by a second append (c07p_unclipped_append_corrupts, the D1 witness); the sequence buffer and result handler are pinned by their slice-operation skeletons, Memoize / Any / Optional by structural facts and by the value-level tie C01P. "
             "Known finding D5 (RightTrim mutates shared nodes in place) is reported as KNOWN-FINDING, identified by its structural "
             "signature. The linear-use discipline of un-cached lists is enforced by the machine and is how the combinators use them.",
        technique="Lean 4 frame/invariant proof over operation histories on a slice heap (every growth policy) + two differential streams (operation histories on the real ast/combinator code; parse-level render-at-return probes)"),
    "C08": dict(
        text="Machine-checked proof (Lean 4) for every built-in literal parser (rune, op, word, bool, nil, integer, float, duration, char, "
             "string with both quote kinds, regexp), every byte sequence, every base offset and every position in the file: the model "
             "of the terminal equals a specification written over the rest of the input (c08_spec); it never panics on construction "
             "parameters in the documented domain, and the only panic outside it is regexp's documented invalid capturing group "
             "(c08_total, c08_panic_only_missing_group); a node starts at the offset and ends within the file, an error is positioned "
             "between the offset and end of input (c08_node_span, c08_err_pos); the five hand-written matchers equal BOTH the longest "
             "prefix in the independently written literal syntaxes (c08_lang_*) AND the leftmost-first semantics of a generic regex AST "
             "whose printed form is the regenerated source expression (c08_regex_*, c08_regex_source); integer value = the "
             "mathematical value of the literal iff it fits int64, otherwise an error and no panic (c08_parseInt0_spec, "
             "c08_integer_value, c08_integer_out_of_range); string/char escapes denote code points re-encoded as UTF-8, a string body "
             "never contains a raw line break (c08_unquoteString_value, c08_escape_x80_two_bytes, c08_string_no_raw_linebreak - the "
             "proof attempt exposed defect D11, fixed in /repo); float/duration for EVERY conversion function. Tied to "
             "text/terminal/*.go by a differential run over literal-shaped, boundary and malformed byte strings x offsets, with the Go "
             "conversions (strconv, time, utf8, regexp) called directly on the lexeme the model reports.",
        note="THE TERMINAL CLOSURES THEMSELVES ARE TIED BY TRANSLATION (Props/C08Q.lean): the function literals and constructor prologues of Rune, Op, Word, Bool, Nil, Integer, Float, Char, String, TimeDuration, Regexp are translated from /repo on every run (factgen -out-term -> Generated/FactsTerm.lean) and proved to agree with Terminal.parse at every position - node kind, token, value, span, error kind / message / position, and the documented panics (c08_translated_terminals, c08q_constructors, c08q_documented_panics); totality and the node span are restated about the translated code (c08q_total, c08q_node_span). The regexp texts in the world contract are the printed syntax trees of Spec/Regex.lean, so a changed expression breaks the tie. 46 semantic edits each break a tie, 14 equivalent rewrites do not. THE TYPED LEAF NODE TYPES ARE TRANSLATED TOO (Props/C08R.lean): struct, constructor and Token / Schema / Value / Pos / ReaderPos / SetReaderPos of the eight node types of text/terminal and of ast.TerminalNode (63 functions, factgen prognode.go -> namespace FactsTerm.Src); the prelude constructors the closures call and the fields of the model's Node.term are proved to be what the translated accessors answer on the translated constructor, for all arguments (c08r_*_accessors, c08r_*_setReaderPos, c08r_prelude_constructors, c08r_*_model). "
             "TIED BY TRANSLATION (Props/C08P.lean): unquoteString (both loops; strconv.UnquoteChar a parameter with an explicit contract) is translated from /repo on every run and proved equal to the model (c08_translated_unquoteString), Readf over it agrees with the model, the consumed bytes never contain CR or LF (c08p_no_raw_linebreak). The terminal closures themselves are tied by the differential run. "
             "strconv.ParseFloat, time.ParseDuration and the regexp engine for user expressions are universally quantified parameters "
             "(contract: match length within the rest); strconv.ParseInt / UnquoteChar / utf8 are re-implemented and compared with "
             "the real functions on every sampled input.",
        technique="Lean 4 theorems (specification equality per terminal, regex AST semantics, language characterisations, value theorems) + differential correspondence + regenerated regexps and function bodies"),
    "C09": dict(
        text="Machine-checked proof (Lean 4) that every reader primitive of the model (own cursor computation, own guards, every index "
             "through get?) equals a byte-level specification over the rest of the file, stays within the file and never indexes "
             "outside it, for every content, base offset and position (c09_* theorems; regexp engine and custom function are "
             "universally quantified parameters); tied to text/reader.go by a differential run over all primitives x contents x "
             "offsets x positions and by regenerated guard/cursor expressions.",
        note="TIED BY TRANSLATION (Props/C09P.lean): Reader.ReadRune / MatchString / MatchWord / ReadRegexp / Readf and isWordCharacter are translated from /repo on every run (FactsProg.lean) and proved equal to the model for every position in the file (the regexp engine and the Readf callback are parameters with explicit contracts); c09p_bounds / c09p_inbounds restate the bounds about the translated code (never a panic for a position in the file, result in [pos, end], nothing that existed is written); 39 semantic edits of these functions each break a tie, 23 equivalent rewrites do not. "
             "The regexp engine is a parameter with the contract 'match length within the rest'; utf8.DecodeRune is re-implemented "
             "and compared with the real function on every sampled input.",
        technique="Lean 4 theorems (specification equality per primitive, bounds, in-bounds) + differential correspondence + regenerated facts"),
    "C10": dict(
        text="Machine-checked proof (Lean 4) over the model of LeftTrim/RightTrim/Trim inside the parser core, for every file, position, "
             "token and mode: a left/right trim skips exactly the run of whitespace bytes and accepts iff the run satisfies the mode "
             "(independent predicate wsOk), the token keeps its own start and value and only a right-trimmed node's end moves past the "
             "run (c10_ltrim_accept, c10_rtrim_accept, c10_deco_accept for all five nestings); otherwise the result is nil with that "
             "mode's error at the start of the run / first line break / end of the run (c10_ltrim_reject, c10_rtrim_reject, "
             "c10_deco_reject_left/right); Parse reports a whitespace error even when the context's furthest error is further "
             "(c10_parse_reports_ws); and the transparency theorem for token sequences of ANY length with any admissible whitespace in "
             "every gap (c10_transparent, c10_transparent_shape: same tokens, values and own positions whatever the whitespace). The "
             "proof attempt for the RightTrim-outermost nesting exposed defect D10 (fixed in /repo). Tied to text/trim.go and "
             "text/reader.go by a differential run over token sequences x whitespace strings x mode assignments x nestings, by "
             "regenerated whitespace byte sets and condition lists, AND BY TRANSLATION (Props/C10P.lean): Reader.SkipWhitespaces, "
             "IsEOF, Remaining, Pos and File.setLines / Pos / Position are translated from /repo's current source into Lean on "
             "every run and proved equal to the model's skipWhitespaces / isEOF / remaining / lines / position for all inputs "
             "(c10_translated_functions, c10_translated_file), so that c10p_skipWhitespaces states the run-length and the verdict "
             "of every mode about the translated code itself.",
        note="Tokens are abstract terminals (hypotheses on Terminal.parse); c10_transparent is stated for single-byte rune tokens. "
             "LeftTrim over RightTrim over an EMPTY token (a regexp matching the empty string) with both modes rejecting reports the "
             "right mode's error (documented as an example; no built-in token is empty).",
        technique="Lean 4 theorems over the run model (unfolding trims on token-like parsers, induction on the token list) + differential correspondence + regenerated facts"),
    "C11": dict(
        text="Machine-checked proof (Lean 4) for every file set built by AddFile from NewFileSet (any number of files, empty files, any "
             "bytes): Position(global position) of every offset 0..len of every file is that file's name and the line/column an "
             "independent newline-counting specification gives on the CRLF-normalised content (c11_roundtrip), distinct (file, offset) "
             "pairs get distinct positions (c11_inj), files never overlap (c11_disjoint), exactly position 0 and positions >= the next "
             "free position are unknown (c11_unknown, an iff), the lookup never indexes out of range (c11_nopanic), CRLF normalisation "
             "characterised (c11_crlf); the binary searches are Go's sort.Search loop. Tied to parsley/file_set.go and text/file.go by a "
             "differential run over random file sets x every global position and by regenerated constants/expressions.",
        note="text.NewFile (CRLF normalisation, default offset) is translated and tied too (c11p_newFile, c11p_replace_is_normCRLF). "
             "TIED BY TRANSLATION (Props/C11P.lean): NewFileSet / AddFile / FileSet.Position (parsley.File dispatched to the translated text.File methods) and Position.String are translated from /repo on every run and proved equal to the model (c11_translated_functions); the round trip is restated about the translated code (c11p_roundtrip, c11p_unknown). FileSet.ErrorWithPosition, nilPosition.String and the error values of parsley/error.go (NotFoundError.Error, whitespaceError.Error, err.Error / Pos / Cause) are translated as well and proved equal to the model's errorWithPosition / ErrKind.msg (Props/C06Q.lean: c06q_translated_functions, c06q_errorWithPosition, c06q_error_values; trusted: fmt.Errorf(f, a...).Error() = fmt.Sprintf(f, a...), an Error value observed only through Pos() and Error()). "
             "sort.Search and bytes.Replace are re-implemented from their documentation; the lazily built line table is modelled as computed eagerly.",
        technique="Lean 4 theorems (induction over AddFile, binary-search lemma, line table) + differential correspondence + regenerated facts"),
    "C12": dict(
        text="Machine-checked proof (Lean 4) that parsing commutes with moving the file: every reader primitive (c12_prims) and every "
             "built-in terminal (c12_terminal) on the file shifted by b at position pos+b returns the shifted answer; the WHOLE parser "
             "core does — for every grammar over all 16 combinators (memoization, curtailment, trims included), any environment, "
             "context and state, the run on the shifted file from the shifted state is the shift of the run, with the same fuel, call "
             "count and curtailing sets (c12_run, c12_run_calls); Parse returns the shifted tree and the byte-identical message when "
             "the file set renders the same line:column (c12_parse, c12_parse_msg), which is proved for every file set built by "
             "AddFile (c12_fileSet, c12_parse_placed: the file alone versus preceded by arbitrary files). The base offset must be >= 1 "
             "because of SkipWhitespaces' nlPos==0 sentinel — shown necessary by c12_sentinel / c12_run_sentinel and guaranteed by the "
             "regenerated fact fileSetFirstPos = 1. Tied to the code by a differential run of the workload grammars on the same "
             "content alone and preceded by random files (trees, values, messages, call counts compared pairwise and with the model).",
        note="text.File.SetOffset is exported: a direct SetOffset(0) would reach the sentinel collision; NewFileSet/AddFile/NewFile never do.",
        technique="Lean 4 simulation proof (induction on fuel, shift commutes with every primitive, terminal and combinator) + differential correspondence + regenerated facts"),
    "C13": dict(
        text="Machine-checked proof (Lean 4), for every tree (any arity/depth, leaves, alternative lists, interpreters with or without "
             "checker/transformer capability, any callback / checker / transformer behaviour including failures at any node): Walk's "
             "callback trace is the post-order enumeration cut right after the first 'true' and every node is visited exactly once "
             "otherwise (c13_walk, c13_walk_every_node, c13_walk_stops); StaticCheck equals an independent bottom-up specification, "
             "returns the first error in post-order with exactly the earlier nodes annotated, and records each checker's answer on its "
             "node (c13_check_order, c13_check_first_error, c13_check_records); Transform equals its specification (c13_transform); "
             "evaluation hands each interpreter exactly its node and Select/Array/Object index as documented (c13_eval_*). Tied to "
             "parsley/walk.go, static_check.go, transform.go, evaluate.go and the ast package by a differential run on random trees built "
             "with the real constructors.",
        note="TIED BY TRANSLATION (Props/C13P.lean): parsley.Walk / StaticCheck / Transform, the NonTerminalNode / NodeList / EmptyNode / TerminalNode methods they call and interpreter.Select are translated from /repo on every run (factgen -out-tree -> Generated/FactsTree.lean; *NonTerminalNode cells on a heap, type assertions as capability tests computed from method sets, user checkers / transformers a world parameter) and proved to agree with the model on every tree-shaped heap without sharing (c13_translated_walk - the exact post-order visit sequence with early stop -, c13_translated_visits - every node once -, c13_translated_check, c13_translated_transform); 31 semantic edits each break a tie, 17 equivalent rewrites do not. "
             "Checker, transformer and custom interpreter behaviour are universally quantified functions; Go interface dispatch "
             "(Walkable/StaticCheckable/Transformable) is transcribed by hand.",
        technique="Lean 4 theorems by mutual structural induction over trees against independent specifications + differential correspondence"),
    "C14": dict(
        text="PARTIAL by nature. Machine-checked (Lean 4): in an interleaving model where each run steps only its own local state over "
             "a read-only graph, every schedule (fair or not) leaves each run with exactly its solo result (c14_noninterference, "
             "c14_noninterference_complete); the general frame-rule form over a shared heap with disjoint write footprints "
             "(c14_footprint, with c14_footprint_needed showing the hypothesis is necessary); atomic fetch-add gives pairwise distinct "
             "parser indexes under any interleaving while a load/store pair does not (c14_indices_distinct, c14_nonatomic_duplicates). "
             "The premises are tied to the source on every run by c14_facts (decide, on facts regenerated with go/types): the only "
             "package-variable access is the atomic counter in Memoize at construction time, no parse-time write goes through a "
             "variable captured from constructor scope, every parse-time write's root is a per-run object (context, reader, file, "
             "per-call sequence, result nodes, cache). NOT proved: the Go memory model, real goroutine schedules, that the static "
             "facts entail the footprint hypothesis for the real program. Runtime support: the C14 stream (N goroutines x shared "
             "grammar x success/failure inputs x concurrent construction, results compared with the sequential run and the model) is "
             "also run from a -race build; a race report is a violation with the report as replay.",
        note="The race detector and the scheduler are runtime; the fact extractor (go/types, call graph over-approximation, no alias "
             "analysis, blind to the standard library) is trusted.",
        technique="Lean 4 non-interference theorems over an interleaving model + decide on regenerated write/capture facts + race-detector workload"),
    "C16": dict(
        text="Machine-checked proof (Lean 4) of the FULL value theorem on the model: for the closed term Gjson - the transcription of "
             "examples/json/json/parser.go (the REAL json.NewParser() runs on the Go side; a driver command compares the harness's "
             "transcription with Gjson on every run) - and EVERY document of the supported subset (abstract values JV: null, "
             "booleans, int64 integers in canonical decimal, decimals with fraction and optional exponent, strings of plain bytes / "
             "the standard escapes / \\uXXXX / raw UTF-8, arrays, objects with any keys incl. duplicates and empty) rendered with "
             "ANY admissible whitespace layout (spaces, tabs, LF before values/keys/closers; spaces, tabs before ',' and ':'), at any "
             "base offset >= 1, there is a fuel beyond which Parse returns exactly sentence[tree of the document] and Evaluate "
             "returns denote(v): arrays in order, objects as maps where the LAST duplicate key wins (c16_parse_full, c16_value_full, "
             "c16_find_value from every context and state; proved by forward symbolic execution of the parser core, so termination "
             "on these inputs is part of the statement). Also: every derivation is sentence[JSON tree, EOF], evaluation of a JSON tree "
             "never errors and never panics, and whenever Evaluate answers a value it is the denotation of the parsed tree, otherwise "
             "an error (c16_tree_shape, c16_eval_total, c16_value_partial, c16_reject_partial, c16_no_panic). THE CONVERSE "
             "(Props/C16A.lean): the EXACT language the example parser accepts is the explicit document language JLang "
             "(c16_accept_iff: accepted <-> JLang; c16_accepts_only_renderings with the tree and its value; c16_rejects_outside / "
             "c16_evaluate_rejects: everything else yields an error), JLang contains every supported document (c16_supported_in_lang) "
             "and is STRICTLY larger (c16_more_liberal): form feed as whitespace, integers with '+', hex and octal (017 = 15), "
             "decimals like .5 and 007.5, string escapes \\a \\v \\xHH \\UHHHHHHHH \\ooo and raw control characters other than CR/LF - "
             "while 1e5, \\/ and lone surrogates (which encoding/json accepts) are rejected; each form replayed on the real parser "
             "and on encoding/json. The property speaks of the supported subset, on which both agree. With C02's termination of "
             "this grammar on EVERY input the DECISION theorem follows (Props/C16D.lean, c16_decides): beyond some fuel Parse "
             "answers - a node iff the input is in JLang, then the tree of that document with its value, else an error with "
             "Parse's message. OUTSIDE Lean: that denote "
             "agrees with encoding/json (external library) - checked on every generated document by the differential run with "
             "UseNumber.",
        note="THE GRAMMAR IS TIED BY TRANSLATION (Props/C16J.lean): examples/json/json.NewParser, combinator.Sentence and text.Trim are read from /repo on every run as terms of the model's grammar type (factgen -out-json -> Generated/FactsJson.lean) and proved EQUAL to Gjson.env / G.sentence / the root's trims by rfl (c16j_source_grammar, c16j_sentence_trim); c16_decides is restated for the extracted grammar (c16j_decides_source). "
             "strconv.ParseFloat's acceptance of the decimal lexemes is a hypothesis (a model parameter). -0 is not in the subset. "
             "c16_json_tree_not_evalSafe: key/value nodes carry no interpreter, so no-panic is proved directly, not via C04's EvalSafe.",
        technique="Lean 4 theorems on a closed grammar term (forward symbolic execution of the parser model by induction on the document, derivation inversion, evaluation = denotation) + grammar extracted from the source and proved equal to the closed term (rfl) + grammar-identity stream + differential run against encoding/json"),
    "C15": dict(
        text="Machine-checked proof (Lean 4) that the slice-heap/map-heap model of IntSet/IntMap refines the plain set/map "
             "specification for every history and every append growth policy (c15_refine, c15_sorted, c15_grow_irrelevant), tied to "
             "the code by a differential run of random and exhaustive-small histories on the real data package with every pool value "
             "re-read after every operation, by regenerated source text facts, AND BY TRANSLATION: on every run the whole data "
             "package (IntSet Len / insertValue / Insert / Union / Each, NewIntSet, NewIntMap, IntMap clone / Get / Inc / Filter) "
             "is translated statement by statement from /repo's current source into Lean (factgen -out-prog -> "
             "Generated/FactsProg.lean: loops as fuelled recursive functions, slices and maps on an explicit heap, out-of-range "
             "index = panic, never a default) and Props/C15P.lean proves the hand-written model EQUAL to the translated functions "
             "for all inputs (c15_translated_functions; Insert / insertValue under sortedness, the others unconditionally), with "
             "the set/map laws restated about the translated code itself: Insert never mutates its receiver (c15p_insert: Frame), "
             "Union reads as the merge, commutative and idempotent on sorted operands (c15p_union, c15p_union_comm_idem), Inc / "
             "Filter leave the receiver unchanged (c15p_inc, c15p_filter). 11 semantic edits of the package tried in scratch copies "
             "(< to <=, a dropped n2++, the aliasing defect D7, Inc from 0, ...) each break a tie theorem; equivalent rewrites of "
             "conditions, renamings, reordered branches do not.",
        note="sort.SearchInts (least index with an element >= x), append (in place when capacity allows, growth policy a parameter), copy "
             "(memmove), make, and Go maps (ranged in ascending key order) are given their meaning by the hand-written prelude "
             "Generated/ProgPrelude.lean - trusted; so is the translator (harness/cmd/factgen/progfacts.go). A capacity-only change "
             "(make(..., len+2)) breaks the exact heap equality although it is observationally harmless.",
        technique="Lean 4 refinement proof (invariant over operation histories on a slice heap) + differential correspondence + regenerated facts"),
    "C17": dict(
        text="For the property's quantifier - the six named families, one grammar each, at EVERY input length (not only up to several "
             "hundred bytes) - proved: exact closed forms and calls(2n) <= 16 calls(n) (in fact <= 4 resp. 2) for all n; the statement "
             "for ALL unambiguous grammars is open (it needs a bound on result-list sizes). Machine-checked (Lean 4): the call "
             "count is a function of grammar, environment and input - identical for any two fuels that answer, independent of the "
             "ghost flag and of the file's base offset (c17_det, c17_det_run, c17_det_ghost, c17_det_offset); an exact ACCOUNTING of "
             "calls for every grammar: a cache hit, a curtailment, a terminal cost 0, Any/Choice cost one per alternative tried plus "
             "the alternatives, the Sequence family one per element invocation, a Memoize miss exactly its body (c17_accounting, "
             "c17_any, c17_choice, c17_seqfam); EXACT CLOSED FORMS proved for every input length: P -> P b | a makes (n^2+9n+16)/2 "
             "calls on a b^(n-1) (c17_closed_PbA / c17_closed_PbA_all - 298 at n = 20, the suite's pinned value - by induction over "
             "the left spine with an explicit description of the cache after each level), nested brackets 5k+5, separated lists 2k+4 "
             "(c17_closed_brackets, c17_closed_seplist), hence doubling the input multiplies the count by at most 4 resp. 2 "
             "(c17_double_*). Props/C17B.lean adds, again for EVERY length: hidden left recursion (n^2+11n+20)/2 (c17_closed_hidden), "
             "the mutual pair 3k^2+18k+22 (c17_closed_mutual), P -> P b | P c | a exactly n^2+8n+12 (+ n/2-1 for even n) "
             "(c17_closed_PbPcA), the left-recursive ARITHMETIC grammar E/T/F over every operator string in {*,+}: exact count arCalls "
             "ops, <= 5(n+2)^2 and >= (36k^2+85k+51)/8 (c17_closed_arith, c17_quadratic_arith, c17_arith_lower; c17_arith_pinned gives "
             "146, 336, ... 41932 at the suite's lengths), the four-operator variant within a window of width k (c17_closed_arith2), "
             "and calls(2n) <= 16 calls(n) for ALL n in every family (c17_double_*). Still open: one bound for all unambiguous "
             "grammars (needs a bound on result-list sizes). For all eight families the compiled model and the real library are run "
             "at doubling lengths up to 128/256 bytes, counts must agree exactly, be equal on a re-built grammar and satisfy "
             "calls(2n) <= 16 calls(n) - bounded exploration that ties the closed forms to the code.",
        note="Wall-clock time and allocations are outside the model; the property speaks of call counts only.",
        technique="Lean 4 theorems (determinism, call accounting, closed forms by induction on the input length) + exact call-count agreement in the differential run at doubling lengths"),
}

REASON_PENDING = ("theorems for this property are still being written in this build phase (its correspondence stream and oracle exist in "
                  "harness/cmd/corr and run clean); the technique applies, see DESIGN.md §6")


def main():
    props = [json.loads(l)["id"] for l in open(os.path.join(VERIF, "properties.jsonl")) if l.strip()]
    checks, na = [], []
    for pid in props:
        have = all(os.path.exists(os.path.join(VERIF, "lean", "ParsleyVerif", d, pid + ".lean")) for d in ("Props", "Audit"))
        c = CLAIMS.get(pid)
        if c and have:
            checks.append({
                "property_id": pid,
                "quick_cmd": "./check %s quick" % pid,
                "thorough_cmd": "./check %s thorough" % pid,
                "evidence_file": "evidence/%s.json" % pid,
                "replay_cmd_template": "./check --replay {path}",
                "engine": "lean-proof+correspondence",
                "level_claimed": {"category": "proof", "text": c["text"], "design_ref": "§6 " + pid},
                "level_note": NOTE_COMMON + c["note"],
                "technique": c["technique"],
            })
        else:
            na.append({"property_id": pid, "reason": REASON_PENDING})
    old = json.load(open(os.path.join(VERIF, "MANIFEST.json")))
    m = {
        "version": 1,
        "setup_cmd": "./check --setup",
        "hooks": old["hooks"],
        "engines": [{
            "name": "lean-proof+correspondence", "path": "check",
            "serves_properties": [c["property_id"] for c in checks],
            "kind_free_text": "Lean 4 model + theorems (lean/), Go correspondence harness and property oracles (harness/cmd/corr), go/ast fact extractor (harness/cmd/factgen)"}],
        "checks": checks,
        "notes": "See DESIGN.md. Fix commits in /repo: D1 e4fbdfe, D2 56eb012, D3 f1cb0ea, D4 c774f8d+7431821+6b22c65, D6 1fbf724, D7 9025365, D10 f6e0e4b.",
        "not_applicable": na,
    }
    with open(os.path.join(VERIF, "MANIFEST.json"), "w") as f:
        json.dump(m, f, indent=1)
    print("claimed:", [c["property_id"] for c in checks])


if __name__ == "__main__":
    main()
