#!/bin/bash
# seed_verify.sh <seed-id> <out-dir-with-patch.diff-and-demo> <demo-relative-path> [go test -run pattern]
# Confirms, in a fresh scratch worktree of /repo: demo passes without the patch; with the patch the unedited suite passes and the demo fails.
set -u
id=$1; out=$2; demo_rel=$3; pat=${4:-Seeded}
export GOFLAGS=-mod=mod GOPROXY=off GOSUMDB=off GOTOOLCHAIN=local
wt=$(mktemp -d /tmp/seedwt.XXXXXX)
git -C /repo worktree add -q --detach "$wt" HEAD || exit 2
trap 'git -C /repo worktree remove --force "$wt" >/dev/null 2>&1; rm -rf "$wt"' EXIT
demo=$(ls "$out"/*_test.go | head -1)
pkgdir=$(dirname "$demo_rel")
cp "$demo" "$wt/$demo_rel"
echo "== demo on the unchanged tree (must pass)"
(cd "$wt/$pkgdir" && timeout 300 go test -vet=off -count=1 -run "$pat" . 2>&1 | tail -3); r0=${PIPESTATUS[0]}
(cd "$wt/$pkgdir" && timeout 300 go test -vet=off -count=1 -run "$pat" . >/dev/null 2>&1); r0=$?
rm "$wt/$demo_rel"
git -C "$wt" apply "$out/patch.diff" || { echo "patch does not apply"; exit 2; }
echo "== unedited suite with the patch (must pass)"
(cd "$wt" && timeout 600 go test -vet=off -count=1 ./... 2>&1 | grep -v 'no test files' | grep -v '^ok' | head -5)
(cd "$wt" && timeout 600 go test -vet=off -count=1 ./... >/dev/null 2>&1); r1=$?
cp "$demo" "$wt/$demo_rel"
echo "== demo with the patch (must fail)"
(cd "$wt/$pkgdir" && timeout 300 go test -vet=off -count=1 -run "$pat" . 2>&1 | tail -4)
(cd "$wt/$pkgdir" && timeout 300 go test -vet=off -count=1 -run "$pat" . >/dev/null 2>&1); r2=$?
echo "demo-unchanged=$r0 suite-patched=$r1 demo-patched=$r2"
if [ $r0 -eq 0 ] && [ $r1 -eq 0 ] && [ $r2 -ne 0 ]; then echo "CONFIRMED $id"; exit 0; else echo "NOT CONFIRMED $id"; exit 1; fi
