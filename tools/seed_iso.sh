#!/bin/bash
# seed_iso.sh <seed-dir-name|patch.diff> <property> [tier]
# Runs ./check <property> against a seeded change WITHOUT touching /repo or /verif: both are copied to a
# scratch directory (the copy of the harness is pointed at the scratch repository), the patch is applied
# there, the check runs there, the scratch directory is removed.  Prints the check's verdict lines.
set -u
arg=$1; prop=$2; tier=${3:-quick}
if [ -d "/verif/seeded/$arg" ]; then patch="/verif/seeded/$arg/patch.diff"; else patch="$arg"; fi
w=$(mktemp -d /tmp/seediso.XXXXXX)
trap 'rm -rf "$w"' EXIT
git -C /repo worktree prune >/dev/null 2>&1
mkdir -p "$w/repo" && (cd /repo && git archive HEAD | tar -x -C "$w/repo")
(cd "$w/repo" && git init -q && git apply "$patch") || { echo "patch does not apply"; exit 2; }
rsync -a --exclude .git --exclude replays --exclude 'evidence/*.json' /verif/ "$w/verif/"
# the copy is brought to the COMMITTED state of /verif (work in progress of concurrently running agents - untracked or
# modified sources - must not leak into the result); build outputs (.lake, harness/bin) are kept to save time
(cd /verif && git archive HEAD | tar -x -C "$w/verif") && (cd /verif && git ls-files --others --exclude-standard -- harness lean/ParsleyVerif | grep -E '\.(go|lean)$' | while read f; do rm -f "$w/verif/$f"; done)
sed -i "s#=> /repo#=> $w/repo#" "$w/verif/harness/go.mod"
cd "$w/verif" && VERIF_REPO="$w/repo" ./check "$prop" "$tier" 2>&1 | grep -E '^(VIOLATION|KNOWN|check |corr )' | sed "s#$w##g" | cut -c1-260 | head -60; [ -n "${SEED_ISO_FULL:-}" ] && cat "$w/verif/replays/"*proof.json
