#!/bin/bash
# tie_try.sh <patch.diff> [lake-target ...]   (default target: ParsleyVerif.All)
# Fast loop for the robustness of the translation ties: applies a (supposedly behaviour-preserving) patch to a scratch copy of
# /repo, regenerates EVERY generated Lean file from it into a scratch copy of the Lean project (working tree state, build outputs
# included) and builds the given targets there.  Prints the generated files that changed, every `untranslated…` list and the
# build errors.  Nothing in /repo or /verif is modified; the scratch directory is removed.
set -u
patch=$1; shift
targets=${@:-ParsleyVerif.All}
w=$(mktemp -d /tmp/tietry.XXXXXX)
trap 'rm -rf "$w"' EXIT
export GOFLAGS=-mod=mod GOPROXY=off GOSUMDB=off GOTOOLCHAIN=local
mkdir -p "$w/repo" && (cd /repo && git archive HEAD | tar -x -C "$w/repo") && (cd "$w/repo" && git init -q && git apply "$patch") || { echo "patch does not apply"; exit 2; }
(cd "$w/repo" && go build ./... ) || { echo "patched repo does not build"; exit 2; }
rsync -a /verif/lean/ "$w/lean/" 2>/dev/null
(cd /verif/harness && go build -o "$w/factgen" ./cmd/factgen) || { echo "factgen does not build"; exit 2; }
G="$w/lean/ParsleyVerif/Generated"
"$w/factgen" -repo "$w/repo" -out "$w/Facts.lean" -out-conc "$w/FactsConc.lean" -out-ast "$w/FactsAst.lean" -out-fn "$w/FactsFn.lean" -out-prog "$w/FactsProg.lean" -out-core "$w/FactsCore.lean" -out-tree "$w/FactsTree.lean" -out-term "$w/FactsTerm.lean" || { echo "factgen failed"; exit 2; }
for f in Facts FactsConc FactsAst FactsFn FactsProg FactsCore FactsTree FactsTerm; do
  if ! cmp -s "$w/$f.lean" "$G/$f.lean"; then echo "changed: Generated/$f.lean"; cp "$w/$f.lean" "$G/$f.lean"; fi
done
grep -h -A3 "^def untranslated\|^def extractionProblems" "$G"/*.lean | grep -v "^--" | tr '\n' ' ' | sed 's/def /\ndef /g' | grep -v ":= \[\] *$" | cut -c1-600
echo
cd "$w/lean" && lake build $targets 2>&1 | grep -E "^error|error:|✖|Build completed" | sed "s#$w/##g" | head -40
