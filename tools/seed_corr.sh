#!/bin/bash
# seed_corr.sh <patch.diff> <property> : apply, rebuild the harness, run the correspondence/oracle stream only, undo
set -u
export GOFLAGS=-mod=mod GOPROXY=off GOSUMDB=off GOTOOLCHAIN=local
git -C /repo diff --quiet || { echo "/repo is dirty"; exit 2; }
git -C /repo apply "$1" || exit 2
(cd /verif/harness && go build -o bin/ ./cmd/... && ulimit -v 12000000 && ./bin/corr run -prop $2 -tier ${3:-quick} -seed ${VERIF_SEED:-1} -driver /verif/lean/.lake/build/bin/driver -out /tmp/seedcorr.json -replays /tmp/replays -known /verif/known_findings.json 2>&1 | grep -v KNOWN | tail -4)
git -C /repo checkout -- .
(cd /verif/harness && go build -o bin/ ./cmd/...)
