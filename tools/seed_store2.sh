#!/bin/bash
# seed_store2.sh <seed-id> <out-dir> <property> <demo-rel-path> <needs>
id=$1; out=$2; prop=$3; rel=$4; needs=$5; d=/verif/seeded/$id; mkdir -p $d; cp $out/patch.diff $d/; cp $out/*_test.go $d/; cp $out/notes.md $d/ 2>/dev/null
python3 - "$d" "$prop" "$rel" "$needs" <<PY
import json,sys
d,prop,rel,needs=sys.argv[1:5]
json.dump({"breaks_property":prop,"demo_file":rel,"needs_to_manifest":needs,
 "confirmed_by":"tools/seed_verify.sh in a fresh scratch worktree of /repo HEAD: demo passes on the unchanged tree; with the patch the unedited suite passes and the demo fails",
 "source":"independent sub-agent given only the property text and its own scratch worktree (round ${SEED_ROUND:-2})"},open(d+"/meta.json","w"),indent=1)
PY
