#!/usr/bin/env python3
"""refsweep.py <patch-dir> <result.json> [--par N]
Measures FALSE alarms: every *.diff in the directory is a behaviour-preserving refactoring of /repo; each is applied in a scratch
copy and ALL quick checks are run against it (scratch copy of the committed /verif).  Reports, per patch, which properties
alarm and whether with a failing input (that would be a false alarm of an oracle or of the correspondence - a bug of the checks) or
only through a proof obligation (an exact tie broken by a harmless rewrite - allowed, but the fewer the better).
An instrument, not a registered check; nothing in /repo or /verif is modified."""
import concurrent.futures, json, os, re, shutil, subprocess, sys, tempfile
sys.path.insert(0, os.path.dirname(os.path.abspath(__file__)))
import mutsweep as M

def run(patch):
    w = tempfile.mkdtemp(prefix="ref.", dir="/tmp")
    out = {}
    try:
        if not M.scratch_repo(w, patch):
            return {"error": "patch does not apply"}
        rc = subprocess.run(["rsync", "-a", "--exclude", ".git", "--exclude", "replays", "--exclude", "evidence/*.json", M.V + "/", w + "/verif/"]).returncode
        subprocess.run("cd %s && git archive HEAD | tar -x -C %s/verif" % (M.V, w), shell=True, check=True)
        others = subprocess.run("cd %s && git ls-files --others --exclude-standard -- harness lean/ParsleyVerif" % M.V, shell=True, capture_output=True, text=True).stdout.split("\n")
        for f in others:
            if f.endswith(".go") or f.endswith(".lean"):
                try:
                    os.remove(os.path.join(w, "verif", f))
                except OSError:
                    pass
        subprocess.run(["sed", "-i", "s#=> /repo#=> %s/repo#" % w, w + "/verif/harness/go.mod"], check=True)
        env = dict(M.ENV, VERIF_REPO=w + "/repo")
        for p in M.ALL:
            rc, o = M.sh(["./check", p, "quick"], cwd=w + "/verif", timeout=3000, env=env)
            vio = re.findall(r"^VIOLATION .*$", o, flags=re.M)
            if vio or rc != 0:
                detail = ""
                m = re.search(r"(lake build \S+ failed|source fact \w+ was not extracted|harness does not build|audit lists)[^\n]*", o)
                if m:
                    detail = m.group(0)[:200]
                errs = re.findall(r"error: (ParsleyVerif/\S+)", o)
                out[p] = {"violations": len(vio), "with_failing_input": any("no-failing-input-found" not in v for v in vio),
                          "detail": detail, "broken": sorted(set(errs))[:6]}
        return out
    finally:
        shutil.rmtree(w, ignore_errors=True)

def main():
    d, res = sys.argv[1], sys.argv[2]
    par = int(sys.argv[sys.argv.index("--par") + 1]) if "--par" in sys.argv else 2
    patches = sorted(f for f in os.listdir(d) if f.endswith(".diff"))
    results = json.load(open(res)) if os.path.exists(res) else {}
    with concurrent.futures.ThreadPoolExecutor(par) as ex:
        futs = {ex.submit(run, os.path.join(d, f)): f for f in patches if f not in results}
        for fu in concurrent.futures.as_completed(futs):
            f = futs[fu]
            try:
                results[f] = fu.result()
            except Exception as e:
                results[f] = {"error": str(e)}
            json.dump(results, open(res, "w"), indent=1)
            r = results[f]
            print(f, "SILENT" if not r else {k: ("FAILING-INPUT" if isinstance(v, dict) and v.get("with_failing_input") else "proof-only") for k, v in r.items()}, flush=True)
    silent = sum(1 for r in results.values() if not r)
    print("%d patches: %d silent on all 17 checks, %d alarm" % (len(results), silent, len(results) - silent))

if __name__ == "__main__":
    main()
