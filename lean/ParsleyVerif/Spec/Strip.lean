/-
  `strip S g`: the grammar `g` with the Memoize wrappers whose index satisfies `S` removed (property C03).
-/
import ParsleyVerif.Model.Run
namespace PV

mutual
def G.strip (S : Nat → Bool) : G → G
  | .memo i g => if S i then g.strip S else .memo i (g.strip S)
  | .any gs => .any (stripList S gs)
  | .choice gs => .choice (stripList S gs)
  | .seq k gs o => .seq k (stripList S gs) o
  | .many g ae o => .many (g.strip S) ae o
  | .sepBy v s ae o => .sepBy (v.strip S) (s.strip S) ae o
  | .optional g => .optional (g.strip S)
  | .name g nm => .name (g.strip S) nm
  | .ltrim g m => .ltrim (g.strip S) m
  | .rtrim g m => .rtrim (g.strip S) m
  | .single g => .single (g.strip S)
  | .suppress g => .suppress (g.strip S)
  | g => g
def stripList (S : Nat → Bool) : List G → List G
  | [] => []
  | g :: gs => g.strip S :: stripList S gs
end

end PV
