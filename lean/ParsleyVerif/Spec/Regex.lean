/-
  A generic account of leftmost-first ("Perl-like", backtracking-priority) regular-expression matching,
  independent of the hand-written matchers of Model/Terminal.lean.

  * `Rx.Re`      : the core expressions (one byte of a class, one UTF-8 sequence of a class, ε, sequence,
                   ordered alternative, greedy star).
  * `Rx.Re.run`  : ALL lengths of prefixes of the input that the expression matches, in the order in which a
                   backtracking matcher tries them (earlier alternative first, more iterations first).
  * `Rx.Re.first`: the first of them = what Go's regexp (leftmost-first, the expression anchored at the start
                   `^(?:expr)`, not anchored at the end) reports as the length of the match.
  * `Rx.Re.Matches`: the same language without any order (declarative clauses); `run` lists exactly its members
                   (Proofs/RegexLang.lean).
  * `Rx.Sx`      : the surface syntax (classes `[...]`, literals, `\c`, `(?:...)`, `*`, `+`, `?`, `{n,n}`, `|`),
                   its printer `Sx.src` and its translation `Sx.re` to the core.
  * the five expressions of text/terminal as surface terms; their printed text IS the regenerated source
    text (`Facts.*Regexp`), checked by `decide` at the end of this file.

  Nothing here mentions the matchers `integerMatch` … `backquoteMatch`; the import of Model/Terminal is used
  for nothing but `Bytes` and `Utf8.decodeRune`/`Utf8.encodeRune` (through Model/Utf8).
-/
import ParsleyVerif.Model.Terminal
import ParsleyVerif.Generated.Facts
namespace PV
open PV.Text
namespace Rx

/-! ### core expressions and the backtracking semantics -/

inductive Re
  /-- exactly one byte `b` with `p b` -/
  | byte (p : Nat → Bool)
  /-- exactly one UTF-8 sequence as utf8.DecodeRune reads it (an invalid byte is U+FFFD of width 1) whose rune satisfies `p` -/
  | rune (p : Nat → Bool)
  | eps
  | seq (a b : Re)
  /-- ordered alternative: everything `a` can do is tried before anything `b` can do -/
  | alt (a b : Re)
  /-- greedy repetition: one more iteration is tried before stopping -/
  | star (a : Re)

/-- Greedy iteration of a body whose candidate lengths on `l` are `ra l`.  An iteration that consumes nothing is
    not repeated (it could not change the position; no starred body of the five expressions below can match the
    empty string, so this clause is never exercised by them).  Every counted iteration consumes at least one byte, so
    `fuel = l.length` is enough; with less fuel the list is cut short. -/
def starRun (ra : Bytes → List Nat) : Nat → Bytes → List Nat
  | 0, _ => [0]
  | fuel + 1, l =>
    ((ra l).filter (0 < ·)).flatMap (fun i => (starRun ra fuel (l.drop i)).map (i + ·)) ++ [0]

/-- All `k` such that the expression matches `l.take k`, in priority order.  `fuel` bounds the number of
    iterations of each `star` (handed unchanged to sub-expressions; any `fuel ≥ l.length` is enough). -/
def Re.run : Re → Nat → Bytes → List Nat
  | .byte p, _, l => match l with
    | b :: _ => if p b then [1] else []
    | [] => []
  | .rune p, _, l => match l with
    | [] => []
    | _ :: _ => if p (Utf8.decodeRune l).1 then [(Utf8.decodeRune l).2] else []
  | .eps, _, _ => [0]
  | .seq a b, fuel, l => (a.run fuel l).flatMap fun i => (b.run fuel (l.drop i)).map (i + ·)
  | .alt a b, fuel, l => a.run fuel l ++ b.run fuel l
  | .star a, fuel, l => starRun (a.run fuel) fuel l

/-- the leftmost-first match of the expression anchored at the start of `l`: its length -/
def Re.first (r : Re) (l : Bytes) : Option Nat := (r.run l.length l).head?

/-! ### the language, declaratively

`Re.Matches r l k`: the expression matches the first `k` bytes of `l` — no order, no fuel, the textbook clauses
(`star` = zero or more iterations).  Proofs/RegexLang.lean: for `fuel ≥ l.length`, `k ∈ r.run fuel l ↔ Re.Matches r l k`. -/
inductive Re.Matches : Re → Bytes → Nat → Prop
  | byte {p : Nat → Bool} {b : Nat} {t : Bytes} : p b = true → Matches (.byte p) (b :: t) 1
  | rune {p : Nat → Bool} {l : Bytes} : l ≠ [] → p (Utf8.decodeRune l).1 = true → Matches (.rune p) l (Utf8.decodeRune l).2
  | eps {l : Bytes} : Matches .eps l 0
  | seq {a b : Re} {l : Bytes} {i j : Nat} : Matches a l i → Matches b (l.drop i) j → Matches (.seq a b) l (i + j)
  | altL {a b : Re} {l : Bytes} {k : Nat} : Matches a l k → Matches (.alt a b) l k
  | altR {a b : Re} {l : Bytes} {k : Nat} : Matches b l k → Matches (.alt a b) l k
  | star0 {a : Re} {l : Bytes} : Matches (.star a) l 0
  | starS {a : Re} {l : Bytes} {i j : Nat} : Matches a l i → Matches (.star a) (l.drop i) j → Matches (.star a) l (i + j)

/-! derived forms -/
def Re.plus (a : Re) : Re := .seq a (.star a)
/-- greedy `?` -/
def Re.opt (a : Re) : Re := .alt a .eps
def Re.lit : Bytes → Re
  | [] => .eps
  | b :: bs => .seq (.byte (· == b)) (Re.lit bs)
def Re.rep : Nat → Re → Re
  | 0, _ => .eps
  | n + 1, a => .seq a (Re.rep n a)

/-! ### surface syntax, printed exactly as the Go source writes it -/

inductive Item
  | ch (c : Char)
  | range (lo hi : Char)

/-- a bracket expression `[...]` or `[^...]` -/
structure Class where
  neg : Bool
  items : List Item

def Item.has : Item → Nat → Bool
  | .ch c, b => b == c.toNat
  | .range lo hi, b => lo.toNat ≤ b && b ≤ hi.toNat

def Class.has (c : Class) (b : Nat) : Bool := c.neg != c.items.any (·.has b)

def Item.src : Item → List Char
  | .ch c => [c]
  | .range lo hi => [lo, '-', hi]

def Class.src (c : Class) : List Char :=
  '[' :: ((if c.neg then ['^'] else []) ++ c.items.flatMap Item.src ++ [']'])

inductive Sx
  /-- a class read byte-wise.  Faithful for the not negated ASCII classes (Go reads a rune; a rune of an ASCII class
      is one byte < 0x80, and no byte of a longer or invalid sequence is in the class).  Also used for `[^`]` in
      `[^`]+`: Go consumes a whole UTF-8 sequence per iteration, but no byte of a sequence that does not start
      with 0x60 is 0x60 and nothing follows the `+`, so byte-wise and rune-wise iteration stop at the same place
      (the first 0x60 or the end); only the FIRST candidate is compared. -/
  | cls (c : Class)
  /-- a class read rune-wise (used for `[^']`) -/
  | rcls (c : Class)
  /-- literal characters: their UTF-8 bytes in sequence -/
  | lit (cs : List Char)
  /-- `\c` for a punctuation character: the literal `c` -/
  | esc (c : Char)
  | seq (a b : Sx)
  | alt (a b : Sx)
  | star (a : Sx)
  | plus (a : Sx)
  | opt (a : Sx)
  /-- `a{n,n}` -/
  | rep (n : Nat) (a : Sx)
  /-- `(?:a)` -/
  | group (a : Sx)

def digitChar (n : Nat) : Char := Char.ofNat (48 + n)

def Sx.src : Sx → List Char
  | .cls c => c.src
  | .rcls c => c.src
  | .lit cs => cs
  | .esc c => ['\\', c]
  | .seq a b => a.src ++ b.src
  | .alt a b => a.src ++ '|' :: b.src
  | .star a => a.src ++ ['*']
  | .plus a => a.src ++ ['+']
  | .opt a => a.src ++ ['?']
  | .rep n a => a.src ++ ['{', digitChar n, ',', digitChar n, '}']     -- n < 10 in all uses
  | .group a => '(' :: '?' :: ':' :: a.src ++ [')']

def litBytes (cs : List Char) : Bytes := cs.flatMap fun c => Utf8.encodeRune c.toNat

def Sx.re : Sx → Re
  | .cls c => .byte c.has
  | .rcls c => .rune c.has
  | .lit cs => Re.lit (litBytes cs)
  | .esc c => .byte (· == c.toNat)
  | .seq a b => .seq a.re b.re
  | .alt a b => .alt a.re b.re
  | .star a => .star a.re
  | .plus a => a.re.plus
  | .opt a => a.re.opt
  | .rep n a => Re.rep n a.re
  | .group a => a.re

/-! ### the five expressions, symbol by symbol -/

def cSign : Class := ⟨false, [.ch '-', .ch '+']⟩
def cDigit : Class := ⟨false, [.range '0' '9']⟩
def cHex : Class := ⟨false, [.range '0' '9', .range 'a' 'f', .range 'A' 'F']⟩

/-- `[-+]?(?:[1-9][0-9]*|0[xX][0-9a-fA-F]+|0[0-7]*)` -/
def integerSx : Sx :=
  .seq (.opt (.cls cSign))
    (.group
      (.alt (.seq (.cls ⟨false, [.range '1' '9']⟩) (.star (.cls cDigit)))
      (.alt (.seq (.lit ['0']) (.seq (.cls ⟨false, [.ch 'x', .ch 'X']⟩) (.plus (.cls cHex))))
            (.seq (.lit ['0']) (.star (.cls ⟨false, [.range '0' '7']⟩))))))

/-- `[-+]?[0-9]*\.[0-9]+(?:[eE][-+]?[0-9]+)?` -/
def floatSx : Sx :=
  .seq (.opt (.cls cSign))
    (.seq (.star (.cls cDigit))
      (.seq (.esc '.')
        (.seq (.plus (.cls cDigit))
          (.opt (.group (.seq (.cls ⟨false, [.ch 'e', .ch 'E']⟩) (.seq (.opt (.cls cSign)) (.plus (.cls cDigit)))))))))

/-- `\\[abfnrtv']|\\x[0-9a-fA-F]{2,2}|\\u[0-9a-fA-F]{4,4}|\\U[0-9a-fA-F]{8,8}|[^']` -/
def charSx : Sx :=
  .alt (.seq (.esc '\\') (.cls ⟨false, [.ch 'a', .ch 'b', .ch 'f', .ch 'n', .ch 'r', .ch 't', .ch 'v', .ch '\'']⟩))
  (.alt (.seq (.esc '\\') (.seq (.lit ['x']) (.rep 2 (.cls cHex))))
  (.alt (.seq (.esc '\\') (.seq (.lit ['u']) (.rep 4 (.cls cHex))))
  (.alt (.seq (.esc '\\') (.seq (.lit ['U']) (.rep 8 (.cls cHex))))
        (.rcls ⟨true, [.ch '\'']⟩))))

/-- `ns|us|µs|μs|ms|s|m|h` (µ = U+00B5, μ = U+03BC) -/
def unitSx : Sx :=
  .alt (.lit ['n', 's']) (.alt (.lit ['u', 's']) (.alt (.lit ['µ', 's']) (.alt (.lit ['μ', 's'])
  (.alt (.lit ['m', 's']) (.alt (.lit ['s']) (.alt (.lit ['m']) (.lit ['h'])))))))

/-- `[-+]?(?:[0-9]+(?:\.[0-9]+)?(?:ns|us|µs|μs|ms|s|m|h))+` -/
def durationSx : Sx :=
  .seq (.opt (.cls cSign))
    (.plus (.group
      (.seq (.plus (.cls cDigit))
        (.seq (.opt (.group (.seq (.esc '.') (.plus (.cls cDigit)))))
          (.group unitSx)))))

/-- `[^`]+` -/
def backquoteSx : Sx := .plus (.cls ⟨true, [.ch '`']⟩)

def integerRe : Re := integerSx.re
def floatRe : Re := floatSx.re
def charRe : Re := charSx.re
def durationRe : Re := durationSx.re
def backquoteRe : Re := backquoteSx.re

/-! ### the terms above print as the source text of the repository -/

theorem integerSx_src : String.ofList integerSx.src = Facts.integerRegexp := by decide
theorem floatSx_src : String.ofList floatSx.src = Facts.floatRegexp := by decide
theorem charSx_src : String.ofList charSx.src = Facts.charRegexp := by decide
theorem durationSx_src : String.ofList durationSx.src = Facts.durationRegexp := by decide
theorem backquoteSx_src : String.ofList backquoteSx.src = Facts.backquoteRegexp := by decide

/-- the literal units are the byte strings the model's `unitLen` spells out -/
example : litBytes ['µ', 's'] = [0xC2, 0xB5, 115] ∧ litBytes ['μ', 's'] = [0xCE, 0xBC, 115] ∧
    litBytes ['n', 's'] = [110, 115] := by decide

/-! ### the semantics is not vacuous -/
example : integerRe.first [45, 48, 120, 49, 70, 103] = some 5 := by decide     -- "-0x1Fg"
example : integerRe.first [48, 120] = some 1 := by decide                      -- "0x": the octal alternative, "0"
example : integerRe.first [48, 56] = some 1 := by decide                       -- "08"
example : integerRe.first [43] = none := by decide
example : (integerRe.run 3 [49, 50, 51]) = [3, 2, 1] := by decide              -- all candidates, greedy first
example : floatRe.first [49, 46, 53, 101, 43] = some 3 := by decide            -- "1.5e+": exponent given back
example : floatRe.first [46, 53, 69, 45, 49, 48] = some 6 := by decide         -- ".5E-10"
example : floatRe.first [49, 50] = none := by decide
example : durationRe.first [49, 109, 115] = some 3 := by decide                -- "1ms": `ms` before `m`
example : durationRe.first [49, 109, 49, 46, 53, 115, 50] = some 6 := by decide -- "1m1.5s2"
example : durationRe.first [49, 46, 115] = none := by decide                   -- "1.s"
example : durationRe.first [49, 0xCE, 0xBC, 115] = some 4 := by decide         -- "1μs"
example : charRe.first [92, 120, 52, 49, 39] = some 4 := by decide             -- `\x41'`
example : charRe.first [92, 120, 52, 39] = some 1 := by decide                 -- `\x4'`: only the backslash
example : charRe.first [39] = none := by decide
example : charRe.first [0xE2, 0x82, 0xAC, 39] = some 3 := by decide            -- "€'"
example : charRe.first [0xE2, 0x82] = some 1 := by decide                      -- invalid: U+FFFD, one byte
example : backquoteRe.first [97, 0xC3, 0xA9, 96, 97] = some 3 := by decide
example : backquoteRe.first [96] = none := by decide

end Rx
end PV
