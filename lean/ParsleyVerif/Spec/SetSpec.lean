/-
  The plain mathematical model IntSet / IntMap are specified against (property C15):
  a set is a strictly ascending list (two such lists with the same members are equal, so
  membership pins the value down), a map is a key-sorted association list read through `mget`.
-/
import ParsleyVerif.Model.Data
namespace PV.Data

def sInsert : List Int → Int → List Int
  | [], v => [v]
  | x :: xs, v => if v < x then v :: x :: xs else if v = x then x :: xs else x :: sInsert xs v

def sMerge : List Int → List Int → List Int
  | [], b => b
  | a, [] => a
  | x :: xs, y :: ys =>
    if x < y then x :: sMerge xs (y :: ys)
    else if y < x then y :: sMerge (x :: xs) ys
    else x :: sMerge xs ys

/-- spec of NewIntSet -/
def sOfList (vs : List Int) : List Int := vs.foldl sInsert []

/-- spec of Union (with the library's short cuts for empty operands, which are value-neutral) -/
def sUnion (a b : List Int) : List Int := sMerge a b

def mInc (m : FMap) (k : Int) : FMap :=
  match mget m k with
  | none => mset m k 1
  | some v => mset m k (v + 1)

def mFilterStep (m : FMap) (acc : FMap) (key : Int) : FMap :=
  match mget m key with | some v => mset acc key v | none => acc

def mFilter (m : FMap) (keys : List Int) : FMap := keys.foldl (mFilterStep m) []

def mOfList (kvs : List (Int × Int)) : FMap := kvs.foldl (fun m kv => mset m kv.1 kv.2) []

/-- the specification machine: every value is computed once, purely, when it is created -/
def specStep (pool : List AVal) : Op → List AVal × Out
  | .newSet vs => (pool ++ [.set (sOfList vs)], .none)
  | .insert i v =>
    match pool[i]? with
    | some (.set l) => (pool ++ [.set (sInsert l v)], .none)
    | _ => (pool, .bad)
  | .union i j =>
    match pool[i]?, pool[j]? with
    | some (.set a), some (.set b) => (pool ++ [.set (sUnion a b)], .none)
    | _, _ => (pool, .bad)
  | .len i => match pool[i]? with | some (.set l) => (pool, .int l.length) | _ => (pool, .bad)
  | .each i => match pool[i]? with | some (.set l) => (pool, .ints l) | _ => (pool, .bad)
  | .newMap kvs => (pool ++ [.map (mOfList kvs)], .none)
  | .inc i k =>
    match pool[i]? with
    | some (.map m) => (pool ++ [.map (mInc m k)], .none)
    | _ => (pool, .bad)
  | .filter i j =>
    match pool[i]?, pool[j]? with
    | some (.map m), some (.set l) => (pool ++ [.map (mFilter m l)], .none)
    | _, _ => (pool, .bad)
  | .get i k => match pool[i]? with | some (.map m) => (pool, .int ((mget m k).getD 0)) | _ => (pool, .bad)
  | .keys i => match pool[i]? with | some (.map m) => (pool, .ints (m.map (·.1))) | _ => (pool, .bad)
  | .eachMap i => match pool[i]? with | some (.map m) => (pool, .pairs m) | _ => (pool, .bad)

def specRun (ops : List Op) (pool : List AVal := []) : List AVal × List Out :=
  ops.foldl (fun (p : List AVal × List Out) op => let (pool', o) := specStep p.1 op; (pool', p.2 ++ [o])) (pool, [])

end PV.Data
