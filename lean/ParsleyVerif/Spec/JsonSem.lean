/-
  C16 — reference semantics of the example JSON grammar: the JSON value a tree denotes (`JVal`, `jvalOf`),
  the evaluator value it stands for (`denote`: arrays in order, objects as maps in which the LAST duplicate key
  wins, numbers as their lexeme / int64 value, strings as decoded bytes), and the trees of the `value` rule
  (`IsJsonTree`).
-/
import ParsleyVerif.Spec.Json
import ParsleyVerif.Spec.Arith
import ParsleyVerif.Spec.Postorder
namespace PV
open PV.Text

/-- JSON values of the supported subset.  Integers are int64 values, decimals are kept as their lexeme (what
    strconv.ParseFloat gets), strings are their decoded bytes, objects keep every member in source order. -/
inductive JVal
  | null
  | bool (b : Bool)
  | int (i : Int)
  | float (lex : Bytes)
  | str (s : Bytes)
  | arr (l : List JVal)
  | obj (kvs : List (Bytes × JVal))
deriving Repr, Inhabited

mutual
/-- the evaluator value a JSON value stands for: a Go `[]interface{}` in order, a Go `map[string]interface{}` to
    which the members are assigned in source order (so the last duplicate key wins) -/
def denote : JVal → V
  | .null => .nil
  | .bool b => .bool b
  | .int i => .int i
  | .float l => .float l
  | .str s => .str s
  | .arr l => .arr (denoteList l)
  | .obj kvs => .obj (mapOfPairs (denotePairs kvs))
def denoteList : List JVal → List V
  | [] => []
  | j :: l => denote j :: denoteList l
def denotePairs : List (Bytes × JVal) → List (Bytes × V)
  | [] => []
  | (k, j) :: l => (k, denote j) :: denotePairs l
end

/-- all elements are present -/
def allSome {α} : List (Option α) → Option (List α)
  | [] => some []
  | none :: _ => none
  | some a :: l => (allSome l).map (a :: ·)

mutual
/-- the JSON value a tree denotes: literal leaves; an Array node (every second child); an Object node (every
    second child a key/value node); a Select(1) node is its child 1 -/
def jvalOf : Node → Option JVal
  | .term _ (.str s) _ _ => some (.str s)
  | .term _ (.float l) _ _ => some (.float l)
  | .term _ (.int v) _ _ => some (.int v)
  | .term _ (.bool b) _ _ => some (.bool b)
  | .term _ .nil _ _ => some .null
  | .term _ _ _ _ => none
  | .empty _ => none
  | .eof _ => none
  | .nt _ cs _ _ interp =>
    match interp with
    | .select 1 => (match jvalOfList cs with | [_, v, _] => v | _ => none)
    | .array => (allSome (everySecond (jvalOfList cs))).map .arr
    | .object => (allSome (everySecond (jkvOfList cs))).map .obj
    | _ => none
def jvalOfList : List Node → List (Option JVal)
  | [] => []
  | c :: cs => jvalOf c :: jvalOfList cs
/-- a key/value node: `[STRING leaf, ':', value]` -/
def jkvOf : Node → Option (Bytes × JVal)
  | .nt _ cs _ _ _ =>
    (match cs, jvalOfList cs with
     | [.term _ (.str k) _ _, _, _], [_, _, some v] => some (k, v)
     | _, _ => none)
  | _ => none
def jkvOfList : List Node → List (Option (Bytes × JVal))
  | [] => []
  | c :: cs => jkvOf c :: jkvOfList cs
end

/-- a key/value node `[STRING leaf with a string value, ':' leaf, value]` (no interpreter: Object reads children
    0 and 2 itself) -/
def IsKvNode (f : File) (n : Node) : Prop :=
  ∃ tk tok k kp kr colon v p q, n = .nt tk [.term tok (.str k) kp kr, colon, v] p q .none ∧ IsRuneLeaf f 58 colon

/-- the trees of the `value` rule -/
inductive IsJsonTree (f : File) : Node → Prop
  | str {tok s p r} : IsJsonTree f (.term tok (.str s) p r)
  | float {tok lex p r} : IsJsonTree f (.term tok (.float lex) p r)
  | int {tok v p r} : IsJsonTree f (.term tok (.int v) p r)
  | bool {tok b p r} : IsJsonTree f (.term tok (.bool b) p r)
  | null {tok p r} : IsJsonTree f (.term tok .nil p r)
  /-- `[ '[', SEP_BY node bound to Array, ']' ]` under Select(1); the SEP_BY node's even children are JSON
      trees, its odd children `,` leaves, and it never ends with a `,` -/
  | arr {tk lb tk2 elems p2 q2 rb p q} : IsRuneLeaf f 91 lb → IsRuneLeaf f 93 rb →
      (elems = [] ∨ elems.length % 2 = 1) →
      (∀ i n, elems[i]? = some n → i % 2 = 1 → IsRuneLeaf f 44 n) →
      (∀ i n, elems[i]? = some n → i % 2 = 0 → IsJsonTree f n) →
      IsJsonTree f (.nt tk [lb, .nt tk2 elems p2 q2 .array, rb] p q (.select 1))
  /-- `[ '{', SEP_BY node bound to Object, '}' ]` under Select(1); the SEP_BY node's even children are key/value
      nodes whose child 2 is a JSON tree -/
  | obj {tk lb tk2 mems p2 q2 rb p q} : IsRuneLeaf f 123 lb → IsRuneLeaf f 125 rb →
      (mems = [] ∨ mems.length % 2 = 1) →
      (∀ i n, mems[i]? = some n → i % 2 = 1 → IsRuneLeaf f 44 n) →
      (∀ i n, mems[i]? = some n → i % 2 = 0 → IsKvNode f n) →
      (∀ i tk3 k0 colon v p3 q3 i3, mems[i]? = some (.nt tk3 [k0, colon, v] p3 q3 i3) → i % 2 = 0 → IsJsonTree f v) →
      IsJsonTree f (.nt tk [lb, .nt tk2 mems p2 q2 .object, rb] p q (.select 1))

end PV
