/-
  Byte-level specification of the text reader primitives (property C09), written directly over the
  rest of the file at the cursor, independently of the cursor arithmetic and guards of the model.
-/
import ParsleyVerif.Model.Text
namespace PV.Text

/-- the bytes from `pos` to the end of the file -/
def rest (f : File) (pos : Nat) : Bytes := f.data.drop (pos - f.offset)

/-- positions a file set can hand to a primitive: first byte … end of file -/
def InFile (f : File) (pos : Nat) : Prop := f.offset ≤ pos ∧ pos ≤ f.offset + f.len

/-- length of the whitespace run at the head of `l` -/
def wsRun (l : Bytes) : Nat := (l.takeWhile isWs).length

/-- offset of the first line break inside the whitespace run -/
def firstBreak : Bytes → Option Nat
  | [] => none
  | b :: r => if isWs b then (if isBreak b then some 0 else (firstBreak r).map (· + 1)) else none

/-- what SkipWhitespaces must report for a mode, a start position, and a run -/
def wsVerdict (m : WsMode) (pos : Nat) (l : Bytes) : Option (Nat × WsErr) :=
  match m with
  | .none => if wsRun l > 0 then some (pos, .noneErr) else none
  | .forceNl => match firstBreak l with | none => some (pos + wsRun l, .forceNlErr) | some _ => none
  | .spaces => match firstBreak l with | some i => some (pos + i, .spacesErr) | none => none
  | .spacesNl => none

end PV.Text
