/-
  The EXACT meaning of the whitespace trims (property C01, extension to LeftTrim / RightTrim / Trim).

  `Derives` (Spec/Derives.lean) reads the trims loosely on purpose: `ltrim` ignores the mode's verdict and
  `rtrimKeep` lets RightTrim hand a tree on unmoved.  Here the trims mean what text/trim.go is meant to do:

    * `LeftTrim(p, mode)` at `pos`:  SkipWhitespaces(pos, mode) skips the MAXIMAL run of whitespace; if the
      mode rejects the run (WsNone: a non-empty run; WsSpaces: a line break in it; WsSpacesForceNl: no line
      break in it — Props/C10.lean) there is no derivation; otherwise the derivations are those of `p` at the
      position after the run.  The tree is `p`'s own (it starts after the whitespace).
    * `RightTrim(p, mode)` at `pos`: for every tree `x` of `p` at `pos`, SkipWhitespaces(x.ReaderPos, mode);
      a rejected run drops that tree; otherwise the tree is `x` with only its reader position moved past
      the run (`moved`).

  `DerivesW` is this meaning on the monotone fragment + trims; `DerivesCW` is its curtailed version, the
  counterpart of `DerivesC` (Spec/DerivesC.lean): LeftTrim hands the left-recursion counters to its operand
  UNCHANGED, also when whitespace was skipped (text/trim.go passes `leftRecCtx` on) — the rule `ltrim` of
  `DerivesCW` has the same `c` on both sides.  That this never loses a derivation is the cut argument of
  Proofs/C1TCover.lean.

  Scope predicates (`FragLocalW`): the trims are where the library deviates from the exact meaning, and the
  deviations are excluded syntactically —
    * RightTrim hands a result that comes together with an error through UNMOVED (`Optional` below it), so
      the operand of a RightTrim must be `ErrFree` (never a result and an error: terminals, Empty, Any, SeqOf,
      Memoize / trims of such, a reference to a rule of that form);
    * RightTrim over a NodeList keeps only the LAST alternative's whitespace verdict (`wsErr` is a closure
      variable overwritten by every call), so a REJECTING mode (anything but WsSpacesNl) needs an operand with
      at most one alternative (`OneAlt`: a terminal or Empty, possibly trimmed) — finding F1 of Props/C01W.lean;
    * LeftTrim hands a result that comes with an error at/before the operand's start through although the mode
      rejected the run — finding F2; for SOUNDNESS a LeftTrim with a rejecting mode needs an `ErrFree` operand
      (`SoundLocalW`); completeness needs nothing of LeftTrim.
-/
import ParsleyVerif.Spec.DerivesC
import ParsleyVerif.Spec.Core
namespace PV.C1T
open PV PV.Text

/-- the node RightTrim hands on for `x`: only the reader position moves (ast.SetReaderPos) -/
def moved (cfg : Cfg) (m : WsMode) (x : Node) : Node := (setRposNode cfg.file m x none).1
/-- the mode's verdict on the whitespace after `x` (`none` = accepted) -/
def movedErr (cfg : Cfg) (m : WsMode) (x : Node) : Option Err := (setRposNode cfg.file m x none).2

mutual
/-- the exact meaning of the monotone fragment with trims -/
inductive DerivesW (cfg : Cfg) : G → Nat → Node → Prop
  | term {t pos n} : t.parse cfg.params cfg.file pos = .node n → DerivesW cfg (.term t) pos n
  | empty {pos} : DerivesW cfg .empty pos (.empty pos)
  | ref {k g pos x} : cfg.env[k]? = some g → DerivesW cfg g pos x → DerivesW cfg (.ref k) pos x
  | memo {i g pos x} : DerivesW cfg g pos x → DerivesW cfg (.memo i g) pos x
  | any {gs g pos x} : g ∈ gs → DerivesW cfg g pos x → DerivesW cfg (.any gs) pos x
  | optSome {g pos x} : DerivesW cfg g pos x → DerivesW cfg (.optional g) pos x
  | optNone {g pos} : DerivesW cfg (.optional g) pos (.empty pos)
  | seqOf {gs o sh pos nodes} : (G.seq .seqOf gs o).shape = some sh → DerivesSeqW cfg sh 0 pos nodes →
      sh.lenCheck nodes.length = true → DerivesW cfg (.seq .seqOf gs o) pos (handleResult sh pos nodes)
  /-- LeftTrim: the mode accepts the maximal run at `pos`, the operand derives `x` right after it -/
  | ltrim {g m pos x} : (skipWhitespaces cfg.file pos m).2 = none →
      DerivesW cfg g (skipWhitespaces cfg.file pos m).1 x → DerivesW cfg (.ltrim g m) pos x
  /-- RightTrim: the mode accepts the maximal run after `x`, whose reader position moves past it -/
  | rtrim {g m pos x} : DerivesW cfg g pos x → movedErr cfg m x = none →
      DerivesW cfg (.rtrim g m) pos (moved cfg m x)
inductive DerivesSeqW (cfg : Cfg) : SeqShape → Nat → Nat → List Node → Prop
  | nil {sh d pos} : DerivesSeqW cfg sh d pos []
  | cons {sh d pos g n rest} : sh.lookup d = some g → DerivesW cfg g pos n →
      DerivesSeqW cfg sh (d + 1) n.rpos rest → DerivesSeqW cfg sh d pos (n :: rest)
end

mutual
/-- curtailed derivations with trims: `DerivesC` + the two trim rules; LeftTrim CARRIES the counters -/
inductive DerivesCW (cfg : Cfg) : (Nat → Nat) → G → Nat → Node → Prop
  | term {c t pos n} : t.parse cfg.params cfg.file pos = .node n → DerivesCW cfg c (.term t) pos n
  | empty {c pos} : DerivesCW cfg c .empty pos (.empty pos)
  | ref {c k g pos x} : cfg.env[k]? = some g → DerivesCW cfg c g pos x → DerivesCW cfg c (.ref k) pos x
  | memo {c i g pos x} : c i ≤ remaining cfg.file pos + Facts.curtailSlack →
      DerivesCW cfg (bump c i) g pos x → DerivesCW cfg c (.memo i g) pos x
  | any {c gs g pos x} : g ∈ gs → DerivesCW cfg c g pos x → DerivesCW cfg c (.any gs) pos x
  | optSome {c g pos x} : DerivesCW cfg c g pos x → DerivesCW cfg c (.optional g) pos x
  | optNone {c g pos} : DerivesCW cfg c (.optional g) pos (.empty pos)
  | seqOf {c gs o sh pos nodes} : (G.seq .seqOf gs o).shape = some sh → DerivesSeqCW cfg c sh 0 pos nodes →
      sh.lenCheck nodes.length = true → DerivesCW cfg c (.seq .seqOf gs o) pos (handleResult sh pos nodes)
  | ltrim {c g m pos x} : (skipWhitespaces cfg.file pos m).2 = none →
      DerivesCW cfg c g (skipWhitespaces cfg.file pos m).1 x → DerivesCW cfg c (.ltrim g m) pos x
  | rtrim {c g m pos x} : DerivesCW cfg c g pos x → movedErr cfg m x = none →
      DerivesCW cfg c (.rtrim g m) pos (moved cfg m x)
inductive DerivesSeqCW (cfg : Cfg) : (Nat → Nat) → SeqShape → Nat → Nat → List Node → Prop
  | nil {c sh d pos} : DerivesSeqCW cfg c sh d pos []
  | cons {c sh d pos g n rest} : sh.lookup d = some g → DerivesCW cfg c g pos n →
      DerivesSeqCW cfg (if n.rpos > pos then zeroC else c) sh (d + 1) n.rpos rest →
      DerivesSeqCW cfg c sh d pos (n :: rest)
end

/-! ### scope -/

/-- never a result together with an error, decided without looking through references -/
def ErrFreeTop : G → Prop
  | .term _ => True
  | .empty => True
  | .any _ => True
  | .seq .seqOf _ _ => True
  | .memo _ g => ErrFreeTop g
  | .ltrim g _ => ErrFreeTop g
  | .rtrim g _ => ErrFreeTop g
  | _ => False

/-- never a result together with an error; a reference is looked through once -/
def ErrFree (cfg : Cfg) : G → Prop
  | .term _ => True
  | .empty => True
  | .any _ => True
  | .seq .seqOf _ _ => True
  | .ref k => ∃ g, cfg.env[k]? = some g ∧ ErrFreeTop g
  | .memo _ g => ErrFree cfg g
  | .ltrim g _ => ErrFree cfg g
  | .rtrim g _ => ErrFree cfg g
  | _ => False

/-- at most one alternative: a token (terminal / Empty), possibly trimmed -/
def OneAlt : G → Prop
  | .term _ => True
  | .empty => True
  | .ltrim g _ => OneAlt g
  | .rtrim g _ => OneAlt g
  | _ => False

/-- the fragment with trims (cf. `FragLocal`) -/
def FragLocalW (cfg : Cfg) : G → Prop
  | .term t => ∀ pos n, t.parse cfg.params cfg.file pos = .node n → n.token ≠ eofTok
  | .empty => True
  | .ref _ => True
  | .memo _ _ => True
  | .any _ => True
  | .optional _ => True
  | .seq .seqOf _ o => o.token.getD seqTok ≠ eofTok
  | .ltrim _ _ => True
  | .rtrim g m => ErrFree cfg g ∧ (m = .spacesNl ∨ OneAlt g)
  | _ => False

def FragW (cfg : Cfg) (g : G) : Prop := g.All (FragLocalW cfg)

/-- what soundness asks in addition: a LeftTrim with a rejecting mode has an `ErrFree` operand -/
def SoundLocalW (cfg : Cfg) : G → Prop
  | .ltrim g m => m = .spacesNl ∨ ErrFree cfg g
  | _ => True

def SoundW (cfg : Cfg) (g : G) : Prop := g.All (SoundLocalW cfg)

/-- terminals stay inside the file (C08's subject), trims allowed (cf. `G.Core (TermGood cfg)`) -/
def TermsLocalW (cfg : Cfg) : G → Prop
  | .term t => TermGood cfg t
  | _ => True

def TermsW (cfg : Cfg) (g : G) : Prop := g.All (TermsLocalW cfg)

end PV.C1T
