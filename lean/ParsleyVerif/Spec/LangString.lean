/-
  The syntax and the value of character and double-quoted string literals (property C08): Go's escape
  syntax as a table, each element denoting ONE CODE POINT; the value of a string is the concatenation of
  the UTF-8 encodings of the code points of its elements (so `\x80` contributes C2 80, two bytes).
  Written as "element at the head of the input" functions, not as the loops of unquoteString /
  strconv.UnquoteChar.
-/
import ParsleyVerif.Spec.Lang
namespace PV.Lang
open PV.Text

/-- `\a \b \f \n \r \t \v \\` and the code point each denotes -/
def simpleEscapes : List (Nat × Nat) :=
  [(97, 7), (98, 8), (102, 12), (110, 10), (114, 13), (116, 9), (118, 11), (92, 92)]

/-- `n` hex digits after `\x` / `\u` / `\U`: (code point, width of the whole escape).  `\x` denotes any
    value 0..255; `\u` and `\U` must denote a valid rune (no surrogate, ≤ U+10FFFF) -/
def hexEscape (n : Nat) (anyValue : Bool) (r : Bytes) : Option (Nat × Nat) :=
  if n ≤ r.length ∧ (r.take n).all hexDigit = true ∧
      (anyValue = true ∨ Utf8.validRune (digitsValue 16 (r.take n)) = true)
  then some (digitsValue 16 (r.take n), 2 + n) else none

/-- `\ooo`, three octal digits, value ≤ 255 -/
def octEscape (e : Nat) (r : Bytes) : Option (Nat × Nat) :=
  if 2 ≤ r.length ∧ (r.take 2).all octDigit = true ∧ digitsValue 8 (e :: r.take 2) ≤ 255
  then some (digitsValue 8 (e :: r.take 2), 4) else none

/-- the element at the head of `l` inside a literal delimited by `quote`: (code point, width in bytes).
    A byte ≥ 0x80 is read as a UTF-8 sequence by utf8.DecodeRune (an invalid one is (U+FFFD, 1)). -/
def escElem (quote : Nat) : Bytes → Option (Nat × Nat)
  | [] => none
  | c :: r =>
    if c = quote then none
    else if c ≠ 92 then (if c < 0x80 then some (c, 1) else some (Utf8.decodeRune (c :: r)))
    else match r with
      | [] => none
      | e :: r2 =>
        match simpleEscapes.lookup e with
        | some v => some (v, 2)
        | none =>
          if e = quote then some (e, 2)
          else if e = 120 then hexEscape 2 true r2
          else if e = 117 then hexEscape 4 false r2
          else if e = 85 then hexEscape 8 false r2
          else if octDigit e = true then octEscape e r2
          else none

/-- the code point of a character literal body `l` (the bytes between the single quotes): `l` is exactly one element -/
def charValue (l : Bytes) : Option Nat :=
  match escElem 39 l with
  | some (c, w) => if w = l.length then some c else none
  | none => none

/-- element of a double-quoted string: as `escElem`, but a raw CR or LF is not an element (it ends the body),
    and a byte that is not valid UTF-8 is refused (its replacement character would be longer than the input) -/
def strElem (l : Bytes) : Option (Nat × Nat) :=
  if l.head? = some 13 ∨ l.head? = some 10 then none else
  match escElem 34 l with
  | some (c, w) => if c = Utf8.runeError ∧ w = 1 then none else some (c, w)
  | none => none

/-- the elements at the head of `l`, as many as there are (`n` bounds their number; `l.length` is enough) -/
def strElems : Nat → Bytes → List (Nat × Nat)
  | 0, _ => []
  | n + 1, l =>
    match strElem l with
    | none => []
    | some (c, w) => (c, w) :: strElems n (l.drop w)

/-- plain byte of a string body: ASCII other than CR, LF, `"` and `\` -/
def plainByte (b : Nat) : Bool := b < 0x80 && b != 13 && b != 10 && b != 34 && b != 92

/-- what the body reader of a double-quoted string must answer on `r`, the bytes after the opening quote:
    (value or nothing, bytes consumed).
    The body is a run of plain bytes; if that run is stopped by `\` or by a byte ≥ 0x80, elements follow
    (plain bytes are elements too).  A raw CR or LF, a `"`, an ill-formed escape or an invalid UTF-8 byte
    ends the body wherever it stands. -/
def strBody (r : Bytes) : Option Bytes × Nat :=
  let i := (r.takeWhile plainByte).length
  match r.drop i with
  | [] => (some r, r.length)
  | b :: _ =>
    if b = 13 ∨ b = 10 ∨ b = 34 then (if i = 0 then (none, 0) else (some (r.take i), i))
    else
      let es := strElems r.length (r.drop i)
      let n := i + (es.map (·.2)).sum
      if n = 0 then (none, 0) else (some (r.take i ++ es.flatMap (fun e => Utf8.encodeRune e.1)), n)

end PV.Lang
