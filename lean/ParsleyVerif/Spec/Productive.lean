/-
  C06's productivity hypothesis as a DECIDABLE certificate (in the style of Spec/WF.lean).

  A certificate names
    * `prank i`  — a rank for every Memoize index `i`,
    * `rrank k`  — a rank bound for every rule `k` of the environment,
    * `live k`   — the Memoize indexes that may be ACTIVE AT THE CALL POSITION (entered, not yet returned,
                   no input consumed since) when rule `k` is entered,
    * `wf`       — the nullability tables of C02's certificate (`mayBeEmpty`),
    * `top`      — a number above every rank in use.

  `pr c r g` ("`g` is productive below rank `r`"): `g` has a way to fail only through a terminal / End —
  every Any / Choice has an alternative, every Sequence has all the elements it cannot do without, whose
  Memoize operands have rank `< r` (and are themselves productive below their own rank), references go to
  rules of rank bound `≤ r`.  It is the usual "every nonterminal derives some string" with the ranks as the
  witness of well-foundedness: a rule of rank `r` has an alternative through rules of smaller rank.

  `ok c L g` ("no error of a curtailed parser escapes next to a success", `L` = the Memoize indexes that may
  be active at the call position): the three places where the parser core returns / records an error NEXT TO
  A RESULT — Optional, a repetition that accepts zero elements, and an element of a Sequence reached
  without consuming input — must be productive below the rank of every index in `L` (`minRank`), i.e. they
  cannot fail through the curtailment of an active parser.  `L` is threaded through the grammar exactly as
  the left-recursion context is: extended at a Memoize, reset after an element that must consume.

  `productive c env root` is the check; Proofs/ProdRun.lean, ProdBlame.lean and ProdLow.lean show what it
  guarantees (Props/C06P.lean: the reported error position equals the furthest failing terminal).  Without it the
  statement is false: D8 (`N → Choice(N)`, no derivation at all) and the new finding D12
  (`P → Optional(Name(P))`: every nonterminal derives a string, and still an error is reported beyond every
  terminal that was tried) — both are rejected by every certificate (Props/C06P.lean).

  Core Lean only.
-/
import ParsleyVerif.Spec.WF
namespace PV

structure ProdCert where
  wf : WFCert
  /-- rank of Memoize index `i` -/
  prank : Nat → Nat
  /-- rank bound of rule `k`: `pr (rrank k) env[k]` -/
  rrank : Nat → Nat
  /-- Memoize indexes that may be active at the call position when rule `k` is entered -/
  live : Nat → List Nat
  top : Nat

namespace Prod

/-- the least rank among the indexes of `L` (`top` for the empty list) -/
def minRank (c : ProdCert) : List Nat → Nat
  | [] => c.top
  | j :: L => min (c.prank j) (minRank c L)

mutual
/-- `g` is productive below rank `r` -/
def pr (c : ProdCert) (r : Nat) : G → Bool
  | .term _ => true
  | .empty => true
  | .eof => true
  | .ref k => decide (c.rrank k ≤ r)
  | .memo i b => decide (c.prank i < r) && pr c (c.prank i) b
  | .any gs => prAny c r gs
  | .choice gs => prAny c r gs
  | .seq k gs _ =>
    match k with
    | .seqTry => prHead c r gs         -- SeqTry succeeds as soon as its first element does
    | _ => prAll c r gs
  | .many g ae _ => ae || pr c r g      -- Many with allowEmpty never fails
  | .sepBy v _ _ _ => pr c r v          -- SepBy fails only through its value parser
  | .optional _ => true
  | .name g _ => pr c r g
  | .ltrim g _ => pr c r g
  | .rtrim g _ => pr c r g
  | .single g => pr c r g
  | .suppress g => pr c r g
def prAny (c : ProdCert) (r : Nat) : List G → Bool
  | [] => false
  | g :: gs => pr c r g || prAny c r gs
def prAll (c : ProdCert) (r : Nat) : List G → Bool
  | [] => true
  | g :: gs => pr c r g && prAll c r gs
def prHead (c : ProdCert) (r : Nat) : List G → Bool
  | [] => false
  | g :: _ => pr c r g
end

mutual
/-- no error of a curtailed parser escapes next to a success; `L`: indexes possibly active at the call position -/
def ok (c : ProdCert) (L : List Nat) : G → Bool
  | .term _ => true
  | .empty => true
  | .eof => true
  | .ref k => L.all (fun j => (c.live k).contains j)
  | .memo i b => pr c (c.prank i) b && ok c (i :: L) b
  | .any gs => okAll c L gs
  | .choice gs => okAll c L gs
  | .seq _ gs _ => okSeq c L true gs
  | .many g ae _ =>
    ok c L g && ok c [] g && pr c c.top g &&
    (!ae || pr c (minRank c L) g) && (!mayBeEmpty c.wf g || pr c (minRank c L) g)
  | .sepBy v s ae _ =>
    ok c L v && ok c [] v && ok c [] s && pr c c.top v && pr c c.top s &&
    (!ae || pr c (minRank c L) v) &&
    (!mayBeEmpty c.wf v || (ok c L s && pr c (minRank c L) s)) &&
    (!(mayBeEmpty c.wf v && mayBeEmpty c.wf s) || pr c (minRank c L) v)
  | .optional g => ok c L g && pr c (minRank c L) g
  | .name g _ => ok c L g
  | .ltrim g _ => ok c L g
  | .rtrim g _ => ok c L g
  | .single g => ok c L g
  | .suppress g => ok c L g
def okAll (c : ProdCert) (L : List Nat) : List G → Bool
  | [] => true
  | g :: gs => ok c L g && okAll c L gs
/-- the elements of a Sequence: the first one may fail through curtailment (the Sequence then fails as a
    whole), every later one is reached next to a result and must not; after an element that must consume
    nothing is active any more -/
def okSeq (c : ProdCert) (L : List Nat) (first : Bool) : List G → Bool
  | [] => true
  | g :: gs =>
    ok c L g && (first || pr c (minRank c L) g) &&
    okSeq c (if mayBeEmpty c.wf g then L else []) false gs
end

/-- **the certificate check** -/
def productive (c : ProdCert) (env : List G) (root : G) : Bool :=
  pr c c.top root && ok c [] root &&
  (List.range env.length).all (fun k => match env[k]? with
    | some g => ok c (c.live k) g && pr c (c.rrank k) g
    | none => true)

/-- a certificate given by finite tables (ranks default to 0, live sets to the empty list) -/
def certOf (wf : WFCert) (pranks rranks : List Nat) (lives : List (List Nat)) (top : Nat) : ProdCert :=
  { wf := wf, prank := fun i => pranks.getD i 0, rrank := fun k => rranks.getD k 0,
    live := fun k => lives.getD k [], top := top }

/-! ### computing a certificate -/

/-- "no rank": the value of an unproductive parser -/
def bigRank : Nat := 1000000

mutual
/-- the least `r` with `pr r g`, given rank tables (`bigRank` when there is none) -/
def rkOf (pranks rranks : List Nat) : G → Nat
  | .term _ => 0
  | .empty => 0
  | .eof => 0
  | .ref k => rranks.getD k bigRank
  | .memo i b =>
    if rkOf pranks rranks b ≤ pranks.getD i bigRank then min bigRank (pranks.getD i bigRank + 1) else bigRank
  | .any gs => rkMin pranks rranks gs
  | .choice gs => rkMin pranks rranks gs
  | .seq k gs _ =>
    match k with
    | .seqTry => rkHead pranks rranks gs
    | _ => rkMax pranks rranks gs
  | .many g ae _ => if ae then 0 else rkOf pranks rranks g
  | .sepBy v _ _ _ => rkOf pranks rranks v
  | .optional _ => 0
  | .name g _ => rkOf pranks rranks g
  | .ltrim g _ => rkOf pranks rranks g
  | .rtrim g _ => rkOf pranks rranks g
  | .single g => rkOf pranks rranks g
  | .suppress g => rkOf pranks rranks g
def rkMin (pranks rranks : List Nat) : List G → Nat
  | [] => bigRank
  | g :: gs => min (rkOf pranks rranks g) (rkMin pranks rranks gs)
def rkMax (pranks rranks : List Nat) : List G → Nat
  | [] => 0
  | g :: gs => max (rkOf pranks rranks g) (rkMax pranks rranks gs)
def rkHead (pranks rranks : List Nat) : List G → Nat
  | [] => bigRank
  | g :: _ => rkOf pranks rranks g
end

/-- table update -/
def setAt (l : List Nat) (i v : Nat) : List Nat :=
  (List.range (max l.length (i + 1))).map (fun j => if j = i then v else l.getD j bigRank)

/-- one round of the rank iteration -/
def rankRound (env : List G) (mn : List (Nat × G)) (t : List Nat × List Nat) : List Nat × List Nat :=
  (mn.foldl (fun pr ib => setAt pr ib.1 (min (pr.getD ib.1 bigRank) (rkOf t.1 t.2 ib.2))) t.1,
   env.map (rkOf t.1 t.2))

mutual
/-- the references reached, each with the indexes possibly active at the call position -/
def refsWith (w : WFCert) (L : List Nat) : G → List (Nat × List Nat)
  | .ref k => [(k, L)]
  | .memo i b => refsWith w (i :: L) b
  | .any gs => refsAll w L gs
  | .choice gs => refsAll w L gs
  | .seq _ gs _ => refsSeq w L gs
  | .many g _ _ => refsWith w L g
  | .sepBy v s _ _ => refsWith w L v ++ refsWith w (if mayBeEmpty w v then L else []) s
  | .optional g => refsWith w L g
  | .name g _ => refsWith w L g
  | .ltrim g _ => refsWith w L g
  | .rtrim g _ => refsWith w L g
  | .single g => refsWith w L g
  | .suppress g => refsWith w L g
  | .term _ => []
  | .empty => []
  | .eof => []
def refsAll (w : WFCert) (L : List Nat) : List G → List (Nat × List Nat)
  | [] => []
  | g :: gs => refsWith w L g ++ refsAll w L gs
def refsSeq (w : WFCert) (L : List Nat) : List G → List (Nat × List Nat)
  | [] => []
  | g :: gs => refsWith w L g ++ refsSeq w (if mayBeEmpty w g then L else []) gs
end

def addLive (lives : List (List Nat)) (kl : Nat × List Nat) : List (List Nat) :=
  (List.range (max lives.length (kl.1 + 1))).map (fun j =>
    if j = kl.1 then (lives.getD j [] ++ kl.2).eraseDups else lives.getD j [])

/-- one round of the live-set iteration -/
def liveRound (w : WFCert) (env : List G) (root : G) (lives : List (List Nat)) : List (List Nat) :=
  let fromRules := (List.range env.length).foldl (fun acc k =>
    match env[k]? with
    | some g => acc ++ refsWith w (lives.getD k []) g
    | none => acc) (refsWith w [] root)
  fromRules.foldl addLive lives

/-- a certificate: least ranks, least live sets, C02's least nullability tables -/
def autoProd (env : List G) (root : G) : ProdCert :=
  let w := autoCert env root
  let mn := allMemoNodes env root
  let n := env.length + mn.length + 1
  let t := iter (rankRound env mn) n ([], env.map (fun _ => bigRank))
  let lives := iter (liveRound w env root) (env.length * (mn.length + 1) + 1) (env.map (fun _ => []))
  { wf := w, prank := fun i => t.1.getD i bigRank, rrank := fun k => t.2.getD k bigRank,
    live := fun k => lives.getD k [], top := bigRank - 1 }

/-- the check with the computed certificate -/
def productiveAuto (env : List G) (root : G) : Bool := productive (autoProd env root) env root

end Prod
end PV
