/-
  Vocabulary shared by the theorems about the parser core (C01, C02, C03, C04, C06):
  which grammars are in scope, what a well-formed (contiguous) tree is.
-/
import ParsleyVerif.Model.Run
import ParsleyVerif.Spec.ReaderSpec
namespace PV
open PV.Text

/-- one past the last byte of the parsed file, as a global position -/
def Cfg.hi (cfg : Cfg) : Nat := cfg.file.offset + cfg.file.len

mutual
/-- grammars over the combinator set of C01–C06: everything except the whitespace trims, every terminal
    satisfying `T` -/
def G.Core (T : Terminal → Prop) : G → Prop
  | .term t => T t
  | .empty => True
  | .eof => True
  | .ref _ => True
  | .memo _ g => g.Core T
  | .any gs => CoreList T gs
  | .choice gs => CoreList T gs
  | .seq _ gs _ => CoreList T gs
  | .many g _ _ => g.Core T
  | .sepBy v s _ _ => v.Core T ∧ s.Core T
  | .optional g => g.Core T
  | .name g _ => g.Core T
  | .single g => g.Core T
  | .suppress g => g.Core T
  | .ltrim _ _ => False
  | .rtrim _ _ => False
def CoreList (T : Terminal → Prop) : List G → Prop
  | [] => True
  | g :: gs => g.Core T ∧ CoreList T gs
end

theorem CoreList_mem {T : Terminal → Prop} : ∀ {gs : List G}, CoreList T gs → ∀ g ∈ gs, g.Core T
  | [], _, g, hg => by cases hg
  | g' :: gs, h, g, hg => by
    simp only [CoreList] at h
    cases hg with
    | head => exact h.1
    | tail _ hm => exact CoreList_mem h.2 g hm

mutual
/-- a well-formed tree: spans nested and contiguous, nothing beyond `hi` -/
def Node.WF (hi : Nat) : Node → Prop
  | .term _ _ p r => p ≤ r ∧ r ≤ hi
  | .empty p => p ≤ hi
  | .eof p => p ≤ hi
  | .nt _ cs p r _ => Chain hi cs p r
/-- `cs` is a contiguous chain of well-formed trees from `p` to `r`: each child starts where its
    predecessor ended -/
def Chain (hi : Nat) : List Node → Nat → Nat → Prop
  | [], p, r => p = r ∧ r ≤ hi
  | c :: cs, p, r => c.pos = p ∧ c.WF hi ∧ Chain hi cs c.rpos r
end

/-- a terminal behaves at every position of the file: a node starts at the call position and lies within
    the file, an error is positioned between the call position and the end of the file (this is what C08
    proves of the built-in terminals) -/
def TermGood (cfg : Cfg) (t : Terminal) : Prop :=
  ∀ pos, InFile cfg.file pos →
    (∀ n, t.parse cfg.params cfg.file pos = .node n → n.pos = pos ∧ n.WF cfg.hi) ∧
    (∀ e, t.parse cfg.params cfg.file pos = .err e → pos ≤ e.pos ∧ e.pos ≤ cfg.hi)

/-- the grammar and every rule of the environment are in scope -/
structure Scope (cfg : Cfg) (g : G) : Prop where
  root : g.Core (TermGood cfg)
  env : ∀ g' ∈ cfg.env, g'.Core (TermGood cfg)

end PV
