/-
  C05 — the classic left-recursive arithmetic grammar, as a closed term, and its reference semantics.

  * `Garith.env`, `Garith.root`: the grammar the harness builds (`arithGrammar()` in
    /verif/harness/cmd/corr/eval.go) — the driver command `gclosed` (Driver/Closed.lean, harness stream C05G)
    checks on every run that the S-expressions the harness sends (and builds the REAL parsers from) denote
    exactly these terms.
  * `arithCustom`: custom interpreter 0 of the harness (binary int64 arithmetic with wrap-around, truncated
    division, "division by zero" at the operator's position).  It is the function `Driver.menuCustom` of
    /verif/lean/Driver/Tree.lean, restated here because the library cannot import the driver;
    Driver/Closed.lean contains `theorem menuCustom_eq : menuCustom = PV.arithCustom := rfl`, so the driver
    does not build if the two drift apart.
  * `Expr`, `refEval`: abstract syntax (operators carry the position of their operator byte) and the reference
    evaluator; `exprOf`: the expression a tree denotes; `IsExprTree` / `IsTermTree` / `IsFactorTree`: the
    trees of the three nonterminals.

  Core only (the driver imports this file).
-/
import ParsleyVerif.Model.Eval
namespace PV
open PV.Text

/-- Go `int64` arithmetic: results wrap around -/
def wrap64 (x : Int) : Int := (x + 9223372036854775808) % 18446744073709551616 - 9223372036854775808

/-- the custom interpreters of the harness: 0 = left-associative binary arithmetic on int64 ([lhs, op, rhs]).
    Textually `Driver.menuCustom` (Driver/Tree.lean); equality is checked by `rfl` in Driver/Closed.lean. -/
def arithCustom : CustomEval := fun id cs _pos ev =>
  match id, cs with
  | 0, [l, op, r] =>
    match ev l with
    | .ok (.int a) =>
      match ev r with
      | .ok (.int b) =>
        match op with
        | .term _ (.rune 43) _ _ => .ok (.int (wrap64 (a + b)))
        | .term _ (.rune 45) _ _ => .ok (.int (wrap64 (a - b)))
        | .term _ (.rune 42) _ _ => .ok (.int (wrap64 (a * b)))
        | .term _ (.rune 47) p _ => if b = 0 then .err p (tokOf "division by zero") else .ok (.int (wrap64 (Int.tdiv a b)))
        | _ => .panic "bad operator"
      | .ok _ => .panic "bad operand"
      | e => e
    | .ok _ => .panic "bad operand"
    | e => e
  | _, _ => .panic "unknown custom interpreter"

/-! ### the grammar -/
namespace Garith

/-- text.Trim = RightTrim(LeftTrim(p, WsSpacesNl), WsSpacesNl) -/
def trim (t : G) : G := .rtrim (.ltrim t .spacesNl) .spacesNl
/-- terminal.Rune(c) for an ASCII `c`; the name is strconv.Quote(string(c)) -/
def rn (c : Nat) : G := .term (.rune c [34, c, 34])
def bin : SeqOpts := { interp := .custom 0 }
def sel1 : SeqOpts := { interp := .select 1 }
/-- `'+' | '-'` -/
def addop : G := .any [trim (rn 43), trim (rn 45)]
/-- `'*' | '/'` -/
def mulop : G := .any [trim (rn 42), trim (rn 47)]
def exprSeq : G := .seq .seqOf [.ref 0, addop, .ref 1] bin
def exprBody : G := .any [exprSeq, .ref 1]
/-- expr → expr addop term | term -/
def expr : G := .memo 0 exprBody
def termSeq : G := .seq .seqOf [.ref 1, mulop, .ref 2] bin
def termBody : G := .any [termSeq, .ref 2]
/-- term → term mulop factor | factor -/
def term : G := .memo 1 termBody
def parenSeq : G := .seq .seqOf [trim (rn 40), .ref 0, trim (rn 41)] sel1
/-- factor → INTEGER | '(' expr ')' -/
def factor : G := .any [trim (.term .integer), parenSeq]

def env : List G := [expr, term, factor]
def root : G := G.sentence (.ref 0)

/-- which parser each Memoize index wraps -/
def bodyOf : Nat → G
  | 0 => exprBody
  | _ => termBody

end Garith

/-! ### reference semantics -/

inductive Op | add | sub | mul | div
deriving Repr, DecidableEq, Inhabited

/-- the operator a rune leaf stands for -/
def Op.ofRune : Nat → Option Op
  | 43 => some .add
  | 45 => some .sub
  | 42 => some .mul
  | 47 => some .div
  | _ => none

/-- binding strength: `+ -` bind weaker (0) than `* /` (1) -/
def Op.level : Op → Nat
  | .add => 0 | .sub => 0 | .mul => 1 | .div => 1

/-- abstract syntax; a binary node carries the position of its operator byte (needed for the error position).
    Left associativity is inherent in the tree. -/
inductive Expr
  | lit (i : Int)
  | bin (o : Op) (l : Expr) (opPos : Nat) (r : Expr)
  | paren (e : Expr)
deriving Repr, Inhabited

abbrev Expr.add (l : Expr) (p : Nat) (r : Expr) : Expr := .bin .add l p r
abbrev Expr.sub (l : Expr) (p : Nat) (r : Expr) : Expr := .bin .sub l p r
abbrev Expr.mul (l : Expr) (p : Nat) (r : Expr) : Expr := .bin .mul l p r
abbrev Expr.div (l : Expr) (p : Nat) (r : Expr) : Expr := .bin .div l p r

/-- one int64 operation; division truncates towards zero, division by zero is an error at the operator -/
def Op.apply (o : Op) (opPos : Nat) (a b : Int) : Except Nat Int :=
  match o with
  | .add => .ok (wrap64 (a + b))
  | .sub => .ok (wrap64 (a - b))
  | .mul => .ok (wrap64 (a * b))
  | .div => if b = 0 then .error opPos else .ok (wrap64 (Int.tdiv a b))

/-- the reference evaluator: left operand first, then the right one, then the operation; the error is the
    position of the offending `/` -/
def refEval : Expr → Except Nat Int
  | .lit i => .ok i
  | .paren e => refEval e
  | .bin o l p r =>
    match refEval l with
    | .error q => .error q
    | .ok a =>
      match refEval r with
      | .error q => .error q
      | .ok b => o.apply p a b

def divZeroMsg : Bytes := tokOf "division by zero"

/-- a reference outcome as an outcome of the evaluator -/
def embed : Except Nat Int → EvalOut
  | .ok v => .ok (.int v)
  | .error p => .err p divZeroMsg

/-! ### trees -/

mutual
/-- the expression a tree denotes: an integer leaf, a binary node `[lhs, operator leaf, rhs]` bound to custom
    interpreter 0, or a `Select(1)` node around `( e )` -/
def exprOf : Node → Option Expr
  | .term _ (.int v) _ _ => some (.lit v)
  | .term _ _ _ _ => none
  | .empty _ => none
  | .eof _ => none
  | .nt _ cs _ _ interp =>
    match interp, cs, exprOfList cs with
    | .custom 0, [_, .term _ (.rune c) p _, _], [some l, _, some r] =>
      (match Op.ofRune c with
       | some o => some (.bin o l p r)
       | none => none)
    | .select 1, _, [_, some e, _] => some (.paren e)
    | _, _, _ => none
def exprOfList : List Node → List (Option Expr)
  | [] => []
  | c :: cs => exprOf c :: exprOfList cs
end

/-- the file has the byte `c` at position `p` (terminal.Rune(c) matched there) -/
def RuneAt (f : File) (c p : Nat) : Prop := ∃ r, readRune f p c = some (r, true)

/-- a leaf produced by terminal.Rune(c) at a position where the file has `c` -/
def IsRuneLeaf (f : File) (c : Nat) (x : Node) : Prop :=
  ∃ p r, x = .term (Utf8.encodeRune c) (.rune c) p r ∧ RuneAt f c p

/-- precedence-indexed trees: level 0 = expr, 1 = term, 2 = factor.
    A binary node of level `n < 2` has a left operand of the same level (left recursion: left-nested chains),
    an operator leaf of that level, and a right operand of the next level. -/
inductive IsTree (f : File) : Nat → Node → Prop
  | int {tok v p r} : IsTree f 2 (.term tok (.int v) p r)
  | paren {tk lp e rp p q} : IsRuneLeaf f 40 lp → IsTree f 0 e → IsRuneLeaf f 41 rp →
      IsTree f 2 (.nt tk [lp, e, rp] p q (.select 1))
  | bin {n tk l c o op r p q} : IsTree f n l → IsRuneLeaf f c op → Op.ofRune c = some o → o.level = n →
      IsTree f (n + 1) r → IsTree f n (.nt tk [l, op, r] p q (.custom 0))
  | up {n x} : IsTree f (n + 1) x → IsTree f n x

/-- trees of `expr`: `[exprTree, '+'|'-', termTree]` under custom 0, or a term tree -/
abbrev IsExprTree (f : File) (x : Node) : Prop := IsTree f 0 x
/-- trees of `term`: `[termTree, '*'|'/', factorTree]` under custom 0, or a factor tree -/
abbrev IsTermTree (f : File) (x : Node) : Prop := IsTree f 1 x
/-- trees of `factor`: an INTEGER leaf with an `.int` value, or `['(', exprTree, ')']` under Select(1) -/
abbrev IsFactorTree (f : File) (x : Node) : Prop := IsTree f 2 x

/-- `y` occurs in `x` -/
inductive Node.Sub (y : Node) : Node → Prop
  | refl : Node.Sub y y
  | child {tk cs p q i c} : c ∈ cs → Node.Sub y c → Node.Sub y (.nt tk cs p q i)

/-- `p` is the position of a `/` leaf of `x`, and the file has `/` there -/
def DivLeafAt (f : File) (x : Node) (p : Nat) : Prop :=
  ∃ r, Node.Sub (.term (Utf8.encodeRune 47) (.rune 47) p r) x ∧ RuneAt f 47 p

end PV
