/-
  C02's hypothesis as a DECIDABLE certificate: "recursive nonterminals are memoized and repetition
  operands consume input".

  A certificate names, for every rule of the environment, whether it may return a zero-width result
  (`nullable`) and a rank; for every Memoize index whether the wrapped parser may return a zero-width
  result (`nullM`); and lists the Memoize indexes in use (`memos`).  `wf cert env root` checks

    (i)   `nullable` / `nullM` are closed under `mayBeEmpty` (the syntactic over-approximation of
          "can return a node that ends where it starts") of the rule bodies / Memoize operands;
    (ii)  every left reference of rule `k` to rule `k'` that is NOT under a Memoize of rule `k`'s body has
          `rank k' < rank k` — every cycle of the left-call graph passes a Memoize;
    (iii) the operand of Many is not `mayBeEmpty`; value and separator of SepBy are not both `mayBeEmpty`;
    (iv)  every Memoize index is listed in `memos`.

  `wfAuto env root` computes the least certificate (least fixpoint for (i), longest-path ranks for (ii))
  and checks it — this is what the driver command `wfcheck` answers, compared on generated grammars with
  the certificate the Go harness decides (harness/cmd/corr/gen.go `wellFormed`).

  Core Lean only (linked into the driver).
-/
import ParsleyVerif.Model.Run
namespace PV

structure WFCert where
  /-- rule `k` may return a zero-width result -/
  nullable : Nat → Bool
  /-- the parser wrapped by Memoize index `i` may return a zero-width result -/
  nullM : Nat → Bool
  rank : Nat → Nat
  /-- the Memoize indexes in use -/
  memos : List Nat

mutual
/-- syntactic over-approximation of "can return a node with `rpos = pos`" -/
def mayBeEmpty (c : WFCert) : G → Bool
  | .term _ => false                   -- part of the scope: terminals consume (see `TermCons`)
  | .empty => true
  | .eof => true
  | .ref k => c.nullable k
  | .memo i _ => c.nullM i
  | .any gs => mbeAny c gs
  | .choice gs => mbeAny c gs
  | .seq k gs _ =>
    match k with
    | .seqOf => mbeAll c gs
    | .seqTry => mbeHead c false gs
    | .seqFirstOrAll => mbeHead c true gs
  | .many g ae _ => ae || mayBeEmpty c g
  | .sepBy v _ ae _ => ae || mayBeEmpty c v
  | .optional _ => true
  | .name g _ => mayBeEmpty c g
  | .ltrim g _ => mayBeEmpty c g
  | .rtrim g _ => mayBeEmpty c g
  | .single g => mayBeEmpty c g
  | .suppress g => mayBeEmpty c g
def mbeAny (c : WFCert) : List G → Bool
  | [] => false
  | g :: gs => mayBeEmpty c g || mbeAny c gs
def mbeAll (c : WFCert) : List G → Bool
  | [] => true
  | g :: gs => mayBeEmpty c g && mbeAll c gs
def mbeHead (c : WFCert) (d : Bool) : List G → Bool
  | [] => d
  | g :: _ => mayBeEmpty c g
end

mutual
/-- the rules referenced at the start position — without passing an element that must consume — and not
    under a Memoize -/
def leftRefsU (c : WFCert) : G → List Nat
  | .ref k => [k]
  | .memo _ _ => []
  | .any gs => leftRefsAll c gs
  | .choice gs => leftRefsAll c gs
  | .seq _ gs _ => leftRefsSeq c gs
  | .many g _ _ => leftRefsU c g
  | .sepBy v s _ _ => leftRefsU c v ++ (if mayBeEmpty c v then leftRefsU c s else [])
  | .optional g => leftRefsU c g
  | .name g _ => leftRefsU c g
  | .ltrim g _ => leftRefsU c g
  | .rtrim g _ => leftRefsU c g
  | .single g => leftRefsU c g
  | .suppress g => leftRefsU c g
  | .term _ => []
  | .empty => []
  | .eof => []
def leftRefsAll (c : WFCert) : List G → List Nat
  | [] => []
  | g :: gs => leftRefsU c g ++ leftRefsAll c gs
def leftRefsSeq (c : WFCert) : List G → List Nat
  | [] => []
  | g :: gs => leftRefsU c g ++ (if mayBeEmpty c g then leftRefsSeq c gs else [])
end

mutual
/-- the local conditions (i, Memoize part), (iii), (iv) at every sub-parser -/
def wfLocal (c : WFCert) : G → Bool
  | .memo i g => c.memos.contains i && (!mayBeEmpty c g || c.nullM i) && wfLocal c g
  | .many g _ _ => !mayBeEmpty c g && wfLocal c g
  | .sepBy v s _ _ => !(mayBeEmpty c v && mayBeEmpty c s) && wfLocal c v && wfLocal c s
  | .any gs => wfLocalList c gs
  | .choice gs => wfLocalList c gs
  | .seq _ gs _ => wfLocalList c gs
  | .optional g => wfLocal c g
  | .name g _ => wfLocal c g
  | .ltrim g _ => wfLocal c g
  | .rtrim g _ => wfLocal c g
  | .single g => wfLocal c g
  | .suppress g => wfLocal c g
  | .term _ => true
  | .empty => true
  | .eof => true
  | .ref _ => true
def wfLocalList (c : WFCert) : List G → Bool
  | [] => true
  | g :: gs => wfLocal c g && wfLocalList c gs
end

/-- the conditions on rule `k` with body `g` -/
def wfRule (c : WFCert) (k : Nat) (g : G) : Bool :=
  wfLocal c g && (!mayBeEmpty c g || c.nullable k) && (leftRefsU c g).all (fun k' => decide (c.rank k' < c.rank k))

/-- **the certificate check** -/
def wf (c : WFCert) (env : List G) (root : G) : Bool :=
  wfLocal c root &&
  (List.range env.length).all (fun k => match env[k]? with | some g => wfRule c k g | none => true)

/-! ### computing the least certificate -/

mutual
/-- every Memoize node (index, operand) of a parser -/
def memoNodes : G → List (Nat × G)
  | .memo i g => (i, g) :: memoNodes g
  | .any gs => memoNodesList gs
  | .choice gs => memoNodesList gs
  | .seq _ gs _ => memoNodesList gs
  | .many g _ _ => memoNodes g
  | .sepBy v s _ _ => memoNodes v ++ memoNodes s
  | .optional g => memoNodes g
  | .name g _ => memoNodes g
  | .ltrim g _ => memoNodes g
  | .rtrim g _ => memoNodes g
  | .single g => memoNodes g
  | .suppress g => memoNodes g
  | .term _ => []
  | .empty => []
  | .eof => []
  | .ref _ => []
def memoNodesList : List G → List (Nat × G)
  | [] => []
  | g :: gs => memoNodes g ++ memoNodesList gs
end

def allMemoNodes (env : List G) (root : G) : List (Nat × G) := memoNodes root ++ memoNodesList env

/-- a certificate given by finite tables -/
def certOf (nullRules nullMemos : List Nat) (ranks : List Nat) (memos : List Nat) : WFCert :=
  { nullable := fun k => nullRules.contains k, nullM := fun i => nullMemos.contains i,
    rank := fun k => ranks.getD k 0, memos := memos }

/-- one round of the nullability iteration -/
def nullStep (env : List G) (mn : List (Nat × G)) (p : List Nat × List Nat) : List Nat × List Nat :=
  let c := certOf p.1 p.2 [] []
  ((List.range env.length).filter (fun k => match env[k]? with | some g => mayBeEmpty c g | none => false),
   (mn.filter (fun ig => mayBeEmpty c ig.2)).map (·.1))

def iter {α : Type} (f : α → α) : Nat → α → α
  | 0, a => a
  | n + 1, a => iter f n (f a)

/-- one round of the longest-path iteration over the un-memoized left-reference graph -/
def rankStep (c : WFCert) (env : List G) (ranks : List Nat) : List Nat :=
  env.map (fun g => (leftRefsU c g).foldl (fun m k' => max m (ranks.getD k' 0 + 1)) 0)

/-- the least certificate: nullability by least fixpoint (it is reached after at most one round per rule
    and Memoize node), ranks = length of the longest un-memoized left-reference path (stable after
    one round per rule iff the graph is acyclic) -/
def autoCert (env : List G) (root : G) : WFCert :=
  let mn := allMemoNodes env root
  let nl := iter (nullStep env mn) (env.length + mn.length + 1) ([], [])
  let memos := mn.map (·.1)
  let c0 := certOf nl.1 nl.2 [] memos
  let ranks := iter (rankStep c0 env) (env.length + 1) (env.map (fun _ => 0))
  certOf nl.1 nl.2 ranks memos

/-- what `wfcheck` answers -/
def wfAuto (env : List G) (root : G) : Bool := wf (autoCert env root) env root

end PV
