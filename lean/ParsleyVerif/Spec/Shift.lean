/-
  Shift maps (property C12): what "the same result, `b` positions further in the file set" means for
  every value the parser core produces.  `shiftFile b f` is the file `f` as it is after
  `SetOffset(f.offset + b)`: same name, same bytes, base offset moved by `b`.
  Every `X.shift b` adds `b` to every position stored in `X` and changes nothing else.
-/
import ParsleyVerif.Model.Run
namespace PV
open PV.Text

/-- the same file, added to a file set `b` positions later -/
def shiftFile (b : Nat) (f : File) : File := { f with offset := f.offset + b }

mutual
def Node.shift (b : Nat) : Node → Node
  | .term t v p r => .term t v (p + b) (r + b)
  | .empty p => .empty (p + b)
  | .eof p => .eof (p + b)
  | .nt t cs p r i => .nt t (Node.shiftList b cs) (p + b) (r + b) i
def Node.shiftList (b : Nat) : List Node → List Node
  | [] => []
  | n :: ns => Node.shift b n :: Node.shiftList b ns
end

def Res.shift (b : Nat) : Res → Res
  | .nil => .nil
  | .one n => .one (n.shift b)
  | .list l => .list (l.map (Node.shift b))

/-- `ErrKind` carries no position -/
def Err.shift (b : Nat) (e : Err) : Err := ⟨e.pos + b, e.kind⟩

def Out.shift (b : Nat) (o : Out) : Out := ⟨o.res.shift b, o.cp, o.err.map (Err.shift b)⟩

/-- the key position and everything stored under it; parser index, left-recursion context and
    curtailing parsers are not positions -/
def CacheEntry.shift (b : Nat) (e : CacheEntry) : CacheEntry :=
  { idx := e.idx, pos := e.pos + b, ctx := e.ctx, cp := e.cp, err := e.err.map (Err.shift b), res := e.res.shift b }

def Ev.shift (b : Nat) : Ev → Ev
  | .termFail p k => .termFail (p + b) k
  | .body i p d => .body i (p + b) d
  | .hit i p => .hit i (p + b)
  | .curtail i p => .curtail i (p + b)

def St.shift (b : Nat) (st : St) : St :=
  { cache := st.cache.map (CacheEntry.shift b),
    ctxErr := st.ctxErr.map (Err.shift b),
    calls := st.calls,
    active := st.active.map (fun a => (a.1, a.2 + b)),
    log := st.log.map (Ev.shift b) }

def TermOut.shift (b : Nat) : TermOut → TermOut
  | .node n => .node (n.shift b)
  | .err e => .err (e.shift b)
  | .panic s => .panic s

def SeqSt.shift (b : Nat) (ss : SeqSt) : SeqSt := ⟨ss.cp, ss.result.shift b, ss.err.map (Err.shift b)⟩

def AltSt.shift (b : Nat) (a : AltSt) : AltSt :=
  ⟨a.cp, a.res.shift b, a.err.map (Err.shift b), a.nf.map (Err.shift b)⟩

def ParseOut.shift (b : Nat) (o : ParseOut) : ParseOut :=
  { res := o.res.shift b, err := o.err.map (Err.shift b), msg := o.msg, st := o.st.shift b }

/-- what `run` returns: the outcome and the context afterwards -/
def shiftOS (b : Nat) (p : Out × St) : Out × St := (p.1.shift b, p.2.shift b)

/-- the same parser configuration on the shifted file: grammar table, parameters, ghost switch and budget
    unchanged (`run` never looks at `fileSet`) -/
def shiftCfg (b : Nat) (cfg : Cfg) : Cfg := { cfg with file := shiftFile b cfg.file }

/-- … and with the file set the shifted file was added to -/
def shiftCfg' (b : Nat) (fs' : FileSet) (cfg : Cfg) : Cfg := { cfg with file := shiftFile b cfg.file, fileSet := fs' }

/-! shifts of what the reader primitives return -/

/-- (new position, flag or value) -/
def shiftP {α : Type} (b : Nat) (r : Nat × α) : Nat × α := (r.1 + b, r.2)

/-- SkipWhitespaces: (new position, error with its position) -/
def shiftWs (b : Nat) (r : Nat × Option (Nat × WsErr)) : Nat × Option (Nat × WsErr) :=
  (r.1 + b, r.2.map (shiftP b))

/-! ### "no position below the file's base offset"
    What `parse` needs so that the rendered location of the reported error can be compared in the two file
    sets: the error lies inside the file, never in whatever precedes it. -/

mutual
def Node.posGE (off : Nat) : Node → Prop
  | .term _ _ p r => off ≤ p ∧ off ≤ r
  | .empty p => off ≤ p
  | .eof p => off ≤ p
  | .nt _ cs p r _ => off ≤ p ∧ off ≤ r ∧ Node.posGEList off cs
def Node.posGEList (off : Nat) : List Node → Prop
  | [] => True
  | n :: ns => Node.posGE off n ∧ Node.posGEList off ns
end

def Res.posGE (off : Nat) : Res → Prop
  | .nil => True
  | .one n => n.posGE off
  | .list l => ∀ n ∈ l, Node.posGE off n

def errGE (off : Nat) (e : Option Err) : Prop := ∀ x, e = some x → off ≤ x.pos

def Out.posGE (off : Nat) (o : Out) : Prop := o.res.posGE off ∧ errGE off o.err

def CacheEntry.posGE (off : Nat) (e : CacheEntry) : Prop := e.res.posGE off ∧ errGE off e.err

/-- every node and every error the context holds (the ghost fields are not constrained) -/
def St.posGE (off : Nat) (st : St) : Prop := (∀ c ∈ st.cache, CacheEntry.posGE off c) ∧ errGE off st.ctxErr

/-- a file set as AddFile builds it, as far as Position is concerned: one recorded offset per file, none
    above the next free position, position 0 never handed out (NewFileSet starts at 1) -/
structure Text.FileSet.WF (fs : FileSet) : Prop where
  len : fs.files.length = fs.offsets.length
  le : ∀ o ∈ fs.offsets, o ≤ fs.pos
  pos : 1 ≤ fs.pos

end PV
