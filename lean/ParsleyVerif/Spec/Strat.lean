/-
  STRATIFIED grammars (property C01: "… non-monotone operators stratified so a least-fixpoint meaning exists").

  Two strata.

  * Stratum 0 (LOW): an arbitrary sub-grammar — every operator, first-match `Choice`, the longest-path
    Sequence family, `Name`/`Single`/`SuppressError`, its own `Memoize` indexes — that is CLOSED (it mentions only
    stratum-0 rules and stratum-0 Memoize indexes) and LEFT-RECURSION-FREE in the sense of the `lrf` certificate
    of Spec/LRF.lean, restricted to it: nullable tables closed (`mayBeEmpty`), the table `lm` of the Memoize
    indexes each stratum-0 rule can enter at its start position closed under left references, and at every
    Memoize node `memo i b`: `i ∉ lrfMemos b`.  Its meaning is the EXACT big-step semantics `Big`
    (Spec/BigStep.lean).
  * Stratum 1 (UPPER): the monotone fragment {term, empty, ref, memo, any, seqOf, optional} — arbitrary left
    recursion (direct, indirect, hidden), cycles, ambiguity — whose leaves are real terminals or LOW LEAVES:
    a reference to a stratum-0 rule, a stratum-0 Memoize node, or any non-monotone operator node
    (choice / many / sepBy / seqTry / seqFirstOrAll / name / single / suppress), closed over stratum 0.

  `stratOK cert env root` is the decidable check.  `DerivesS` is the least-fixpoint meaning of a stratified
  grammar: the rules of `Derives` (Spec/Derives.lean) for the monotone operators of stratum 1, and ONE rule for
  a low leaf — a "macro terminal" whose alternatives are exactly its `Big` result.  `DerivesSC` is the curtailed
  variant (as `DerivesC` of Spec/DerivesC.lean is to `Derives`).

  Core Lean only.
-/
import ParsleyVerif.Spec.LRF
import ParsleyVerif.Spec.BigStep
import ParsleyVerif.Spec.DerivesC
import ParsleyVerif.Spec.Core
namespace PV.Strat
open PV PV.Text

/-- a stratification certificate: which rules / Memoize indexes form stratum 0, and the left-recursion-freeness
    certificate of stratum 0 (of `lrf.wf` only the nullable tables `nullable`, `nullM` are used; of `lrf.lm` only
    the entries of stratum-0 rules) -/
structure Cert where
  /-- rule `k` belongs to stratum 0 -/
  lowRule : Nat → Bool
  /-- Memoize index `i` belongs to stratum 0 -/
  lowIdx : Nat → Bool
  lrf : LRFCert

/-- the token a Sequence-family parser gives its nodes is not "EOF" (a sequence stops enumerating after a chain
    that ends with a node of that token: the `Sentence` wrapper relies on it) -/
def tokOK (o : SeqOpts) (dflt : Bytes) : Bool := decide (o.token.getD dflt ≠ eofTok)

mutual
/-- a stratum-0 parser: closed over stratum 0, no `End` / trims, condition (ii) of `lrf` and the closure of
    `nullM` at every Memoize node -/
def lowOK (s : Cert) : G → Bool
  | .term _ => true
  | .empty => true
  | .eof => false
  | .ref k => s.lowRule k
  | .memo i g => s.lowIdx i && !(lrfMemos s.lrf g).contains i && (!mayBeEmpty s.lrf.wf g || s.lrf.wf.nullM i) && lowOK s g
  | .any gs => lowOKList s gs
  | .choice gs => lowOKList s gs
  | .seq _ gs o => tokOK o seqTok && lowOKList s gs
  | .many g _ o => tokOK o manyTok && lowOK s g
  | .sepBy v sp _ o => tokOK o sepByTok && lowOK s v && lowOK s sp
  | .optional g => lowOK s g
  | .name g _ => lowOK s g
  | .single g => lowOK s g
  | .suppress g => lowOK s g
  | .ltrim _ _ => false
  | .rtrim _ _ => false
def lowOKList (s : Cert) : List G → Bool
  | [] => true
  | g :: gs => lowOK s g && lowOKList s gs
end

/-- a LOW LEAF of a stratum-1 parser: a reference into stratum 0, a stratum-0 Memoize node, or a node of an
    operator outside the monotone fragment -/
def isLowLeaf (s : Cert) : G → Bool
  | .term _ => false
  | .empty => false
  | .any _ => false
  | .optional _ => false
  | .seq .seqOf _ _ => false
  | .ref k => s.lowRule k
  | .memo i _ => s.lowIdx i
  | _ => true

/-- what is asked of a low leaf: a stratum-0 parser that can enter only stratum-0 Memoize indexes at its start -/
def leafOK (s : Cert) (g : G) : Bool := lowOK s g && (lrfMemos s.lrf g).all s.lowIdx

mutual
/-- a stratum-1 parser: the monotone fragment over low leaves -/
def upOK (s : Cert) : G → Bool
  | .term _ => true
  | .empty => true
  | .ref k => !s.lowRule k || leafOK s (.ref k)
  | .memo i g => if s.lowIdx i then leafOK s (.memo i g) else upOK s g
  | .any gs => upOKList s gs
  | .optional g => upOK s g
  | .seq .seqOf gs o => tokOK o seqTok && upOKList s gs
  | .seq .seqTry gs o => leafOK s (.seq .seqTry gs o)
  | .seq .seqFirstOrAll gs o => leafOK s (.seq .seqFirstOrAll gs o)
  | .choice gs => leafOK s (.choice gs)
  | .many g ae o => leafOK s (.many g ae o)
  | .sepBy v sp ae o => leafOK s (.sepBy v sp ae o)
  | .name g nm => leafOK s (.name g nm)
  | .single g => leafOK s (.single g)
  | .suppress g => leafOK s (.suppress g)
  | .eof => false
  | .ltrim _ _ => false
  | .rtrim _ _ => false
def upOKList (s : Cert) : List G → Bool
  | [] => true
  | g :: gs => upOK s g && upOKList s gs
end

/-- the conditions on rule `k` with body `g`: a stratum-0 rule is a stratum-0 parser, and `nullable` and `lm` are
    closed at it (conditions (i) of `wf` and of `lrf`); a stratum-1 rule is a stratum-1 parser -/
def ruleOK (s : Cert) (k : Nat) (g : G) : Bool :=
  if s.lowRule k then
    lowOK s g && (!mayBeEmpty s.lrf.wf g || s.lrf.wf.nullable k) &&
      (lrfMemos s.lrf g).all (fun i => (s.lrf.lm k).contains i)
  else upOK s g

/-- **the stratification check** -/
def stratOK (s : Cert) (env : List G) (root : G) : Bool :=
  upOK s root && (List.range env.length).all (fun k => match env[k]? with | some g => ruleOK s k g | none => true)

/-- a certificate given by finite tables: the stratum-0 rules and Memoize indexes, the nullable stratum-0 rules
    and Memoize indexes, and `lm` -/
def certOf (lowRules lowIdxs nullRules nullMemos : List Nat) (lm : List (List Nat)) : Cert :=
  { lowRule := fun k => lowRules.contains k, lowIdx := fun i => lowIdxs.contains i,
    lrf := lrfCertOf (PV.certOf nullRules nullMemos [] lowIdxs) lm }

/-! ### the meaning of a stratified grammar -/

mutual
/-- `DerivesS cfg s g pos x`: the stratum-1 parser `g` can produce tree `x` at `pos`.  The monotone operators
    have the rules of `Derives`; a low leaf is a macro terminal whose alternatives are its exact result. -/
inductive DerivesS (cfg : Cfg) (s : Cert) : G → Nat → Node → Prop
  /-- a low leaf yields exactly the alternatives of its big-step result -/
  | low {g pos R e x} : isLowLeaf s g = true → Big cfg g pos R e → x ∈ R.alts → DerivesS cfg s g pos x
  | term {t pos n} : t.parse cfg.params cfg.file pos = .node n → DerivesS cfg s (.term t) pos n
  | empty {pos} : DerivesS cfg s .empty pos (.empty pos)
  | ref {k g pos x} : s.lowRule k = false → cfg.env[k]? = some g → DerivesS cfg s g pos x →
      DerivesS cfg s (.ref k) pos x
  | memo {i g pos x} : s.lowIdx i = false → DerivesS cfg s g pos x → DerivesS cfg s (.memo i g) pos x
  | any {gs g pos x} : g ∈ gs → DerivesS cfg s g pos x → DerivesS cfg s (.any gs) pos x
  | optSome {g pos x} : DerivesS cfg s g pos x → DerivesS cfg s (.optional g) pos x
  | optNone {g pos} : DerivesS cfg s (.optional g) pos (.empty pos)
  | seqOf {gs o sh pos nodes} : (G.seq .seqOf gs o).shape = some sh → DerivesSeqS cfg s sh 0 pos nodes →
      sh.lenCheck nodes.length = true → DerivesS cfg s (.seq .seqOf gs o) pos (handleResult sh pos nodes)
inductive DerivesSeqS (cfg : Cfg) (s : Cert) : SeqShape → Nat → Nat → List Node → Prop
  | nil {sh d pos} : DerivesSeqS cfg s sh d pos []
  | cons {sh d pos g n rest} : sh.lookup d = some g → DerivesS cfg s g pos n →
      DerivesSeqS cfg s sh (d + 1) n.rpos rest → DerivesSeqS cfg s sh d pos (n :: rest)
end

mutual
/-- CURTAILED derivations of a stratified grammar (cf. `DerivesC`): a stratum-1 `memo i` may only be entered while
    `c i ≤ remaining pos + curtailSlack`; the counters survive zero-width sequence elements and are reset by the
    first element that consumes.  A low leaf does not look at the counters. -/
inductive DerivesSC (cfg : Cfg) (s : Cert) : (Nat → Nat) → G → Nat → Node → Prop
  | low {c g pos R e x} : isLowLeaf s g = true → Big cfg g pos R e → x ∈ R.alts → DerivesSC cfg s c g pos x
  | term {c t pos n} : t.parse cfg.params cfg.file pos = .node n → DerivesSC cfg s c (.term t) pos n
  | empty {c pos} : DerivesSC cfg s c .empty pos (.empty pos)
  | ref {c k g pos x} : s.lowRule k = false → cfg.env[k]? = some g → DerivesSC cfg s c g pos x →
      DerivesSC cfg s c (.ref k) pos x
  | memo {c i g pos x} : s.lowIdx i = false → c i ≤ remaining cfg.file pos + Facts.curtailSlack →
      DerivesSC cfg s (bump c i) g pos x → DerivesSC cfg s c (.memo i g) pos x
  | any {c gs g pos x} : g ∈ gs → DerivesSC cfg s c g pos x → DerivesSC cfg s c (.any gs) pos x
  | optSome {c g pos x} : DerivesSC cfg s c g pos x → DerivesSC cfg s c (.optional g) pos x
  | optNone {c g pos} : DerivesSC cfg s c (.optional g) pos (.empty pos)
  | seqOf {c gs o sh pos nodes} : (G.seq .seqOf gs o).shape = some sh → DerivesSeqSC cfg s c sh 0 pos nodes →
      sh.lenCheck nodes.length = true → DerivesSC cfg s c (.seq .seqOf gs o) pos (handleResult sh pos nodes)
inductive DerivesSeqSC (cfg : Cfg) (s : Cert) : (Nat → Nat) → SeqShape → Nat → Nat → List Node → Prop
  | nil {c sh d pos} : DerivesSeqSC cfg s c sh d pos []
  | cons {c sh d pos g n rest} : sh.lookup d = some g → DerivesSC cfg s c g pos n →
      DerivesSeqSC cfg s (if n.rpos > pos then zeroC else c) sh (d + 1) n.rpos rest →
      DerivesSeqSC cfg s c sh d pos (n :: rest)
end

/-! ### the semantic side conditions (terminals) -/

mutual
/-- no node of the tree carries the token "EOF" -/
def NoEofDeep : Node → Prop
  | .term t _ _ _ => t ≠ eofTok
  | .empty _ => True
  | .eof _ => False
  | .nt t cs _ _ _ => t ≠ eofTok ∧ NoEofDeepList cs
def NoEofDeepList : List Node → Prop
  | [] => True
  | n :: ns => NoEofDeep n ∧ NoEofDeepList ns
end

/-- what is asked of EVERY terminal: it behaves at every position of the file (`TermGood`, C08) and no node it
    builds carries the token "EOF" -/
def TermS (cfg : Cfg) : G → Prop
  | .term t => TermGood cfg t ∧ (∀ pos n, t.parse cfg.params cfg.file pos = .node n → NoEofDeep n)
  | _ => True

/-- every terminal of the parser is in scope -/
def TermsOK (cfg : Cfg) (g : G) : Prop := g.All (TermS cfg)

/-- what is asked in addition of the terminals of STRATUM 0: they never match the empty lexeme (`TermCons`, the
    scope of C02/C03 — it is what makes `mayBeEmpty (.term _) = false` of the certificate sound) -/
def ConsT (cfg : Cfg) : G → Prop
  | .term t => ∀ pos n, InFile cfg.file pos → t.parse cfg.params cfg.file pos = .node n → n.rpos > pos
  | _ => True

/-- the terminals of a stratum-0 parser consume -/
def TermsCons (cfg : Cfg) (g : G) : Prop := g.All (ConsT cfg)

/-- the terminals below every low leaf of a stratum-1 parser consume -/
def LeafCons (cfg : Cfg) (s : Cert) (g : G) : Prop := g.All (fun g0 => isLowLeaf s g0 = true → TermsCons cfg g0)

end PV.Strat
