/-
  Specification vocabulary of property C10 (whitespace modes / transparency), written over the bytes at
  the cursor (`rest f pos`), independently of `skipWhitespaces` and of `wsVerdict`.
-/
import ParsleyVerif.Spec.ReaderSpec
import ParsleyVerif.Model.Run
namespace PV
open PV.Text

/-- the property's acceptance rule for a mode and the bytes at the cursor `ws`
    (only the whitespace run at its head matters): none ⇒ empty run; spaces ⇒ no line break in the run;
    spaces-and-newlines ⇒ anything; force-newline ⇒ at least one line break in the run -/
def wsOk (m : WsMode) (ws : Bytes) : Prop :=
  match m with
  | .none => wsRun ws = 0
  | .spaces => firstBreak ws = none
  | .spacesNl => True
  | .forceNl => firstBreak ws ≠ none

instance (m : WsMode) (ws : Bytes) : Decidable (wsOk m ws) := by
  unfold wsOk; cases m <;> infer_instance

/-- the property's error for a rejected run starting at `pos`: none ⇒ "whitespaces are not allowed" at the
    start of the run; spaces ⇒ "new line is not allowed" at the first line break; force-newline ⇒ "was
    expecting a new line" at the end of the run.  (spaces-and-newlines never rejects; the value given
    there is never used.) -/
def wsFail (m : WsMode) (pos : Nat) (ws : Bytes) : Err :=
  match m with
  | .none => ⟨pos, .ws .noneErr⟩
  | .spaces => ⟨pos + (firstBreak ws).getD 0, .ws .spacesErr⟩
  | .spacesNl => ⟨pos, .ws .noneErr⟩
  | .forceNl => ⟨pos + wsRun ws, .ws .forceNlErr⟩

/-- text.Trim(p) = RightTrim(LeftTrim(p, WsSpacesNl), WsSpacesNl), as the harness translates it -/
def G.trim (g : G) : G := .rtrim (.ltrim g .spacesNl) .spacesNl

/-! ### token sequences with trimming decorations -/

/-- how a token is decorated -/
inductive Deco
  | bare
  | l (m : WsMode)                 -- LeftTrim(t, m)
  | r (m : WsMode)                 -- RightTrim(t, m)
  | lr (lm rm : WsMode)            -- LeftTrim(RightTrim(t, rm), lm)
  | rl (lm rm : WsMode)            -- RightTrim(LeftTrim(t, lm), rm);  text.Trim(t) = rl spacesNl spacesNl
deriving Repr, DecidableEq, Inhabited

def Deco.apply : Deco → G → G
  | .bare, g => g
  | .l m, g => .ltrim g m
  | .r m, g => .rtrim g m
  | .lr lm rm, g => .ltrim (.rtrim g rm) lm
  | .rl lm rm, g => .rtrim (.ltrim g lm) rm

def Deco.left : Deco → Option WsMode
  | .bare => none | .l m => some m | .r _ => none | .lr lm _ => some lm | .rl lm _ => some lm
def Deco.right : Deco → Option WsMode
  | .bare => none | .l _ => none | .r m => some m | .lr _ rm => some rm | .rl _ rm => some rm

/-- a single-byte token `terminal.Rune(ch)` with its decoration and the whitespace that follows it in the input -/
structure Tok where
  ch : Nat
  name : Bytes          -- strconv.Quote(string(ch)), only used in error messages
  d : Deco
  gap : Bytes
deriving Repr, Inhabited

def Tok.g (t : Tok) : G := t.d.apply (.term (.rune t.ch t.name))

/-- every gap is made of the four whitespace bytes, every token byte is ASCII and not a whitespace byte -/
def Tok.wf (t : Tok) : Prop := t.ch < 0x80 ∧ isWs t.ch = false ∧ ∀ b ∈ t.gap, isWs b = true

/-- the input: leading whitespace `g0`, then every token followed by its gap -/
def weave (g0 : Bytes) : List Tok → Bytes
  | [] => g0
  | t :: r => g0 ++ t.ch :: weave t.gap r

/-- "every gap satisfies every mode that looks at it".  `pend` is the whitespace between the parser's
    current position and the next token.  A left-trimmed token looks at `pend`; an untrimmed left side
    needs `pend = []` (nothing would skip it).  A right-trimmed token looks at its gap and consumes it, so
    the next token's left side sees an empty run; otherwise the gap is still pending for the next token.
    Whatever follows the last token is not looked at by SeqOf. -/
def Adm : Bytes → List Tok → Prop
  | _, [] => True
  | pend, t :: r =>
    (match t.d.left with | some m => wsOk m pend | none => pend = []) ∧
    (match t.d.right with | some m => wsOk m t.gap ∧ Adm [] r | none => Adm t.gap r)

/-- the token nodes the property demands: token and value are those of the bare terminal, `pos` is the
    position of the token's own byte, and only a right-trimmed node's end moves past its gap -/
def tokNodes (pos : Nat) (pend : Bytes) : List Tok → List Node
  | [] => []
  | t :: r =>
    let p := pos + pend.length
    match t.d.right with
    | some _ => .term (Utf8.encodeRune t.ch) (.rune t.ch) p (p + 1 + t.gap.length) :: tokNodes (p + 1 + t.gap.length) [] r
    | none => .term (Utf8.encodeRune t.ch) (.rune t.ch) p (p + 1) :: tokNodes (p + 1) t.gap r

/-- where the parser stands after the tokens: the end of the last token, past its gap if it is right-trimmed -/
def endPos (pos : Nat) (pend : Bytes) : List Tok → Nat
  | [] => pos
  | t :: r =>
    match t.d.right with
    | some _ => endPos (pos + pend.length + 1 + t.gap.length) [] r
    | none => endPos (pos + pend.length + 1) t.gap r

/-- position-free view of a node: token and value -/
def Node.tv : Node → Bytes × Option Val
  | .term t v _ _ => (t, some v)
  | n => (n.token, none)

end PV
