/-
  C16, full value theorem — the SUPPORTED SUBSET of JSON as data, its rendering as bytes, and the tree the
  example parser must find.

  * `JDoc`: a document of the supported subset — an abstract JSON value together with the whitespace chosen for
    every gap (so a `JDoc` is a pair "abstract value, layout" in one tree; `JV`, `Layout`, `decorate` below give
    the two halves separately, `renderJ v l = (decorate v l).render`):
      null | bool | int (an `Int`, rendered as its canonical decimal lexeme) | dec (sign, integer part, fraction,
      optional exponent) | str (a list of string elements: plain ASCII byte, one of the escapes
      `\" \\ \b \f \n \r \t`, `\uXXXX`, a raw code point ≥ U+0080 as UTF-8) | arr | obj,
    items / members carrying `wc` (whitespace before the `,` that precedes them — not rendered for the first
    one), `wb` (whitespace before the value / key), members also `wk` (before `:`) and `wv` (before the value);
    arrays and objects carry `close` (whitespace before the closer).
  * `JDoc.render`: the bytes; `JDoc.tree d p`: the tree of `d` when its first byte stands at position `p`
    (tokens, values, all positions); `JDoc.val`: the JSON value (`JVal` of Spec/JsonSem.lean) it denotes.
  * `JDoc.OK` ("Supported" + "admissible layout"): integers in int64 range; decimals with a non-empty integer
    part without superfluous leading zero, a non-empty fraction, an optional exponent `[eE][+-]?[0-9]+`;
    string elements: plain bytes 0x20 … 0x7F other than `"` and `\`, the seven escapes, `\uXXXX` with four hex
    digits that is not a surrogate, raw scalar values ≥ U+0080; whitespace before values / keys / closers from
    space, tab, LF (`WsNl`), before `,` and `:` from space, tab (`WsSp`).

  Core only.
-/
import ParsleyVerif.Spec.JsonSem
import ParsleyVerif.Spec.LangString
namespace PV
open PV.Text

/-! ### strings -/

/-- an element of a string literal -/
inductive SElem
  | plain (b : Nat)
  | esc (e : Nat)
  | uni (h1 h2 h3 h4 : Nat)
  | utf8 (c : Nat)
deriving Repr, DecidableEq, Inhabited

/-- the code point `\e` denotes -/
def escCode (e : Nat) : Nat :=
  if e = 98 then 8 else if e = 102 then 12 else if e = 110 then 10 else if e = 114 then 13 else if e = 116 then 9 else e

namespace SElem
def render : SElem → Bytes
  | .plain b => [b]
  | .esc e => [92, e]
  | .uni a b c d => [92, 117, a, b, c, d]
  | .utf8 c => Utf8.encodeRune c
/-- the code point the element denotes -/
def code : SElem → Nat
  | .plain b => b
  | .esc e => escCode e
  | .uni a b c d => Lang.digitsValue 16 [a, b, c, d]
  | .utf8 c => c
/-- its contribution to the value: the UTF-8 encoding of the code point -/
def decode (e : SElem) : Bytes := Utf8.encodeRune e.code
def OK : SElem → Prop
  | .plain b => 0x20 ≤ b ∧ b < 0x80 ∧ b ≠ 34 ∧ b ≠ 92
  | .esc e => e = 34 ∨ e = 92 ∨ e = 98 ∨ e = 102 ∨ e = 110 ∨ e = 114 ∨ e = 116
  | .uni a b c d => Lang.hexDigit a = true ∧ Lang.hexDigit b = true ∧ Lang.hexDigit c = true ∧ Lang.hexDigit d = true ∧
      Utf8.isSurrogate (Lang.digitsValue 16 [a, b, c, d]) = false
  | .utf8 c => 0x80 ≤ c ∧ Utf8.validRune c = true
end SElem

def renderElems : List SElem → Bytes
  | [] => []
  | e :: r => e.render ++ renderElems r
def renderStr (s : List SElem) : Bytes := 34 :: (renderElems s ++ [34])
def decodeStr : List SElem → Bytes
  | [] => []
  | e :: r => e.decode ++ decodeStr r

/-! ### numbers -/

def natDigitsAux : Nat → Nat → Bytes → Bytes
  | 0, _, acc => acc
  | fuel + 1, n, acc => if n < 10 then (48 + n) :: acc else natDigitsAux fuel (n / 10) ((48 + n % 10) :: acc)
/-- the decimal digits of `n`, most significant first, no leading zero (`0` is `"0"`) -/
def natDigits (n : Nat) : Bytes := natDigitsAux (n + 1) n []
/-- the canonical lexeme of an integer -/
def renderInt (i : Int) : Bytes := if i < 0 then 45 :: natDigits i.natAbs else natDigits i.natAbs

def AllDigits (l : Bytes) : Prop := ∀ b ∈ l, 48 ≤ b ∧ b ≤ 57

/-- a decimal: `-? ip . fr ([eE] [+-]? digits)?` -/
structure DecLex where
  neg : Bool
  ip : Bytes
  fr : Bytes
  ex : Option (Nat × Option Nat × Bytes)
deriving Repr, DecidableEq, Inhabited

namespace DecLex
def renderEx : Option (Nat × Option Nat × Bytes) → Bytes
  | none => []
  | some (e, none, ds) => e :: ds
  | some (e, some s, ds) => e :: s :: ds
def render (d : DecLex) : Bytes := (if d.neg then [45] else []) ++ (d.ip ++ 46 :: (d.fr ++ renderEx d.ex))
def OK (d : DecLex) : Prop :=
  AllDigits d.ip ∧ d.ip ≠ [] ∧ (d.ip = [48] ∨ d.ip.head? ≠ some 48) ∧ AllDigits d.fr ∧ d.fr ≠ [] ∧
  (match d.ex with
   | none => True
   | some (e, s, ds) => (e = 101 ∨ e = 69) ∧ (s = none ∨ s = some 43 ∨ s = some 45) ∧ ds ≠ [] ∧ AllDigits ds)
end DecLex

/-! ### documents -/

/-- whitespace before values, keys and closers (LeftTrim in mode WsSpacesNl): spaces, tabs, LF -/
def WsNl (w : Bytes) : Prop := ∀ b ∈ w, b = 32 ∨ b = 9 ∨ b = 10
/-- whitespace before `,` and `:` (LeftTrim in mode WsSpaces): spaces, tabs -/
def WsSp (w : Bytes) : Prop := ∀ b ∈ w, b = 32 ∨ b = 9

mutual
inductive JDoc
  | null
  | bool (b : Bool)
  | int (i : Int)
  | dec (d : DecLex)
  | str (s : List SElem)
  | arr (items : JItems) (close : Bytes)
  | obj (mems : JMems) (close : Bytes)
inductive JItems
  | nil
  | cons (wc wb : Bytes) (d : JDoc) (r : JItems)
inductive JMems
  | nil
  | cons (wc wb : Bytes) (k : List SElem) (wk wv : Bytes) (d : JDoc) (r : JMems)
end

mutual
def JDoc.render : JDoc → Bytes
  | .null => [110, 117, 108, 108]
  | .bool true => [116, 114, 117, 101]
  | .bool false => [102, 97, 108, 115, 101]
  | .int i => renderInt i
  | .dec d => d.render
  | .str s => renderStr s
  | .arr .nil close => 91 :: (close ++ [93])
  | .arr (.cons _ wb d r) close => 91 :: (wb ++ (d.render ++ (r.renderMore ++ (close ++ [93]))))
  | .obj .nil close => 123 :: (close ++ [125])
  | .obj (.cons _ wb k wk wv d r) close =>
    123 :: (wb ++ (renderStr k ++ (wk ++ 58 :: (wv ++ (d.render ++ (r.renderMore ++ (close ++ [125])))))))
/-- the items after the first: each preceded by its `,` -/
def JItems.renderMore : JItems → Bytes
  | .nil => []
  | .cons wc wb d r => wc ++ 44 :: (wb ++ (d.render ++ r.renderMore))
def JMems.renderMore : JMems → Bytes
  | .nil => []
  | .cons wc wb k wk wv d r => wc ++ 44 :: (wb ++ (renderStr k ++ (wk ++ 58 :: (wv ++ (d.render ++ r.renderMore)))))
end

def strTok : Bytes := [83, 84, 82, 73, 78, 71]
def intTok : Bytes := [73, 78, 84, 69, 71, 69, 82]
def floatTok : Bytes := [70, 76, 79, 65, 84]
def boolTok : Bytes := [66, 79, 79, 76]
def nilTok : Bytes := [78, 73, 76]

/-- a rune leaf -/
def runeLeaf (c p : Nat) : Node := .term [c] (.rune c) p (p + 1)

/-- the key/value node whose key's opening quote stands at `p` -/
def kvNode (k : List SElem) (wk wv : Bytes) (vlen : Nat) (vt : Nat → Node) (p : Nat) : Node :=
  let a := p + (renderStr k).length
  let c := a + wk.length
  let v := c + 1 + wv.length
  .nt seqTok [.term strTok (.str (decodeStr k)) p a, runeLeaf 58 c, vt v] p (v + vlen) .none

mutual
/-- the tree of `d` when its first byte stands at position `p` -/
def JDoc.tree : JDoc → Nat → Node
  | .null, p => .term nilTok .nil p (p + 4)
  | .bool true, p => .term boolTok (.bool true) p (p + 4)
  | .bool false, p => .term boolTok (.bool false) p (p + 5)
  | .int i, p => .term intTok (.int i) p (p + (renderInt i).length)
  | .dec d, p => .term floatTok (.float d.render) p (p + d.render.length)
  | .str s, p => .term strTok (.str (decodeStr s)) p (p + (renderStr s).length)
  | .arr .nil close, p =>
    .nt seqTok [runeLeaf 91 p, .nt sepByTok [] (p + 1) (p + 1) .array, runeLeaf 93 (p + 1 + close.length)]
      p (p + 1 + close.length + 1) (.select 1)
  | .arr (.cons _ wb d r) close, p =>
    let q := p + 1 + wb.length
    let e := q + d.render.length
    let fin := e + r.renderMore.length
    .nt seqTok [runeLeaf 91 p, .nt sepByTok (d.tree q :: r.moreNodes e) q fin .array, runeLeaf 93 (fin + close.length)]
      p (fin + close.length + 1) (.select 1)
  | .obj .nil close, p =>
    .nt seqTok [runeLeaf 123 p, .nt sepByTok [] (p + 1) (p + 1) .object, runeLeaf 125 (p + 1 + close.length)]
      p (p + 1 + close.length + 1) (.select 1)
  | .obj (.cons _ wb k wk wv d r) close, p =>
    let q := p + 1 + wb.length
    let e := q + (renderStr k).length + wk.length + 1 + wv.length + d.render.length
    let fin := e + r.renderMore.length
    .nt seqTok [runeLeaf 123 p,
        .nt sepByTok (kvNode k wk wv d.render.length d.tree q :: r.moreNodes e) q fin .object,
        runeLeaf 125 (fin + close.length)]
      p (fin + close.length + 1) (.select 1)
/-- the nodes of the items after the first (`,` leaf, value tree, …) when `renderMore` starts at `p` -/
def JItems.moreNodes : JItems → Nat → List Node
  | .nil, _ => []
  | .cons wc wb d r, p =>
    let c := p + wc.length
    let q := c + 1 + wb.length
    runeLeaf 44 c :: d.tree q :: r.moreNodes (q + d.render.length)
def JMems.moreNodes : JMems → Nat → List Node
  | .nil, _ => []
  | .cons wc wb k wk wv d r, p =>
    let c := p + wc.length
    let q := c + 1 + wb.length
    runeLeaf 44 c :: kvNode k wk wv d.render.length d.tree q ::
      r.moreNodes (q + (renderStr k).length + wk.length + 1 + wv.length + d.render.length)
end

mutual
/-- the JSON value the document denotes -/
def JDoc.val : JDoc → JVal
  | .null => .null
  | .bool b => .bool b
  | .int i => .int i
  | .dec d => .float d.render
  | .str s => .str (decodeStr s)
  | .arr items _ => .arr items.vals
  | .obj mems _ => .obj mems.vals
def JItems.vals : JItems → List JVal
  | .nil => []
  | .cons _ _ d r => d.val :: r.vals
def JMems.vals : JMems → List (Bytes × JVal)
  | .nil => []
  | .cons _ _ k _ _ d r => (decodeStr k, d.val) :: r.vals
end

def StrOK (s : List SElem) : Prop := ∀ e ∈ s, e.OK

mutual
/-- the supported subset with an admissible layout -/
def JDoc.OK : JDoc → Prop
  | .null => True
  | .bool _ => True
  | .int i => -(2 : Int) ^ 63 ≤ i ∧ i < (2 : Int) ^ 63
  | .dec d => d.OK
  | .str s => StrOK s
  | .arr items close => items.OK ∧ WsNl close
  | .obj mems close => mems.OK ∧ WsNl close
def JItems.OK : JItems → Prop
  | .nil => True
  | .cons wc wb d r => WsSp wc ∧ WsNl wb ∧ d.OK ∧ r.OK
def JMems.OK : JMems → Prop
  | .nil => True
  | .cons wc wb k wk wv d r => WsSp wc ∧ WsNl wb ∧ StrOK k ∧ WsSp wk ∧ WsNl wv ∧ d.OK ∧ r.OK
end

mutual
/-- strconv.ParseFloat accepts every decimal lexeme of the document (it is a parameter of the model) -/
def JDoc.FloatsOk (P : Params) : JDoc → Prop
  | .dec d => P.floatOk d.render = true
  | .arr items _ => items.FloatsOk P
  | .obj mems _ => mems.FloatsOk P
  | _ => True
def JItems.FloatsOk (P : Params) : JItems → Prop
  | .nil => True
  | .cons _ _ d r => d.FloatsOk P ∧ r.FloatsOk P
def JMems.FloatsOk (P : Params) : JMems → Prop
  | .nil => True
  | .cons _ _ _ _ _ d r => d.FloatsOk P ∧ r.FloatsOk P
end

/-- the whole input: the document between leading and trailing whitespace (Trim) -/
def renderDoc (lead : Bytes) (d : JDoc) (trail : Bytes) : Bytes := lead ++ (d.render ++ trail)


/-! ### abstract values and layouts, separately

    `JV` is the abstract JSON value (no whitespace), `Layout` the whitespace chosen for every gap, as a tree of
    the same shape; `JV.decorate v l : JDoc` puts them together (total: where the layout's shape does not fit the
    value's, or runs out, the remaining gaps are empty), `renderJ lead v l trail` are the bytes of the document. -/

mutual
inductive JV
  | null
  | bool (b : Bool)
  | int (i : Int)
  | dec (d : DecLex)
  | str (s : List SElem)
  | arr (l : JVs)
  | obj (l : JKVs)
inductive JVs
  | nil
  | cons (v : JV) (r : JVs)
inductive JKVs
  | nil
  | cons (k : List SElem) (v : JV) (r : JKVs)
end

mutual
inductive Layout
  | leaf
  | arr (items : LItems) (close : Bytes)
  | obj (mems : LMems) (close : Bytes)
inductive LItems
  | nil
  | cons (wc wb : Bytes) (l : Layout) (r : LItems)
inductive LMems
  | nil
  | cons (wc wb wk wv : Bytes) (l : Layout) (r : LMems)
end

mutual
def JV.decorate : JV → Layout → JDoc
  | .null, _ => .null
  | .bool b, _ => .bool b
  | .int i, _ => .int i
  | .dec d, _ => .dec d
  | .str s, _ => .str s
  | .arr vs, .arr ls close => .arr (vs.decorate ls) close
  | .arr vs, .leaf => .arr (vs.decorate .nil) []
  | .arr vs, .obj _ _ => .arr (vs.decorate .nil) []
  | .obj kvs, .obj ls close => .obj (kvs.decorate ls) close
  | .obj kvs, .leaf => .obj (kvs.decorate .nil) []
  | .obj kvs, .arr _ _ => .obj (kvs.decorate .nil) []
def JVs.decorate : JVs → LItems → JItems
  | .nil, _ => .nil
  | .cons v r, .cons wc wb l ls => .cons wc wb (v.decorate l) (r.decorate ls)
  | .cons v r, .nil => .cons [] [] (v.decorate .leaf) (r.decorate .nil)
def JKVs.decorate : JKVs → LMems → JMems
  | .nil, _ => .nil
  | .cons k v r, .cons wc wb wk wv l ls => .cons wc wb k wk wv (v.decorate l) (r.decorate ls)
  | .cons k v r, .nil => .cons [] [] k [] [] (v.decorate .leaf) (r.decorate .nil)
end

mutual
/-- the JSON value (`JVal`: integers as int64 values, decimals as their lexeme, strings as decoded bytes, objects
    as member lists in source order) -/
def JV.val : JV → JVal
  | .null => .null
  | .bool b => .bool b
  | .int i => .int i
  | .dec d => .float d.render
  | .str s => .str (decodeStr s)
  | .arr l => .arr l.vals
  | .obj l => .obj l.vals
def JVs.vals : JVs → List JVal
  | .nil => []
  | .cons v r => v.val :: r.vals
def JKVs.vals : JKVs → List (Bytes × JVal)
  | .nil => []
  | .cons k v r => (decodeStr k, v.val) :: r.vals
end

mutual
/-- the supported subset: integers in int64 range, decimals and strings of the supported syntax -/
def JV.Supported : JV → Prop
  | .null => True
  | .bool _ => True
  | .int i => -(2 : Int) ^ 63 ≤ i ∧ i < (2 : Int) ^ 63
  | .dec d => d.OK
  | .str s => StrOK s
  | .arr l => l.Supported
  | .obj l => l.Supported
def JVs.Supported : JVs → Prop
  | .nil => True
  | .cons v r => v.Supported ∧ r.Supported
def JKVs.Supported : JKVs → Prop
  | .nil => True
  | .cons k v r => StrOK k ∧ v.Supported ∧ r.Supported
end

mutual
/-- strconv.ParseFloat accepts every decimal lexeme of the value -/
def JV.FloatsOk (P : Params) : JV → Prop
  | .dec d => P.floatOk d.render = true
  | .arr l => l.FloatsOk P
  | .obj l => l.FloatsOk P
  | _ => True
def JVs.FloatsOk (P : Params) : JVs → Prop
  | .nil => True
  | .cons v r => v.FloatsOk P ∧ r.FloatsOk P
def JKVs.FloatsOk (P : Params) : JKVs → Prop
  | .nil => True
  | .cons _ v r => v.FloatsOk P ∧ r.FloatsOk P
end

mutual
/-- admissible layout: every gap holds only the whitespace its mode accepts -/
def Layout.Adm : Layout → Prop
  | .leaf => True
  | .arr items close => items.Adm ∧ WsNl close
  | .obj mems close => mems.Adm ∧ WsNl close
def LItems.Adm : LItems → Prop
  | .nil => True
  | .cons wc wb l r => WsSp wc ∧ WsNl wb ∧ l.Adm ∧ r.Adm
def LMems.Adm : LMems → Prop
  | .nil => True
  | .cons wc wb wk wv l r => WsSp wc ∧ WsNl wb ∧ WsSp wk ∧ WsNl wv ∧ l.Adm ∧ r.Adm
end

/-- the rendered document: leading whitespace, the value laid out by `l`, trailing whitespace -/
def renderJ (lead : Bytes) (v : JV) (l : Layout) (trail : Bytes) : Bytes := renderDoc lead (v.decorate l) trail

end PV
