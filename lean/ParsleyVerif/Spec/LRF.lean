/-
  C03's hypothesis "left-recursion-free" as a DECIDABLE certificate.

  A certificate is a C02 certificate (`WFCert`: nullable tables, ranks, Memoize indexes — Spec/WF.lean)
  plus, for every rule `k`, a list `lm k` of the Memoize indexes that can be ENTERED AT THE START POSITION
  of rule `k` (through any number of left references, under a Memoize or not).  `lrf cert env root` checks

    (o)   the C02 check `wf` (so `lrf → wf`: nullable tables closed, every cycle of the left-call graph passes
          a Memoize, repetition operands consume);
    (i)   `lm` is closed: every Memoize index at a left position of the body of rule `k` — directly, or
          through a left reference to rule `k'` (then all of `lm k'`) — is in `lm k`;
    (ii)  at EVERY Memoize node `memo i b` of the grammar (root and rules, left position or not):
          `i` is not among the Memoize indexes at the left positions of its own operand `b`.

  (o)+(ii) is "no left recursion at all": by (o) a left cycle of rules passes a Memoize `i`, whose operand then
  reaches, at its start position, that same Memoize again — excluded by (ii).  Conversely a grammar whose full
  left-call graph (references under a Memoize included) is acyclic, and in which the occurrences of one
  Memoize index are copies of one parser inside one rule (what `combinator.Memoize` gives), satisfies (ii).

  Why not "a rank that strictly decreases along every left reference, tagged or not" alone: the model's
  grammars carry arbitrary Memoize indexes, and `[memo 0 (ref 1), memo 0 a]` has decreasing ranks while
  Memoize 0 is re-entered at the same position (Props/C03L.lean `c03l_rank_alone_insufficient`).  Condition
  (ii) speaks about the indexes themselves and needs no discipline on them.

  `lrfAuto env root` computes the least certificate (`autoCert` of Spec/WF.lean; `lm` by least fixpoint,
  reached after one round per rule) and checks it — what the driver command `lrfcheck` answers, compared on
  generated grammars with the generator's own notion (harness/cmd/corr/gen.go `wellFormed(…, all=true)`).

  Core Lean only (linked into the driver).
-/
import ParsleyVerif.Spec.WF
namespace PV

structure LRFCert where
  wf : WFCert
  /-- the Memoize indexes that can be entered at the start position of rule `k` -/
  lm : Nat → List Nat

mutual
/-- the Memoize indexes at the start position of a parser — without passing an element that must consume;
    a reference stands for the table entry of its rule -/
def lrfMemos (c : LRFCert) : G → List Nat
  | .ref k => c.lm k
  | .memo i g => i :: lrfMemos c g
  | .any gs => lrfMemosAny c gs
  | .choice gs => lrfMemosAny c gs
  | .seq _ gs _ => lrfMemosSeq c gs
  | .many g _ _ => lrfMemos c g
  | .sepBy v s _ _ => lrfMemos c v ++ (if mayBeEmpty c.wf v then lrfMemos c s else [])
  | .optional g => lrfMemos c g
  | .name g _ => lrfMemos c g
  | .ltrim g _ => lrfMemos c g
  | .rtrim g _ => lrfMemos c g
  | .single g => lrfMemos c g
  | .suppress g => lrfMemos c g
  | .term _ => []
  | .empty => []
  | .eof => []
def lrfMemosAny (c : LRFCert) : List G → List Nat
  | [] => []
  | g :: gs => lrfMemos c g ++ lrfMemosAny c gs
def lrfMemosSeq (c : LRFCert) : List G → List Nat
  | [] => []
  | g :: gs => lrfMemos c g ++ (if mayBeEmpty c.wf g then lrfMemosSeq c gs else [])
end

mutual
/-- condition (ii) at every sub-parser -/
def lrfLocal (c : LRFCert) : G → Bool
  | .memo i g => !(lrfMemos c g).contains i && lrfLocal c g
  | .many g _ _ => lrfLocal c g
  | .sepBy v s _ _ => lrfLocal c v && lrfLocal c s
  | .any gs => lrfLocalList c gs
  | .choice gs => lrfLocalList c gs
  | .seq _ gs _ => lrfLocalList c gs
  | .optional g => lrfLocal c g
  | .name g _ => lrfLocal c g
  | .ltrim g _ => lrfLocal c g
  | .rtrim g _ => lrfLocal c g
  | .single g => lrfLocal c g
  | .suppress g => lrfLocal c g
  | .term _ => true
  | .empty => true
  | .eof => true
  | .ref _ => true
def lrfLocalList (c : LRFCert) : List G → Bool
  | [] => true
  | g :: gs => lrfLocal c g && lrfLocalList c gs
end

/-- conditions (i) and (ii) on rule `k` with body `g` -/
def lrfRule (c : LRFCert) (k : Nat) (g : G) : Bool :=
  lrfLocal c g && (lrfMemos c g).all (fun i => (c.lm k).contains i)

/-- **the certificate check** -/
def lrf (c : LRFCert) (env : List G) (root : G) : Bool :=
  wf c.wf env root && lrfLocal c root &&
  (List.range env.length).all (fun k => match env[k]? with | some g => lrfRule c k g | none => true)

/-! ### computing the least certificate -/

/-- a certificate whose `lm` is given by a finite table -/
def lrfCertOf (w : WFCert) (tab : List (List Nat)) : LRFCert := { wf := w, lm := fun k => tab.getD k [] }

/-- one round of the closure of `lm` -/
def lrfLmStep (w : WFCert) (env : List G) (tab : List (List Nat)) : List (List Nat) :=
  env.map (fun g => (lrfMemos (lrfCertOf w tab) g).eraseDups)

/-- the least certificate: the C02 one, and `lm` by least fixpoint (a Memoize reachable at the start of a
    rule is reachable through a chain of distinct rules: one round per rule) -/
def lrfAutoCert (env : List G) (root : G) : LRFCert :=
  let w := autoCert env root
  lrfCertOf w (iter (lrfLmStep w env) (env.length + 1) (env.map (fun _ => [])))

/-- what `lrfcheck` answers -/
def lrfAuto (env : List G) (root : G) : Bool := lrf (lrfAutoCert env root) env root

end PV
