/-
  C02's certificate extended to the WHOLE combinator set (whitespace trims included) and to EVERY
  built-in terminal of Model/Terminal.lean.

  `wfT rx cert env root` is the check of Spec/WF.lean (`wf`) with one change: a terminal is no longer
  assumed to consume.  `termNullable rx t` says which terminals may return a zero-width node:

    * `Regexp` with expression id `i` — exactly when the certificate declares it so (`rx i = true`);
      declaring `rx i = false` is a CLAIM about the regexp engine ("expression `i` never matches the
      empty prefix of a non-empty rest", `RxSound` in Proofs/WFTTerm.lean) and is a hypothesis of the
      theorem; `rx := fun _ => true` needs no hypothesis;
    * no other terminal: Rune, Op, Word, Bool, Nil, Integer, Float, String, Char, TimeDuration consume
      at least one byte whenever they return a node, for ALL construction parameters (the empty Op / Word /
      Bool / Nil word never returns a node: it is the documented panic of MatchString / MatchWord).

  The trims are treated as Spec/WF.lean already treats them syntactically — `LeftTrim(p)` / `RightTrim(p)`
  may be empty iff `p` may, and their left references are `p`'s — and Proofs/WFTCons.lean / WFTHalts.lean
  prove that this is SOUND for the model as it is: LeftTrim runs its operand at the position after the
  whitespace WITH THE SAME left-recursion context (Model/Run.lean, case `ltrim`: `ctx` is passed on
  unchanged, it is not reset when whitespace was skipped), so when no whitespace is skipped a reference at
  the start of the operand is a left call at the same position (rank condition), and when whitespace is
  skipped the call happens at a later position with counters that are only larger — curtailment can only
  come earlier, never later.

  `wfT (fun _ => false) = wf` (`wfT_false`): on grammars without a Regexp declared nullable the two
  certificates agree, trims or not.

  Core Lean only.
-/
import ParsleyVerif.Spec.WF
namespace PV.WFT
open PV

/-- may the terminal return a node of width 0?  (`rx i`: the certificate's answer for Regexp expression `i`) -/
def termNullable (rx : Nat → Bool) : Terminal → Bool
  | .regexp id _ _ _ => rx id
  | _ => false

mutual
/-- syntactic over-approximation of "can return a node with `rpos = pos`" -/
def mayBeEmptyT (rx : Nat → Bool) (c : WFCert) : G → Bool
  | .term t => termNullable rx t
  | .empty => true
  | .eof => true
  | .ref k => c.nullable k
  | .memo i _ => c.nullM i
  | .any gs => mbeAnyT rx c gs
  | .choice gs => mbeAnyT rx c gs
  | .seq k gs _ =>
    match k with
    | .seqOf => mbeAllT rx c gs
    | .seqTry => mbeHeadT rx c false gs
    | .seqFirstOrAll => mbeHeadT rx c true gs
  | .many g ae _ => ae || mayBeEmptyT rx c g
  | .sepBy v _ ae _ => ae || mayBeEmptyT rx c v
  | .optional _ => true
  | .name g _ => mayBeEmptyT rx c g
  | .ltrim g _ => mayBeEmptyT rx c g
  | .rtrim g _ => mayBeEmptyT rx c g
  | .single g => mayBeEmptyT rx c g
  | .suppress g => mayBeEmptyT rx c g
def mbeAnyT (rx : Nat → Bool) (c : WFCert) : List G → Bool
  | [] => false
  | g :: gs => mayBeEmptyT rx c g || mbeAnyT rx c gs
def mbeAllT (rx : Nat → Bool) (c : WFCert) : List G → Bool
  | [] => true
  | g :: gs => mayBeEmptyT rx c g && mbeAllT rx c gs
def mbeHeadT (rx : Nat → Bool) (c : WFCert) (d : Bool) : List G → Bool
  | [] => d
  | g :: _ => mayBeEmptyT rx c g
end

mutual
/-- the rules referenced at the start position — without passing an element that must consume — and not
    under a Memoize -/
def leftRefsT (rx : Nat → Bool) (c : WFCert) : G → List Nat
  | .ref k => [k]
  | .memo _ _ => []
  | .any gs => leftRefsAllT rx c gs
  | .choice gs => leftRefsAllT rx c gs
  | .seq _ gs _ => leftRefsSeqT rx c gs
  | .many g _ _ => leftRefsT rx c g
  | .sepBy v s _ _ => leftRefsT rx c v ++ (if mayBeEmptyT rx c v then leftRefsT rx c s else [])
  | .optional g => leftRefsT rx c g
  | .name g _ => leftRefsT rx c g
  | .ltrim g _ => leftRefsT rx c g
  | .rtrim g _ => leftRefsT rx c g
  | .single g => leftRefsT rx c g
  | .suppress g => leftRefsT rx c g
  | .term _ => []
  | .empty => []
  | .eof => []
def leftRefsAllT (rx : Nat → Bool) (c : WFCert) : List G → List Nat
  | [] => []
  | g :: gs => leftRefsT rx c g ++ leftRefsAllT rx c gs
def leftRefsSeqT (rx : Nat → Bool) (c : WFCert) : List G → List Nat
  | [] => []
  | g :: gs => leftRefsT rx c g ++ (if mayBeEmptyT rx c g then leftRefsSeqT rx c gs else [])
end

mutual
/-- the local conditions at every sub-parser: Memoize indexes listed and their nullability recorded,
    the operand of Many cannot be empty, value and separator of SepBy cannot both be empty -/
def wfLocalT (rx : Nat → Bool) (c : WFCert) : G → Bool
  | .memo i g => c.memos.contains i && (!mayBeEmptyT rx c g || c.nullM i) && wfLocalT rx c g
  | .many g _ _ => !mayBeEmptyT rx c g && wfLocalT rx c g
  | .sepBy v s _ _ => !(mayBeEmptyT rx c v && mayBeEmptyT rx c s) && wfLocalT rx c v && wfLocalT rx c s
  | .any gs => wfLocalListT rx c gs
  | .choice gs => wfLocalListT rx c gs
  | .seq _ gs _ => wfLocalListT rx c gs
  | .optional g => wfLocalT rx c g
  | .name g _ => wfLocalT rx c g
  | .ltrim g _ => wfLocalT rx c g
  | .rtrim g _ => wfLocalT rx c g
  | .single g => wfLocalT rx c g
  | .suppress g => wfLocalT rx c g
  | .term _ => true
  | .empty => true
  | .eof => true
  | .ref _ => true
def wfLocalListT (rx : Nat → Bool) (c : WFCert) : List G → Bool
  | [] => true
  | g :: gs => wfLocalT rx c g && wfLocalListT rx c gs
end

/-- the conditions on rule `k` with body `g` -/
def wfRuleT (rx : Nat → Bool) (c : WFCert) (k : Nat) (g : G) : Bool :=
  wfLocalT rx c g && (!mayBeEmptyT rx c g || c.nullable k) &&
    (leftRefsT rx c g).all (fun k' => decide (c.rank k' < c.rank k))

/-- **the extended certificate check** -/
def wfT (rx : Nat → Bool) (c : WFCert) (env : List G) (root : G) : Bool :=
  wfLocalT rx c root &&
  (List.range env.length).all (fun k => match env[k]? with | some g => wfRuleT rx c k g | none => true)

/-! ### computing the least certificate (as `autoCert`, with the extended nullability) -/

def nullStepT (rx : Nat → Bool) (env : List G) (mn : List (Nat × G)) (p : List Nat × List Nat) : List Nat × List Nat :=
  let c := certOf p.1 p.2 [] []
  ((List.range env.length).filter (fun k => match env[k]? with | some g => mayBeEmptyT rx c g | none => false),
   (mn.filter (fun ig => mayBeEmptyT rx c ig.2)).map (·.1))

def rankStepT (rx : Nat → Bool) (c : WFCert) (env : List G) (ranks : List Nat) : List Nat :=
  env.map (fun g => (leftRefsT rx c g).foldl (fun m k' => max m (ranks.getD k' 0 + 1)) 0)

def autoCertT (rx : Nat → Bool) (env : List G) (root : G) : WFCert :=
  let mn := allMemoNodes env root
  let nl := iter (nullStepT rx env mn) (env.length + mn.length + 1) ([], [])
  let memos := mn.map (·.1)
  let c0 := certOf nl.1 nl.2 [] memos
  let ranks := iter (rankStepT rx c0 env) (env.length + 1) (env.map (fun _ => 0))
  certOf nl.1 nl.2 ranks memos

/-- the extended check with the certificate computed -/
def wfAutoT (rx : Nat → Bool) (env : List G) (root : G) : Bool := wfT rx (autoCertT rx env root) env root

/-- every Regexp may match the empty string: the assumption-free choice -/
def rxAll : Nat → Bool := fun _ => true
/-- no Regexp matches the empty string: with this choice `wfT` IS `wf` -/
def rxNone : Nat → Bool := fun _ => false

/-! ### agreement with `wf` -/

mutual
theorem mayBeEmptyT_false (c : WFCert) : ∀ g : G, mayBeEmptyT rxNone c g = mayBeEmpty c g
  | .term t => by cases t <;> simp [mayBeEmptyT, mayBeEmpty, termNullable, rxNone]
  | .empty => by simp [mayBeEmptyT, mayBeEmpty]
  | .eof => by simp [mayBeEmptyT, mayBeEmpty]
  | .ref _ => by simp [mayBeEmptyT, mayBeEmpty]
  | .memo _ _ => by simp [mayBeEmptyT, mayBeEmpty]
  | .any gs => by simp only [mayBeEmptyT, mayBeEmpty]; exact mbeAnyT_false c gs
  | .choice gs => by simp only [mayBeEmptyT, mayBeEmpty]; exact mbeAnyT_false c gs
  | .seq k gs _ => by
    cases k
    · simp only [mayBeEmptyT, mayBeEmpty]; exact mbeAllT_false c gs
    · simp only [mayBeEmptyT, mayBeEmpty]
      cases gs with
      | nil => rfl
      | cons g gs => simp only [mbeHeadT, mbeHead]; exact mayBeEmptyT_false c g
    · simp only [mayBeEmptyT, mayBeEmpty]
      cases gs with
      | nil => rfl
      | cons g gs => simp only [mbeHeadT, mbeHead]; exact mayBeEmptyT_false c g
  | .many g _ _ => by simp only [mayBeEmptyT, mayBeEmpty, mayBeEmptyT_false c g]
  | .sepBy v _ _ _ => by simp only [mayBeEmptyT, mayBeEmpty, mayBeEmptyT_false c v]
  | .optional _ => by simp [mayBeEmptyT, mayBeEmpty]
  | .name g _ => by simp only [mayBeEmptyT, mayBeEmpty, mayBeEmptyT_false c g]
  | .ltrim g _ => by simp only [mayBeEmptyT, mayBeEmpty, mayBeEmptyT_false c g]
  | .rtrim g _ => by simp only [mayBeEmptyT, mayBeEmpty, mayBeEmptyT_false c g]
  | .single g => by simp only [mayBeEmptyT, mayBeEmpty, mayBeEmptyT_false c g]
  | .suppress g => by simp only [mayBeEmptyT, mayBeEmpty, mayBeEmptyT_false c g]
theorem mbeAnyT_false (c : WFCert) : ∀ gs : List G, mbeAnyT rxNone c gs = mbeAny c gs
  | [] => rfl
  | g :: gs => by simp only [mbeAnyT, mbeAny, mayBeEmptyT_false c g, mbeAnyT_false c gs]
theorem mbeAllT_false (c : WFCert) : ∀ gs : List G, mbeAllT rxNone c gs = mbeAll c gs
  | [] => rfl
  | g :: gs => by simp only [mbeAllT, mbeAll, mayBeEmptyT_false c g, mbeAllT_false c gs]
end

mutual
theorem leftRefsT_false (c : WFCert) : ∀ g : G, leftRefsT rxNone c g = leftRefsU c g
  | .ref _ => by simp [leftRefsT, leftRefsU]
  | .memo _ _ => by simp [leftRefsT, leftRefsU]
  | .any gs => by simp only [leftRefsT, leftRefsU]; exact leftRefsAllT_false c gs
  | .choice gs => by simp only [leftRefsT, leftRefsU]; exact leftRefsAllT_false c gs
  | .seq _ gs _ => by simp only [leftRefsT, leftRefsU]; exact leftRefsSeqT_false c gs
  | .many g _ _ => by simp only [leftRefsT, leftRefsU, leftRefsT_false c g]
  | .sepBy v s _ _ => by
    simp only [leftRefsT, leftRefsU, leftRefsT_false c v, leftRefsT_false c s, mayBeEmptyT_false c v]
  | .optional g => by simp only [leftRefsT, leftRefsU, leftRefsT_false c g]
  | .name g _ => by simp only [leftRefsT, leftRefsU, leftRefsT_false c g]
  | .ltrim g _ => by simp only [leftRefsT, leftRefsU, leftRefsT_false c g]
  | .rtrim g _ => by simp only [leftRefsT, leftRefsU, leftRefsT_false c g]
  | .single g => by simp only [leftRefsT, leftRefsU, leftRefsT_false c g]
  | .suppress g => by simp only [leftRefsT, leftRefsU, leftRefsT_false c g]
  | .term _ => by simp [leftRefsT, leftRefsU]
  | .empty => by simp [leftRefsT, leftRefsU]
  | .eof => by simp [leftRefsT, leftRefsU]
theorem leftRefsAllT_false (c : WFCert) : ∀ gs : List G, leftRefsAllT rxNone c gs = leftRefsAll c gs
  | [] => rfl
  | g :: gs => by simp only [leftRefsAllT, leftRefsAll, leftRefsT_false c g, leftRefsAllT_false c gs]
theorem leftRefsSeqT_false (c : WFCert) : ∀ gs : List G, leftRefsSeqT rxNone c gs = leftRefsSeq c gs
  | [] => rfl
  | g :: gs => by
    simp only [leftRefsSeqT, leftRefsSeq, leftRefsT_false c g, leftRefsSeqT_false c gs, mayBeEmptyT_false c g]
end

mutual
theorem wfLocalT_false (c : WFCert) : ∀ g : G, wfLocalT rxNone c g = wfLocal c g
  | .memo _ g => by simp only [wfLocalT, wfLocal, mayBeEmptyT_false c g, wfLocalT_false c g]
  | .many g _ _ => by simp only [wfLocalT, wfLocal, mayBeEmptyT_false c g, wfLocalT_false c g]
  | .sepBy v s _ _ => by
    simp only [wfLocalT, wfLocal, mayBeEmptyT_false c v, mayBeEmptyT_false c s, wfLocalT_false c v,
      wfLocalT_false c s]
  | .any gs => by simp only [wfLocalT, wfLocal]; exact wfLocalListT_false c gs
  | .choice gs => by simp only [wfLocalT, wfLocal]; exact wfLocalListT_false c gs
  | .seq _ gs _ => by simp only [wfLocalT, wfLocal]; exact wfLocalListT_false c gs
  | .optional g => by simp only [wfLocalT, wfLocal, wfLocalT_false c g]
  | .name g _ => by simp only [wfLocalT, wfLocal, wfLocalT_false c g]
  | .ltrim g _ => by simp only [wfLocalT, wfLocal, wfLocalT_false c g]
  | .rtrim g _ => by simp only [wfLocalT, wfLocal, wfLocalT_false c g]
  | .single g => by simp only [wfLocalT, wfLocal, wfLocalT_false c g]
  | .suppress g => by simp only [wfLocalT, wfLocal, wfLocalT_false c g]
  | .term _ => by simp [wfLocalT, wfLocal]
  | .empty => by simp [wfLocalT, wfLocal]
  | .eof => by simp [wfLocalT, wfLocal]
  | .ref _ => by simp [wfLocalT, wfLocal]
theorem wfLocalListT_false (c : WFCert) : ∀ gs : List G, wfLocalListT rxNone c gs = wfLocalList c gs
  | [] => rfl
  | g :: gs => by simp only [wfLocalListT, wfLocalList, wfLocalT_false c g, wfLocalListT_false c gs]
end

/-- with no Regexp declared nullable the extended certificate IS the certificate of Spec/WF.lean —
    on every grammar, trims included -/
theorem wfT_false (c : WFCert) (env : List G) (root : G) : wfT rxNone c env root = wf c env root := by
  have hr : ∀ k g, wfRuleT rxNone c k g = wfRule c k g := by
    intro k g
    simp only [wfRuleT, wfRule, wfLocalT_false, mayBeEmptyT_false, leftRefsT_false]
  simp only [wfT, wf, wfLocalT_false, hr]
  rfl

end PV.WFT
