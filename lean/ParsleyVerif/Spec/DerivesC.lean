/-
  CURTAILED derivations (property C01, completeness half).

  `DerivesC cfg c g pos x` — "parser `g` can produce tree `x` at position `pos` when the
  left-recursion counters are `c`" — is what an UN-CACHED top-down evaluation with Frost–Hafiz–Callaghan
  curtailment can find.  It has the rules of `Derives` (Spec/Derives.lean) on the monotone fragment

      term, empty, ref, memo, any, seq .seqOf, optional

  with two differences:

  * `memo idx body` may only be entered while `c idx ≤ remaining pos + curtailSlack`, and its body is
    derived under `c` with the counter of `idx` incremented (`bump c idx`);
  * the elements of a sequence are derived left to right: the element after a node `n` is derived under
    the same counters while nothing has been consumed (`n.rpos = pos`), and under the ZERO counters once
    input has been consumed (`n.rpos > pos`) — the reset of `seq.go` (`node.ReaderPos() > pos`).

  There is no cache, no curtailing set, no fuel and no evaluation order in this relation.  It is the
  intermediate notion around which completeness splits:

    (A)  the cache and the curtailing sets never lose a curtailed derivation      (about the code),
    (B)  every derivation has a curtailed derivation with the same end / tree      (combinatorics).
-/
import ParsleyVerif.Spec.Derives
namespace PV
open PV.Text

/-- the counters after entering the memoized parser `i` once more -/
def bump (c : Nat → Nat) (i : Nat) : Nat → Nat := fun k => if k = i then c k + 1 else c k

/-- the empty left-recursion context -/
def zeroC : Nat → Nat := fun _ => 0

mutual
inductive DerivesC (cfg : Cfg) : (Nat → Nat) → G → Nat → Node → Prop
  | term {c t pos n} : t.parse cfg.params cfg.file pos = .node n → DerivesC cfg c (.term t) pos n
  | empty {c pos} : DerivesC cfg c .empty pos (.empty pos)
  | ref {c k g pos x} : cfg.env[k]? = some g → DerivesC cfg c g pos x → DerivesC cfg c (.ref k) pos x
  | memo {c i g pos x} : c i ≤ remaining cfg.file pos + Facts.curtailSlack →
      DerivesC cfg (bump c i) g pos x → DerivesC cfg c (.memo i g) pos x
  | any {c gs g pos x} : g ∈ gs → DerivesC cfg c g pos x → DerivesC cfg c (.any gs) pos x
  | optSome {c g pos x} : DerivesC cfg c g pos x → DerivesC cfg c (.optional g) pos x
  | optNone {c g pos} : DerivesC cfg c (.optional g) pos (.empty pos)
  | seqOf {c gs o sh pos nodes} : (G.seq .seqOf gs o).shape = some sh → DerivesSeqC cfg c sh 0 pos nodes →
      sh.lenCheck nodes.length = true → DerivesC cfg c (.seq .seqOf gs o) pos (handleResult sh pos nodes)
/-- elements `d, d+1, …` derive `nodes` one after the other from `pos`; the counters survive zero-width
    elements and are reset by the first element that consumes input -/
inductive DerivesSeqC (cfg : Cfg) : (Nat → Nat) → SeqShape → Nat → Nat → List Node → Prop
  | nil {c sh d pos} : DerivesSeqC cfg c sh d pos []
  | cons {c sh d pos g n rest} : sh.lookup d = some g → DerivesC cfg c g pos n →
      DerivesSeqC cfg (if n.rpos > pos then zeroC else c) sh (d + 1) n.rpos rest →
      DerivesSeqC cfg c sh d pos (n :: rest)
end

/-- The fragment for which completeness is stated.  Every terminal never produces a node whose token is
    "EOF" (a sequence stops enumerating after the first alternative whose last node has that token — the
    Sentence wrapper relies on it; completeness is stated for the parser BELOW the wrapper), and no SeqOf
    is given that token either.  `Name`, `ReturnSingle` and the interpreter of a SeqOf are unrestricted. -/
def FragLocal (cfg : Cfg) : G → Prop
  | .term t => ∀ pos n, t.parse cfg.params cfg.file pos = .node n → n.token ≠ eofTok
  | .empty => True
  | .ref _ => True
  | .memo _ _ => True
  | .any _ => True
  | .optional _ => True
  | .seq .seqOf _ o => o.token.getD seqTok ≠ eofTok
  | _ => False

def Frag (cfg : Cfg) (g : G) : Prop := g.All (FragLocal cfg)

end PV
