/-
  C16, the converse ("the parser accepts NOTHING ELSE") — the EXACT language of the example JSON parser
  `Sentence(Trim(value))` over `Gjson` (Spec/Json.lean), as data.

  The language is LARGER than the supported subset of Spec/JsonRender.lean (that is where the example parser is
  more liberal than encoding/json):

  * whitespace before values, keys and closers, before and after the document: space, tab, LF **and FORM FEED**
    (`WsNlF`; reader.go counts `\f` as whitespace and as a line break); before `,` and `:` space and tab only
    (`WsSp`, as in the supported subset: a LF or FF there is "new line is not allowed");
  * integers: every literal of `[-+]?(?:[1-9][0-9]*|0[xX][0-9a-fA-F]+|0[0-7]*)` (`Lang.IsInt`) whose value
    (`Lang.intValue`: base 16 after `0x`, base 8 after another leading `0`) fits in int64 — so also `+1`, `0x1F`,
    `017` (= 15), `-0`, `00`;
  * floats: every literal of `[-+]?[0-9]*\.[0-9]+(?:[eE][-+]?[0-9]+)?` (`Lang.IsFloat`) that ParseFloat accepts —
    so also `.5`, `+1.5`, `-.5e3`, `007.5`; still NOT `1e5`, `1.`, `1.e5`;
  * strings: `"` elements `"` where an element (`IsStrElem`) is a plain ASCII byte other than CR, LF, `"`, `\`
    (so raw control characters such as TAB, and DEL, are accepted), `\a \b \f \n \r \t \v \\ \"`, `\xHH` (any
    byte value, denoting the CODE POINT U+00HH), `\uHHHH` and `\UHHHHHHHH` (a valid rune: no surrogate, at most
    U+10FFFF), `\ooo` (three octal digits, at most 255), a raw UTF-8 encoded scalar value ≥ U+0080; still NOT
    `\/`, `\'`, surrogate escapes, invalid UTF-8, a raw line break;
  * `true`, `false`, `null`; arrays; objects (keys: strings as above, duplicates allowed).

  `AccDoc` is a document of this language together with the whitespace of every gap (the shape of `JDoc`);
  `AccDoc.render` its bytes, `AccDoc.tree d p` the tree the parser returns when the first byte of `d` stands at
  position `p`, `AccDoc.val` the JSON value; `AccDoc.OK P` the side conditions (`P.floatOk` = strconv.ParseFloat
  succeeds, a parameter of the model).  `JLang P data`: `data` is a document between `WsNlF` whitespace.

  Core only.
-/
import ParsleyVerif.Spec.JsonRender
namespace PV
open PV.Text

/-- whitespace before values, keys and closers (LeftTrim / RightTrim in mode WsSpacesNl): space, tab, LF, FF -/
def WsNlF (w : Bytes) : Prop := ∀ b ∈ w, b = 32 ∨ b = 9 ∨ b = 10 ∨ b = 12

/-! ### strings -/

/-- `IsStrElem e c`: the bytes `e` are ONE element of a double-quoted string body, and it denotes code point `c` -/
inductive IsStrElem : Bytes → Nat → Prop
  /-- a plain ASCII byte other than CR, LF, `"`, `\` (control characters and DEL included) -/
  | plain {b : Nat} : b < 0x80 → b ≠ 13 → b ≠ 10 → b ≠ 34 → b ≠ 92 → IsStrElem [b] b
  /-- `\a \b \f \n \r \t \v \\` -/
  | simple {e v : Nat} : (e, v) ∈ Lang.simpleEscapes → IsStrElem [92, e] v
  /-- `\"` -/
  | quote : IsStrElem [92, 34] 34
  /-- `\xHH` (any value), `\uHHHH`, `\UHHHHHHHH` (a valid rune) -/
  | hex {x n : Nat} {ds : Bytes} : (x = 120 ∧ n = 2) ∨ (x = 117 ∧ n = 4) ∨ (x = 85 ∧ n = 8) → ds.length = n →
      ds.all Lang.hexDigit = true → (x = 120 ∨ Utf8.validRune (Lang.digitsValue 16 ds) = true) →
      IsStrElem (92 :: x :: ds) (Lang.digitsValue 16 ds)
  /-- `\ooo`, at most 255 -/
  | oct {a b c : Nat} : Lang.octDigit a = true → Lang.octDigit b = true → Lang.octDigit c = true →
      Lang.digitsValue 8 [a, b, c] ≤ 255 → IsStrElem [92, a, b, c] (Lang.digitsValue 8 [a, b, c])
  /-- a raw scalar value ≥ U+0080 in UTF-8 -/
  | utf8 {c : Nat} : 0x80 ≤ c → Utf8.validRune c = true → IsStrElem (Utf8.encodeRune c) c

/-- `IsStrBody body v`: `body` (the bytes between the quotes) is a sequence of elements, and `v` is the string's
    value: the UTF-8 encodings of the elements' code points -/
inductive IsStrBody : Bytes → Bytes → Prop
  | nil : IsStrBody [] []
  | cons {e : Bytes} {c : Nat} {body v : Bytes} : IsStrElem e c → IsStrBody body v →
      IsStrBody (e ++ body) (Utf8.encodeRune c ++ v)

/-- the lexeme of a string with body `b` -/
def strLex (b : Bytes) : Bytes := 34 :: (b ++ [34])

/-! ### literals -/

/-- a literal leaf: `null`, `true` / `false`, an integer lexeme, a float lexeme, a string (body, value) -/
inductive AccLit
  | null
  | bool (b : Bool)
  | int (lex : Bytes)
  | flt (lex : Bytes)
  | str (body value : Bytes)
deriving Repr, DecidableEq, Inhabited

namespace AccLit
def lex : AccLit → Bytes
  | .null => [110, 117, 108, 108]
  | .bool true => [116, 114, 117, 101]
  | .bool false => [102, 97, 108, 115, 101]
  | .int l => l
  | .flt l => l
  | .str b _ => strLex b
def tok : AccLit → Bytes
  | .null => nilTok
  | .bool _ => boolTok
  | .int _ => intTok
  | .flt _ => floatTok
  | .str _ _ => strTok
/-- the node value: integers by their mathematical value, floats as their lexeme, strings decoded -/
def val : AccLit → Val
  | .null => .nil
  | .bool b => .bool b
  | .int l => .int (Lang.intValue l)
  | .flt l => .float l
  | .str _ v => .str v
def jval : AccLit → JVal
  | .null => .null
  | .bool b => .bool b
  | .int l => .int (Lang.intValue l)
  | .flt l => .float l
  | .str _ v => .str v
def OK (P : Params) : AccLit → Prop
  | .null => True
  | .bool _ => True
  | .int l => Lang.IsInt l ∧ -(2 : Int) ^ 63 ≤ Lang.intValue l ∧ Lang.intValue l < (2 : Int) ^ 63
  | .flt l => Lang.IsFloat l ∧ P.floatOk l = true
  | .str b v => IsStrBody b v
end AccLit

/-! ### documents -/

mutual
inductive AccDoc
  | lit (a : AccLit)
  | arr (items : AccItems) (close : Bytes)
  | obj (mems : AccMems) (close : Bytes)
/-- `wc`: whitespace before the `,` that precedes the item (not rendered for the first one), `wb`: before the value -/
inductive AccItems
  | nil
  | cons (wc wb : Bytes) (d : AccDoc) (r : AccItems)
/-- `k`, `kv`: the key's body and value; `wk`: whitespace before `:`, `wv`: before the value -/
inductive AccMems
  | nil
  | cons (wc wb : Bytes) (k kv : Bytes) (wk wv : Bytes) (d : AccDoc) (r : AccMems)
end

mutual
def AccDoc.render : AccDoc → Bytes
  | .lit a => a.lex
  | .arr .nil close => 91 :: (close ++ [93])
  | .arr (.cons _ wb d r) close => 91 :: (wb ++ (d.render ++ (r.renderMore ++ (close ++ [93]))))
  | .obj .nil close => 123 :: (close ++ [125])
  | .obj (.cons _ wb k _ wk wv d r) close =>
    123 :: (wb ++ (strLex k ++ (wk ++ 58 :: (wv ++ (d.render ++ (r.renderMore ++ (close ++ [125])))))))
/-- the items after the first: each preceded by its `,` -/
def AccItems.renderMore : AccItems → Bytes
  | .nil => []
  | .cons wc wb d r => wc ++ 44 :: (wb ++ (d.render ++ r.renderMore))
def AccMems.renderMore : AccMems → Bytes
  | .nil => []
  | .cons wc wb k _ wk wv d r => wc ++ 44 :: (wb ++ (strLex k ++ (wk ++ 58 :: (wv ++ (d.render ++ r.renderMore)))))
end

/-- the key/value node whose key's opening quote stands at `p` (`klen`: length of the key's lexeme) -/
def accKvNode (klen : Nat) (kv : Bytes) (wk wv : Bytes) (vlen : Nat) (vt : Nat → Node) (p : Nat) : Node :=
  let a := p + klen
  let c := a + wk.length
  let v := c + 1 + wv.length
  .nt seqTok [.term strTok (.str kv) p a, runeLeaf 58 c, vt v] p (v + vlen) .none

mutual
/-- the tree of `d` when its first byte stands at position `p` -/
def AccDoc.tree : AccDoc → Nat → Node
  | .lit a, p => .term a.tok a.val p (p + a.lex.length)
  | .arr .nil close, p =>
    .nt seqTok [runeLeaf 91 p, .nt sepByTok [] (p + 1) (p + 1) .array, runeLeaf 93 (p + 1 + close.length)]
      p (p + 1 + close.length + 1) (.select 1)
  | .arr (.cons _ wb d r) close, p =>
    let q := p + 1 + wb.length
    let e := q + d.render.length
    let fin := e + r.renderMore.length
    .nt seqTok [runeLeaf 91 p, .nt sepByTok (d.tree q :: r.moreNodes e) q fin .array, runeLeaf 93 (fin + close.length)]
      p (fin + close.length + 1) (.select 1)
  | .obj .nil close, p =>
    .nt seqTok [runeLeaf 123 p, .nt sepByTok [] (p + 1) (p + 1) .object, runeLeaf 125 (p + 1 + close.length)]
      p (p + 1 + close.length + 1) (.select 1)
  | .obj (.cons _ wb k kv wk wv d r) close, p =>
    let q := p + 1 + wb.length
    let e := q + (strLex k).length + wk.length + 1 + wv.length + d.render.length
    let fin := e + r.renderMore.length
    .nt seqTok [runeLeaf 123 p,
        .nt sepByTok (accKvNode (strLex k).length kv wk wv d.render.length d.tree q :: r.moreNodes e) q fin .object,
        runeLeaf 125 (fin + close.length)]
      p (fin + close.length + 1) (.select 1)
/-- the nodes of the items after the first (`,` leaf, value tree, …) when `renderMore` starts at `p` -/
def AccItems.moreNodes : AccItems → Nat → List Node
  | .nil, _ => []
  | .cons wc wb d r, p =>
    let c := p + wc.length
    let q := c + 1 + wb.length
    runeLeaf 44 c :: d.tree q :: r.moreNodes (q + d.render.length)
def AccMems.moreNodes : AccMems → Nat → List Node
  | .nil, _ => []
  | .cons wc wb k kv wk wv d r, p =>
    let c := p + wc.length
    let q := c + 1 + wb.length
    runeLeaf 44 c :: accKvNode (strLex k).length kv wk wv d.render.length d.tree q ::
      r.moreNodes (q + (strLex k).length + wk.length + 1 + wv.length + d.render.length)
end

mutual
/-- the JSON value the document denotes -/
def AccDoc.val : AccDoc → JVal
  | .lit a => a.jval
  | .arr items _ => .arr items.vals
  | .obj mems _ => .obj mems.vals
def AccItems.vals : AccItems → List JVal
  | .nil => []
  | .cons _ _ d r => d.val :: r.vals
def AccMems.vals : AccMems → List (Bytes × JVal)
  | .nil => []
  | .cons _ _ _ kv _ _ d r => (kv, d.val) :: r.vals
end

mutual
/-- the side conditions: literals of the accepted syntax, every gap holds only the whitespace its mode accepts -/
def AccDoc.OK (P : Params) : AccDoc → Prop
  | .lit a => a.OK P
  | .arr items close => items.OK P ∧ WsNlF close
  | .obj mems close => mems.OK P ∧ WsNlF close
def AccItems.OK (P : Params) : AccItems → Prop
  | .nil => True
  | .cons wc wb d r => WsSp wc ∧ WsNlF wb ∧ d.OK P ∧ r.OK P
def AccMems.OK (P : Params) : AccMems → Prop
  | .nil => True
  | .cons wc wb k kv wk wv d r => WsSp wc ∧ WsNlF wb ∧ IsStrBody k kv ∧ WsSp wk ∧ WsNlF wv ∧ d.OK P ∧ r.OK P
end

/-- the whole input: the document between leading and trailing whitespace (Trim) -/
def renderAcc (lead : Bytes) (d : AccDoc) (trail : Bytes) : Bytes := lead ++ (d.render ++ trail)

/-- **the document language of the example parser**: a document of the accepted syntax between whitespace -/
def JLang (P : Params) (data : Bytes) : Prop :=
  ∃ lead d trail, WsNlF lead ∧ WsNlF trail ∧ AccDoc.OK P d ∧ data = renderAcc lead d trail

end PV
