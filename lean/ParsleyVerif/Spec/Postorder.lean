/-
  Specifications for property C13 (tree passes: Walk, StaticCheck, Transform, evaluation).

  Everything here is written from the documentation of the passes, not from the model's code:
  * `postorder` / `T.ids` / `Sub`      — which nodes a pass reaches and in which order
  * `takeThrough`                      — "stop immediately when the callback returns true"
  * `checkSpec`                        — StaticCheck as a bottom-up computation in the `Except` monad
  * `checkedPrefix`, `verdicts`        — StaticCheck by *position*: "the first n nodes in post-order have been
                                          checked", "the outcome of the check of the node at position j"
  * `Recorded`                         — per-node reading of a successful StaticCheck
  * `transformSpec`                    — Transform
  * `everySecond`, `evalSeq`, `kvSeq`, `mapOfPairs` — the documented indexing of interpreter.Array / Object
-/
import ParsleyVerif.Model.Walk
import ParsleyVerif.Model.Eval

namespace PV.Walk

/-! ### the nodes of a tree, and post-order -/

/-- the nodes directly below a node, as the passes see them: an `ast.NodeList` "behaves as its first node" -/
def T.kids : T → List T
  | .leaf _ => []
  | .nt _ _ _ cs => cs
  | .list _ items => items.head?.toList

/-- `Sub n t`: `n` is a node of `t` (t itself, or a node of one of its kids) -/
inductive Sub : T → T → Prop
  | self (t : T) : Sub t t
  | under {n c t : T} : c ∈ t.kids → Sub n c → Sub n t

mutual
/-- ids in post-order: children first, left to right, then the node itself -/
def postorder : T → List Nat
  | .leaf i => [i]
  | .nt i _ _ cs => postorderAll cs ++ [i]
  | .list i [] => [i]
  | .list i (first :: _) => postorder first ++ [i]
def postorderAll : List T → List Nat
  | [] => []
  | c :: cs => postorder c ++ postorderAll cs
end

mutual
/-- ids in pre-order (the node first): an independent enumeration of the same nodes -/
def T.ids : T → List Nat
  | .leaf i => [i]
  | .nt i _ _ cs => i :: idsAll cs
  | .list i [] => [i]
  | .list i (first :: _) => i :: first.ids
def idsAll : List T → List Nat
  | [] => []
  | c :: cs => c.ids ++ idsAll cs
end

/-- number of nodes -/
def T.size (t : T) : Nat := (postorder t).length
def sizeAll (cs : List T) : Nat := (postorderAll cs).length

/-- the prefix of `l` up to and including the first element satisfying `p` (all of `l` if there is none) -/
def takeThrough {α} (p : α → Bool) : List α → List α
  | [] => []
  | a :: l => if p a then [a] else a :: takeThrough p l

/-! ### StaticCheck -/

/-- the interpreter of a node, if it has the capability asked for -/
def capable (has : ICap → Bool) (caps : Nat → ICap) (interp : Option Nat) : Option Nat :=
  interp.filter (fun k => has (caps k))

mutual
/-- StaticCheck, bottom-up: the children are checked first (left to right), then the node's own checker is
    called on the node *carrying the already checked children*, and what it returns becomes the node's
    schema.  The first error aborts everything. -/
def checkSpec (caps : Nat → ICap) (chk : Checker) : T → Except Nat T
  | .leaf i => pure (.leaf i)
  | .nt i interp schema cs => do
    let cs' ← checkSpecAll caps chk cs
    match capable (·.checker) caps interp with
    | some k => do
      let s ← chk k (.nt i interp schema cs')
      pure (.nt i interp s cs')
    | none => pure (.nt i interp schema cs')
  | .list i [] => pure (.list i [])
  | .list i (first :: rest) => do
    let first' ← checkSpec caps chk first
    pure (.list i (first' :: rest))
def checkSpecAll (caps : Nat → ICap) (chk : Checker) : List T → Except Nat (List T)
  | [] => pure []
  | c :: cs => do
    let c' ← checkSpec caps chk c
    let cs' ← checkSpecAll caps chk cs
    pure (c' :: cs')
end

mutual
/-- the tree after exactly the first `n` nodes (positions `0 … n-1` of `postorder t`) have been checked and
    every other node has been left alone.  A node whose checker fails keeps its schema. -/
def checkedPrefix (caps : Nat → ICap) (chk : Checker) (n : Nat) : T → T
  | .leaf i => .leaf i
  | .nt i interp schema cs =>
    let cs' := checkedPrefixAll caps chk n cs
    if sizeAll cs < n then                    -- this node's own position is `sizeAll cs`
      match capable (·.checker) caps interp with
      | some k =>
        match chk k (.nt i interp schema cs') with
        | .ok s => .nt i interp s cs'
        | .error _ => .nt i interp schema cs'
      | none => .nt i interp schema cs'
    else .nt i interp schema cs'
  | .list i [] => .list i []
  | .list i (first :: rest) => .list i (checkedPrefix caps chk n first :: rest)
def checkedPrefixAll (caps : Nat → ICap) (chk : Checker) (n : Nat) : List T → List T
  | [] => []
  | c :: cs => checkedPrefix caps chk n c :: checkedPrefixAll caps chk (n - c.size) cs
end

/-- the tree after every node has been checked -/
def checkedAll (caps : Nat → ICap) (chk : Checker) (cs : List T) : List T :=
  checkedPrefixAll caps chk (sizeAll cs) cs

/-- outcome of a node's own check, made when everything below it has been checked: `some e` = error `e` -/
def verdictAt (caps : Nat → ICap) (chk : Checker) : T → Option Nat
  | .nt i interp schema cs =>
    match capable (·.checker) caps interp with
    | some k =>
      match chk k (.nt i interp schema (checkedAll caps chk cs)) with
      | .ok _ => none
      | .error e => some e
    | none => none
  | _ => none

mutual
/-- the outcomes of the nodes' checks, listed in post-order (aligned with `postorder t`) -/
def verdicts (caps : Nat → ICap) (chk : Checker) : T → List (Option Nat)
  | .leaf i => [verdictAt caps chk (.leaf i)]
  | .nt i interp schema cs => verdictsAll caps chk cs ++ [verdictAt caps chk (.nt i interp schema cs)]
  | .list _ [] => [none]
  | .list _ (first :: _) => verdicts caps chk first ++ [none]
def verdictsAll (caps : Nat → ICap) (chk : Checker) : List T → List (Option Nat)
  | [] => []
  | c :: cs => verdicts caps chk c ++ verdictsAll caps chk cs
end

mutual
/-- `Recorded caps chk t t'`: `t'` is `t` with, on every node whose interpreter is a StaticChecker, the schema
    the checker returns for that node *as it stands in `t'`* (final children); every other node, and
    everything besides the schemas, is as in `t` -/
def Recorded (caps : Nat → ICap) (chk : Checker) : T → T → Prop
  | .leaf i, t' => t' = .leaf i
  | .nt i interp schema cs, t' =>
    ∃ schema' cs', t' = .nt i interp schema' cs' ∧ RecordedAll caps chk cs cs' ∧
      match capable (·.checker) caps interp with
      | some k => chk k (.nt i interp schema cs') = .ok schema'
      | none => schema' = schema
  | .list i [], t' => t' = .list i []
  | .list i (first :: rest), t' => ∃ first', t' = .list i (first' :: rest) ∧ Recorded caps chk first first'
def RecordedAll (caps : Nat → ICap) (chk : Checker) : List T → List T → Prop
  | [], l' => l' = []
  | c :: cs, l' => ∃ c' cs', l' = c' :: cs' ∧ Recorded caps chk c c' ∧ RecordedAll caps chk cs cs'
end

/-! ### Transform -/

mutual
/-- Transform: a non-terminal whose interpreter is a NodeTransformer is handed over to it as it is (the
    children are *not* transformed first); any other non-terminal gets its children transformed, left to right,
    the first error aborting; everything else is returned unchanged -/
def transformSpec (caps : Nat → ICap) (tr : Transformer) : T → Except Nat T
  | .nt i interp schema cs =>
    match capable (·.transformer) caps interp with
    | some k => tr k (.nt i interp schema cs)
    | none => (.nt i interp schema ·) <$> transformSpecAll caps tr cs
  | .leaf i => pure (.leaf i)
  | .list i items => pure (.list i items)
def transformSpecAll (caps : Nat → ICap) (tr : Transformer) : List T → Except Nat (List T)
  | [] => pure []
  | c :: cs => do
    let c' ← transformSpec caps tr c
    let cs' ← transformSpecAll caps tr cs
    pure (c' :: cs')
end

end PV.Walk

/-! ### evaluation -/
namespace PV
open PV.Text

/-- elements 0, 2, 4, … of a list -/
def everySecond {α} : List α → List α
  | [] => []
  | [a] => [a]
  | a :: _ :: rest => a :: everySecond rest

/-- an outcome as success / failure (an error *or* a panic) -/
def EvalOut.toExcept : EvalOut → Except EvalOut V
  | .ok v => .ok v
  | e => .error e

/-- back again -/
def EvalOut.ofExcept {α} (f : α → V) : Except EvalOut α → EvalOut
  | .ok a => .ok (f a)
  | .error e => e

/-- evaluate the nodes from left to right; the first failure aborts -/
def evalSeq (ev : Node → EvalOut) : List Node → Except EvalOut (List V)
  | [] => pure []
  | c :: rest => do
    let v ← (ev c).toExcept
    let vs ← evalSeq ev rest
    pure (v :: vs)

/-- a key/value node of interpreter.Object: a non-terminal; child 0 is evaluated to the key, then child 2 to
    the value; then the key has to be a string -/
def kvOf (ev : Node → EvalOut) : Node → Except EvalOut (Bytes × V)
  | .nt _ cs _ _ _ => do
    let kn ← (cs[0]?).elim (.error (.panic "index out of range")) pure
    let key ← (ev kn).toExcept
    let vn ← (cs[2]?).elim (.error (.panic "index out of range")) pure
    let v ← (ev vn).toExcept
    match key with
    | .str k => pure (k, v)
    | _ => .error (.panic "interface conversion: key is not a string")
  | _ => .error (.panic "interface conversion: not a NonTerminalNode")

/-- the key/value pairs from left to right; the first failure aborts -/
def kvSeq (ev : Node → EvalOut) : List Node → Except EvalOut (List (Bytes × V))
  | [] => pure []
  | n :: rest => do
    let kv ← kvOf ev n
    let kvs ← kvSeq ev rest
    pure (kv :: kvs)

/-- the map holding the pairs, assigned from left to right -/
def mapOfPairs (kvs : List (Bytes × V)) : List (Bytes × V) :=
  kvs.foldl (fun m kv => objSet m kv.1 kv.2) []

/-- what a map answers for a key -/
def mapGet (m : List (Bytes × V)) (k : Bytes) : Option V :=
  (m.find? (fun kv => kv.1 = k)).map (·.2)

mutual
/-- nesting depth of non-terminals -/
def Node.depth : Node → Nat
  | .nt _ cs _ _ _ => depthAll cs + 1
  | _ => 0
def depthAll : List Node → Nat
  | [] => 0
  | c :: cs => max c.depth (depthAll cs)
end

/-- a custom interpreter consults the evaluator it is given only on nodes that are not deeper than the
    children it is given (the children themselves, or nodes below them) -/
def CustomLocal (ce : CustomEval) : Prop :=
  ∀ id cs pos (ev ev' : Node → EvalOut), (∀ c, c.depth ≤ depthAll cs → ev c = ev' c) → ce id cs pos ev = ce id cs pos ev'

end PV
