/-
  The EXACT meaning of the combinators (property C01, "… with Choice, Many, SepBy, SeqTry and
  SeqFirstOrAll following their documented first-match / longest-path rules").

  `Big cfg g pos R e` — "parser `g`, started at `pos`, yields exactly the ordered result `R`; `e` tells
  whether an error comes with it" — is a cache-free, context-free, fuel-free big-step relation written from
  the documentation of the operators:

    Any      "tries all the given parsers independently and merges the results"   (AppendNode, in order)
    Choice   "tries to apply the given parsers until one of them succeeds"         (first match)
    Optional "returns the parser's matches and an empty match"
    Seq      "tries to apply all parsers after each other and returns with all combinations of the
              results … lenCheck should return true if the longest possible match is valid"
             — a chain of results is emitted only where it CANNOT be extended (the next element is missing
             or yields nothing), and only if `lenCheck` accepts its length (longest path);
    SeqOf / SeqTry / SeqFirstOrAll / Many / SepBy are Seq with their look-up and length check
             (`G.shape`, the model's `SeqShape`, whose text is pinned to the source by Generated/Facts).

  Results are the model's `Res` (nil / one node / node list) combined with the library's `AppendNode`
  (`appendNode`, which flattens lists and does not repeat an EMPTY node): the ORDER of the alternatives is
  part of the statement.

  The error flag.  Errors are not part of the meaning, with one exception the code forces on us: `Name` and
  `ReturnSingle`-`Single` (and `parsley.Parse`) DROP a result that is returned together with an error (known
  finding D9: `Optional` hands its operand's error through next to the EMPTY alternative).  So the relation
  carries one bit, "an error is returned next to the result", computed compositionally (it never needs the
  error's text or position — except in LeftTrim, see below).

  Scope.  Every combinator.  One case of LeftTrim has no rule: when the whitespace is not acceptable in the
  given mode AND the operand returns a result together with an error, the code decides by the POSITION of
  that error, which this relation does not carry (in mode WsSpacesNl whitespace is always acceptable).
  The relation is an
  inductive definition, i.e. a least fixpoint: a parser that reaches itself at the same position without
  consuming input (left recursion, cyclic rules) has NO `Big` result — its meaning under the curtailment
  machinery is a fixpoint iteration which the non-monotone operators (Choice; the longest-path rule) do not
  have in general.  That is the "stratified" side condition of the property; for such grammars the
  monotone theorems (Props/C01.lean, Props/C01C.lean) speak about the monotone part.
-/
import ParsleyVerif.Model.Run
namespace PV
open PV.Text

namespace Big

/-- the trees a Sequence-family parser emitted, merged in order with AppendNode -/
def foldEmit (acc : Res) (em : List Node) : Res := em.foldl (fun r x => appendNode r (.one x)) acc

/-- seq.go: `return nodes[len-1].Token() == "EOF"` — after a chain that ends with the End node nothing
    else is enumerated -/
def lastIsEOF (nodes : List Node) : Bool :=
  match nodes.getLast? with
  | some l => l.token == eofTok
  | none => false

/-- combinator.Single: a non-terminal with exactly one child is replaced by the child -/
def unwrapSingle : Res → Res
  | .one (.nt _ [c] _ _ _) => .one c
  | r => r

/-- text.RightTrim: a result that comes with an error is handed through; otherwise the end of every
    alternative is moved past the whitespace, and a whitespace error there replaces the result -/
def rtrimRes (f : File) (m : WsMode) (R : Res) (e : Bool) : Res × Bool :=
  if e then (R, true)
  else match (setRposRes f m R).2 with
    | some _ => (.nil, true)
    | none => ((setRposRes f m R).1, false)

end Big

open Big in
mutual
/-- `Big cfg g pos R e`: parser `g` at `pos` yields exactly `R` (ordered), with (`e = true`) or without an
    error next to it -/
inductive Big (cfg : Cfg) : G → Nat → Res → Bool → Prop
  /-- a terminal matches: its node -/
  | termOk {t pos n} : t.parse cfg.params cfg.file pos = .node n → Big cfg (.term t) pos (.one n) false
  /-- a terminal does not match: nothing, and an error -/
  | termFail {t pos} : (∀ n, t.parse cfg.params cfg.file pos ≠ .node n) → Big cfg (.term t) pos .nil true
  | empty {pos} : Big cfg .empty pos (.one (.empty pos)) false
  | eofOk {pos} : isEOF cfg.file pos = true → Big cfg .eof pos (.one (.eof pos)) false
  | eofFail {pos} : isEOF cfg.file pos = false → Big cfg .eof pos .nil true
  /-- a rule of the environment means what its body means -/
  | ref {k g pos R e} : cfg.env[k]? = some g → Big cfg g pos R e → Big cfg (.ref k) pos R e
  | refNone {k pos} : cfg.env[k]? = none → Big cfg (.ref k) pos .nil true
  /-- Memoize is transparent -/
  | memo {i g pos R e} : Big cfg g pos R e → Big cfg (.memo i g) pos R e
  /-- Any: the results of ALL alternatives, merged in order; an error only when there is no result -/
  | any {gs pos R e e'} : BigAny cfg gs pos .nil R e → e' = (R.isNil && e) → Big cfg (.any gs) pos R e'
  /-- Choice: the result of the FIRST alternative that has one -/
  | choice {gs pos R e} : BigChoice cfg gs pos R e → Big cfg (.choice gs) pos R e
  /-- Optional: the operand's results and then the empty match (the operand's error is handed through) -/
  | optional {g pos R e} : Big cfg g pos R e → Big cfg (.optional g) pos (appendNode R (.one (.empty pos))) e
  /-- Name: the operand's result — unless an error comes with it (D9), then nothing -/
  | name {g nm pos R e R' e'} : Big cfg g pos R e → e' = (e || R.isNil) → R' = (if e' then Res.nil else R) →
      Big cfg (.name g nm) pos R' e'
  /-- Single: the operand's result with a one-child non-terminal unwrapped — unless an error comes with it -/
  | single {g pos R e R'} : Big cfg g pos R e → R' = (if e then Res.nil else unwrapSingle R) →
      Big cfg (.single g) pos R' e
  /-- SuppressError: the operand's result, never an error -/
  | suppress {g pos R e} : Big cfg g pos R e → Big cfg (.suppress g) pos R false
  /-- LeftTrim, the whitespace before the operand is acceptable in mode `m`: the operand's result after it -/
  | ltrimOk {g m pos R e} : (skipWhitespaces cfg.file pos m).2 = none →
      Big cfg g (skipWhitespaces cfg.file pos m).1 R e → Big cfg (.ltrim g m) pos R e
  /-- LeftTrim, the whitespace is not acceptable: nothing, and the whitespace error.  (When the operand
      returns a result TOGETHER with an error the code compares error positions; the relation has no rule for
      that case.) -/
  | ltrimWs {g m pos R e w} : (skipWhitespaces cfg.file pos m).2 = some w →
      Big cfg g (skipWhitespaces cfg.file pos m).1 R e → (e = false ∨ R = .nil) → Big cfg (.ltrim g m) pos .nil true
  /-- RightTrim: the ends of the operand's alternatives moved past the whitespace -/
  | rtrim {g m pos R e R' e'} : Big cfg g pos R e → R' = (rtrimRes cfg.file m R e).1 →
      e' = (rtrimRes cfg.file m R e).2 → Big cfg (.rtrim g m) pos R' e'
  /-- the Sequence family: the chains that cannot be extended and whose length is accepted, each turned
      into a tree by the result handler, in enumeration order; an error only when there is no result -/
  | seqfam {g sh pos em stop e R e'} : g.shape = some sh → BigSeq cfg sh 0 [] pos em stop e →
      R = foldEmit .nil em → e' = (R.isNil && e) → Big cfg g pos R e'

/-- `BigAny cfg gs pos acc R e`: merging the results of the alternatives `gs` onto `acc`, in order, gives `R`;
    `e`: one of them returned an error -/
inductive BigAny (cfg : Cfg) : List G → Nat → Res → Res → Bool → Prop
  | nil {pos acc} : BigAny cfg [] pos acc acc false
  | cons {g gs pos acc R1 e1 R e2} : Big cfg g pos R1 e1 → BigAny cfg gs pos (appendNode acc R1) R e2 →
      BigAny cfg (g :: gs) pos acc R (e1 || e2)

/-- `BigChoice cfg gs pos R e`: `R` is the result of the first alternative of `gs` whose result is not nil
    (nil if there is none); `e`: nothing matched and some alternative returned an error -/
inductive BigChoice (cfg : Cfg) : List G → Nat → Res → Bool → Prop
  | nil {pos} : BigChoice cfg [] pos .nil false
  /-- first match: the alternatives after `g` are not consulted -/
  | hit {g gs pos R e} : Big cfg g pos R e → R.isNil = false → BigChoice cfg (g :: gs) pos R false
  | skip {g gs pos e1 R e2} : Big cfg g pos .nil e1 → BigChoice cfg gs pos R e2 →
      BigChoice cfg (g :: gs) pos R ((R.isNil && e1) || e2)

/-- `BigSeq cfg sh depth nodes pos em stop e`: the enumeration of a Sequence-family parser with shape `sh`
    that has matched `nodes` (element 0 … depth-1) and stands at `pos` emits the trees `em`, in this order;
    `stop`: a chain ending with the End node was emitted, which ends the whole enumeration;
    `e`: some element called on the way returned an error -/
inductive BigSeq (cfg : Cfg) : SeqShape → Nat → List Node → Nat → List Node → Bool → Bool → Prop
  /-- there is no element `depth`: the chain cannot be extended — it is emitted if its length is accepted -/
  | last {sh depth nodes pos} : sh.lookup depth = none →
      BigSeq cfg sh depth nodes pos (if sh.lenCheck depth then [handleResult sh pos nodes] else [])
        (sh.lenCheck depth && lastIsEOF nodes) false
  /-- element `depth` yields nothing here: the chain cannot be extended — longest path -/
  | fail {sh depth nodes pos g e} : sh.lookup depth = some g → Big cfg g pos .nil e →
      BigSeq cfg sh depth nodes pos (if sh.lenCheck depth then [handleResult sh pos nodes] else [])
        (sh.lenCheck depth && lastIsEOF nodes) e
  /-- element `depth` yields `R`: the chain is NOT emitted; it is extended by each alternative in turn -/
  | step {sh depth nodes pos g R e1 em stop e2} : sh.lookup depth = some g → Big cfg g pos R e1 →
      R.isNil = false → BigAlts cfg sh depth nodes R.alts em stop e2 →
      BigSeq cfg sh depth nodes pos em stop (e1 || e2)

/-- `BigAlts cfg sh depth nodes alts em stop e`: extending the chain `nodes` by each of `alts` in order
    (continuing with element `depth + 1` where the alternative ends) emits `em` -/
inductive BigAlts (cfg : Cfg) : SeqShape → Nat → List Node → List Node → List Node → Bool → Bool → Prop
  | nil {sh depth nodes} : BigAlts cfg sh depth nodes [] [] false false
  /-- the enumeration below `n` stopped everything: the remaining alternatives are not tried -/
  | stop {sh depth nodes n rest em e} : BigSeq cfg sh (depth + 1) (nodes ++ [n]) n.rpos em true e →
      BigAlts cfg sh depth nodes (n :: rest) em true e
  | next {sh depth nodes n rest em1 e1 em2 stop e2} : BigSeq cfg sh (depth + 1) (nodes ++ [n]) n.rpos em1 false e1 →
      BigAlts cfg sh depth nodes rest em2 stop e2 →
      BigAlts cfg sh depth nodes (n :: rest) (em1 ++ em2) stop (e1 || e2)
end

end PV
