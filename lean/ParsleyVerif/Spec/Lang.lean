/-
  The documented syntax of the built-in literals (property C08), as decidable membership predicates on
  byte lists, written as plain language definitions — byte classes, concatenation `cat` (some split of
  the input), union `||`, one-or-more `plus` — and NOT as scanners: nothing here walks the input
  greedily, backtracks, or knows about the order of alternatives.  `longestPrefix L l` is the length of
  the longest prefix of `l` that belongs to `L`.

  What the hand-written matchers of Model/Terminal.lean (the transcription of Go's leftmost-first
  regexp engine on the five expressions) have to do with these languages is proved in
  Proofs/Lang*.lean; `intValue` is the mathematical value of an integer literal.
-/
import ParsleyVerif.Model.Utf8
import ParsleyVerif.Model.Text
namespace PV.Lang
open PV.Text

/-! ### byte classes -/
/-- `[0-9]` -/
def digit (b : Nat) : Bool := 48 ≤ b && b ≤ 57
/-- `[1-9]` -/
def nzDigit (b : Nat) : Bool := 49 ≤ b && b ≤ 57
/-- `[0-7]` -/
def octDigit (b : Nat) : Bool := 48 ≤ b && b ≤ 55
/-- `[0-9a-fA-F]` -/
def hexDigit (b : Nat) : Bool := (48 ≤ b && b ≤ 57) || (97 ≤ b && b ≤ 102) || (65 ≤ b && b ≤ 70)
/-- `[-+]` -/
def sign (b : Nat) : Bool := b = 45 || b = 43

/-! ### language operations -/
/-- `p*` -/
def star (p : Nat → Bool) (l : Bytes) : Bool := l.all p
/-- `p+` -/
def plus1 (p : Nat → Bool) (l : Bytes) : Bool := !l.isEmpty && l.all p
/-- `A B`: some split of `l` has its left part in `A` and its right part in `B` -/
def cat (A B : Bytes → Bool) (l : Bytes) : Bool :=
  (List.range (l.length + 1)).any fun i => A (l.take i) && B (l.drop i)
/-- `A?` -/
def opt (A : Bytes → Bool) (l : Bytes) : Bool := l.isEmpty || A l
/-- `[-+]? A` -/
def optSign (A : Bytes → Bool) (l : Bytes) : Bool :=
  A l || (match l with | b :: r => sign b && A r | [] => false)
/-- `A+` for a language `A` of non-empty words: `l` is cut into one or more pieces, all in `A`
    (`n` bounds the number of pieces; `l.length` is enough) -/
def plus (A : Bytes → Bool) : Nat → Bytes → Bool
  | 0, _ => false
  | n + 1, l => A l || (List.range (l.length + 1)).any fun i => decide (0 < i) && A (l.take i) && plus A n (l.drop i)

/-- the length of the longest prefix of `l` in the language `L` -/
def longestPrefix (L : Bytes → Bool) (l : Bytes) : Option Nat :=
  (List.range (l.length + 1)).reverse.find? fun k => L (l.take k)

/-- ordered alternatives: the first answer that is a match wins (what leftmost-first does with `a|b|c` when
    nothing follows the alternation) -/
def firstSome : List (Option Nat) → Option Nat
  | [] => none
  | some a :: _ => some a
  | none :: r => firstSome r

/-! ### integer: `[-+]?(?:[1-9][0-9]*|0[xX][0-9a-fA-F]+|0[0-7]*)` -/
/-- `[1-9][0-9]*` -/
def decimalLit : Bytes → Bool
  | d :: r => nzDigit d && star digit r
  | [] => false
/-- `0[xX][0-9a-fA-F]+` -/
def hexLit : Bytes → Bool
  | 48 :: x :: r => (x = 120 || x = 88) && plus1 hexDigit r
  | _ => false
/-- `0[0-7]*` -/
def octalLit : Bytes → Bool
  | 48 :: r => star octDigit r
  | _ => false
def isIntBody (l : Bytes) : Bool := decimalLit l || hexLit l || octalLit l
def isInt : Bytes → Bool := optSign isIntBody
def IsInt (l : Bytes) : Prop := isInt l = true

/-! ### float: `[-+]?[0-9]*\.[0-9]+(?:[eE][-+]?[0-9]+)?` -/
/-- `[eE][-+]?[0-9]+` -/
def isExponent : Bytes → Bool
  | e :: r => (e = 101 || e = 69) && optSign (plus1 digit) r
  | [] => false
/-- `\.[0-9]+(?:[eE][-+]?[0-9]+)?` -/
def isFraction : Bytes → Bool
  | 46 :: r => cat (plus1 digit) (opt isExponent) r
  | _ => false
def isFloatBody : Bytes → Bool := cat (star digit) isFraction
def isFloat : Bytes → Bool := optSign isFloatBody
def IsFloat (l : Bytes) : Prop := isFloat l = true

/-! ### duration: `[-+]?(?:[0-9]+(?:\.[0-9]+)?(?:ns|us|µs|μs|ms|s|m|h))+` -/
/-- the unit names, in the order in which the expression lists them -/
def units : List Bytes :=
  [[110, 115], [117, 115], [0xC2, 0xB5, 115], [0xCE, 0xBC, 115], [109, 115], [115], [109], [104]]
def isUnit (l : Bytes) : Bool := units.contains l
/-- `\.[0-9]+` -/
def isDotDigits : Bytes → Bool
  | 46 :: r => plus1 digit r
  | _ => false
/-- `[0-9]+(?:\.[0-9]+)?(?:unit)` -/
def isDurItem : Bytes → Bool := cat (plus1 digit) (cat (opt isDotDigits) isUnit)
def isDurBody (l : Bytes) : Bool := plus isDurItem l.length l
def isDuration : Bytes → Bool := optSign isDurBody
def IsDuration (l : Bytes) : Prop := isDuration l = true

/-! ### char body: `\\[abfnrtv']|\\x[0-9a-fA-F]{2,2}|\\u[0-9a-fA-F]{4,4}|\\U[0-9a-fA-F]{8,8}|[^']` -/
/-- `\\[abfnrtv']` -/
def isSimpleEscape : Bytes → Bool
  | [92, e] => [97, 98, 102, 110, 114, 116, 118, 39].contains e
  | _ => false
/-- `\\<letter>[0-9a-fA-F]{n,n}` -/
def isHexEscape (letter n : Nat) : Bytes → Bool
  | 92 :: x :: r => x = letter && r.length = n && r.all hexDigit
  | _ => false
/-- `[^']` on bytes, as Go's regexp reads them: exactly one UTF-8 sequence (utf8.DecodeRune consumes all
    of `l`; an invalid byte is a sequence of width 1 decoded as U+FFFD, which the negated class contains)
    other than the quote -/
def isOneRuneNotQuote (l : Bytes) : Bool :=
  !l.isEmpty && (Utf8.decodeRune l).2 = l.length && l != [39]
def isCharBody (l : Bytes) : Bool :=
  isSimpleEscape l || isHexEscape 120 2 l || isHexEscape 117 4 l || isHexEscape 85 8 l || isOneRuneNotQuote l
def IsCharBody (l : Bytes) : Prop := isCharBody l = true

/-! ### back-quoted string body: ``[^`]+`` -/
def isBackquoteBody : Bytes → Bool := plus1 (fun b => b != 96)
def IsBackquoteBody (l : Bytes) : Prop := isBackquoteBody l = true

/-! ### the value of an integer literal -/
def digitValue (b : Nat) : Nat :=
  if 48 ≤ b ∧ b ≤ 57 then b - 48 else if 97 ≤ b ∧ b ≤ 102 then b - 97 + 10 else if 65 ≤ b ∧ b ≤ 70 then b - 65 + 10 else 0
/-- positional value, most significant digit first: Σ dᵢ · base^(n-1-i) -/
def digitsValue (base : Nat) : Bytes → Nat
  | [] => 0
  | b :: r => digitValue b * base ^ r.length + digitsValue base r
/-- unsigned literal: `0x`/`0X` prefix = base 16, other leading `0` = base 8, else base 10 -/
def magnitude (body : Bytes) : Nat :=
  if hexLit body then digitsValue 16 (body.drop 2)
  else if octalLit body then digitsValue 8 (body.drop 1)
  else digitsValue 10 body
def intValue : Bytes → Int
  | 45 :: r => -(magnitude r : Int)
  | 43 :: r => (magnitude r : Int)
  | l => (magnitude l : Int)

end PV.Lang
