/-
  What a grammar DERIVES (property C01): the declarative meaning of the combinators, written as an
  inductive relation `Derives cfg g pos x` — "parser `g` can produce tree `x` at position `pos`" —
  independently of caches, left-recursion contexts, curtailment, fuel and evaluation order.
  This is the monotone reading (trims included since the extension for C05/C16): `Choice` may take any alternative and the repetition operators may stop
  anywhere their `lenCheck` allows (the first-match / longest-path restrictions only remove derivations).
  The tree of a Sequence-family parser is built by the library's own result handler.
-/
import ParsleyVerif.Model.Run
namespace PV
open PV.Text

mutual
/-- a predicate holds at every sub-parser of `g` -/
def G.All (P : G → Prop) : G → Prop
  | .term t => P (.term t)
  | .empty => P .empty
  | .eof => P .eof
  | .ref k => P (.ref k)
  | .memo i g => P (.memo i g) ∧ g.All P
  | .any gs => P (.any gs) ∧ AllList P gs
  | .choice gs => P (.choice gs) ∧ AllList P gs
  | .seq k gs o => P (.seq k gs o) ∧ AllList P gs
  | .many g ae o => P (.many g ae o) ∧ g.All P
  | .sepBy v s ae o => P (.sepBy v s ae o) ∧ v.All P ∧ s.All P
  | .optional g => P (.optional g) ∧ g.All P
  | .name g nm => P (.name g nm) ∧ g.All P
  | .ltrim g m => P (.ltrim g m) ∧ g.All P
  | .rtrim g m => P (.rtrim g m) ∧ g.All P
  | .single g => P (.single g) ∧ g.All P
  | .suppress g => P (.suppress g) ∧ g.All P
def AllList (P : G → Prop) : List G → Prop
  | [] => True
  | g :: gs => g.All P ∧ AllList P gs
end

theorem AllList_mem {P : G → Prop} : ∀ {gs : List G}, AllList P gs → ∀ g ∈ gs, g.All P
  | [], _, g, hg => by cases hg
  | g' :: gs, h, g, hg => by
    simp only [AllList] at h
    cases hg with
    | head => exact h.1
    | tail _ hm => exact AllList_mem h.2 g hm

theorem G.All_self {P : G → Prop} {g : G} (h : g.All P) : P g := by
  cases g <;> simp only [G.All] at h <;> first | exact h | exact h.1

theorem shape_lookup_all {P : G → Prop} {g : G} {sh : SeqShape} (hg : g.All P)
    (hs : g.shape = some sh) (i : Nat) (g' : G) (hl : sh.lookup i = some g') : g'.All P := by
  cases g with
  | seq k gs o =>
    simp only [G.shape, Option.some.injEq] at hs
    subst hs
    simp only at hl
    simp only [G.All] at hg
    exact AllList_mem hg.2 g' (List.mem_of_getElem? hl)
  | many g1 ae o =>
    simp only [G.shape, Option.some.injEq] at hs
    subst hs
    simp only [Option.some.injEq] at hl
    subst hl
    simp only [G.All] at hg
    exact hg.2
  | sepBy v s ae o =>
    simp only [G.shape, Option.some.injEq] at hs
    subst hs
    simp only [G.All] at hg
    simp only at hl
    split at hl
    · cases hl; exact hg.2.1
    · cases hl; exact hg.2.2
  | _ => simp [G.shape] at hs

/-- the local condition under which the derivation relation speaks about a parser: every `Memoize`
    index wraps one fixed parser (each `Memoize` call draws a fresh index) -/
def LocalOK (bodyOf : Nat → G) : G → Prop
  | .memo i g => g = bodyOf i
  | _ => True

mutual
inductive Derives (cfg : Cfg) : G → Nat → Node → Prop
  | term {t pos n} : t.parse cfg.params cfg.file pos = .node n → Derives cfg (.term t) pos n
  | empty {pos} : Derives cfg .empty pos (.empty pos)
  | eof {pos} : isEOF cfg.file pos = true → Derives cfg .eof pos (.eof pos)
  | ref {k g pos x} : cfg.env[k]? = some g → Derives cfg g pos x → Derives cfg (.ref k) pos x
  | memo {i g pos x} : Derives cfg g pos x → Derives cfg (.memo i g) pos x
  | any {gs g pos x} : g ∈ gs → Derives cfg g pos x → Derives cfg (.any gs) pos x
  | choice {gs g pos x} : g ∈ gs → Derives cfg g pos x → Derives cfg (.choice gs) pos x
  | optSome {g pos x} : Derives cfg g pos x → Derives cfg (.optional g) pos x
  | optNone {g pos} : Derives cfg (.optional g) pos (.empty pos)
  | name {g nm pos x} : Derives cfg g pos x → Derives cfg (.name g nm) pos x
  | suppress {g pos x} : Derives cfg g pos x → Derives cfg (.suppress g) pos x
  | singleUnwrap {g pos tk c p r i} : Derives cfg g pos (.nt tk [c] p r i) → Derives cfg (.single g) pos c
  | singleKeep {g pos x} : Derives cfg g pos x → Derives cfg (.single g) pos x
  /-- LeftTrim: the operand runs after the whitespace (whether the run satisfies the mode is not part of
      this monotone reading; C10 is about that) -/
  | ltrim {g m pos x} : Derives cfg g (skipWhitespaces cfg.file pos m).1 x → Derives cfg (.ltrim g m) pos x
  /-- RightTrim: the operand's tree with its end moved past the whitespace -/
  | rtrimMove {g m pos x} : Derives cfg g pos x → Derives cfg (.rtrim g m) pos (setRposNode cfg.file m x none).1
  /-- RightTrim hands a result that comes together with an error through unchanged -/
  | rtrimKeep {g m pos x} : Derives cfg g pos x → Derives cfg (.rtrim g m) pos x
  | seqfam {g sh pos nodes} : g.shape = some sh → DerivesSeq cfg sh 0 pos nodes →
      sh.lenCheck nodes.length = true → Derives cfg g pos (handleResult sh pos nodes)
/-- elements `d, d+1, …` of a Sequence-family parser derive `nodes` one after the other from `pos` -/
inductive DerivesSeq (cfg : Cfg) : SeqShape → Nat → Nat → List Node → Prop
  | nil {sh d pos} : DerivesSeq cfg sh d pos []
  | cons {sh d pos g n rest} : sh.lookup d = some g → Derives cfg g pos n →
      DerivesSeq cfg sh (d + 1) n.rpos rest → DerivesSeq cfg sh d pos (n :: rest)
end

/-- where a chain of nodes that started at `p` ends -/
def endOf (p : Nat) (nodes : List Node) : Nat := ((nodes.getLast?).map Node.rpos).getD p

theorem endOf_nil (p : Nat) : endOf p [] = p := rfl
theorem endOf_snoc (p : Nat) (nodes : List Node) (n : Node) : endOf p (nodes ++ [n]) = n.rpos := by
  simp [endOf]
theorem endOf_cons (p : Nat) (n : Node) (rest : List Node) : endOf p (n :: rest) = endOf n.rpos rest := by
  cases rest with
  | nil => simp [endOf]
  | cons m r =>
    simp only [endOf]
    rw [List.getLast?_cons_cons, List.getLast?_cons]
    simp

theorem DerivesSeq.snoc {cfg : Cfg} {sh : SeqShape} {g : G} {n : Node} :
    ∀ {nodes : List Node} {d p : Nat}, DerivesSeq cfg sh d p nodes →
      sh.lookup (d + nodes.length) = some g → Derives cfg g (endOf p nodes) n →
      DerivesSeq cfg sh d p (nodes ++ [n])
  | [], d, p, _, hl, hd => by
    simp only [List.length_nil, Nat.add_zero] at hl
    exact .cons hl (by simpa [endOf] using hd) .nil
  | m :: rest, d, p, h, hl, hd => by
    cases h with
    | cons hl' hm hrest =>
      refine .cons hl' hm (DerivesSeq.snoc (g := g) hrest ?_ ?_)
      · simpa [Nat.add_assoc, Nat.add_comm 1] using hl
      · rw [endOf_cons] at hd; exact hd

end PV
