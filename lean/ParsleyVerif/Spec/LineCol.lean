/-
  Specification for property C11, written independently of the model's line table, binary searches
  and recursive CRLF replacement.

  * `lineCol data off` — the 1-based line and byte column of offset `off` in `data`: count the line
    feeds in the first `off` bytes; the column is the number of bytes after the last of them, plus one.
    No recursion over a table: `List.take`, `List.count`, `List.takeWhile` only.
  * `dropCRbeforeLF raw` — CRLF normalisation by index: byte `i` of `raw` is deleted exactly when it is
    a CR whose next byte is an LF; every other byte (a lone CR included) is kept, in order.
-/
import ParsleyVerif.Model.Text
namespace PV.Text

/-! ### line and column -/

/-- number of bytes after the last line feed of `d` (all of `d` when there is none) -/
def tailRun (d : Bytes) : Nat := (d.reverse.takeWhile (· ≠ 10)).length

/-- index just after the last line feed before `off`, or 0 -/
def lineStart (data : Bytes) (off : Nat) : Nat := (data.take off).length - tailRun (data.take off)

/-- 1-based (line, column) of byte offset `off` -/
def lineCol (data : Bytes) (off : Nat) : Nat × Nat :=
  (1 + (data.take off).count 10, off - lineStart data off + 1)

theorem tailRun_le (d : Bytes) : tailRun d ≤ d.length := by
  unfold tailRun
  have := (List.takeWhile_sublist (l := d.reverse) (fun x => decide (x ≠ 10))).length_le
  simpa using this

theorem tailRun_append_lf (d : Bytes) : tailRun (d ++ [10]) = 0 := by
  simp [tailRun]

theorem tailRun_append_other (d : Bytes) (b : Nat) (hb : b ≠ 10) : tailRun (d ++ [b]) = tailRun d + 1 := by
  simp [tailRun, hb]

theorem tailRun_nil : tailRun [] = 0 := rfl

theorem lineStart_le (data : Bytes) (off : Nat) : lineStart data off ≤ off := by
  unfold lineStart
  have := tailRun_le (data.take off)
  have : (data.take off).length ≤ off := by simp; omega
  omega

/-! Sanity of the specification itself: it is the unique function that starts at (1, 1), moves one
    column right on every byte other than LF (CR included), and to column 1 of the next line on LF. -/

theorem lineCol_zero (data : Bytes) : lineCol data 0 = (1, 1) := by
  simp [lineCol, lineStart, tailRun]

theorem take_succ_of_lt (data : Bytes) (off : Nat) (h : off < data.length) :
    data.take (off + 1) = data.take off ++ [data[off]] := by
  rw [List.take_add_one, List.getElem?_eq_getElem h]; rfl

theorem lineCol_succ (data : Bytes) (off : Nat) (h : off < data.length) :
    lineCol data (off + 1) =
      if data[off] = 10 then ((lineCol data off).1 + 1, 1)
      else ((lineCol data off).1, (lineCol data off).2 + 1) := by
  have hlen : (data.take off).length = off := by simp; omega
  have hle := tailRun_le (data.take off)
  unfold lineCol lineStart
  rw [take_succ_of_lt data off h]
  by_cases hb : data[off] = 10
  · rw [if_pos hb, hb, tailRun_append_lf]
    simp only [List.count_append, List.length_append, List.length_cons, List.length_nil, hlen]
    simp
    omega
  · rw [if_neg hb, tailRun_append_other _ _ hb]
    simp only [List.count_append, List.length_append, List.length_cons, List.length_nil, hlen]
    have : List.count 10 [data[off]] = 0 := by
      simp [List.count_cons, List.count_nil]; exact hb
    rw [this]
    simp
    omega

/-- the line start really is one: it is 0 or sits just after a line feed, and no line feed lies between
    it and `off` -/
theorem lineStart_spec (data : Bytes) (off : Nat) (h : off ≤ data.length) :
    (lineStart data off = 0 ∨ data[lineStart data off - 1]? = some 10) ∧
    (∀ k, lineStart data off ≤ k → k < off → data[k]? ≠ some 10) := by
  induction off with
  | zero => simp [lineStart, tailRun]
  | succ off ih =>
    have hlt : off < data.length := by omega
    obtain ⟨ih1, ih2⟩ := ih (by omega)
    have hlen : (data.take off).length = off := by simp; omega
    have hle := tailRun_le (data.take off)
    have hs : lineStart data (off + 1) = if data[off] = 10 then off + 1 else lineStart data off := by
      unfold lineStart
      rw [take_succ_of_lt data off hlt]
      by_cases hb : data[off] = 10
      · rw [if_pos hb, hb, tailRun_append_lf]; simp; omega
      · rw [if_neg hb, tailRun_append_other _ _ hb]; simp; omega
    rw [hs]
    by_cases hb : data[off] = 10
    · simp only [if_pos hb]
      refine ⟨Or.inr ?_, ?_⟩
      · simp [List.getElem?_eq_getElem hlt, hb]
      · intro k h1 h2; omega
    · simp only [if_neg hb]
      refine ⟨ih1, ?_⟩
      intro k h1 h2
      by_cases hk : k = off
      · subst hk; rw [List.getElem?_eq_getElem hlt]; simpa using hb
      · exact ih2 k h1 (by omega)

/-! ### CRLF normalisation -/

/-- byte `i` of `raw` is a CR immediately followed by an LF -/
def isCRofCRLF (raw : Bytes) (i : Nat) : Bool := raw[i]? == some 13 && raw[i + 1]? == some 10

/-- delete exactly the CRs that are immediately followed by an LF; keep everything else in order -/
def dropCRbeforeLF (raw : Bytes) : Bytes :=
  (List.range raw.length).filterMap (fun i => if isCRofCRLF raw i then none else raw[i]?)

end PV.Text
