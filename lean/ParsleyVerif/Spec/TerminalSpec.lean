/-
  Specification of the literal parsers (property C08), written over `rest f pos`, the bytes from the
  position to the end of the file: no cursor arithmetic, no reader primitive, no guard of reader.go.
  `Terminal.spec P l pos t` is what terminal `t` must answer at position `pos` when `l` are the
  remaining bytes.  The regular-expression matchers (`integerMatch` …) still occur here; that they
  compute the longest literal of the documented syntax is `Spec/Lang.lean` + `Proofs/Lang*.lean`.
-/
import ParsleyVerif.Model.Terminal
import ParsleyVerif.Spec.ReaderSpec
namespace PV
open PV.Text

/-- construction parameters in their documented domain -/
def Terminal.WF : Terminal → Prop
  | .rune _ _ => True
  | .op s _ => s ≠ []
  | .word w _ _ => w ≠ [] ∧ ∀ b ∈ w, b < 0x80
  | .bool t f => (t ≠ [] ∧ ∀ b ∈ t, b < 0x80) ∧ (f ≠ [] ∧ ∀ b ∈ f, b < 0x80)
  | .nil s => s ≠ [] ∧ ∀ b ∈ s, b < 0x80
  | _ => True

instance : DecidablePred Terminal.WF := fun t => by
  cases t <;> unfold Terminal.WF <;> infer_instance

/-- the contract of the regexp engine for a user expression: the match length it reports lies inside the
    bytes it was given.  `m = 0` is allowed.  reader.go's getPattern panics (once, when the expression is
    first used) if the expression matches the EMPTY INPUT — that check is a precondition on the expression
    and is not part of this model (`P.regexp id` stands for an expression that passed it) — but it does not
    exclude an empty match on a non-empty rest (`\b` on "a" matches with length 0: checked on the real
    code); ReadRegexp then returns an empty non-nil slice and terminal.Regexp builds a node of width 0. -/
def Params.LenOk (P : Params) : Terminal → Prop
  | .regexp id _ _ _ => ∀ r m g, P.regexp id r = some (m, g) → m ≤ r.length
  | _ => True

/-- the documented precondition of `terminal.Regexp` with a group index: the group exists -/
def Params.GroupOk (P : Params) : Terminal → Prop
  | .regexp id _ _ true => ∀ r m g, P.regexp id r = some (m, g) → g.isSome
  | _ => True

/-- width of rune `ch` at the head of `l`, as `ReadRune` decides it -/
def runeW (ch : Nat) (l : Bytes) : Option Nat :=
  if ch < 0x80 then (if l.head? = some ch then some 1 else none)
  else if l ≠ [] ∧ (Utf8.decodeRune l).1 = ch then some (Utf8.decodeRune l).2 else none

/-- `w` at the head of `l`, followed by a non-word byte or the end of input -/
def wordAt (w l : Bytes) : Bool :=
  decide (w <+: l) && (l.drop w.length).head?.all (fun d => !isWordByte d)

def integerSpec (l : Bytes) (pos : Nat) : TermOut :=
  match integerMatch l with
  | none => nf pos (tokOf "integer value")
  | some k =>
    if (l.drop k).head? = some 46 then nf pos (tokOf "integer value")
    else match parseInt0 (l.take k) with
      | none => other pos "invalid integer value"
      | some v => .node (.term (tokOf "INTEGER") (.int v) pos (pos + k))

def floatSpec (P : Params) (l : Bytes) (pos : Nat) : TermOut :=
  match floatMatch l with
  | none => nf pos (tokOf "float value")
  | some k =>
    if P.floatOk (l.take k) then .node (.term (tokOf "FLOAT") (.float (l.take k)) pos (pos + k))
    else other pos "invalid float value"

def durationSpec (P : Params) (l : Bytes) (pos : Nat) : TermOut :=
  match durationMatch l with
  | none => nf pos (tokOf "time duration")
  | some k =>
    match P.durErr (l.take k) with
    | none => .node (.term (tokOf "TIME_DURATION") (.dur (l.take k)) pos (pos + k))
    | some msg => .err ⟨pos, .other msg⟩

def charSpec (l : Bytes) (pos : Nat) : TermOut :=
  match l with
  | 39 :: r =>
    match charMatch r with
    | none => other (pos + 1) "was expecting one character"
    | some k =>
      if (r.drop k).head? = some 39 then
        match unquoteChar (r.take k) 39 with
        | some (v, []) => .node (.term (tokOf "CHAR") (.rune v) pos (pos + 1 + k + 1))
        | _ => other (pos + 1 + k + 1) "invalid character value"
      else other (pos + 1 + k) "was expecting \"'\""
  | _ => nf pos (tokOf "char literal")

/-- after the opening quote `q`, `r` are the remaining bytes; `body r = (value, bytes consumed)` -/
def quotedSpec (q : Nat) (body : Bytes → Option Bytes × Nat) (r : Bytes) (pos : Nat) : TermOut :=
  if r.head? = some q then .node (.term (tokOf "STRING") (.str []) pos (pos + 2))
  else
    let (v, n) := if r = [] then (none, 0) else body r
    if (r.drop n).head? = some q then .node (.term (tokOf "STRING") (.str (v.getD [])) pos (pos + 1 + n + 1))
    else .err ⟨pos + 1 + n, .other (tokOf "was expecting '" ++ [q] ++ tokOf "'")⟩

def backquoteBody (r : Bytes) : Option Bytes × Nat :=
  match backquoteMatch r with
  | none => (none, 0)
  | some n => (some (r.take n), n)

def stringSpec (bq : Bool) (l : Bytes) (pos : Nat) : TermOut :=
  match l with
  | 34 :: r => quotedSpec 34 unquoteString r pos
  | 96 :: r => if bq then quotedSpec 96 backquoteBody r pos else nf pos (tokOf "string literal")
  | _ => nf pos (tokOf "string literal")

def regexpSpec (P : Params) (id : Nat) (tok name : Bytes) (hasGroup : Bool) (l : Bytes) (pos : Nat) : TermOut :=
  if l = [] then nf pos name else
  match P.regexp id l with
  | none => nf pos name
  | some (m, g) =>
    if hasGroup then
      match g with
      | some g => .node (.term tok (.str g) pos (pos + m))
      | none => .panic "Capturing group is invalid"
    else .node (.term tok (.str (l.take m)) pos (pos + m))

/-- what terminal `t` answers at `pos` when `l` are the bytes from `pos` to the end of the file -/
def Terminal.spec (P : Params) (l : Bytes) (pos : Nat) : Terminal → TermOut
  | .rune ch name =>
    match runeW ch l with
    | some w => .node (.term (Utf8.encodeRune ch) (.rune ch) pos (pos + w))
    | none => nf pos name
  | .op s name =>
    if s <+: l then .node (.term s (.str s) pos (pos + s.length)) else nf pos name
  | .word w valId name =>
    if wordAt w l then .node (.term (upperAscii w) (.opaque valId) pos (pos + w.length)) else nf pos name
  | .bool ts fs =>
    if wordAt ts l then .node (.term (tokOf "BOOL") (.bool true) pos (pos + ts.length))
    else if wordAt fs l then .node (.term (tokOf "BOOL") (.bool false) pos (pos + fs.length))
    else nf pos (tokOf "boolean")
  | .nil s =>
    if wordAt s l then .node (.term (tokOf "NIL") .nil pos (pos + s.length)) else nf pos s
  | .integer => integerSpec l pos
  | .float => floatSpec P l pos
  | .duration => durationSpec P l pos
  | .char => charSpec l pos
  | .string bq => stringSpec bq l pos
  | .regexp id tok name hasGroup => regexpSpec P id tok name hasGroup l pos

end PV
