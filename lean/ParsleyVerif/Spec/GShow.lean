/-
  A canonical, injective-by-construction printer for grammar terms (`G.show`), used by the driver command
  `gclosed` to check that the closed terms `Garith` / `Gjson` about which C05 / C16 are proved are the
  terms the driver builds from the harness's S-expressions (the same S-expressions the harness builds the
  real parsers from).  Core only (the driver imports this file).
-/
import ParsleyVerif.Model.Run
namespace PV
open PV.Text

def showNats (l : List Nat) : String := "[" ++ ",".intercalate (l.map toString) ++ "]"

def showOptBytes : Option Bytes → String
  | none => "-"
  | some b => showNats b

def Interp.show : Interp → String
  | .none => "none"
  | .select i => s!"(select {i})"
  | .array => "array"
  | .object => "object"
  | .nilI => "nil"
  | .custom i => s!"(custom {i})"

def showWsMode : WsMode → String
  | .none => "none"
  | .spaces => "spaces"
  | .spacesNl => "nl"
  | .forceNl => "force"

def SeqKind.show : SeqKind → String
  | .seqOf => "of"
  | .seqTry => "try"
  | .seqFirstOrAll => "foa"

def SeqOpts.show (o : SeqOpts) : String :=
  s!"(o {o.interp.show} {showOptBytes o.name} {if o.single then 1 else 0} {showOptBytes o.token})"

def Terminal.show : Terminal → String
  | .rune c nm => s!"(rune {c} {showNats nm})"
  | .op s nm => s!"(op {showNats s} {showNats nm})"
  | .word w v nm => s!"(word {showNats w} {v} {showNats nm})"
  | .bool t f => s!"(bool {showNats t} {showNats f})"
  | .nil s => s!"(nilw {showNats s})"
  | .integer => "(int)"
  | .float => "(float)"
  | .string bq => s!"(string {if bq then 1 else 0})"
  | .char => "(char)"
  | .duration => "(dur)"
  | .regexp i tk nm g => s!"(regexp {i} {showNats tk} {showNats nm} {if g then 1 else 0})"

mutual
def G.show : G → String
  | .term t => t.show
  | .empty => "(empty)"
  | .eof => "(eof)"
  | .ref k => s!"(ref {k})"
  | .memo i g => s!"(memo {i} " ++ g.show ++ ")"
  | .any gs => "(any" ++ showGs gs ++ ")"
  | .choice gs => "(choice" ++ showGs gs ++ ")"
  | .seq k gs o => s!"(seq {k.show} {o.show}" ++ showGs gs ++ ")"
  | .many g ae o => s!"(many {if ae then 1 else 0} {o.show} " ++ g.show ++ ")"
  | .sepBy v s ae o => s!"(sepby {if ae then 1 else 0} {o.show} " ++ v.show ++ " " ++ s.show ++ ")"
  | .optional g => "(opt " ++ g.show ++ ")"
  | .name g nm => s!"(name {showNats nm} " ++ g.show ++ ")"
  | .ltrim g m => s!"(ltrim {showWsMode m} " ++ g.show ++ ")"
  | .rtrim g m => s!"(rtrim {showWsMode m} " ++ g.show ++ ")"
  | .single g => "(single " ++ g.show ++ ")"
  | .suppress g => "(suppress " ++ g.show ++ ")"
def showGs : List G → String
  | [] => ""
  | g :: gs => " " ++ g.show ++ showGs gs
end

/-- a whole grammar: the environment and the root -/
def showGrammar (env : List G) (root : G) : String := "(env" ++ showGs env ++ ") (root " ++ root.show ++ ")"

end PV
