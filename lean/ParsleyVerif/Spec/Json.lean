/-
  C16 — the example JSON parser (/repo/examples/json/json/parser.go) as a closed term, and its reference
  semantics.

  * `Gjson.env`, `Gjson.root`: the grammar the harness transcribes (`jsonGrammar()` in
    /verif/harness/cmd/corr/eval.go; on the Go side the REAL `json.NewParser()` runs under
    `Sentence(Trim(…))`) — the driver command `gclosed` (Driver/Closed.lean, harness stream C16G) checks on every
    run that the S-expressions the harness sends denote exactly these terms.
  * `JVal`, `jvalOf`, `denote`: the JSON value a tree denotes and the evaluator value it stands for;
    `IsJsonTree`: the trees of the `value` rule.

  Core only (the driver imports this file).
-/
import ParsleyVerif.Model.Eval
namespace PV
open PV.Text

namespace Gjson

/-- terminal.Rune(c) for an ASCII `c`; the name is strconv.Quote(string(c)) -/
def rn (c : Nat) : G := .term (.rune c [34, c, 34])
def sel1 : SeqOpts := { interp := .select 1 }
def value : G := .ref 0
/-- `,` after spaces / tabs -/
def comma : G := .ltrim (rn 44) .spaces
def elems : G := .sepBy (.ltrim value .spacesNl) comma true { interp := .array }
/-- `[` value (`,` value)* `]` -/
def array : G := .seq .seqOf [rn 91, elems, .ltrim (rn 93) .spacesNl] sel1
/-- string `:` value (no interpreter: Object reads children 0 and 2) -/
def keyValue : G := .seq .seqOf [.term (.string false), .ltrim (rn 58) .spaces, .ltrim value .spacesNl] {}
def members : G := .sepBy (.ltrim keyValue .spacesNl) comma true { interp := .object }
/-- `{` keyValue (`,` keyValue)* `}` -/
def object : G := .seq .seqOf [rn 123, members, .ltrim (rn 125) .spacesNl] sel1
def alts : List G :=
  [.term (.string false), .term .float, .term .integer, array, object,
   .term (.bool [116, 114, 117, 101] [102, 97, 108, 115, 101]), .term (.nil [110, 117, 108, 108])]
/-- value := Choice(string, float, integer, array, object, bool, null).Name("value") -/
def valueRule : G := .name (.choice alts) [118, 97, 108, 117, 101]

def env : List G := [valueRule]
/-- Sentence(Trim(value)) -/
def root : G := G.sentence (.rtrim (.ltrim (.ref 0) .spacesNl) .spacesNl)

end Gjson

end PV
